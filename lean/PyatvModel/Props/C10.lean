import PyatvModel.C10.Lemmas
/-
C10 — listeners are notified only on change, in order, from the active protocol.

All theorems quantify over EVERY registered set and EVERY event list (any length, any
interleaving of post / start / stop / takeover / release / dispatch / drain), from the
facade's initial state `init regP regK`.  History-level vocabulary (no model state):

  `lastPost p h`     the state updater `p` posted last in history `h`
  `startedAfter h`   the last of start()/stop() in `h` was start()
  `effPosts reg [] evs`  the posts of `evs` made while started, by a registered updater,
                     that differ from that updater's previous post
  `drained evs`      `evs` with the loop draining after every event (the property's
                     granularity)

* `delivered_sublist_effective`  play notifications ⊑ effective posts (sublist: order kept,
                                nothing invented, nothing delivered twice) — implies
                                `delivered_sublist_posted`;
* `no_dup`                      a post equal to that updater's previous post changes nothing:
                                the history without it delivers exactly the same;
* `only_main`                   a play notification from `p` is delivered only while `p` is
                                the PushUpdater relayer's main protocol (`mainOf`: takeover
                                holder if it has an updater, else highest priority);
* `silent_after_stop`           loop drained, then stop(): no play notification until the
                                next start(), whatever else happens (drains anywhere);
  `silent_after_stop_drained`   the same at the property's granularity;
  `stop_undrained_delivers`     the hypothesis is needed: a post still in the ready queue
                                when stop() is called IS delivered (finer granularity than
                                the property's histories; replayed on the real code);
* `chg_chain`                   volume / output-device / focus notifications (old,new) form a
                                chain from the initial value to the facade's current value,
                                every link a real change (`chain_spec` spells it out);
* `chg_new_sublist`             the `new` values are, in order, values that were dispatched
                                (and, for focus, dispatched by the Keyboard main protocol:
                                `focus_only_main`).
-/
namespace PyatvModel.Props.C10
open PyatvModel.C10

/-! ## history-level vocabulary -/

def lastPost (p : Proto) (h : List Ev) : Option Val :=
  h.foldl (fun o e => match e with | .post q s => if q = p then some s else o | _ => o) none

def startedAfter (h : List Ev) : Bool :=
  h.foldl (fun b e => match e with | .start => true | .stop => false | _ => b) false

/-- posts of `es` (which follows history `pre`) that the property allows to be delivered -/
def effPosts (reg : List Proto) (pre : List Ev) : List Ev → List (Proto × Val)
  | [] => []
  | e :: es =>
    (match e with
     | .post p s =>
        if startedAfter pre = true ∧ lastPost p pre ≠ some s ∧ p ∈ reg then [(p, s)] else []
     | _ => []) ++ effPosts reg (pre ++ [e]) es

/-- `(old,new)` pairs linking `a` to `c`, every link a change -/
inductive Chain : Val → List (Val × Val) → Val → Prop
  | nil (a : Val) : Chain a [] a
  | cons {a b c : Val} {l : List (Val × Val)} : a ≠ b → Chain b l c → Chain a ((a, b) :: l) c

/-- values accepted by the listener's message filter (state before the event decides) -/
def accepted (k : Kind) : List (St × Ev × List Out) → List Val
  | [] => []
  | (st, .change k' p v, _) :: xs =>
      if k' = k ∧ st.accepts k p = true then v :: accepted k xs else accepted k xs
  | _ :: xs => accepted k xs

section Lemmas

theorem lastPost_snoc (p : Proto) (h : List Ev) (e : Ev) :
    lastPost p (h ++ [e]) = match e with
      | .post q s => if q = p then some s else lastPost p h
      | _ => lastPost p h := by
  simp only [lastPost, List.foldl_append, List.foldl_cons, List.foldl_nil]

theorem startedAfter_snoc (h : List Ev) (e : Ev) :
    startedAfter (h ++ [e]) = match e with
      | .start => true | .stop => false | _ => startedAfter h := by
  simp only [startedAfter, List.foldl_append, List.foldl_cons, List.foldl_nil]

/-- the model state agrees with the history-level vocabulary -/
def Agrees (st : St) (h : List Ev) : Prop :=
  (∀ p, st.prev p = lastPost p h) ∧ st.lst = startedAfter h

theorem agrees_init (regP regK : List Proto) : Agrees (init regP regK) [] :=
  ⟨fun _ => rfl, rfl⟩

theorem agrees_step (st : St) (h : List Ev) (e : Ev) (ha : Agrees st h) :
    Agrees (step st e).1 (h ++ [e]) := by
  obtain ⟨hp, hl⟩ := ha
  cases e with
  | post q s =>
    refine ⟨fun p => ?_, ?_⟩
    · rw [lastPost_snoc]
      simp only [step, setFn]
      by_cases hq : p = q
      · subst hq; simp
      · have : ¬ q = p := fun h => hq h.symm
        simp [hq, this, hp p]
    · rw [startedAfter_snoc]; simpa [step] using hl
  | start => exact ⟨fun p => by rw [lastPost_snoc]; simpa [step] using hp p, by rw [startedAfter_snoc]; simp [step]⟩
  | stop => exact ⟨fun p => by rw [lastPost_snoc]; simpa [step] using hp p, by rw [startedAfter_snoc]; simp [step]⟩
  | takeover q a b =>
    refine ⟨fun p => ?_, ?_⟩
    · rw [lastPost_snoc]; simp only [step]; split <;> simpa using hp p
    · rw [startedAfter_snoc]; simp only [step]; split <;> simpa using hl
  | release =>
    refine ⟨fun p => ?_, ?_⟩
    · rw [lastPost_snoc]; simp only [step]; split <;> simpa using hp p
    · rw [startedAfter_snoc]; simp only [step]; split <;> simpa using hl
  | change k q v =>
    exact ⟨fun p => by rw [lastPost_snoc]; simpa [step] using hp p, by rw [startedAfter_snoc]; simpa [step] using hl⟩
  | drain =>
    have hf := drainQ_frame { st with queue := [] } st.queue
    refine ⟨fun p => ?_, ?_⟩
    · rw [lastPost_snoc]
      have : (step st .drain).1.prev = st.prev := hf.2.2.2.2.2.2.1
      simpa [this] using hp p
    · rw [startedAfter_snoc]
      have : (step st .drain).1.lst = st.lst := hf.2.2.2.2.2.1
      simpa [this] using hl

theorem agrees_run (st : St) (h es : List Ev) (ha : Agrees st h) : Agrees (run st es).1 (h ++ es) := by
  induction es generalizing st h with
  | nil => simpa [run] using ha
  | cons e es ih =>
    have := ih (step st e).1 (h ++ [e]) (agrees_step st h e ha)
    simpa [run, List.append_assoc] using this

/-- generalised over the start state: what is still queued may also be delivered -/
theorem delivered_sublist_gen (es : List Ev) : ∀ (st : St) (h : List Ev), Agrees st h →
    (plays (run st es).2).Sublist (playsQ st.queue ++ effPosts st.regP h es) := by
  induction es with
  | nil => intro st h _; simp [run, plays]
  | cons e es ih =>
    intro st h ha
    have ih' := ih (step st e).1 (h ++ [e]) (agrees_step st h e ha)
    rw [(step_reg st e).1] at ih'
    simp only [run, plays_append, effPosts]
    cases e with
    | drain =>
      have hq : (step st .drain).1.queue = [] := step_drain_queue st
      rw [hq] at ih'
      have hd : (plays (step st .drain).2).Sublist (playsQ st.queue) := by
        simpa [step] using drainQ_plays_sublist { st with queue := [] } st.queue
      simpa [playsQ] using hd.append ih'
    | post p s =>
      have ho : (step st (.post p s)).2 = [] := rfl
      rw [ho]
      simp only [plays, List.nil_append]
      refine ih'.trans ?_
      have hcond : st.postsThrough p s = true ↔
          (startedAfter h = true ∧ lastPost p h ≠ some s ∧ p ∈ st.regP) := by
        simp only [St.postsThrough, Bool.and_eq_true, decide_eq_true_eq, ← ha.1 p, ← ha.2]
        constructor
        · rintro ⟨⟨a, b⟩, c⟩; exact ⟨b, a, c⟩
        · rintro ⟨b, a, c⟩; exact ⟨⟨a, b⟩, c⟩
      by_cases hc : st.postsThrough p s = true
      · have hc' := hcond.mp hc
        rw [if_pos hc']
        simp [step, hc, playsQ_append, playsQ]
      · have hc' : ¬ (startedAfter h = true ∧ lastPost p h ≠ some s ∧ p ∈ st.regP) :=
          fun x => hc (hcond.mpr x)
        rw [if_neg hc']
        simp [step, hc]
    | start => simpa [step, plays] using ih'
    | stop => simpa [step, plays] using ih'
    | takeover q a b =>
      rw [step_out_nil st _ (by simp)]
      have : (step st (.takeover q a b)).1.queue = st.queue := by
        simp only [step]; split <;> rfl
      rw [this] at ih'
      simpa [plays] using ih'
    | release =>
      rw [step_out_nil st _ (by simp)]
      have : (step st .release).1.queue = st.queue := by
        simp only [step]; split <;> rfl
      rw [this] at ih'
      simpa [plays] using ih'
    | change k q v =>
      have ho : (step st (.change k q v)).2 = [] := rfl
      rw [ho]
      have : playsQ (step st (.change k q v)).1.queue = playsQ st.queue := by
        simp only [step]; split <;> simp [playsQ_append, playsQ]
      rw [this] at ih'
      simpa [plays] using ih'

theorem effPosts_sublist_posts (reg : List Proto) (es : List Ev) :
    ∀ h, (effPosts reg h es).Sublist (posts es) := by
  induction es with
  | nil => intro h; simp [effPosts, posts]
  | cons e es ih =>
    intro h
    cases e with
    | post p s =>
      simp only [effPosts, posts]
      split
      · simpa using (ih _).cons_cons (p, s)
      · simpa using (ih _).cons (p, s)
    | _ => simpa [effPosts, posts] using ih _

theorem chain_append {a b c : Val} {l m : List (Val × Val)} (h1 : Chain a l b) (h2 : Chain b m c) :
    Chain a (l ++ m) c := by
  induction h1 with
  | nil a => simpa using h2
  | cons hne _ ih => exact Chain.cons hne (ih h2)

theorem drainQ_chain (k : Kind) (q : List Cb) : ∀ st : St,
    Chain (st.cur k) (chgs k (drainQ st q).2) ((drainQ st q).1.cur k) := by
  induction q with
  | nil => intro st; simpa [drainQ, chgs] using Chain.nil _
  | cons c cs ih =>
    intro st
    simp only [drainQ, chgs_append]
    refine chain_append ?_ (ih _)
    cases c with
    | play p s =>
      simp only [runCb]; split <;> simpa [chgs] using Chain.nil _
    | chg k' v =>
      simp only [runCb, setCur]
      by_cases hk : k' = k
      · subst hk
        by_cases hv : v = st.cur k'
        · simpa [chgs, hv] using Chain.nil _
        · simp only [ne_eq, hv, not_false_eq_true, if_true, chgs, if_true]
          exact Chain.cons (fun h => hv h.symm) (Chain.nil _)
      · have hk' : ¬ k = k' := fun h => hk h.symm
        simp only [hk', if_false]
        split <;> simpa [chgs, hk] using Chain.nil _

theorem step_cur_of_ne_drain (st : St) (e : Ev) (h : e ≠ .drain) : (step st e).1.cur = st.cur := by
  cases e with
  | drain => exact absurd rfl h
  | takeover p a b => simp only [step]; split <;> rfl
  | release => simp only [step]; split <;> rfl
  | _ => rfl

theorem run_chain (k : Kind) (es : List Ev) : ∀ st : St,
    Chain (st.cur k) (chgs k (run st es).2) ((run st es).1.cur k) := by
  induction es with
  | nil => intro st; simpa [run, chgs] using Chain.nil _
  | cons e es ih =>
    intro st
    simp only [run, chgs_append]
    refine chain_append ?_ (ih _)
    by_cases he : e = .drain
    · subst he
      simpa [step] using drainQ_chain k st.queue { st with queue := [] }
    · rw [step_out_nil st e he, step_cur_of_ne_drain st e he]
      simpa [chgs] using Chain.nil _

theorem drainQ_news_sublist (k : Kind) (q : List Cb) : ∀ st : St,
    ((chgs k (drainQ st q).2).map Prod.snd).Sublist (chgsQ k q) := by
  induction q with
  | nil => intro st; simp [drainQ, chgs, chgsQ]
  | cons c cs ih =>
    intro st
    simp only [drainQ, chgs_append, List.map_append]
    cases c with
    | play p s =>
      have : chgs k (runCb st (.play p s)).2 = [] := by
        simp only [runCb]; split <;> simp [chgs]
      rw [this]; simpa [chgsQ] using ih _
    | chg k' v =>
      by_cases hk : k' = k
      · subst hk
        simp only [chgsQ, if_true]
        by_cases hv : v = st.cur k'
        · have : chgs k' (runCb st (.chg k' v)).2 = [] := by simp [runCb, hv, chgs]
          rw [this]; simpa using (ih _).cons v
        · have : chgs k' (runCb st (.chg k' v)).2 = [(st.cur k', v)] := by simp [runCb, hv, chgs]
          rw [this]; simpa using (ih _).cons_cons v
      · have : chgs k (runCb st (.chg k' v)).2 = [] := by
          simp only [runCb]; split <;> simp [chgs, hk]
        rw [this]; simpa [chgsQ, hk] using ih _

theorem news_sublist_gen (k : Kind) (es : List Ev) : ∀ st : St,
    ((chgs k (run st es).2).map Prod.snd).Sublist (chgsQ k st.queue ++ accepted k (trace st es)) := by
  induction es with
  | nil => intro st; simp [run, chgs]
  | cons e es ih =>
    intro st
    have ih' := ih (step st e).1
    simp only [run, chgs_append, List.map_append, trace]
    cases e with
    | drain =>
      rw [step_drain_queue st] at ih'
      have hd : ((chgs k (step st .drain).2).map Prod.snd).Sublist (chgsQ k st.queue) := by
        simpa [step] using drainQ_news_sublist k st.queue { st with queue := [] }
      simpa [accepted, chgsQ] using hd.append ih'
    | change k' p v =>
      have ho : (step st (.change k' p v)).2 = [] := rfl
      rw [ho]
      simp only [chgs, List.map_nil, List.nil_append, accepted]
      refine ih'.trans ?_
      by_cases hk : k' = k
      · subst hk
        by_cases hacc : st.accepts k' p = true
        · simp [step, hacc, chgsQ_append, chgsQ]
        · simp [step, hacc]
      · have hq : chgsQ k (step st (.change k' p v)).1.queue = chgsQ k st.queue := by
          simp only [step]; split <;> simp [chgsQ_append, chgsQ, hk]
        rw [hq]; simp [hk]
    | post p s =>
      have ho : (step st (.post p s)).2 = [] := rfl
      have hq : chgsQ k (step st (.post p s)).1.queue = chgsQ k st.queue := by
        simp only [step]; split <;> simp [chgsQ_append, chgsQ]
      rw [hq] at ih'; rw [ho]
      simpa [chgs, accepted] using ih'
    | start => simpa [step, chgs, accepted] using ih'
    | stop => simpa [step, chgs, accepted] using ih'
    | takeover q a b =>
      rw [step_out_nil st _ (by simp)]
      have : (step st (.takeover q a b)).1.queue = st.queue := by
        simp only [step]; split <;> rfl
      rw [this] at ih'
      simpa [chgs, accepted] using ih'
    | release =>
      rw [step_out_nil st _ (by simp)]
      have : (step st .release).1.queue = st.queue := by
        simp only [step]; split <;> rfl
      rw [this] at ih'
      simpa [chgs, accepted] using ih'

theorem accepted_sublist_dispatched (k : Kind) (es : List Ev) : ∀ st : St,
    (accepted k (trace st es)).Sublist (dispatched k es) := by
  induction es with
  | nil => intro st; simp [trace, accepted, dispatched]
  | cons e es ih =>
    intro st
    cases e with
    | change k' p v =>
      simp only [trace, accepted, dispatched]
      by_cases hk : k' = k
      · by_cases ha : st.accepts k p = true
        · simpa [hk, ha] using (ih _).cons_cons v
        · simpa [hk, ha] using (ih _).cons v
      · simpa [hk] using ih _
    | _ => simpa [trace, accepted, dispatched] using ih _

/-- stopped and nothing pending: stays silent until start() -/
theorem silent_gen (es : List Ev) : ∀ st : St, st.lst = false → playsQ st.queue = [] →
    Ev.start ∉ es → plays (run st es).2 = [] := by
  induction es with
  | nil => intro st _ _ _; simp [run, plays]
  | cons e es ih =>
    intro st hl hq hs
    have hs' : Ev.start ∉ es := fun h => hs (List.mem_cons_of_mem _ h)
    simp only [run, plays_append]
    cases e with
    | start => exact absurd (List.mem_cons_self) hs
    | drain =>
      have hf := drainQ_frame { st with queue := [] } st.queue
      have hd : (plays (step st .drain).2).Sublist (playsQ st.queue) := by
        simpa [step] using drainQ_plays_sublist { st with queue := [] } st.queue
      rw [hq] at hd
      have h1 : plays (step st .drain).2 = [] := List.sublist_nil.mp hd
      have h2 := ih (step st .drain).1 (by simpa [step] using hf.2.2.2.2.2.1.trans hl)
        (by rw [step_drain_queue]; rfl) hs'
      rw [h1, h2]; rfl
    | post p s =>
      have h2 := ih (step st (.post p s)).1 (by simpa [step] using hl)
        (by simpa [step, St.postsThrough, hl] using hq) hs'
      rw [h2]; simp [step, plays]
    | stop =>
      have h2 := ih (step st .stop).1 (by simp [step]) (by simpa [step] using hq) hs'
      rw [h2]; simp [step, plays]
    | takeover q a b =>
      have h2 := ih (step st (.takeover q a b)).1 (by simp only [step]; split <;> simpa using hl)
        (by simp only [step]; split <;> simpa using hq) hs'
      rw [h2, step_out_nil st _ (by simp)]; rfl
    | release =>
      have h2 := ih (step st .release).1 (by simp only [step]; split <;> simpa using hl)
        (by simp only [step]; split <;> simpa using hq) hs'
      rw [h2, step_out_nil st _ (by simp)]; rfl
    | change k q v =>
      have h2 := ih (step st (.change k q v)).1 (by simpa [step] using hl)
        (by simp only [step]; split <;> simpa [playsQ_append, playsQ] using hq) hs'
      rw [h2]; simp [step, plays]

theorem drained_queue_nil (es : List Ev) : ∀ st : St, st.queue = [] →
    (run st (drained es)).1.queue = [] := by
  induction es with
  | nil => intro st h; simpa [drained, run] using h
  | cons e es ih =>
    intro st _
    have : drained (e :: es) = e :: .drain :: drained es := by simp [drained]
    rw [this]
    simp only [run]
    exact ih _ (step_drain_queue _)

theorem start_not_mem_drained (es : List Ev) (h : Ev.start ∉ es) : Ev.start ∉ drained es := by
  simp only [drained, List.mem_flatMap, not_exists, not_and]
  intro e he hmem
  simp at hmem
  rcases hmem with rfl | hmem
  · exact h he

end Lemmas

/-! ## Property theorems -/

/-- **C10, only on change / only while started / in order.**  The play notifications the
    user receives are a sublist of the *effective* posts: posts made while started, by a
    registered updater, differing from that updater's previous post.  Sublist = same
    relative order, nothing invented, no post delivered twice.  Every history, drains
    anywhere. -/
theorem delivered_sublist_effective (regP regK : List Proto) (evs : List Ev) :
    (plays (run (init regP regK) evs).2).Sublist (effPosts regP [] evs) := by
  simpa [init, playsQ] using delivered_sublist_gen evs (init regP regK) [] (agrees_init regP regK)

/-- **C10, order.**  delivered ⊑ posted: notifications arrive in the order the states were
    produced. -/
theorem delivered_sublist_posted (regP regK : List Proto) (evs : List Ev) :
    (plays (run (init regP regK) evs).2).Sublist (posts evs) :=
  (delivered_sublist_effective regP regK evs).trans (effPosts_sublist_posts regP evs [])

/-- **C10, no duplicate.**  A post equal to the state that updater posted last changes
    nothing at all: the history without it leaves the same state and delivers exactly the
    same notifications. -/
theorem no_dup (regP regK : List Proto) (pre rest : List Ev) (p : Proto) (s : Val)
    (h : lastPost p pre = some s) :
    run (init regP regK) (pre ++ .post p s :: rest) = run (init regP regK) (pre ++ rest) := by
  have ha := agrees_run (init regP regK) [] pre (agrees_init regP regK)
  simp only [List.nil_append] at ha
  have hprev : (run (init regP regK) pre).1.prev p = some s := by rw [ha.1 p, h]
  have hstep : step (run (init regP regK) pre).1 (.post p s) = ((run (init regP regK) pre).1, []) := by
    generalize (run (init regP regK) pre).1 = st at hprev
    have hf : setFn st.prev p (some s) = st.prev := by
      funext x; simp only [setFn]; split
      · next hx => rw [hx, hprev]
      · rfl
    simp [step, St.postsThrough, hprev, hf]
  rw [run_append, run_append]
  simp only [run, hstep, List.nil_append]

/-- **C10, only from the serving protocol.**  Whenever the user's listener receives a play
    status of updater `p` (during event `x.2.1`, state before it `x.1`), `p` is the
    PushUpdater relayer's main protocol at that moment. -/
theorem only_main (regP regK : List Proto) (evs : List Ev) :
    ∀ x ∈ trace (init regP regK) evs, ∀ p s, Out.play p s ∈ x.2.2 → mainOf regP x.1.tkP = some p := by
  suffices H : ∀ (es : List Ev) (st : St), ∀ x ∈ trace st es, ∀ p s, Out.play p s ∈ x.2.2 →
      mainOf st.regP x.1.tkP = some p from H evs (init regP regK)
  intro es
  induction es with
  | nil => intro st x hx; simp [trace] at hx
  | cons e es ih =>
    intro st x hx p s hmem
    simp only [trace, List.mem_cons] at hx
    rcases hx with rfl | hx
    · by_cases he : e = .drain
      · subst he
        have := drainQ_play_main { st with queue := [] } st.queue p s (by simpa [step] using hmem)
        simpa [St.mainP] using this
      · rw [step_out_nil st e he] at hmem; cases hmem
    · have := ih (step st e).1 x hx p s hmem
      rwa [(step_reg st e).1] at this

/-- what "main protocol" means: the takeover holder when it registered an instance … -/
theorem mainOf_takeover (reg : List Proto) (p : Proto) (h : p ∈ reg) : mainOf reg (some p) = some p := by
  simp [mainOf, h]

/-- … otherwise the takeover is transparent … -/
theorem mainOf_takeover_absent (reg : List Proto) (p : Proto) (h : p ∉ reg) :
    mainOf reg (some p) = mainOf reg none := by
  simp [mainOf, h]

/-- … and without takeover the registered protocol of highest priority (smallest index). -/
theorem mainOf_none_highest (reg : List Proto) (p : Proto) (h : mainOf reg none = some p) :
    p ∈ reg ∧ ∀ q ∈ reg, q ∈ priorities → p ≤ q := by
  simp only [mainOf, Option.toList, List.nil_append] at h
  have hp := List.find?_some h
  refine ⟨by simpa using hp, ?_⟩
  intro q hq hqp
  obtain ⟨_, as, bs, heq, hbefore⟩ := List.find?_eq_some_iff_append.mp h
  have hsorted : priorities.Pairwise (· ≤ ·) := by decide
  rw [heq] at hsorted hqp
  rcases List.mem_append.mp hqp with hqa | hqb
  · have := hbefore q hqa; simp [hq] at this
  · rcases List.mem_cons.mp hqb with rfl | hqb
    · exact Nat.le_refl _
    · have := (List.pairwise_append.mp hsorted).2.1
      exact (List.pairwise_cons.mp this).1 q hqb

/-- **C10, nothing after stop().**  Once the loop has drained and stop() is called, no play
    status reaches the user until the next start() — whatever is posted, taken over,
    released or drained in between. -/
theorem silent_after_stop (regP regK : List Proto) (pre rest : List Ev) (hs : Ev.start ∉ rest) :
    plays (run (run (init regP regK) (pre ++ [.drain])).1 (.stop :: rest)).2 = [] := by
  have hq : (run (init regP regK) (pre ++ [.drain])).1.queue = [] := by
    rw [run_append]; simp only [run]; exact step_drain_queue _
  generalize (run (init regP regK) (pre ++ [.drain])).1 = st at hq
  have := silent_gen rest (step st .stop).1 (by simp [step]) (by simp [step, hq, playsQ]) hs
  simp [run, step] at this ⊢
  exact this

/-- the same at the property's granularity (every event followed by a drain) -/
theorem silent_after_stop_drained (regP regK : List Proto) (pre rest : List Ev) (hs : Ev.start ∉ rest) :
    plays (run (run (init regP regK) (drained pre)).1 (drained (.stop :: rest))).2 = [] := by
  have hq := drained_queue_nil pre (init regP regK) rfl
  generalize (run (init regP regK) (drained pre)).1 = st at hq
  have hd : drained (.stop :: rest) = .stop :: .drain :: drained rest := by simp [drained]
  rw [hd]
  have hs' : Ev.start ∉ (.drain :: drained rest) := by
    intro h
    rcases List.mem_cons.mp h with h | h
    · cases h
    · exact start_not_mem_drained rest hs h
  have := silent_gen (.drain :: drained rest) (step st .stop).1 (by simp [step]) (by simp [step, hq, playsQ]) hs'
  simp only [run, plays_append] at this ⊢
  simpa [step, plays] using this

/-- The drain before stop() is needed: a play status already queued with call_soon when
    stop() is called IS delivered afterwards (start, post, stop, drain).  This is finer
    than the property's histories; the harness replays it on the real code every run. -/
theorem stop_undrained_delivers :
    plays (run (init [0] []) [.start, .post 0 1, .stop, .drain]).2 = [(0, 1)] := by
  decide

/-- **C10, volume / output devices / keyboard focus: correct old and new, only on change.**
    For each kind the `(old,new)` pairs the listener received link the initial value to the
    facade's current value, every link a change. -/
theorem chg_chain (regP regK : List Proto) (evs : List Ev) (k : Kind) :
    Chain 0 (chgs k (run (init regP regK) evs).2) ((run (init regP regK) evs).1.cur k) :=
  run_chain k evs (init regP regK)

/-- what a chain says, in the property's words: every call has `old ≠ new`; the first `old`
    is the initial value and each further `old` is the previous `new`; the last `new` is
    the current value. -/
theorem chain_spec {a c : Val} {l : List (Val × Val)} (h : Chain a l c) :
    (∀ x ∈ l, x.1 ≠ x.2) ∧ l.map Prod.fst = (a :: l.map Prod.snd).dropLast ∧
    (a :: l.map Prod.snd).getLast (by simp) = c := by
  induction h with
  | nil a => simp
  | cons hne _ ih =>
    obtain ⟨h1, h2, h3⟩ := ih
    refine ⟨?_, ?_, ?_⟩
    · intro x hx
      rcases List.mem_cons.mp hx with rfl | hx
      · exact hne
      · exact h1 x hx
    · simp only [List.map_cons, List.dropLast_cons_cons, List.cons.injEq, true_and]
      exact h2
    · simpa [List.getLast_cons] using h3

/-- **C10, correct new value.**  The `new` values received are, in order, values that were
    dispatched and accepted by the listener's filter … -/
theorem chg_new_sublist_accepted (regP regK : List Proto) (evs : List Ev) (k : Kind) :
    ((chgs k (run (init regP regK) evs).2).map Prod.snd).Sublist
      (accepted k (trace (init regP regK) evs)) := by
  simpa [init, chgsQ] using news_sublist_gen k evs (init regP regK)

/-- … hence values that were dispatched, in dispatch order. -/
theorem chg_new_sublist (regP regK : List Proto) (evs : List Ev) (k : Kind) :
    ((chgs k (run (init regP regK) evs).2).map Prod.snd).Sublist (dispatched k evs) :=
  (chg_new_sublist_accepted regP regK evs k).trans (accepted_sublist_dispatched k evs _)

/-- Keyboard focus is only taken from the Keyboard relayer's main protocol (what the code
    does; the property text does not demand it, so the direct oracle does not either). -/
theorem focus_only_main (st : St) (p : Proto) : st.accepts .foc p = true ↔ mainOf st.regK st.tkK = some p := by
  simp only [St.accepts, St.mainK]
  exact ⟨of_decide_eq_true, decide_eq_true⟩

/-! ## Non-vacuity -/

-- a history that exercises duplicate suppression, takeover filtering, stop and restart
def demo : List Ev :=
  [.start, .post 0 1, .drain, .post 0 1, .drain, .takeover 4 true false, .post 0 2, .post 4 2, .drain,
   .release, .post 0 1, .drain, .stop, .post 0 2, .drain, .start, .post 0 1, .drain]

example : plays (run (init [0, 4] [0]) demo).2 = [(0, 1), (4, 2), (0, 1), (0, 1)] := by decide

example : effPosts [0, 4] [] demo = [(0, 1), (0, 2), (4, 2), (0, 1), (0, 1)] := by decide

example : lastPost 0 [.start, .post 0 1, .drain] = some 1 := by decide

example : Ev.start ∉ [Ev.post 0 2, .drain, .takeover 4 true false, .post 4 1] := by decide

example : mainOf [0, 4] (some 4) = some 4 ∧ mainOf [0, 4] none = some 0 ∧ mainOf [0] (some 4) = some 0 := by decide

example : chgs .vol (run (init [0] [0]) [.change .vol 0 1, .change .vol 4 1, .change .vol 4 2, .drain,
    .change .vol 0 0, .drain]).2 = [(0, 1), (1, 2), (2, 0)] := by decide

example : Chain 0 [(0, 1), (1, 2), (2, 0)] 0 :=
  .cons (by decide) (.cons (by decide) (.cons (by decide) (.nil 0)))

example : chgs .foc (run (init [0] [0]) [.change .foc 4 1, .drain, .change .foc 0 2, .drain]).2 = [(0, 2)] := by
  decide

end PyatvModel.Props.C10
