import PyatvModel.C03.LemmasRtsp
import PyatvModel.C03.LemmasReorder
/-
C03 — a response reaches exactly the request that it answers.
Part 2: RTSP — `RtspSession.exchange` re-matching by CSeq on top of the positional (FIFO)
`HttpConnection`.  All theorems are about every history of the layered model `rstep`
(sends, responses with any / no / unknown / duplicated CSeq in any order, timer expiries in
either phase of any exchange).
-/
namespace PyatvModel.Props.C03
open PyatvModel.C03

abbrev rtrace (evs : List Ev) : Trace := runT rstep rinit evs

/-- **CSeqs are unique (proved).** -/
theorem rtsp_keys_unique (evs : List Ev) (r r' k k' : Nat)
    (h : Out.sent r k ∈ outs (rtrace evs)) (h' : Out.sent r' k' ∈ outs (rtrace evs)) :
    (k = k' ↔ r = r') := by
  have inv := (rinv_run evs).core
  constructor
  · intro hk; subst hk; exact inv.uniq r r' k h h'
  · intro hr; subst hr
    have h1 := (inv.snt r k h).2.2
    have h2 := (inv.snt r k' h').2.2
    omega

/-- **Whatever the FIFO layer hands to an exchange, the exchange only ever returns a response
    that carries its own CSeq, that really arrived (now or earlier), and only while it has not
    completed yet; every other output of a receive step is a drop.** -/
theorem rtsp_deliver_own_cseq (evs : List Ev) (p q : Trace) (k : Option Nat) (v : Nat) (o : List Out)
    (h : rtrace evs = p ++ (.recv k v, o) :: q) :
    ∀ x, x ∈ o → x = .drop k v ∨
      ∃ r c w, x = .deliver r (some c) w ∧ Out.sent r c ∈ outs p ∧ outcomes r (outs p) = 0 ∧
        (Ev.recv (some c) w ∈ p.map Prod.fst ∨ (k = some c ∧ w = v)) :=
  (rinv_run evs).good p _ o q h

/-- deliveries happen only in receive steps -/
theorem rtsp_deliver_only_on_recv (evs : List Ev) (p q : Trace) (e : Ev) (o : List Out)
    (h : rtrace evs = p ++ (e, o) :: q) (r : Nat) (k : Option Nat) (w : Nat)
    (hd : Out.deliver r k w ∈ o) : ∃ k' v', e = .recv k' v' := by
  have hl := (rinv_run evs).good p e o q h
  cases e with
  | send => obtain ⟨r', c, ho, _⟩ := hl; rw [ho] at hd; simp at hd
  | burn => have : o = [] := hl; rw [this] at hd; cases hd
  | sendFail => have : o = [.sendErr] := hl; rw [this] at hd; simp at hd
  | msg kd k' v' => have : o = [] := hl; rw [this] at hd; cases hd
  | recv k' v' => exact ⟨k', v', rfl⟩
  | timeout r' =>
    rcases hl with ho | ⟨ho, _⟩ <;> rw [ho] at hd <;> simp at hd

/-- an exchange whose transmission raises consumes its CSeq and leaves no waiter behind -/
theorem rtsp_failed_send (evs : List Ev) (p q : Trace) (o : List Out)
    (h : rtrace evs = p ++ (.sendFail, o) :: q) : o = [.sendErr] :=
  (rinv_run evs).good p _ o q h

/-- **Each exchange completes at most once, and never with an internal error.** -/
theorem rtsp_at_most_one_outcome (evs : List Ev) (r : Nat) : outcomes r (outs (rtrace evs)) ≤ 1 :=
  (rinv_run evs).core.once r

theorem rtsp_never_faults (evs : List Ev) (r : Nat) : Out.fault r ∉ outs (rtrace evs) :=
  (rinv_run evs).core.nofault r

/-- **A response is never handed to a different request**: a response carrying the CSeq `c` of
    request `r` is never returned by any other exchange — in any history, in particular … -/
theorem rtsp_no_cross (evs : List Ev) (p q : Trace) (e : Ev) (o : List Out)
    (h : rtrace evs = p ++ (e, o) :: q) (r r' c w : Nat)
    (hs : Out.sent r c ∈ outs (rtrace evs)) (hd : Out.deliver r' (some c) w ∈ o) : r' = r := by
  obtain ⟨k', v', he⟩ := rtsp_deliver_only_on_recv evs p q e o h r' (some c) w hd
  subst he
  rcases rtsp_deliver_own_cseq evs p q k' v' o h _ hd with hx | ⟨r1, c1, w1, hx, hs1, _, _⟩
  · cases hx
  · cases hx
    have hs1' : Out.sent r' c ∈ outs (rtrace evs) := by
      rw [h, outs_append]; exact List.mem_append_left _ hs1
    exact (rinv_run evs).core.uniq r' r c hs1' hs

/-- … **after its request was abandoned**: once the timer of request `r` (CSeq `c`) fired, a
    late response carrying `c` is never handed to a different request `r'`, and `r` itself does
    not complete a second time. -/
theorem rtsp_no_cross_after_timeout (evs : List Ev) (p q1 q2 : Trace) (r c v : Nat) (o2 : List Out)
    (h : rtrace evs = p ++ (.timeout r, [.timeoutErr r]) :: (q1 ++ (.recv (some c) v, o2) :: q2))
    (hs : Out.sent r c ∈ outs p) :
    ∀ r' k' w, Out.deliver r' k' w ∈ o2 → r' ≠ r ∧ k' ≠ some c := by
  intro r' k' w hd
  have h2 : rtrace evs = (p ++ (.timeout r, [.timeoutErr r]) :: q1) ++ (.recv (some c) v, o2) :: q2 := by
    rw [h]; simp
  have hsT : Out.sent r c ∈ outs (rtrace evs) := by
    rw [h, outs_append]; exact List.mem_append_left _ hs
  -- r already has its timeout error, so it cannot be the receiver
  have hne : r' ≠ r := by
    intro heq; subst heq
    have honce := rtsp_at_most_one_outcome evs r'
    rw [h2] at honce
    simp only [outs_append, outs_cons, outcomes_append] at honce
    have h1 : 0 < outcomes r' o2 := outcomes_pos_of_mem_deliver hd
    have h3 : outcomes r' [Out.timeoutErr r'] = 1 := by simp
    omega
  refine ⟨hne, ?_⟩
  intro hk; subst hk
  exact hne (rtsp_no_cross evs _ q2 _ o2 h2 r r' c w hsT hd)

/-- **rtsp_reorder: under any permutation of the responses each exchange returns the response
    carrying its own CSeq.**  `n` exchanges are started, the device answers all of them in the
    order `ks` (any permutation of the CSeqs `0 … n-1`), response `c` carrying payload `f c`:
    every exchange `r` returns exactly `(CSeq r, f r)`, and nothing else. -/
theorem rtsp_reorder (n : Nat) (ks : List Nat) (f : Nat → Nat) (hperm : ks.Perm (List.range n))
    (r : Nat) (hr : r < n) :
    Out.deliver r (some r) (f r) ∈
        outs (rtrace (List.replicate n .send ++ ks.map fun c => .recv (some c) (f c))) ∧
    outcomes r (outs (rtrace (List.replicate n .send ++ ks.map fun c => .recv (some c) (f c)))) = 1 := by
  have hnd : ks.Nodup := hperm.nodup_iff.mpr List.nodup_range
  have hmem : ∀ c, c ∈ ks ↔ c < n := fun c => by rw [hperm.mem_iff, List.mem_range]
  have hlen : ks.length = n := by rw [hperm.length_eq, List.length_range]
  have hs := sentN n
  have hpb : PB n f [] (finalS rstep rinit (List.replicate n .send)) := by
    refine ⟨by simp [hs.queue, List.range_eq_range'], hs.kof, ?_⟩
    intro c hc
    simp [hs.tbl c, hc]
  have hmain := pb_run n f ks [] _ hpb (by simpa using hnd) (by simpa using fun c hc => (hmem c).mp hc)
    (by simp [hlen]) r (by simpa using (hmem r).mpr hr) (by simp [hlen, hr]) (by simp)
  have hin : Out.deliver r (some r) (f r) ∈
      outs (rtrace (List.replicate n .send ++ ks.map fun c => .recv (some c) (f c))) := by
    rw [rtrace, runT_append, outs_append]
    exact List.mem_append_right _ hmain
  refine ⟨hin, ?_⟩
  have h1 := rtsp_at_most_one_outcome (List.replicate n .send ++ ks.map fun c => .recv (some c) (f c)) r
  have h2 := outcomes_pos_of_mem_deliver hin
  omega

/-! ## Non-vacuity -/

/-- three exchanges answered in the order 2, 0, 1: the FIFO layer hands every response to the
    wrong exchange, the CSeq layer repairs it -/
example : rtrace [.send, .send, .send, .recv (some 2) 12, .recv (some 0) 10, .recv (some 1) 11]
    = [(.send, [.sent 0 0]), (.send, [.sent 1 1]), (.send, [.sent 2 2]),
       (.recv (some 2) 12, []), (.recv (some 0) 10, [.deliver 0 (some 0) 10]),
       (.recv (some 1) 11, [.deliver 2 (some 2) 12, .deliver 1 (some 1) 11])] := by decide

example : [2, 0, 1].Perm (List.range 3) := by decide

/-- the D9 history on RTSP: exchange 0 abandoned at HTTP level, exchange 1 started, the late
    response 0 arrives: it is dropped, not returned to exchange 1 (hypotheses of
    `rtsp_no_cross_after_timeout`) -/
example : rtrace [.send, .timeout 0, .send, .recv (some 0) 10, .recv (some 1) 11]
    = [(.send, [.sent 0 0])] ++ (.timeout 0, [.timeoutErr 0]) ::
      ([(.send, [.sent 1 1])] ++ (.recv (some 0) 10, [.drop (some 0) 10]) ::
        [(.recv (some 1) 11, [.drop (some 1) 11])]) := by decide

/-- a phase-2 timeout: exchange 0 got (positionally) the response of exchange 1, stores it,
    waits for its own CSeq and times out; exchange 1 still gets its response -/
example : rtrace [.send, .send, .recv (some 1) 11, .timeout 0, .recv (some 0) 10]
    = [(.send, [.sent 0 0]), (.send, [.sent 1 1]), (.recv (some 1) 11, []),
       (.timeout 0, [.timeoutErr 0]), (.recv (some 0) 10, [.deliver 1 (some 1) 11, .drop (some 0) 10])] := by
  decide

end PyatvModel.Props.C03
