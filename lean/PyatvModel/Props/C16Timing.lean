import PyatvModel.C16.Timing
import PyatvModel.C16.TimingLemmas
/-
C16 (timestamps) — the conversions behind `StreamContext.reset`'s start timestamp and the
seconds/fraction pairs written into sync and timing packets, for EVERY NTP value, sample rate,
second count and 32-bit fraction (no bound):

  * `parts_recombine`, `parts_of_ntpOf`, `parts_fit`: `ntp2parts` splits a 64-bit NTP value into
    two fields that each fit the `I` slot of the packets and that recombine to the value;
  * `ntp2ts_seconds`, `ntp2ts_whole`, `ntp2ts_mono`: one second of NTP time is exactly
    `sample_rate` timestamp units, fractions stay inside the second, the map is monotone — so
    the start timestamp of a later reset is never before an earlier one;
  * `ntp2ms_seconds`, `ntp2ms_whole`, `ntp2ms_mono`: the same for milliseconds.
-/
namespace PyatvModel.Props.C16Timing
open PyatvModel.C16.Timing

theorem parts_recombine (n : Nat) :
    (ntp2parts n).1 * 2 ^ 32 + (ntp2parts n).2 = n ∧ (ntp2parts n).2 < 2 ^ 32 := by
  simp only [ntp2parts, and_mask, Nat.shiftRight_eq_div_pow]
  omega

example : ntp2parts 0x83AA7E8100000005 = (0x83AA7E81, 5) := by decide

theorem parts_of_ntpOf (s f : Nat) (h : f < 2 ^ 32) : ntp2parts (ntpOf s f) = (s, f) := by
  simp only [ntp2parts, and_mask, Nat.shiftRight_eq_div_pow, ntpOf_eq s f h]
  refine Prod.ext ?_ ?_ <;> simp <;> omega

example : (4294967295 : Nat) < 2 ^ 32 ∧ ntp2parts (ntpOf 7 4294967295) = (7, 4294967295) := by decide

/-- what `ntp_now` builds splits back into the NTP-epoch second and the 32-bit fraction of the
    microsecond reading; the fraction never spills into the seconds. -/
theorem ntpNow_parts (sec us : Nat) (h : us < 1000000) :
    ntp2parts (ntpNow sec us) = (sec + 0x83AA7E80, us * 2 ^ 32 / 1000000) := by
  unfold ntpNow
  rw [Nat.shiftLeft_eq]
  exact parts_of_ntpOf _ _ (by omega)

example : (999999 : Nat) < 1000000 ∧ ntp2parts (ntpNow 1700000000 999999) = (3908988800, 4294963001) := by decide

theorem parts_fit (n : Nat) (h : n < 2 ^ 64) : (ntp2parts n).1 < 2 ^ 32 := by
  simp only [ntp2parts, Nat.shiftRight_eq_div_pow]; omega

example : (0xFFFFFFFFFFFFFFFF : Nat) < 2 ^ 64 ∧ (ntp2parts 0xFFFFFFFFFFFFFFFF).1 = 0xFFFFFFFF := by decide

theorem ntp2ms_mono (a b : Nat) (h : a ≤ b) : ntp2ms a ≤ ntp2ms b := by
  simp only [ntp2ms, Nat.shiftRight_eq_div_pow]; omega

theorem ntp2ms_seconds (s f : Nat) (h : f < 2 ^ 32) :
    s * 1000 ≤ ntp2ms (ntpOf s f) ∧ ntp2ms (ntpOf s f) < (s + 1) * 1000 := by
  simp only [ntp2ms, Nat.shiftRight_eq_div_pow, ntpOf_eq s f h]; omega

example : ntp2ms (ntpOf 3 2147483648) = 3500 := by decide

theorem ntp2ms_whole (s : Nat) : ntp2ms (ntpOf s 0) = s * 1000 := by
  simp only [ntp2ms, Nat.shiftRight_eq_div_pow, ntpOf_eq s 0 (by decide)]; omega

theorem ntp2ts_mono (a b r : Nat) (h : a ≤ b) : ntp2ts a r ≤ ntp2ts b r := by
  simp only [ntp2ts, Nat.shiftRight_eq_div_pow]
  apply Nat.div_le_div_right
  apply Nat.mul_le_mul_right
  apply Nat.div_le_div_right h

/-- a time inside second `s` maps inside the `rate` timestamp units of that second. -/
theorem ntp2ts_seconds (s f r : Nat) (h : f < 2 ^ 32) (hr : 0 < r) :
    s * r ≤ ntp2ts (ntpOf s f) r ∧ ntp2ts (ntpOf s f) r < (s + 1) * r := by
  simp only [ntp2ts, Nat.shiftRight_eq_div_pow, ntpOf_eq s f h]
  have e : (s * 2 ^ 32 + f) / 2 ^ 16 = s * 2 ^ 16 + f / 2 ^ 16 := by omega
  have g : f / 2 ^ 16 < 2 ^ 16 := by omega
  rw [e, Nat.add_mul, Nat.mul_right_comm, Nat.add_comm, Nat.add_mul_div_right _ _ (by decide : 0 < 2 ^ 16)]
  have : f / 2 ^ 16 * r / 2 ^ 16 < r := by
    apply Nat.div_lt_of_lt_mul
    exact Nat.mul_lt_mul_of_pos_right g hr
  have e2 : (s + 1) * r = s * r + r := by rw [Nat.add_mul, Nat.one_mul]
  omega

example : (2147483648 : Nat) < 2 ^ 32 ∧ 0 < 44100 ∧ ntp2ts (ntpOf 10 2147483648) 44100 = 463050 := by decide

theorem ntp2ts_whole (s r : Nat) : ntp2ts (ntpOf s 0) r = s * r := by
  simp only [ntp2ts, Nat.shiftRight_eq_div_pow, ntpOf_eq s 0 (by decide)]
  have e : (s * 2 ^ 32 + 0) / 2 ^ 16 = s * 2 ^ 16 := by omega
  rw [e, Nat.mul_right_comm, Nat.mul_div_cancel _ (by decide : 0 < 2 ^ 16)]

end PyatvModel.Props.C16Timing
