import PyatvModel.Gen.C09Facade
/-
C09 — model of the life cycle of one `FacadeAppleTV` (closing / losing a connection).

Transcribed source (pinned tree):

* pyatv/support/state_producer.py:26-50  `_ListenerProxy.__getattr__`     → `reportWith`
      producer.calls_made += 1
      if producer.max_calls and producer.calls_made > producer.max_calls: return <noop>
      if self.__listener is not None:
          listener = self.__listener()                    -- weak reference
          if hasattr(listener, attr): producer.state_was_updated(); return getattr(listener, attr)
      else: producer.state_was_updated()
      return <noop>
* pyatv/support/state_producer.py:59-71 `StateProducer.listener` getter/setter → `St.listener`, `Ev.setListener`
      (the setter stores `weakref.ref(target)` or None and nothing else: the call budget belongs to the
       producer — the device object — not to a listener object)
* pyatv/core/facade.py:652 `super().__init__(max_calls=1)`                → `Cfg.maxCalls` (value from Gen)
* pyatv/core/facade.py:880-886 `state_was_updated → self.close()`         → continuation `k` of `reportWith`
* pyatv/core/facade.py:744-764 `FacadeAppleTV.close` (as repaired by
  "fix: FacadeAppleTV.close blocks the public interface before closing the protocols") → `closeF`
      if self._pending_tasks is not None: return self._pending_tasks
      self.push_updater.stop()                 -- two guarded members: AppleTV.push_updater, PushUpdater.stop
      self._pending_tasks = set(); add(create_task(session_manager.close()))
      self._block_everything()
      for setup_data in self._protocol_handlers.values(): self._pending_tasks.update(setup_data.close())
      return self._pending_tasks
* pyatv/core/facade.py:677-685 `_shield_everything`, `_block_everything`  → `init`, `blockFrom`
* pyatv/support/shield.py:44-75 `shield`, `block`, `is_blocking`, `guard` → `Shield`, `blockFrom`, `isBlocking`, `apiBlocked`
      (every shielded object carries its OWN `__shield_is_blocking` attribute: an interface object the
       user obtained earlier answers from that flag alone, also after the device object is gone →
       `Ev.dropDevice`, `St.deviceHeld`)
* pyatv/core/facade.py:578-593 `FacadePushUpdater.start/stop`             → `pushStart`, `pushStop`
* how protocols report (`core.device_listener.listener.connection_lost(exc)` /
  `.connection_closed()`): protocols/mrp/connection.py:74-84, companion/connection.py:160-168,
  airplay/mrp_connection.py:68-76, dmap/__init__.py:513, :691-694 (DMAP's `_close` reports
  synchronously from inside `close()`; MRP/Companion/AirPlay report when the transport they
  close calls `connection_lost`).  A protocol's `close()` is therefore modelled as emitting any
  list of reports re-entrantly (`Proto.onClose`), the adversarial reading.

User code runs inside the library: the DeviceListener's handler is invoked by whoever
evaluated `listener.connection_lost(exc)` — a protocol callback, or a protocol's `close()` in
the middle of `FacadeAppleTV.close()`.  What the handler does is part of the event (`Beh`): it
records the call, makes public-API calls and `close()` calls from inside the callback
(`InEv`), and may then raise.  A raised exception propagates like in Python (`St.flying`):
out of the protocol's `close()`, out of the `for` loop, out of `FacadeAppleTV.close()`, to the
user who called it (or to the protocol callback that reported).  PushListener handlers
likewise (`Ev.push i b`).

`close()` re-enters itself through `setup_data.close() → report → state_was_updated →
close()`; the model uses fuel for that recursion and records running out of fuel — like any
exception escaping `close()` — in `St.raised` (proved never to happen on reachable states).

Import-free apart from the generated member table.
-/
namespace PyatvModel.C09
open PyatvModel.Gen.C09 (Row Guard)

/-- what a protocol reports: `connection_lost(exc)` (exception number `e`) or `connection_closed()` -/
inductive Kind
  | lost (e : Nat)
  | closed
  deriving DecidableEq, Repr

structure Report where
  proto : Nat
  kind : Kind
  deriving DecidableEq, Repr

/-- the user's DeviceListener as the proxy sees it: never set, set and alive, set but
    garbage-collected (the weak reference returns `None`, so `hasattr` is false) -/
inductive Listener
  | none
  | alive
  | dead
  deriving DecidableEq, Repr

/-- a call user code makes from inside one of its listener callbacks -/
inductive InEv
  | api (m : Nat)     -- public member number m, on the object the user holds
  | close             -- atv.close()
  deriving DecidableEq, Repr

/-- behaviour of a user handler when it is invoked: the call is recorded, `inner` is performed
    (each call's outcome caught and recorded), then the handler raises if `raises` -/
structure Beh where
  inner : List InEv
  raises : Bool
  deriving DecidableEq, Repr

/-- a connected protocol: what its `SetupData.close()` does -/
structure Proto where
  onClose : List (Kind × Beh)   -- reports it emits, synchronously, while closing (with what the
                                -- user's handler would do if that report is the one delivered)
  tasks : Nat                   -- size of the task set it returns
  deriving Repr

structure Cfg where
  maxCalls : Nat
  nObjs : Nat               -- shielded objects: 0 = FacadeAppleTV, 1.. = interface objects
  pushObj : Nat             -- index of the FacadePushUpdater
  members : List Row        -- public member table
  listener : Listener       -- the DeviceListener registered before the history starts
  protos : List Proto
  connected0 : Nat          -- how many of them `FacadeAppleTV.connect()` has already registered in
                            -- `_protocol_handlers` when the history starts (the rest is still connecting)

/-- `__shield_is_blocking` of one object: attribute missing / False / True -/
abbrev Shield := Option Bool

inductive Out
  | none                          -- report: nothing is returned
  | set (id : Nat) (n : Nat)      -- close(): identity and size of the returned set
  | raised                        -- close() raised an error of its own
  | userRaised                    -- close() propagated the exception of the user's handler
  | escaped                       -- the user's handler's exception reached the reporting protocol
  | blocked                       -- BlockedStateError
  | pass                          -- the guard let the call through
  | badMember
  | delivered (b : Bool)          -- did the user's PushListener receive the update
  | faulted                       -- push_updater.start(): a protocol's updater raised from its start()
  | gone                          -- the user no longer holds the object this member lives on
  deriving DecidableEq, Repr

structure St where
  callsMade : Nat             -- StateProducer.calls_made
  pending : Option Nat        -- identity of `_pending_tasks` (`none` until closed)
  tasks : Nat                 -- number of tasks in it
  nextId : Nat                -- identity the next `set()` gets
  closeLog : List Nat         -- protocol indices in the order their `close()` ran
  shield : List Shield        -- per shielded object
  pushOn : Bool               -- protocol push updaters forward to the facade (`start()`ed, not stopped)
  notified : List Report      -- calls the user's DeviceListener received, in order
  reports : List Report       -- every report made so far (history)
  inner : List (Bool × InEv × Out)  -- calls made from inside callbacks (flag: DeviceListener callback) and what they saw
  raised : Bool               -- an error of the library's own escaped from `close()` (or the model ran out of fuel)
  flying : Bool               -- an exception raised by user code is propagating
  listener : Listener         -- what `StateProducer.__listener` of the device object refers to now
  pushListener : Bool         -- the user's PushListener is registered on the FacadePushUpdater
  closedUpTo : Nat            -- `_closed_protocols`: the protocols [0, closedUpTo) have been handed to a close()
                              -- (connect() registers in order and every close() marks in order: always a prefix)
  handlers : Nat              -- protocols registered in `_protocol_handlers` so far: `connect()` awaits the
                              -- protocols' connect() one after the other, anything can happen in between
  deviceHeld : Bool           -- the user still holds the device object (object 0) itself; the interface
                              -- objects obtained from it earlier stay in the user's hands regardless
  deriving Repr

/-- after `__init__` (`_shield_everything`) and `connect()` -/
def init (cfg : Cfg) : St :=
  { callsMade := 0, pending := none, tasks := 0, nextId := 0, closeLog := [],
    shield := List.replicate cfg.nObjs (some false), pushOn := false,
    notified := [], reports := [], inner := [], raised := false, flying := false,
    listener := cfg.listener, pushListener := true, closedUpTo := 0, handlers := cfg.connected0,
    deviceHeld := true }

/-- `shield.is_blocking(obj)` -/
def isBlocking (s : St) (o : Nat) : Bool := s.shield[o]? == some (some true)

/-- `_block_everything`: `shield.block` on each object in order; an unshielded object makes
    `block` raise InvalidStateError there (second component), the rest stays untouched -/
def blockFrom : List Shield → List Shield × Bool
  | [] => ([], false)
  | none :: rest => (none :: rest, true)
  | some _ :: rest => let r := blockFrom rest; (some true :: r.1, r.2)

def blockEverything (s : St) : St :=
  let r := blockFrom s.shield
  { s with shield := r.1, raised := s.raised || r.2 }

/-- does calling member `m` raise BlockedStateError now? -/
def apiBlocked (cfg : Cfg) (s : St) (m : Row) : Bool :=
  match m.guard with
  | .guarded => isBlocking s m.obj
  | .derived via => via.any fun j =>
      match cfg.members[j]? with
      | some mj => mj.guard == .guarded && isBlocking s mj.obj
      | none => false
  | .unguarded => false
  | .closeExempt => false

def apiOut (cfg : Cfg) (s : St) (m : Nat) : Out :=
  match cfg.members[m]? with
  | some row => if apiBlocked cfg s row then .blocked else .pass
  | none => .badMember

/-- what `close()` hands back once it has returned normally -/
def closeOut (s : St) : Out :=
  match s.pending with
  | some id => if s.raised then .raised else .set id s.tasks
  | none => .raised

/-- the calls a handler makes from inside its callback; `k` is `FacadeAppleTV.close`.  Each
    call's outcome (also an exception) is caught by the handler and recorded. -/
def runInner (cfg : Cfg) (k : St → St) (dl : Bool) : St → List InEv → St
  | s, [] => s
  | s, .api m :: es =>
    runInner cfg k dl { s with inner := s.inner ++ [(dl, .api m, apiOut cfg s m)] } es
  | s, .close :: es =>
    let s' := k s
    if s'.flying then
      runInner cfg k dl { s' with flying := false, inner := s'.inner ++ [(dl, .close, .userRaised)] } es
    else
      runInner cfg k dl { s' with inner := s'.inner ++ [(dl, .close, closeOut s')] } es

/-- the user's DeviceListener handler is invoked for report `r` -/
def handler (cfg : Cfg) (k : St → St) (s : St) (r : Report) (b : Beh) : St :=
  let s := { s with notified := s.notified ++ [r] }
  let s := runInner cfg k true s b.inner
  if b.raises then { s with flying := true } else s

/-- `_ListenerProxy.__getattr__(attr)` followed by the call of what it returned, for a report
    `r`; `k` is `producer.state_was_updated` (= `FacadeAppleTV.close`, result dropped). -/
def reportWith (cfg : Cfg) (k : St → St) (s : St) (r : Report) (b : Beh) : St :=
  let s := { s with reports := s.reports ++ [r], callsMade := s.callsMade + 1 }
  if cfg.maxCalls ≠ 0 ∧ s.callsMade > cfg.maxCalls then s
  else match s.listener with
    | .none => k s
    | .alive => let s := k s; if s.flying then s else handler cfg k s r b
    | .dead => s

/-- the `for setup_data in self._protocol_handlers.values()` loop of `close()`, from protocol
    index `i` on; an exception in flight leaves the protocol's `close()` and the loop -/
def closeProtos (cfg : Cfg) (k : St → St) : Nat → List Proto → St → St
  | _, [], s => s
  | i, p :: ps, s =>
    let s := { s with closeLog := s.closeLog ++ [i] }
    let s := p.onClose.foldl
      (fun s rb => if s.flying then s else reportWith cfg k s ⟨i, rb.1⟩ rb.2) s
    if s.flying then s
    else
      let s := { s with tasks := s.tasks + p.tasks }
      closeProtos cfg k (i + 1) ps s

/-- the second half of `close()` ("fix: closing the facade again closes protocols connected after
    the first close"): on a device that is already closed,
        for protocol, setup_data in list(self._protocol_handlers.items()):
            if protocol not in self._closed_protocols:
                self._closed_protocols.add(protocol)
                self._pending_tasks.update(setup_data.close())
    — protocols that finished connecting after the close are closed now, their tasks join the same
    set; an exception in flight leaves the loop (the protocol is marked, later ones are not) -/
def lateLoop (cfg : Cfg) (k : St → St) : Nat → List Proto → St → St
  | _, [], s => s
  | i, p :: ps, s =>
    if i < s.closedUpTo then lateLoop cfg k (i + 1) ps s
    else
      let s := { s with closedUpTo := i + 1, closeLog := s.closeLog ++ [i] }
      let s := p.onClose.foldl
        (fun s rb => if s.flying then s else reportWith cfg k s ⟨i, rb.1⟩ rb.2) s
      if s.flying then s
      else lateLoop cfg k (i + 1) ps { s with tasks := s.tasks + p.tasks }

/-- `FacadeAppleTV.close()` (the returned set is `pending` of the result) -/
def closeF (cfg : Cfg) : Nat → St → St
  | 0, s => { s with raised := true }
  | fuel + 1, s =>
    match s.pending with
    | some _ => lateLoop cfg (closeF cfg fuel) 0 (cfg.protos.take s.handlers) s
    | none =>
      -- self.push_updater.stop(): both members are guarded
      if isBlocking s 0 || isBlocking s cfg.pushObj then { s with raised := true }
      else
        let s := { s with pushOn := false }
        let s := { s with pending := some s.nextId, nextId := s.nextId + 1, tasks := 1 }
        let s := blockEverything s
        -- only what connect() has registered so far is in `_protocol_handlers`; all of it is
        -- recorded in `_closed_protocols` before the loop starts
        if s.raised then s
        else closeProtos cfg (closeF cfg fuel) 0 (cfg.protos.take s.handlers)
          { s with closedUpTo := (cfg.protos.take s.handlers).length }

/-- fuel used by the top-level entry points: a close() nests at most twice (the late loop's first
    delivered report → `state_was_updated` → close() over the remaining late protocols, whose reports
    are all swallowed; a close() made by the user's handler afterwards finds nothing left) -/
abbrev topFuel : Nat := 3

inductive Ev
  | report (i : Nat) (k : Kind) (b : Beh)  -- protocol i: core.device_listener.listener.connection_lost/closed;
                                           -- b = what the user's handler does if it is invoked
  | userClose                     -- atv.close()
  | api (m : Nat)                 -- a call of public member number m on the object the user holds
  | pushStart                     -- push_updater.start() on the held FacadePushUpdater
  | pushStartFault                -- … during which a protocol's own updater raises from its start(): the
                                  -- facade has made itself the listener of every updater up to that one
                                  -- (`instance.listener = self` precedes `instance.start()`), the main one included
  | tasksCancelled                -- the caller cancels the tasks close() handed out (`wait_for(gather(*atv.close()), t)`
                                  -- timing out, application shutdown) — or they complete, or stay pending: close()
                                  -- never looks at the state of the tasks it has handed out (facade.py:744-778)
  | connectNext                   -- the connect() of the protocol that `FacadeAppleTV.connect()` is awaiting
                                  -- completes: it is registered (facade.py:718-728); connect() touches neither
                                  -- the shield flags nor `_pending_tasks`
  | pushStop                      -- push_updater.stop()
  | push (i : Nat) (b : Beh)      -- protocol i's push updater posts an update; b = the PushListener handler
  | setListener (some : Bool)     -- the application assigns `atv.listener` again: an object (the same one or a
                                  -- new one) or None — pyatv/support/state_producer.py:66-71, the setter only
                                  -- replaces the weak reference, `calls_made` is untouched
  | setPushListener (some : Bool) -- … or `push_updater.listener`
  | dropDevice                    -- the user drops every reference to the device object (`self.atv = None`,
                                  -- the object may be garbage-collected) and keeps only the interface objects
                                  -- (`rc = atv.remote_control`, …) it obtained before
  deriving DecidableEq, Repr

def step (cfg : Cfg) (s : St) : Ev → St × Out
  | .report i k b =>
    let s' := reportWith cfg (closeF cfg topFuel) s ⟨i, k⟩ b
    if s'.flying then ({ s' with flying := false }, .escaped) else (s', .none)
  | .userClose =>
    let s' := closeF cfg topFuel s
    if s'.flying then ({ s' with flying := false }, .userRaised) else (s', closeOut s')
  | .api m =>
    -- members of the device object itself cannot be called once it was dropped; members of the
    -- interface objects answer from their own shield flag, whether or not the device object lives
    match cfg.members[m]? with
    | some row => if !s.deviceHeld && row.obj == 0 then (s, .gone) else (s, apiOut cfg s m)
    | none => (s, .badMember)
  | .dropDevice => ({ s with deviceHeld := false }, .none)
  | .setListener b => ({ s with listener := if b then .alive else .none }, .none)
  | .setPushListener b => ({ s with pushListener := b }, .none)
  | .pushStart =>
    if isBlocking s cfg.pushObj then (s, .blocked) else ({ s with pushOn := true }, .pass)
  | .pushStartFault =>
    if isBlocking s cfg.pushObj then (s, .blocked) else ({ s with pushOn := true }, .faulted)
  | .connectNext => ({ s with handlers := s.handlers + 1 }, .none)
  | .tasksCancelled => (s, .none)
  | .pushStop =>
    if isBlocking s cfg.pushObj then (s, .blocked) else ({ s with pushOn := false }, .pass)
  | .push i b =>
    -- an exception of the PushListener handler ends in the event loop's exception handler
    if s.pushOn && i == 0 && s.pushListener then
      (runInner cfg (closeF cfg topFuel) false s b.inner, .delivered true)
    else (s, .delivered false)

def run (cfg : Cfg) (s : St) : List Ev → St
  | [] => s
  | e :: es => run cfg (step cfg s e).1 es

def outputs (cfg : Cfg) (s : St) : List Ev → List Out
  | [] => []
  | e :: es => (step cfg s e).2 :: outputs cfg (step cfg s e).1 es

/-- the facade as generated from the source tree -/
def facadeCfgC (listener : Listener) (protos : List Proto) (connected0 : Nat) : Cfg :=
  { maxCalls := Gen.C09.maxCalls, nObjs := Gen.C09.objects.length, pushObj := Gen.C09.pushObj,
    members := Gen.C09.members, listener := listener, protos := protos, connected0 := connected0 }

/-- … with every protocol connected before the history starts -/
def facadeCfg (listener : Listener) (protos : List Proto) : Cfg :=
  facadeCfgC listener protos protos.length

end PyatvModel.C09
