import PyatvModel.Base.Bytes
import PyatvModel.C09.Model
/-
Line protocol (stateless, one case per line):

  seq <listener> <protos> <events> [<connected0>]
     connected0 : how many protocols FacadeAppleTV.connect() has registered when the history starts (default all);
                  event `c` = the next protocol's connect() completes;  `sF` = push_updater.start() in which a
                  protocol's own updater raises
     listener : n | a | d                         (never set | alive | garbage-collected)
     protos   : csv of <tasks>:<reports>          reports = `.`-joined reports emitted by close(): <kind><beh> ; `-` none
                kind = c | l<e>                   e.g.  1:c,0:-,2:l7.c~a10+u!
     beh      : [~<inner>][!]                     what the user's handler does when invoked: inner = `+`-joined
                                                  a<m> (API member m) | u (close()); `!` = then raises
     events   : csv (`-` = empty) of
                r<i><kind><beh>    protocol i reports closed | lost(exception e)      (i one digit)
                u                  atv.close()
                a<m>               public member number m of the generated table
                s | t              push_updater.start() | .stop() on the held object
                L0 | L1 | L2       atv.listener = None | the object registered last (a new one if none is held) | a new object
                M0 | M1 | M2       push_updater.listener = None | same object | new object
                K                  the caller cancels every task close() has handed out so far
                x                  the user drops the device object, keeps the interface objects obtained before
                p<i><beh>          protocol i's push updater posts an update (beh = the PushListener handler)
  → <outs> N=<notified> C=<calls_made> K=<close log> P=<id:tasks|-> B=<per member 1 blocked/0> S=<push on> R=<raised> I=<inner>
     outs     : csv per event: `-` | set<id>:<n> | raised | userRaised | escaped | blocked | pass | d0 | d1
     notified : csv of <i>c | <i>l<e>
     inner    : csv of <d|p><a<m>|u>=<out>       calls made from inside DeviceListener (d) / PushListener (p) callbacks

  table    → number of members, objects, push object index, max_calls (sanity handshake)
-/
namespace PyatvModel.C09

def parseKind? (cs : List Char) : Option Kind :=
  match cs with
  | ['c'] => some .closed
  | 'l' :: ds => if ds.isEmpty then none else (String.ofList ds).toNat?.map Kind.lost
  | _ => none

def parseInEv? (w : String) : Option InEv :=
  match w.toList with
  | ['u'] => some .close
  | 'a' :: ds => if ds.isEmpty then none else (String.ofList ds).toNat?.map InEv.api
  | _ => none

/-- `<head>[~inner][!]` → (head, beh) -/
def splitBeh? (w : String) : Option (String × Beh) :=
  let cs := w.toList
  let raises := cs.getLast? == some '!'
  let cs := if raises then cs.dropLast else cs
  match (String.ofList cs).splitOn "~" with
  | [h] => some (h, { inner := [], raises := raises })
  | [h, inn] => do
    let es ← (inn.splitOn "+").mapM parseInEv?
    pure (h, { inner := es, raises := raises })
  | _ => none

def parseReportTok? (w : String) : Option (Kind × Beh) := do
  let (h, b) ← splitBeh? w
  let k ← parseKind? h.toList
  pure (k, b)

def parseProto? (w : String) : Option Proto :=
  match w.splitOn ":" with
  | [t, ks] => do
    let t ← t.toNat?
    let ks ← if ks == "-" then some [] else (ks.splitOn ".").mapM parseReportTok?
    pure { onClose := ks, tasks := t }
  | _ => none

def parseEv? (w : String) : Option Ev :=
  match w.toList with
  | ['u'] => some .userClose
  | ['s'] => some .pushStart
  | ['t'] => some .pushStop
  | ['x'] => some .dropDevice
  | ['c'] => some .connectNext
  | ['K'] => some .tasksCancelled
  | ['s', 'F'] => some .pushStartFault
  | ['L', '0'] => some (.setListener false)
  | ['L', '1'] => some (.setListener true)
  | ['L', '2'] => some (.setListener true)
  | ['M', '0'] => some (.setPushListener false)
  | ['M', '1'] => some (.setPushListener true)
  | ['M', '2'] => some (.setPushListener true)
  | 'r' :: d :: rest =>
    if d.isDigit then do
      let (k, b) ← parseReportTok? (String.ofList rest)
      pure (Ev.report (d.toNat - 48) k b)
    else none
  | 'a' :: ds => if ds.isEmpty then none else (String.ofList ds).toNat?.map Ev.api
  | 'p' :: rest => do
    let (h, b) ← splitBeh? (String.ofList rest)
    let i ← h.toNat?
    pure (Ev.push i b)
  | _ => none

def parseListener? : String → Option Listener
  | "n" => some .none | "a" => some .alive | "d" => some .dead | _ => none

def Kind.toStr : Kind → String
  | .closed => "c"
  | .lost e => s!"l{e}"

def Report.toStr (r : Report) : String := s!"{r.proto}{r.kind.toStr}"

def Out.toStr : Out → String
  | .none => "-"
  | .set id n => s!"set{id}:{n}"
  | .raised => "raised"
  | .userRaised => "userRaised"
  | .escaped => "escaped"
  | .blocked => "blocked"
  | .pass => "pass"
  | .badMember => "bad-member"
  | .delivered b => if b then "d1" else "d0"
  | .gone => "gone"
  | .faulted => "faulted"

def innerToStr (e : Bool × InEv × Out) : String :=
  let who := if e.1 then "d" else "p"
  let what := match e.2.1 with | .api m => s!"a{m}" | .close => "u"
  s!"{who}{what}={e.2.2.toStr}"

def csvList? (w : String) : List String := if w == "-" then [] else w.splitOn ","

def inRange (n : Nat) (b : Beh) : Bool :=
  b.inner.all fun e => match e with | .api m => m < n | .close => true

def handle (_ : Unit) (ws : List String) : Unit × String :=
  match ws with
  | ["table"] =>
    ((), s!"{Gen.C09.members.length} {Gen.C09.objects.length} {Gen.C09.pushObj} {Gen.C09.maxCalls}")
  | "seq" :: l :: ps :: es :: rest =>
    match parseListener? l, (csvList? ps).mapM parseProto?, (csvList? es).mapM parseEv?,
        (match rest with | [] => some none | [c] => c.toNat?.map some | _ => none) with
    | some l, some ps, some es, some c0 =>
      let cfg := facadeCfgC l ps (c0.getD ps.length)
      let n := cfg.members.length
      let okEv := es.all fun e => match e with
        | .api m => m < n | .report _ _ b => inRange n b | .push _ b => inRange n b | _ => true
      let okP := ps.all fun p => p.onClose.all fun rb => inRange n rb.2
      if !(okEv && okP) then ((), "bad-op")
      else
        let s0 := init cfg
        let outs := outputs cfg s0 es
        let s := run cfg s0 es
        let pend := match s.pending with | some id => s!"{id}:{s.tasks}" | none => "-"
        let bits := String.ofList (cfg.members.map fun m => if apiBlocked cfg s m then '1' else '0')
        ((), s!"{csv (outs.map Out.toStr)} N={csv (s.notified.map Report.toStr)} C={s.callsMade} "
          ++ s!"K={csv (s.closeLog.map toString)} P={pend} B={bits} S={if s.pushOn then 1 else 0} "
          ++ s!"R={if s.raised then 1 else 0} I={csv (s.inner.map innerToStr)}")
    | _, _, _, _ => ((), "bad-op")
  | _ => ((), "bad-op")

end PyatvModel.C09
