import PyatvModel.Base.Bytes
import PyatvModel.C09.Model
/-
Line protocol (stateless, one case per line):

  seq <listener> <protos> <events>
     listener : n | a | d                         (never set | alive | garbage-collected)
     protos   : csv of <tasks>:<kinds>            kinds = `.`-joined reports emitted by close(): c | l<e> ; `-` none
                e.g.  1:c,0:-,2:l7.c
     events   : csv (`-` = empty) of
                r<i>c | r<i>l<e>   protocol i reports closed | lost(exception e)      (i one digit)
                u                  atv.close()
                a<m>               public member number m of the generated table
                s | t              push_updater.start() | .stop() on the held object
                p<i>               protocol i's push updater posts an update
  → <outs> N=<notified> C=<calls_made> K=<close log> P=<id:tasks|-> B=<per member 1 blocked/0> S=<push on> R=<raised>
     outs     : csv per event: `-` | set<id>:<n> | raised | blocked | pass | d0 | d1
     notified : csv of <i>c | <i>l<e>

  table    → number of members, objects, push object index, max_calls (sanity handshake)
-/
namespace PyatvModel.C09

def parseKind? (cs : List Char) : Option Kind :=
  match cs with
  | ['c'] => some .closed
  | 'l' :: ds => if ds.isEmpty then none else (String.ofList ds).toNat?.map Kind.lost
  | _ => none

def parseProto? (w : String) : Option Proto :=
  match w.splitOn ":" with
  | [t, ks] => do
    let t ← t.toNat?
    let ks ← if ks == "-" then some [] else (ks.splitOn ".").mapM fun k => parseKind? k.toList
    pure { onClose := ks, tasks := t }
  | _ => none

def parseEv? (w : String) : Option Ev :=
  match w.toList with
  | ['u'] => some .userClose
  | ['s'] => some .pushStart
  | ['t'] => some .pushStop
  | 'r' :: d :: rest =>
    if d.isDigit then (parseKind? rest).map (Ev.report (d.toNat - 48)) else none
  | 'a' :: ds => if ds.isEmpty then none else (String.ofList ds).toNat?.map Ev.api
  | 'p' :: ds => if ds.isEmpty then none else (String.ofList ds).toNat?.map Ev.push
  | _ => none

def parseListener? : String → Option Listener
  | "n" => some .none | "a" => some .alive | "d" => some .dead | _ => none

def Kind.toStr : Kind → String
  | .closed => "c"
  | .lost e => s!"l{e}"

def Report.toStr (r : Report) : String := s!"{r.proto}{r.kind.toStr}"

def Out.toStr : Out → String
  | .none => "-"
  | .set id n => s!"set{id}:{n}"
  | .raised => "raised"
  | .blocked => "blocked"
  | .pass => "pass"
  | .badMember => "bad-member"
  | .delivered b => if b then "d1" else "d0"

def csvList? (w : String) : List String := if w == "-" then [] else w.splitOn ","

def handle (_ : Unit) (ws : List String) : Unit × String :=
  match ws with
  | ["table"] =>
    ((), s!"{Gen.C09.members.length} {Gen.C09.objects.length} {Gen.C09.pushObj} {Gen.C09.maxCalls}")
  | ["seq", l, ps, es] =>
    match parseListener? l, (csvList? ps).mapM parseProto?, (csvList? es).mapM parseEv? with
    | some l, some ps, some es =>
      let cfg := facadeCfg l ps
      if es.any (fun e => match e with | .api m => m ≥ cfg.members.length | _ => false) then ((), "bad-op")
      else
        let s0 := init cfg
        let outs := outputs cfg s0 es
        let s := run cfg s0 es
        let pend := match s.pending with | some id => s!"{id}:{s.tasks}" | none => "-"
        let bits := String.ofList (cfg.members.map fun m => if apiBlocked cfg s m then '1' else '0')
        ((), s!"{csv (outs.map Out.toStr)} N={csv (s.notified.map Report.toStr)} C={s.callsMade} "
          ++ s!"K={csv (s.closeLog.map toString)} P={pend} B={bits} S={if s.pushOn then 1 else 0} "
          ++ s!"R={if s.raised then 1 else 0}")
    | _, _, _ => ((), "bad-op")
  | _ => ((), "bad-op")

end PyatvModel.C09
