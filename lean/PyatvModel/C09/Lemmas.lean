import PyatvModel.C09.Model
/-
C09 — invariants of the facade life-cycle model.

`Mid`  holds from the moment `close()` has stored `_pending_tasks` and blocked everything (so
       also during the protocol loop, while protocols report re-entrantly and user handlers run,
       re-enter the API / close(), or raise) — parameterised by the notification `d` that the
       caller of `state_was_updated` will still append;
`Inv`  holds in every state between two events.
-/
namespace PyatvModel.C09
open PyatvModel.Gen.C09 (Row Guard)

/-- what the user's DeviceListener must have received, given the history of reports -/
def firstOf : Listener → List Report → List Report
  | .alive, rs => rs.take 1
  | _, _ => []

/-- well-formed configuration: the facade as written (`max_calls = 1`, the shielded objects
    exist) and a listener that is not garbage-collected -/
structure WF (cfg : Cfg) : Prop where
  maxCalls : cfg.maxCalls = 1
  top : 0 < cfg.nObjs
  push : cfg.pushObj < cfg.nObjs
  live : cfg.listener ≠ .dead

theorem firstOf_nil (l : Listener) : firstOf l [] = [] := by
  cases l <;> rfl

theorem firstOf_append_of_ne (l : Listener) (rs t : List Report) (h : rs ≠ []) :
    firstOf l (rs ++ t) = firstOf l rs := by
  cases l <;> simp [firstOf]
  cases rs with
  | nil => exact absurd rfl h
  | cons a as => simp

theorem firstOf_prefix (l : Listener) (rs : List Report) : firstOf l rs <+: rs.take 1 := by
  cases l <;> simp [firstOf]

theorem firstOf_length_le (l : Listener) (rs : List Report) : (firstOf l rs).length ≤ 1 := by
  cases l <;> simp [firstOf]
  omega

/-! ### shield -/

theorem blockFrom_replicate (n : Nat) (b : Bool) :
    blockFrom (List.replicate n (some b)) = (List.replicate n (some true), false) := by
  induction n with
  | zero => rfl
  | succ n ih => simp [List.replicate_succ, blockFrom, ih]

theorem isBlocking_open (s : St) (n o : Nat) (h : s.shield = List.replicate n (some false)) :
    isBlocking s o = false := by
  unfold isBlocking
  rw [h]
  by_cases ho : o < n
  · simp [ho]
  · simp [ho]

theorem isBlocking_closed (s : St) (n o : Nat) (h : s.shield = List.replicate n (some true))
    (ho : o < n) : isBlocking s o = true := by
  unfold isBlocking
  rw [h]
  simp [ho]

/-! ### protected members -/

/-- member `m` of table `tbl` is protected against use after close (`n` shielded objects) -/
def rowProtected (n : Nat) (tbl : List Row) (m : Row) : Bool :=
  match m.guard with
  | .guarded => decide (m.obj < n)
  | .closeExempt => true
  | .unguarded => false
  | .derived via => !via.isEmpty && via.all fun j =>
      match tbl[j]? with
      | some mj => mj.guard == .guarded && decide (mj.obj < n)
      | none => false

theorem apiBlocked_of_closed (cfg : Cfg) (s : St) (m : Row)
    (hsh : s.shield = List.replicate cfg.nObjs (some true))
    (hm : rowProtected cfg.nObjs cfg.members m = true) (hx : m.guard ≠ .closeExempt) :
    apiBlocked cfg s m = true := by
  have hb : ∀ o, o < cfg.nObjs → isBlocking s o = true :=
    fun o ho => isBlocking_closed _ cfg.nObjs o hsh ho
  unfold rowProtected at hm
  unfold apiBlocked
  cases hg : m.guard with
  | guarded =>
    rw [hg] at hm
    exact hb _ (by simpa using hm)
  | closeExempt => exact absurd hg hx
  | unguarded => rw [hg] at hm; simp at hm
  | derived via =>
    rw [hg] at hm
    simp only [Bool.and_eq_true, Bool.not_eq_true', List.all_eq_true] at hm
    obtain ⟨hne, hall⟩ := hm
    cases via with
    | nil => simp at hne
    | cons j js =>
      simp only [List.any_cons, Bool.or_eq_true]
      left
      have hj := hall j (by simp)
      cases hrow : cfg.members[j]? with
      | none => rw [hrow] at hj; simp at hj
      | some mj =>
        rw [hrow] at hj
        simp only [Bool.and_eq_true, decide_eq_true_eq] at hj
        simp only [hj.1, Bool.true_and]
        exact hb _ hj.2

/-- what a call made from inside the DeviceListener callback must have seen -/
def InnerOk (cfg : Cfg) (e : Bool × InEv × Out) : Prop :=
  e.1 = true →
    match e.2.1 with
    | .api m => ∀ row, cfg.members[m]? = some row →
        rowProtected cfg.nObjs cfg.members row = true → row.guard ≠ .closeExempt → e.2.2 = .blocked
    | .close => ∃ x n, e.2.2 = .set x n

/-! ### close() once the task set is cached -/

/-- every protocol `connect()` has registered so far has been handed to a `close()` -/
def NoLate (cfg : Cfg) (s : St) : Prop := (cfg.protos.take s.handlers).length ≤ s.closedUpTo

theorem lateLoop_skip (cfg : Cfg) (k : St → St) (ps : List Proto) :
    ∀ i s, i + ps.length ≤ s.closedUpTo → lateLoop cfg k i ps s = s := by
  induction ps with
  | nil => intro i s _; rfl
  | cons p ps ih =>
    intro i s h
    have hlt : i < s.closedUpTo := by simp at h; omega
    rw [lateLoop, if_pos hlt]
    exact ih (i + 1) s (by simp at h; omega)

theorem closeF_cached (cfg : Cfg) (f : Nat) (s : St) (x : Nat) (h : s.pending = some x)
    (hnl : NoLate cfg s) : closeF cfg (f + 1) s = s := by
  rw [closeF]
  simp only [h]
  exact lateLoop_skip cfg _ _ 0 s (by simpa [NoLate] using hnl)

/-- a continuation that behaves like a `close()` that hits the cache -/
def Cached (cfg : Cfg) (k : St → St) : Prop := ∀ s x, s.pending = some x → NoLate cfg s → k s = s

theorem cached_closeF (cfg : Cfg) (f : Nat) : Cached cfg (closeF cfg (f + 1)) :=
  fun s x h hnl => closeF_cached cfg f s x h hnl

structure Mid (cfg : Cfg) (x : Nat) (q : Bool) (d : List Report) (s : St) : Prop where
  nolate : NoLate cfg s
  pending : s.pending = some x
  raised : s.raised = false
  calls : s.callsMade = s.reports.length
  notif : ∃ l, s.notified ++ d = firstOf l s.reports   -- l: what was registered when the first report came
  shield : s.shield = List.replicate cfg.nObjs (some true)
  pushOn : s.pushOn = false
  inner : ∀ e ∈ s.inner, InnerOk cfg e
  quiet : q = true → 1 ≤ s.callsMade ∧ s.flying = false

theorem Mid.weaken {cfg : Cfg} {x q d s} (h : Mid cfg x q d s) : Mid cfg x false d s :=
  ⟨h.nolate, h.pending, h.raised, h.calls, h.notif, h.shield, h.pushOn, h.inner, by simp⟩

/-- the cached task set and the close log stay what they are -/
def Frame (s s' : St) : Prop :=
  s'.pending = s.pending ∧ s'.tasks = s.tasks ∧ s'.closeLog = s.closeLog

theorem Frame.refl (s : St) : Frame s s := ⟨rfl, rfl, rfl⟩

theorem Frame.trans {a b c : St} (h1 : Frame a b) (h2 : Frame b c) : Frame a c :=
  ⟨h2.1.trans h1.1, h2.2.1.trans h1.2.1, h2.2.2.trans h1.2.2⟩

/-- what the cached regime leaves alone: the above and the registered listener -/
def Same (s s' : St) : Prop :=
  Frame s s' ∧ s'.listener = s.listener ∧ s'.handlers = s.handlers ∧ s'.closedUpTo = s.closedUpTo

theorem Same.refl (s : St) : Same s s := ⟨Frame.refl s, rfl, rfl, rfl⟩

theorem Same.trans {a b c : St} (h1 : Same a b) (h2 : Same b c) : Same a c :=
  ⟨Frame.trans h1.1 h2.1, h2.2.1.trans h1.2.1, h2.2.2.1.trans h1.2.2.1, h2.2.2.2.trans h1.2.2.2⟩

/-- user code inside the DeviceListener callback, after the device has been blocked: every
    protected member answers `blocked`, `close()` answers the cached set -/
theorem runInner_cached {cfg : Cfg} {k : St → St} {x q d} (hk : Cached cfg k) (dl : Bool)
    (es : List InEv) :
    ∀ s, Mid cfg x q d s → s.flying = false →
      Mid cfg x q d (runInner cfg k dl s es) ∧ (runInner cfg k dl s es).flying = false ∧
        Same s (runInner cfg k dl s es) := by
  induction es with
  | nil => intro s h hf; exact ⟨h, hf, Same.refl s⟩
  | cons e es ih =>
    intro s h hf
    cases e with
    | api m =>
      simp only [runInner]
      have h1 : Mid cfg x q d { s with inner := s.inner ++ [(dl, InEv.api m, apiOut cfg s m)] } := by
        refine ⟨h.nolate, h.pending, h.raised, h.calls, h.notif, h.shield, h.pushOn, ?_, h.quiet⟩
        intro e he
        rcases List.mem_append.mp he with he | he
        · exact h.inner e he
        · simp only [List.mem_singleton] at he
          subst he
          intro _
          intro row hrow hprot hx
          simp only [apiOut, hrow, apiBlocked_of_closed cfg s row h.shield hprot hx, if_true]
      obtain ⟨a, b, c⟩ := ih _ h1 hf
      exact ⟨a, b, Same.trans ⟨⟨rfl, rfl, rfl⟩, rfl, rfl, rfl⟩ c⟩
    | close =>
      have hk' := hk s x h.pending h.nolate
      have hstep : runInner cfg k dl s (InEv.close :: es)
          = runInner cfg k dl { s with inner := s.inner ++ [(dl, InEv.close, closeOut s)] } es := by
        simp only [runInner, hk']
        rw [if_neg (by simp [hf])]
      rw [hstep]
      have h1 : Mid cfg x q d { s with inner := s.inner ++ [(dl, InEv.close, closeOut s)] } := by
        refine ⟨h.nolate, h.pending, h.raised, h.calls, h.notif, h.shield, h.pushOn, ?_, h.quiet⟩
        intro e he
        rcases List.mem_append.mp he with he | he
        · exact h.inner e he
        · simp only [List.mem_singleton] at he
          subst he
          intro _
          exact ⟨x, s.tasks, by simp [closeOut, h.pending, h.raised]⟩
      obtain ⟨a, b, c⟩ := ih _ h1 hf
      exact ⟨a, b, Same.trans ⟨⟨rfl, rfl, rfl⟩, rfl, rfl, rfl⟩ c⟩

theorem handler_cached {cfg : Cfg} {k : St → St} {x d s} (hk : Cached cfg k) (r : Report) (b : Beh)
    (h : Mid cfg x false (r :: d) s) (hf : s.flying = false) :
    Mid cfg x false d (handler cfg k s r b) ∧ Same s (handler cfg k s r b) ∧
      (b.raises = false → (handler cfg k s r b).flying = false) := by
  have h0 : Mid cfg x false d { s with notified := s.notified ++ [r] } :=
    ⟨h.nolate, h.pending, h.raised, h.calls, by obtain ⟨l, hl⟩ := h.notif; exact ⟨l, by simpa using hl⟩,
      h.shield, h.pushOn, h.inner, by simp⟩
  obtain ⟨a, bb, c⟩ := runInner_cached (cfg := cfg) hk true b.inner _ h0 hf
  unfold handler
  simp only []
  split
  · rename_i hr
    refine ⟨⟨a.nolate, a.pending, a.raised, a.calls, a.notif, a.shield, a.pushOn, a.inner, by simp⟩,
      Same.trans ⟨⟨rfl, rfl, rfl⟩, rfl, rfl, rfl⟩ c, ?_⟩
    intro hb; rw [hb] at hr; exact absurd hr (by simp)
  · exact ⟨a, Same.trans ⟨⟨rfl, rfl, rfl⟩, rfl, rfl, rfl⟩ c, fun _ => bb⟩

/-! `reportWith` by cases, as equations (so that proofs never have to rewrite inside a state) -/

theorem reportWith_over {cfg : Cfg} {k : St → St} {s : St} (r : Report) (b : Beh)
    (h : cfg.maxCalls ≠ 0 ∧ s.callsMade + 1 > cfg.maxCalls) :
    reportWith cfg k s r b = { s with reports := s.reports ++ [r], callsMade := s.callsMade + 1 } := by
  unfold reportWith
  simp only []
  rw [if_pos h]

theorem reportWith_none {cfg : Cfg} {k : St → St} {s : St} (r : Report) (b : Beh)
    (h : ¬(cfg.maxCalls ≠ 0 ∧ s.callsMade + 1 > cfg.maxCalls)) (hl : s.listener = .none) :
    reportWith cfg k s r b = k { s with reports := s.reports ++ [r], callsMade := s.callsMade + 1 } := by
  unfold reportWith
  simp only []
  rw [if_neg h]
  simp only [hl]

theorem reportWith_dead {cfg : Cfg} {k : St → St} {s : St} (r : Report) (b : Beh)
    (h : ¬(cfg.maxCalls ≠ 0 ∧ s.callsMade + 1 > cfg.maxCalls)) (hl : s.listener = .dead) :
    reportWith cfg k s r b = { s with reports := s.reports ++ [r], callsMade := s.callsMade + 1 } := by
  unfold reportWith
  simp only []
  rw [if_neg h]
  simp only [hl]

theorem reportWith_alive {cfg : Cfg} {k : St → St} {s : St} (r : Report) (b : Beh)
    (h : ¬(cfg.maxCalls ≠ 0 ∧ s.callsMade + 1 > cfg.maxCalls)) (hl : s.listener = .alive) :
    reportWith cfg k s r b =
      if (k { s with reports := s.reports ++ [r], callsMade := s.callsMade + 1 }).flying then
        k { s with reports := s.reports ++ [r], callsMade := s.callsMade + 1 }
      else handler cfg k (k { s with reports := s.reports ++ [r], callsMade := s.callsMade + 1 }) r b := by
  unfold reportWith
  simp only []
  rw [if_neg h]
  simp only [hl]

theorem listener_cases (s : St) :
    s.listener = .none ∨ s.listener = .alive ∨ s.listener = .dead := by
  cases s.listener <;> simp

theorem reportWith_mid {cfg : Cfg} {k : St → St} {x q d s} (hm : cfg.maxCalls = 1)
    (hk : Cached cfg k) (h : Mid cfg x q d s) (hf : s.flying = false) (r : Report) (b : Beh) :
    Mid cfg x q d (reportWith cfg k s r b) ∧ Same s (reportWith cfg k s r b) ∧
      (b.raises = false → (reportWith cfg k s r b).flying = false) := by
  obtain ⟨hnl, hp, hr, hc, ⟨l0, hn⟩, hs, hpo, hin, hq⟩ := h
  by_cases h0 : s.callsMade = 0
  · -- first report ever: delivered
    have hno : ¬(cfg.maxCalls ≠ 0 ∧ s.callsMade + 1 > cfg.maxCalls) := by rw [hm, h0]; simp
    have hq' : q = false := by
      cases q with
      | false => rfl
      | true => have := (hq rfl).1; omega
    subst hq'
    have hrs : s.reports = [] := by
      have : s.reports.length = 0 := by omega
      exact List.eq_nil_of_length_eq_zero this
    rw [hrs, firstOf_nil] at hn
    have hnot : s.notified = [] := (List.append_eq_nil_iff.mp hn).1
    have hd : d = [] := (List.append_eq_nil_iff.mp hn).2
    subst hd
    have hk' := hk { s with reports := s.reports ++ [r], callsMade := s.callsMade + 1 } x hp hnl
    rcases listener_cases s with hl' | hl' | hl'
    · rw [reportWith_none r b hno hl', hk']
      exact ⟨⟨hnl, hp, hr, by simp [hrs, h0], ⟨.none, by simp [firstOf, hnot]⟩, hs, hpo, hin, by simp⟩,
        ⟨⟨rfl, rfl, rfl⟩, rfl, rfl, rfl⟩, fun _ => hf⟩
    · rw [reportWith_alive r b hno hl', hk']
      rw [if_neg (by simp [hf])]
      have hmid : Mid cfg x false [r]
          { s with reports := s.reports ++ [r], callsMade := s.callsMade + 1 } :=
        ⟨hnl, hp, hr, by simp [hrs, h0], ⟨.alive, by simp [firstOf, hnot, hrs]⟩, hs, hpo, hin, by simp⟩
      obtain ⟨a, bb, c⟩ := handler_cached (cfg := cfg) hk r b hmid hf
      exact ⟨a, Same.trans ⟨⟨rfl, rfl, rfl⟩, rfl, rfl, rfl⟩ bb, c⟩
    · rw [reportWith_dead r b hno hl']
      exact ⟨⟨hnl, hp, hr, by simp [hrs, h0], ⟨.dead, by simp [firstOf, hnot]⟩, hs, hpo, hin, by simp⟩,
        ⟨⟨rfl, rfl, rfl⟩, rfl, rfl, rfl⟩, fun _ => hf⟩
  · -- max_calls exhausted: swallowed
    have hne : s.reports ≠ [] := by
      intro he; rw [he] at hc; simp at hc; exact h0 hc
    have hover : cfg.maxCalls ≠ 0 ∧ s.callsMade + 1 > cfg.maxCalls := by rw [hm]; omega
    rw [reportWith_over r b hover]
    exact ⟨⟨hnl, hp, hr, by simp [hc], ⟨l0, by simpa [firstOf_append_of_ne _ _ _ hne] using hn⟩, hs, hpo, hin,
      fun hq1 => ⟨by simp, (hq hq1).2⟩⟩, ⟨⟨rfl, rfl, rfl⟩, rfl, rfl, rfl⟩, fun _ => hf⟩

/-- the reports one protocol emits while it is being closed -/
abbrev emit (cfg : Cfg) (k : St → St) (i : Nat) (s : St) (rb : Kind × Beh) : St :=
  if s.flying then s else reportWith cfg k s ⟨i, rb.1⟩ rb.2

theorem foldl_emit_mid {cfg : Cfg} {k : St → St} {x q d} (hm : cfg.maxCalls = 1)
    (hk : Cached cfg k) (i : Nat) (rbs : List (Kind × Beh)) :
    ∀ s, Mid cfg x q d s →
      Mid cfg x q d (rbs.foldl (emit cfg k i) s) ∧ Same s (rbs.foldl (emit cfg k i) s) ∧
        ((∀ rb ∈ rbs, rb.2.raises = false) → s.flying = false →
          (rbs.foldl (emit cfg k i) s).flying = false) := by
  induction rbs with
  | nil => intro s h; exact ⟨h, Same.refl s, fun _ hf => hf⟩
  | cons rb rbs ih =>
    intro s h
    simp only [List.foldl_cons]
    by_cases hf : s.flying = true
    · have he : emit cfg k i s rb = s := by simp [emit, hf]
      rw [he]
      obtain ⟨a, b, _⟩ := ih s h
      exact ⟨a, b, fun _ hf' => by rw [hf'] at hf; exact absurd hf (by simp)⟩
    · have hf' : s.flying = false := by simpa using hf
      have he : emit cfg k i s rb = reportWith cfg k s ⟨i, rb.1⟩ rb.2 := by simp [emit, hf']
      rw [he]
      obtain ⟨a, b, c⟩ := reportWith_mid hm hk h hf' ⟨i, rb.1⟩ rb.2
      obtain ⟨a', b', c'⟩ := ih _ a
      refine ⟨a', Same.trans b b', ?_⟩
      intro hben _
      exact c' (fun rb' hrb' => hben rb' (List.mem_cons_of_mem _ hrb')) (c (hben rb (by simp)))

theorem closeProtos_mid {cfg : Cfg} {k : St → St} {x q d} (hm : cfg.maxCalls = 1)
    (hk : Cached cfg k) (ps : List Proto) :
    ∀ i s, Mid cfg x q d s →
      Mid cfg x q d (closeProtos cfg k i ps s) ∧
      (∃ j, j ≤ ps.length ∧ (closeProtos cfg k i ps s).closeLog = s.closeLog ++ List.range' i j ∧
        ((closeProtos cfg k i ps s).flying = false → j = ps.length)) ∧
      ((∀ p ∈ ps, ∀ rb ∈ p.onClose, rb.2.raises = false) → s.flying = false →
        (closeProtos cfg k i ps s).flying = false) := by
  induction ps with
  | nil =>
    intro i s h
    exact ⟨by simpa [closeProtos] using h, ⟨0, by simp [closeProtos]⟩, fun _ hf => by simpa [closeProtos] using hf⟩
  | cons p ps ih =>
    intro i s h
    have h1 : Mid cfg x q d { s with closeLog := s.closeLog ++ [i] } :=
      ⟨h.nolate, h.pending, h.raised, h.calls, h.notif, h.shield, h.pushOn, h.inner, h.quiet⟩
    obtain ⟨h2, hsame, hben2⟩ := foldl_emit_mid hm hk i p.onClose _ h1
    have hlog2 : (p.onClose.foldl (emit cfg k i) { s with closeLog := s.closeLog ++ [i] }).closeLog
        = s.closeLog ++ [i] := hsame.1.2.2
    show Mid cfg x q d (closeProtos cfg k i (p :: ps) s) ∧ _
    rw [show closeProtos cfg k i (p :: ps) s =
      (if (p.onClose.foldl (emit cfg k i) { s with closeLog := s.closeLog ++ [i] }).flying then
        p.onClose.foldl (emit cfg k i) { s with closeLog := s.closeLog ++ [i] }
       else closeProtos cfg k (i + 1) ps
        { (p.onClose.foldl (emit cfg k i) { s with closeLog := s.closeLog ++ [i] }) with
          tasks := (p.onClose.foldl (emit cfg k i) { s with closeLog := s.closeLog ++ [i] }).tasks + p.tasks })
      from rfl]
    generalize hs2 : p.onClose.foldl (emit cfg k i) { s with closeLog := s.closeLog ++ [i] } = s2 at *
    by_cases hf2 : s2.flying = true
    · rw [if_pos hf2]
      refine ⟨h2, ⟨1, by simp, by simp [hlog2, List.range'], fun hff => ?_⟩, ?_⟩
      · rw [hff] at hf2; exact absurd hf2 (by simp)
      · intro hben hf
        have := hben2 (hben p (by simp)) hf
        rw [this] at hf2; exact absurd hf2 (by simp)
    · have hf2' : s2.flying = false := by simpa using hf2
      rw [if_neg hf2]
      have h3 : Mid cfg x q d { s2 with tasks := s2.tasks + p.tasks } :=
        ⟨h2.nolate, h2.pending, h2.raised, h2.calls, h2.notif, h2.shield, h2.pushOn, h2.inner, h2.quiet⟩
      obtain ⟨a, ⟨j, hj, hlog, hfull⟩, c⟩ := ih (i + 1) _ h3
      refine ⟨a, ⟨j + 1, by simp; omega, ?_, fun hff => by simp [hfull hff]⟩, ?_⟩
      · rw [hlog]
        show s2.closeLog ++ List.range' (i + 1) j = s.closeLog ++ List.range' i (j + 1)
        rw [hlog2]
        simp [List.range'_succ]
      · intro hben _
        exact c (fun p' hp' => hben p' (List.mem_cons_of_mem _ hp')) hf2'

theorem blockEverything_open (s : St) (n : Nat) (h : s.shield = List.replicate n (some false)) :
    blockEverything s = { s with shield := List.replicate n (some true) } := by
  unfold blockEverything
  simp [h, blockFrom_replicate]

/-- every protocol's close-time reports come with a handler behaviour that does not raise -/
def BenignProtos (cfg : Cfg) : Prop := ∀ p ∈ cfg.protos, ∀ rb ∈ p.onClose, rb.2.raises = false

/-- `close()` on an open device, entered with `d` still to be delivered by the caller -/
theorem closeF_open {cfg : Cfg} (wf : WF cfg) (f : Nat) (q : Bool) (d : List Report) (s : St)
    (hp : s.pending = none) (hr : s.raised = false) (hc : s.callsMade = s.reports.length)
    (hn : ∃ l, s.notified ++ d = firstOf l s.reports)
    (hs : s.shield = List.replicate cfg.nObjs (some false)) (hl : s.closeLog = [])
    (hin : ∀ e ∈ s.inner, InnerOk cfg e) (hq : q = true → 1 ≤ s.callsMade ∧ s.flying = false) :
    Mid cfg s.nextId q d (closeF cfg (f + 2) s) ∧
      (∃ j, j ≤ (cfg.protos.take s.handlers).length ∧ (closeF cfg (f + 2) s).closeLog = List.range' 0 j ∧
        ((closeF cfg (f + 2) s).flying = false → j = (cfg.protos.take s.handlers).length)) ∧
      (BenignProtos cfg → s.flying = false → (closeF cfg (f + 2) s).flying = false) := by
  have hb0 := isBlocking_open s cfg.nObjs 0 hs
  have hb1 := isBlocking_open s cfg.nObjs cfg.pushObj hs
  rw [closeF]
  simp only [hp, hb0, hb1, Bool.or_self, Bool.false_eq_true, if_false]
  rw [blockEverything_open _ cfg.nObjs (by simpa using hs)]
  rw [if_neg (by simp [hr])]
  have h0 : Mid cfg s.nextId q d
      { s with pushOn := false, pending := some s.nextId, nextId := s.nextId + 1, tasks := 1,
               shield := List.replicate cfg.nObjs (some true),
               closedUpTo := (cfg.protos.take s.handlers).length } :=
    ⟨Nat.le_refl _, rfl, hr, hc, hn, rfl, rfl, hin, hq⟩
  obtain ⟨a, ⟨j, hj, hlog, hfull⟩, c⟩ :=
    closeProtos_mid wf.maxCalls (cached_closeF cfg f) (cfg.protos.take s.handlers) 0 _ h0
  exact ⟨a, ⟨j, hj, by simpa [hl] using hlog, hfull⟩,
    fun hb hf => c (fun p hp => hb p (List.mem_of_mem_take hp)) hf⟩

theorem closeProtos_same {cfg : Cfg} {k : St → St} {x q d} (hm : cfg.maxCalls = 1)
    (hk : Cached cfg k) (ps : List Proto) :
    ∀ i s, Mid cfg x q d s →
      (closeProtos cfg k i ps s).closedUpTo = s.closedUpTo ∧
      (closeProtos cfg k i ps s).handlers = s.handlers ∧
      (closeProtos cfg k i ps s).listener = s.listener ∧
      s.tasks ≤ (closeProtos cfg k i ps s).tasks := by
  induction ps with
  | nil => intro i s _; exact ⟨rfl, rfl, rfl, Nat.le_refl _⟩
  | cons p ps ih =>
    intro i s h
    have h1 : Mid cfg x q d { s with closeLog := s.closeLog ++ [i] } :=
      ⟨h.nolate, h.pending, h.raised, h.calls, h.notif, h.shield, h.pushOn, h.inner, h.quiet⟩
    obtain ⟨h2, hsame, _⟩ := foldl_emit_mid hm hk i p.onClose _ h1
    rw [show closeProtos cfg k i (p :: ps) s =
      (if (p.onClose.foldl (emit cfg k i) { s with closeLog := s.closeLog ++ [i] }).flying then
        p.onClose.foldl (emit cfg k i) { s with closeLog := s.closeLog ++ [i] }
       else closeProtos cfg k (i + 1) ps
        { (p.onClose.foldl (emit cfg k i) { s with closeLog := s.closeLog ++ [i] }) with
          tasks := (p.onClose.foldl (emit cfg k i) { s with closeLog := s.closeLog ++ [i] }).tasks + p.tasks })
      from rfl]
    generalize p.onClose.foldl (emit cfg k i) { s with closeLog := s.closeLog ++ [i] } = s2 at *
    have e1 : s2.closedUpTo = s.closedUpTo := hsame.2.2.2
    have e2 : s2.handlers = s.handlers := hsame.2.2.1
    have e3 : s2.listener = s.listener := hsame.2.1
    have e4 : s2.tasks = s.tasks := hsame.1.2.1
    split
    · exact ⟨e1, e2, e3, by rw [e4]; exact Nat.le_refl _⟩
    · have h3 : Mid cfg x q d { s2 with tasks := s2.tasks + p.tasks } :=
        ⟨h2.nolate, h2.pending, h2.raised, h2.calls, h2.notif, h2.shield, h2.pushOn, h2.inner, h2.quiet⟩
      obtain ⟨c1, c2, c3, c4⟩ := ih (i + 1) _ h3
      refine ⟨c1.trans e1, c2.trans e2, c3.trans e3, ?_⟩
      exact Nat.le_trans (by rw [← e4]; exact Nat.le_add_right _ _) c4

/-! ### the close log -/

/-- each protocol's `close()` ran at most once, and only for protocols marked as closed -/
def LogOk (s : St) : Prop :=
  s.closeLog.Pairwise (· < ·) ∧ ∀ j ∈ s.closeLog, j < s.closedUpTo

/-- every protocol marked as closed was closed, in order -/
def LogEq (s : St) : Prop := s.closeLog = List.range' 0 s.closedUpTo

/-- what a `close()` of an already closed device may change -/
structure Ext (s r : St) : Prop where
  listener : r.listener = s.listener
  handlers : r.handlers = s.handlers
  cu : s.closedUpTo ≤ r.closedUpTo
  logOk : LogOk s → LogOk r
  logEq : LogEq s → LogEq r
  tasks : s.tasks ≤ r.tasks
  pending : r.pending = s.pending

theorem Ext.refl (s : St) : Ext s s := ⟨rfl, rfl, Nat.le_refl _, id, id, Nat.le_refl _, rfl⟩

theorem Ext.trans {a b c : St} (h1 : Ext a b) (h2 : Ext b c) : Ext a c :=
  ⟨h2.listener.trans h1.listener, h2.handlers.trans h1.handlers, Nat.le_trans h1.cu h2.cu,
    fun h => h2.logOk (h1.logOk h), fun h => h2.logEq (h1.logEq h), Nat.le_trans h1.tasks h2.tasks,
    h2.pending.trans h1.pending⟩

theorem Ext.of_same {s r : St} (h : Same s r) : Ext s r := by
  obtain ⟨⟨hp, ht, hl⟩, hli, hh, hc⟩ := h
  refine ⟨hli, hh, by rw [hc]; exact Nat.le_refl _, ?_, ?_, by rw [ht]; exact Nat.le_refl _, hp⟩
  · intro h; unfold LogOk at *; rw [hl, hc]; exact h
  · intro h; unfold LogEq at *; rw [hl, hc]; exact h

/-- the step of the late loop that marks and logs protocol `i = closedUpTo` -/
theorem Ext.mark (s : St) (i : Nat) (hi : i = s.closedUpTo) :
    Ext s { s with closedUpTo := i + 1, closeLog := s.closeLog ++ [i] } := by
  refine ⟨rfl, rfl, by show s.closedUpTo ≤ i + 1; omega, ?_, ?_, Nat.le_refl _, rfl⟩
  · intro ⟨hp, hlt⟩
    refine ⟨?_, ?_⟩
    · show (s.closeLog ++ [i]).Pairwise (· < ·)
      rw [List.pairwise_append]
      refine ⟨hp, by simp, ?_⟩
      intro a ha b hb
      simp only [List.mem_singleton] at hb
      subst hb
      have := hlt a ha
      omega
    · intro j hj
      show j < i + 1
      rcases List.mem_append.mp hj with hj | hj
      · have := hlt j hj; omega
      · simp only [List.mem_singleton] at hj; omega
  · intro h
    show s.closeLog ++ [i] = List.range' 0 (i + 1)
    unfold LogEq at h
    rw [h, hi, List.range'_concat]
    simp

/-! ### close() on a device that is already closed: the late protocols -/

/-- `Mid` without the claim that nothing is late -/
structure MidL (cfg : Cfg) (x : Nat) (d : List Report) (s : St) : Prop where
  pending : s.pending = some x
  raised : s.raised = false
  calls : s.callsMade = s.reports.length
  notif : ∃ l, s.notified ++ d = firstOf l s.reports
  shield : s.shield = List.replicate cfg.nObjs (some true)
  pushOn : s.pushOn = false
  inner : ∀ e ∈ s.inner, InnerOk cfg e

theorem Mid.toL {cfg : Cfg} {x q d s} (h : Mid cfg x q d s) : MidL cfg x d s :=
  ⟨h.pending, h.raised, h.calls, h.notif, h.shield, h.pushOn, h.inner⟩

theorem MidL.toMid {cfg : Cfg} {x d s} (h : MidL cfg x d s) (hnl : NoLate cfg s) (q : Bool)
    (hq : q = true → 1 ≤ s.callsMade ∧ s.flying = false) : Mid cfg x q d s :=
  ⟨hnl, h.pending, h.raised, h.calls, h.notif, h.shield, h.pushOn, h.inner, hq⟩

theorem lateLoop_skip1 {cfg : Cfg} {k : St → St} {i : Nat} {p : Proto} {ps : List Proto} {s : St}
    (h : i < s.closedUpTo) : lateLoop cfg k i (p :: ps) s = lateLoop cfg k (i + 1) ps s := by
  rw [lateLoop, if_pos h]

theorem lateLoop_do {cfg : Cfg} {k : St → St} {i : Nat} {p : Proto} {ps : List Proto} {s : St}
    (h : ¬ i < s.closedUpTo) :
    lateLoop cfg k i (p :: ps) s =
      (if (p.onClose.foldl (emit cfg k i)
          { s with closedUpTo := i + 1, closeLog := s.closeLog ++ [i] }).flying then
        p.onClose.foldl (emit cfg k i) { s with closedUpTo := i + 1, closeLog := s.closeLog ++ [i] }
       else lateLoop cfg k (i + 1) ps
        { (p.onClose.foldl (emit cfg k i)
            { s with closedUpTo := i + 1, closeLog := s.closeLog ++ [i] }) with
          tasks := (p.onClose.foldl (emit cfg k i)
            { s with closedUpTo := i + 1, closeLog := s.closeLog ++ [i] }).tasks + p.tasks }) := by
  rw [lateLoop, if_neg h]

/-- a report after the budget is spent: swallowed, whatever `k` is -/
theorem reportWith_quiet {cfg : Cfg} {k : St → St} {x d s} (hm : cfg.maxCalls = 1)
    (h : MidL cfg x d s) (h1 : 1 ≤ s.callsMade) (r : Report) (b : Beh) :
    MidL cfg x d (reportWith cfg k s r b) ∧ Same s (reportWith cfg k s r b) ∧
      (reportWith cfg k s r b).flying = s.flying ∧ 1 ≤ (reportWith cfg k s r b).callsMade := by
  have hover : cfg.maxCalls ≠ 0 ∧ s.callsMade + 1 > cfg.maxCalls := by rw [hm]; omega
  have hne : s.reports ≠ [] := by
    intro he; have := h.calls; rw [he] at this; simp at this; omega
  rw [reportWith_over r b hover]
  obtain ⟨l0, hn⟩ := h.notif
  exact ⟨⟨h.pending, h.raised, by simp [h.calls],
    ⟨l0, by simpa [firstOf_append_of_ne _ _ _ hne] using hn⟩, h.shield, h.pushOn, h.inner⟩,
    ⟨⟨rfl, rfl, rfl⟩, rfl, rfl, rfl⟩, rfl, by simp⟩

theorem foldl_emit_quiet {cfg : Cfg} {k : St → St} {x d} (hm : cfg.maxCalls = 1) (i : Nat)
    (rbs : List (Kind × Beh)) :
    ∀ s, MidL cfg x d s → 1 ≤ s.callsMade → s.flying = false →
      MidL cfg x d (rbs.foldl (emit cfg k i) s) ∧ Same s (rbs.foldl (emit cfg k i) s) ∧
        (rbs.foldl (emit cfg k i) s).flying = false ∧ 1 ≤ (rbs.foldl (emit cfg k i) s).callsMade := by
  induction rbs with
  | nil => intro s h h1 hf; exact ⟨h, Same.refl s, hf, h1⟩
  | cons rb rbs ih =>
    intro s h h1 hf
    simp only [List.foldl_cons]
    have he : emit cfg k i s rb = reportWith cfg k s ⟨i, rb.1⟩ rb.2 := by simp [emit, hf]
    rw [he]
    obtain ⟨a, b, c, e⟩ := reportWith_quiet (k := k) hm h h1 ⟨i, rb.1⟩ rb.2
    obtain ⟨a', b', c', e'⟩ := ih _ a e (by rw [c]; exact hf)
    exact ⟨a', Same.trans b b', c', e'⟩

theorem lateLoop_quiet {cfg : Cfg} {k : St → St} {x d} (hm : cfg.maxCalls = 1) (ps : List Proto) :
    ∀ i s, MidL cfg x d s → 1 ≤ s.callsMade → s.flying = false → i ≤ s.closedUpTo →
      MidL cfg x d (lateLoop cfg k i ps s) ∧ Ext s (lateLoop cfg k i ps s) ∧
        (lateLoop cfg k i ps s).flying = false ∧ 1 ≤ (lateLoop cfg k i ps s).callsMade ∧
        i + ps.length ≤ (lateLoop cfg k i ps s).closedUpTo := by
  induction ps with
  | nil => intro i s h h1 hf hi; exact ⟨h, Ext.refl s, hf, h1, by simpa [lateLoop] using hi⟩
  | cons p ps ih =>
    intro i s h h1 hf hi
    by_cases hlt : i < s.closedUpTo
    · rw [lateLoop_skip1 hlt]
      obtain ⟨a, b, c, e, g⟩ := ih (i + 1) s h h1 hf hlt
      exact ⟨a, b, c, e, by simp; omega⟩
    · have hieq : i = s.closedUpTo := by omega
      rw [lateLoop_do hlt]
      have h' : MidL cfg x d { s with closedUpTo := i + 1, closeLog := s.closeLog ++ [i] } :=
        ⟨h.pending, h.raised, h.calls, h.notif, h.shield, h.pushOn, h.inner⟩
      obtain ⟨h2, hsame, hf2, h12⟩ := foldl_emit_quiet (k := k) hm i p.onClose _ h' h1 hf
      generalize p.onClose.foldl (emit cfg k i)
        { s with closedUpTo := i + 1, closeLog := s.closeLog ++ [i] } = s2 at *
      rw [if_neg (by simp [hf2])]
      have h3 : MidL cfg x d { s2 with tasks := s2.tasks + p.tasks } :=
        ⟨h2.pending, h2.raised, h2.calls, h2.notif, h2.shield, h2.pushOn, h2.inner⟩
      have hcu : i + 1 ≤ s2.closedUpTo := by rw [hsame.2.2.2]; exact Nat.le_refl _
      obtain ⟨a, b, c, e, g⟩ := ih (i + 1) { s2 with tasks := s2.tasks + p.tasks } h3 h12 hf2 hcu
      refine ⟨a, ?_, c, e, by simp; omega⟩
      refine ((Ext.mark s i hieq).trans (Ext.of_same hsame)).trans (Ext.trans ?_ b)
      exact ⟨rfl, rfl, Nat.le_refl _, id, id, Nat.le_add_right _ _, rfl⟩

theorem nolate_of {cfg : Cfg} {s r : St} (hh : r.handlers = s.handlers)
    (h : (cfg.protos.take s.handlers).length ≤ r.closedUpTo) : NoLate cfg r := by
  unfold NoLate; rw [hh]; exact h

/-- close() on a closed device after the budget is spent: the late protocols are closed, nobody
    is notified, nothing can raise -/
theorem closeF_quiet {cfg : Cfg} {x d} (hm : cfg.maxCalls = 1) (f : Nat) (s : St)
    (h : MidL cfg x d s) (h1 : 1 ≤ s.callsMade) (hf : s.flying = false) :
    MidL cfg x d (closeF cfg (f + 1) s) ∧ Ext s (closeF cfg (f + 1) s) ∧
      (closeF cfg (f + 1) s).flying = false ∧ 1 ≤ (closeF cfg (f + 1) s).callsMade ∧
      NoLate cfg (closeF cfg (f + 1) s) := by
  rw [closeF]
  simp only [h.pending]
  obtain ⟨a, b, c, e, g⟩ := lateLoop_quiet (k := closeF cfg f) hm (cfg.protos.take s.handlers) 0 s h h1 hf
    (Nat.zero_le _)
  exact ⟨a, b, c, e, nolate_of b.handlers (by simpa using g)⟩

/-- a report on a closed device (late protocols or not): `k` is the real close() -/
theorem reportWith_late {cfg : Cfg} {x s} (hm : cfg.maxCalls = 1) (f : Nat)
    (h : MidL cfg x [] s) (hf : s.flying = false) (r : Report) (b : Beh) :
    MidL cfg x [] (reportWith cfg (closeF cfg (f + 1)) s r b) ∧
      Ext s (reportWith cfg (closeF cfg (f + 1)) s r b) ∧
      (b.raises = false → (reportWith cfg (closeF cfg (f + 1)) s r b).flying = false) := by
  by_cases h0 : s.callsMade = 0
  · have hno : ¬(cfg.maxCalls ≠ 0 ∧ s.callsMade + 1 > cfg.maxCalls) := by rw [hm, h0]; simp
    have hrs : s.reports = [] := by
      have : s.reports.length = 0 := by have := h.calls; omega
      exact List.eq_nil_of_length_eq_zero this
    have hnot : s.notified = [] := by
      obtain ⟨l, hl⟩ := h.notif
      rw [hrs, firstOf_nil] at hl
      exact (List.append_eq_nil_iff.mp hl).1
    have hs1 : Same s { s with reports := s.reports ++ [r], callsMade := s.callsMade + 1 } :=
      ⟨⟨rfl, rfl, rfl⟩, rfl, rfl, rfl⟩
    rcases listener_cases s with hl | hl | hl
    · rw [reportWith_none r b hno hl]
      have hm1 : MidL cfg x [] { s with reports := s.reports ++ [r], callsMade := s.callsMade + 1 } :=
        ⟨h.pending, h.raised, by simp [hrs, h0], ⟨.none, by simp [firstOf, hnot]⟩, h.shield, h.pushOn,
          h.inner⟩
      obtain ⟨a, bb, c, _, _⟩ := closeF_quiet hm f _ hm1 (by simp) hf
      exact ⟨a, (Ext.of_same hs1).trans bb, fun _ => c⟩
    · rw [reportWith_alive r b hno hl]
      have hm1 : MidL cfg x [r] { s with reports := s.reports ++ [r], callsMade := s.callsMade + 1 } :=
        ⟨h.pending, h.raised, by simp [hrs, h0], ⟨.alive, by simp [firstOf, hnot, hrs]⟩, h.shield,
          h.pushOn, h.inner⟩
      obtain ⟨a, bb, c, e, g⟩ := closeF_quiet hm f _ hm1 (by simp) hf
      rw [if_neg (by simp [c])]
      obtain ⟨a', b', c'⟩ := handler_cached (cfg := cfg) (cached_closeF cfg f) r b
        (a.toMid g false (by simp)) c
      exact ⟨a'.toL, ((Ext.of_same hs1).trans bb).trans (Ext.of_same b'), c'⟩
    · rw [reportWith_dead r b hno hl]
      exact ⟨⟨h.pending, h.raised, by simp [hrs, h0], ⟨.dead, by simp [firstOf, hnot]⟩, h.shield,
        h.pushOn, h.inner⟩, Ext.of_same hs1, fun _ => hf⟩
  · obtain ⟨a, bb, c, _⟩ := reportWith_quiet (k := closeF cfg (f + 1)) hm h (by omega) r b
    exact ⟨a, Ext.of_same bb, fun _ => by rw [c]; exact hf⟩

theorem foldl_emit_late {cfg : Cfg} {x} (hm : cfg.maxCalls = 1) (f : Nat) (i : Nat)
    (rbs : List (Kind × Beh)) :
    ∀ s, MidL cfg x [] s →
      MidL cfg x [] (rbs.foldl (emit cfg (closeF cfg (f + 1)) i) s) ∧
        Ext s (rbs.foldl (emit cfg (closeF cfg (f + 1)) i) s) ∧
        ((∀ rb ∈ rbs, rb.2.raises = false) → s.flying = false →
          (rbs.foldl (emit cfg (closeF cfg (f + 1)) i) s).flying = false) := by
  induction rbs with
  | nil => intro s h; exact ⟨h, Ext.refl s, fun _ hf => hf⟩
  | cons rb rbs ih =>
    intro s h
    simp only [List.foldl_cons]
    by_cases hf : s.flying = true
    · have he : emit cfg (closeF cfg (f + 1)) i s rb = s := by simp [emit, hf]
      rw [he]
      obtain ⟨a, b, _⟩ := ih s h
      exact ⟨a, b, fun _ hf' => by rw [hf'] at hf; simp at hf⟩
    · have hf' : s.flying = false := by simpa using hf
      have he : emit cfg (closeF cfg (f + 1)) i s rb
          = reportWith cfg (closeF cfg (f + 1)) s ⟨i, rb.1⟩ rb.2 := by simp [emit, hf']
      rw [he]
      obtain ⟨a, b, c⟩ := reportWith_late hm f h hf' ⟨i, rb.1⟩ rb.2
      obtain ⟨a', b', c'⟩ := ih _ a
      exact ⟨a', b.trans b', fun hben _ =>
        c' (fun rb' hrb' => hben rb' (List.mem_cons_of_mem _ hrb')) (c (hben rb (by simp)))⟩

theorem lateLoop_late {cfg : Cfg} {x} (hm : cfg.maxCalls = 1) (f : Nat) (ps : List Proto) :
    ∀ i s, MidL cfg x [] s → i ≤ s.closedUpTo →
      MidL cfg x [] (lateLoop cfg (closeF cfg (f + 1)) i ps s) ∧
        Ext s (lateLoop cfg (closeF cfg (f + 1)) i ps s) ∧
        ((lateLoop cfg (closeF cfg (f + 1)) i ps s).flying = false →
          i + ps.length ≤ (lateLoop cfg (closeF cfg (f + 1)) i ps s).closedUpTo) ∧
        ((∀ p ∈ ps, ∀ rb ∈ p.onClose, rb.2.raises = false) → s.flying = false →
          (lateLoop cfg (closeF cfg (f + 1)) i ps s).flying = false) := by
  induction ps with
  | nil => intro i s h hi; exact ⟨h, Ext.refl s, fun _ => by simpa [lateLoop] using hi, fun _ hf => hf⟩
  | cons p ps ih =>
    intro i s h hi
    by_cases hlt : i < s.closedUpTo
    · rw [lateLoop_skip1 hlt]
      obtain ⟨a, b, g, gb⟩ := ih (i + 1) s h hlt
      exact ⟨a, b, fun hff => by have := g hff; simp; omega,
        fun hben hf => gb (fun p' hp' => hben p' (List.mem_cons_of_mem _ hp')) hf⟩
    · have hieq : i = s.closedUpTo := by omega
      rw [lateLoop_do hlt]
      have h' : MidL cfg x [] { s with closedUpTo := i + 1, closeLog := s.closeLog ++ [i] } :=
        ⟨h.pending, h.raised, h.calls, h.notif, h.shield, h.pushOn, h.inner⟩
      obtain ⟨h2, hext, hb2⟩ := foldl_emit_late hm f i p.onClose _ h'
      generalize p.onClose.foldl (emit cfg (closeF cfg (f + 1)) i)
        { s with closedUpTo := i + 1, closeLog := s.closeLog ++ [i] } = s2 at *
      by_cases hf2 : s2.flying = true
      · rw [if_pos hf2]
        exact ⟨h2, (Ext.mark s i hieq).trans hext, fun hff => by rw [hff] at hf2; simp at hf2,
          fun hben hf => by have := hb2 (hben p (by simp)) hf; rw [this] at hf2; simp at hf2⟩
      · rw [if_neg hf2]
        have h3 : MidL cfg x [] { s2 with tasks := s2.tasks + p.tasks } :=
          ⟨h2.pending, h2.raised, h2.calls, h2.notif, h2.shield, h2.pushOn, h2.inner⟩
        have hcu : i + 1 ≤ s2.closedUpTo := hext.cu
        obtain ⟨a, b, g, gb⟩ := ih (i + 1) { s2 with tasks := s2.tasks + p.tasks } h3 hcu
        refine ⟨a, ?_, fun hff => by have := g hff; simp; omega,
          fun hben _ => gb (fun p' hp' => hben p' (List.mem_cons_of_mem _ hp')) (by simpa using hf2)⟩
        refine ((Ext.mark s i hieq).trans hext).trans (Ext.trans ?_ b)
        exact ⟨rfl, rfl, Nat.le_refl _, id, id, Nat.le_add_right _ _, rfl⟩

/-- **close() on a closed device**, top level: the late protocols are closed, their tasks join
    the same set; afterwards nothing is late (unless a user handler raised into the loop) -/
theorem closeF_closed {cfg : Cfg} {x} (hm : cfg.maxCalls = 1) (f : Nat) (s : St)
    (h : MidL cfg x [] s) :
    MidL cfg x [] (closeF cfg (f + 2) s) ∧ Ext s (closeF cfg (f + 2) s) ∧
      ((closeF cfg (f + 2) s).flying = false → NoLate cfg (closeF cfg (f + 2) s)) ∧
      (BenignProtos cfg → s.flying = false → (closeF cfg (f + 2) s).flying = false) := by
  rw [closeF]
  simp only [h.pending]
  obtain ⟨a, b, g, gb⟩ := lateLoop_late hm f (cfg.protos.take s.handlers) 0 s h (Nat.zero_le _)
  exact ⟨a, b, fun hff => nolate_of b.handlers (by simpa using g hff),
    fun hb hf => gb (fun p hp => hb p (List.mem_of_mem_take hp)) hf⟩

/-! ### the invariant between events -/

/-- everything except "no user exception in flight" -/
structure Inv' (cfg : Cfg) (s : St) : Prop where
  raised : s.raised = false
  calls : s.callsMade = s.reports.length
  notif : ∃ l, s.notified = firstOf l s.reports    -- l: what was registered when the first report came
  live : s.listener ≠ .dead
  opened : s.pending = none →
    s.reports = [] ∧ s.closeLog = [] ∧ s.shield = List.replicate cfg.nObjs (some false) ∧
      s.closedUpTo = 0
  closed : ∀ x, s.pending = some x →
    s.shield = List.replicate cfg.nObjs (some true) ∧ s.pushOn = false
  logOk : LogOk s
  logEq : BenignProtos cfg → LogEq s
  inner : ∀ e ∈ s.inner, InnerOk cfg e

def Inv (cfg : Cfg) (s : St) : Prop := Inv' cfg s ∧ s.flying = false

theorem take_len_le {α : Type} (n : Nat) (l : List α) : (l.take n).length ≤ l.length := by
  simp [List.length_take]; omega

theorem Inv'.of_midL {cfg : Cfg} {x s} (h : MidL cfg x [] s) (hlive : s.listener ≠ .dead)
    (hlog : LogOk s) (hben : BenignProtos cfg → LogEq s) : Inv' cfg s :=
  ⟨h.raised, h.calls, by obtain ⟨l, hl⟩ := h.notif; exact ⟨l, by simpa using hl⟩, hlive,
    by simp [h.pending], fun _ _ => ⟨h.shield, h.pushOn⟩, hlog, hben, h.inner⟩

theorem Inv'.to_midL {cfg : Cfg} {x s} (h : Inv' cfg s) (hp : s.pending = some x) :
    MidL cfg x [] s :=
  ⟨hp, h.raised, h.calls, by obtain ⟨l, hl⟩ := h.notif; exact ⟨l, by simp [hl]⟩, (h.closed x hp).1,
    (h.closed x hp).2, h.inner⟩

theorem Inv'.clear {cfg : Cfg} {s : St} (h : Inv' cfg s) : Inv cfg { s with flying := false } :=
  ⟨⟨h.raised, h.calls, h.notif, h.live, h.opened, h.closed, h.logOk, h.logEq, h.inner⟩, rfl⟩

theorem inv_init {cfg : Cfg} (wf : WF cfg) : Inv cfg (init cfg) :=
  ⟨⟨rfl, rfl, ⟨cfg.listener, by simp [init, firstOf_nil]⟩, wf.live, fun _ => ⟨rfl, rfl, rfl, rfl⟩,
    by simp [init], ⟨by simp [init], by simp [init]⟩, fun _ => by simp [LogEq, init],
    by simp [init]⟩, rfl⟩

/-- the device has been closed: `_pending_tasks` is set -/
def Closed (s : St) : Prop := ∃ x, s.pending = some x

theorem logOk_range' (s : St) (j : Nat) (hl : s.closeLog = List.range' 0 j) (hj : j ≤ s.closedUpTo) :
    LogOk s := by
  unfold LogOk
  rw [hl]
  refine ⟨List.pairwise_lt_range', ?_⟩
  intro a ha
  simp [List.mem_range'] at ha
  omega

/-- the first close(), from an `Inv'` state that is open -/
theorem closeF_first {cfg : Cfg} (wf : WF cfg) (q : Bool) (d : List Report) (s : St)
    (hp : s.pending = none) (hr : s.raised = false) (hc : s.callsMade = s.reports.length)
    (hsh : s.shield = List.replicate cfg.nObjs (some false)) (hlog : s.closeLog = [])
    (hin : ∀ e ∈ s.inner, InnerOk cfg e)
    (hn : ∃ l, s.notified ++ d = firstOf l s.reports)
    (hq : q = true → 1 ≤ s.callsMade ∧ s.flying = false) :
    Mid cfg s.nextId q d (closeF cfg topFuel s) ∧ LogOk (closeF cfg topFuel s) ∧
      ((closeF cfg topFuel s).flying = false → LogEq (closeF cfg topFuel s)) ∧
      (BenignProtos cfg → s.flying = false → (closeF cfg topFuel s).flying = false) ∧
      (closeF cfg topFuel s).listener = s.listener := by
  obtain ⟨hm, ⟨j, hj, hl, hfull⟩, hben⟩ :=
    closeF_open wf 1 q d s hp hr hc hn hsh hlog hin hq
  -- closedUpTo / listener of the result
  have hb0 := isBlocking_open s cfg.nObjs 0 hsh
  have hb1 := isBlocking_open s cfg.nObjs cfg.pushObj hsh
  have hres : (closeF cfg topFuel s).closedUpTo = (cfg.protos.take s.handlers).length ∧
      (closeF cfg topFuel s).listener = s.listener := by
    have h0 : Mid cfg s.nextId q d
        { s with pushOn := false, pending := some s.nextId, nextId := s.nextId + 1, tasks := 1,
                 shield := List.replicate cfg.nObjs (some true),
                 closedUpTo := (cfg.protos.take s.handlers).length } :=
      ⟨Nat.le_refl _, rfl, hr, hc, hn, rfl, rfl, hin, hq⟩
    have := closeProtos_same wf.maxCalls (cached_closeF cfg 1) (cfg.protos.take s.handlers) 0 _ h0
    show (closeF cfg (1 + 2) s).closedUpTo = _ ∧ (closeF cfg (1 + 2) s).listener = _
    rw [closeF]
    simp only [hp, hb0, hb1, Bool.or_self, Bool.false_eq_true, if_false]
    rw [blockEverything_open _ cfg.nObjs (by simpa using hsh)]
    rw [if_neg (by simp [hr])]
    exact ⟨this.1, this.2.2.1⟩
  refine ⟨hm, logOk_range' _ j hl (by rw [hres.1]; exact hj), ?_, hben, hres.2⟩
  intro hff
  unfold LogEq
  rw [hl, hres.1, hfull hff]

theorem inv_close {cfg : Cfg} (wf : WF cfg) {s : St} (h : Inv cfg s) :
    Inv' cfg (closeF cfg topFuel s) ∧ Closed (closeF cfg topFuel s) ∧
      (BenignProtos cfg → (closeF cfg topFuel s).flying = false) ∧
      ((closeF cfg topFuel s).flying = false → NoLate cfg (closeF cfg topFuel s)) := by
  obtain ⟨h, hfl⟩ := h
  cases hp : s.pending with
  | some x =>
    obtain ⟨a, b, g, gb⟩ := closeF_closed wf.maxCalls 1 s (h.to_midL hp)
    exact ⟨Inv'.of_midL a (by rw [b.listener]; exact h.live) (b.logOk h.logOk)
      (fun hb => b.logEq (h.logEq hb)), ⟨x, a.pending⟩, fun hb => gb hb hfl, g⟩
  | none =>
    obtain ⟨hrs, hlog, hsh, hcu⟩ := h.opened hp
    obtain ⟨hm, hlo, hle, hben, hli⟩ :=
      closeF_first wf false [] s hp h.raised h.calls hsh hlog h.inner
        (by obtain ⟨l, hl⟩ := h.notif; exact ⟨l, by simp [hl]⟩) (by simp)
    exact ⟨Inv'.of_midL hm.toL (by rw [hli]; exact h.live) hlo (fun hb => hle (hben hb hfl)),
      ⟨_, hm.pending⟩, fun hb => hben hb hfl, fun _ => hm.nolate⟩

theorem inv_report {cfg : Cfg} (wf : WF cfg) {s : St} (h : Inv cfg s) (r : Report) (b : Beh) :
    Inv' cfg (reportWith cfg (closeF cfg topFuel) s r b) ∧
      Closed (reportWith cfg (closeF cfg topFuel) s r b) := by
  obtain ⟨h, hfl⟩ := h
  cases hp : s.pending with
  | some x =>
    obtain ⟨a, bb, _⟩ := reportWith_late wf.maxCalls 2 (h.to_midL hp) hfl r b
    exact ⟨Inv'.of_midL a (by rw [bb.listener]; exact h.live) (bb.logOk h.logOk)
      (fun hb => bb.logEq (h.logEq hb)), ⟨x, a.pending⟩⟩
  | none =>
    obtain ⟨hrs, hlog, hsh, hcu⟩ := h.opened hp
    have hc0 : s.callsMade = 0 := by rw [h.calls, hrs]; rfl
    have hnot : s.notified = [] := by obtain ⟨l, hl⟩ := h.notif; rw [hl, hrs, firstOf_nil]
    have hno : ¬(cfg.maxCalls ≠ 0 ∧ s.callsMade + 1 > cfg.maxCalls) := by
      rw [wf.maxCalls, hc0]; simp
    rcases listener_cases s with hl | hl | hl
    · rw [reportWith_none r b hno hl]
      obtain ⟨hm, hlo, hle, _, hli⟩ :=
        closeF_first wf true [] { s with reports := s.reports ++ [r], callsMade := s.callsMade + 1 }
          hp h.raised (by simp [hrs, hc0]) hsh hlog h.inner ⟨.none, by simp [firstOf, hnot]⟩
          (fun _ => ⟨by simp, hfl⟩)
      have hff := (hm.quiet rfl).2
      exact ⟨Inv'.of_midL hm.toL (by rw [hli]; exact h.live) hlo (fun _ => hle hff), ⟨_, hm.pending⟩⟩
    · rw [reportWith_alive r b hno hl]
      obtain ⟨hm, hlo, hle, _, hli⟩ :=
        closeF_first wf true [r] { s with reports := s.reports ++ [r], callsMade := s.callsMade + 1 }
          hp h.raised (by simp [hrs, hc0]) hsh hlog h.inner ⟨.alive, by simp [firstOf, hnot, hrs]⟩
          (fun _ => ⟨by simp, hfl⟩)
      have hff := (hm.quiet rfl).2
      rw [if_neg (by simp [hff])]
      obtain ⟨a, bb, _⟩ := handler_cached (cfg := cfg) (cached_closeF cfg 2) r b hm.weaken hff
      have hx := Ext.of_same bb
      exact ⟨Inv'.of_midL a.toL (by rw [hx.listener, hli]; exact h.live) (hx.logOk hlo)
        (fun _ => hx.logEq (hle hff)), ⟨_, a.pending⟩⟩
    · exact absurd hl h.live

/-- user code inside a PushListener callback: API calls and `close()` calls like any other -/
theorem inv_runInner {cfg : Cfg} (wf : WF cfg) (es : List InEv) :
    ∀ s, Inv cfg s → Inv cfg (runInner cfg (closeF cfg topFuel) false s es) := by
  induction es with
  | nil => intro s h; exact h
  | cons e es ih =>
    intro s h
    cases e with
    | api m =>
      simp only [runInner]
      apply ih
      refine ⟨⟨h.1.raised, h.1.calls, h.1.notif, h.1.live, h.1.opened, h.1.closed, h.1.logOk, h.1.logEq, ?_⟩, h.2⟩
      intro e he
      rcases List.mem_append.mp he with he | he
      · exact h.1.inner e he
      · simp only [List.mem_singleton] at he
        subst he
        intro hc; simp at hc
    | close =>
      obtain ⟨h', _, _, _⟩ := inv_close wf h
      simp only [runInner]
      split
      · apply ih
        refine ⟨⟨h'.raised, h'.calls, h'.notif, h'.live, h'.opened, h'.closed, h'.logOk, h'.logEq, ?_⟩, rfl⟩
        intro e he
        rcases List.mem_append.mp he with he | he
        · exact h'.inner e he
        · simp only [List.mem_singleton] at he
          subst he
          intro hc; simp at hc
      · rename_i hnf
        apply ih
        refine ⟨⟨h'.raised, h'.calls, h'.notif, h'.live, h'.opened, h'.closed, h'.logOk, h'.logEq, ?_⟩,
          by simpa using hnf⟩
        intro e he
        rcases List.mem_append.mp he with he | he
        · exact h'.inner e he
        · simp only [List.mem_singleton] at he
          subst he
          intro hc; simp at hc

theorem Inv.same {cfg : Cfg} {s t : St} (h : Inv cfg s)
    (e : t = t) (hr : t.raised = s.raised) (hc : t.callsMade = s.callsMade) (hrep : t.reports = s.reports)
    (hn : t.notified = s.notified) (hli : t.listener ≠ .dead) (hp : t.pending = s.pending)
    (hlog : t.closeLog = s.closeLog) (hsh : t.shield = s.shield) (hcu : t.closedUpTo = s.closedUpTo)
    (hpo : ∀ x, t.pending = some x → t.pushOn = false) (hin : t.inner = s.inner)
    (hf : t.flying = s.flying) : Inv cfg t := by
  obtain ⟨h, hfl⟩ := h
  refine ⟨⟨by rw [hr]; exact h.raised, by rw [hc, hrep]; exact h.calls, by rw [hn, hrep]; exact h.notif,
    hli, ?_, ?_, ?_, ?_, by rw [hin]; exact h.inner⟩, by rw [hf]; exact hfl⟩
  · intro hp'; rw [hp] at hp'; rw [hrep, hlog, hsh, hcu]; exact h.opened hp'
  · intro x hx; rw [hsh]; exact ⟨(h.closed x (by rw [← hp]; exact hx)).1, hpo x hx⟩
  · unfold LogOk; rw [hlog, hcu]; exact h.logOk
  · intro hb; unfold LogEq; rw [hlog, hcu]; exact h.logEq hb

theorem inv_step {cfg : Cfg} (wf : WF cfg) {s : St} (h : Inv cfg s) (e : Ev) :
    Inv cfg (step cfg s e).1 := by
  cases e with
  | report i k b =>
    obtain ⟨h', _⟩ := inv_report wf h ⟨i, k⟩ b
    simp only [step]
    split
    · exact h'.clear
    · rename_i hnf; exact ⟨h', by simpa using hnf⟩
  | userClose =>
    obtain ⟨h', _, _, _⟩ := inv_close wf h
    simp only [step]
    split
    · exact h'.clear
    · rename_i hnf; exact ⟨h', by simpa using hnf⟩
  | api m => simp only [step]; split <;> (try split) <;> exact h
  | dropDevice =>
    exact h.same rfl rfl rfl rfl rfl h.1.live rfl rfl rfl rfl (fun x hx => (h.1.closed x hx).2) rfl rfl
  | setListener b =>
    refine h.same rfl rfl rfl rfl rfl ?_ rfl rfl rfl rfl (fun x hx => (h.1.closed x hx).2) rfl rfl
    show (if b then Listener.alive else Listener.none) ≠ Listener.dead
    cases b <;> simp
  | setPushListener b =>
    exact h.same rfl rfl rfl rfl rfl h.1.live rfl rfl rfl rfl (fun x hx => (h.1.closed x hx).2) rfl rfl
  | tasksCancelled => exact h
  | connectNext =>
    exact h.same rfl rfl rfl rfl rfl h.1.live rfl rfl rfl rfl (fun x hx => (h.1.closed x hx).2) rfl rfl
  | pushStartFault =>
    simp only [step]
    split
    · exact h
    · rename_i hb
      refine h.same rfl rfl rfl rfl rfl h.1.live rfl rfl rfl rfl ?_ rfl rfl
      intro x hx
      have := isBlocking_closed s cfg.nObjs cfg.pushObj (h.1.closed x hx).1 wf.push
      exact absurd this hb
  | pushStart =>
    simp only [step]
    split
    · exact h
    · rename_i hb
      refine h.same rfl rfl rfl rfl rfl h.1.live rfl rfl rfl rfl ?_ rfl rfl
      intro x hx
      have := isBlocking_closed s cfg.nObjs cfg.pushObj (h.1.closed x hx).1 wf.push
      exact absurd this hb
  | pushStop =>
    simp only [step]
    split
    · exact h
    · exact h.same rfl rfl rfl rfl rfl h.1.live rfl rfl rfl rfl (fun _ _ => rfl) rfl rfl
  | push i b =>
    simp only [step]
    split
    · exact inv_runInner wf b.inner s h
    · exact h

theorem inv_run {cfg : Cfg} (wf : WF cfg) (evs : List Ev) :
    ∀ s, Inv cfg s → Inv cfg (run cfg s evs) := by
  induction evs with
  | nil => intro s h; exact h
  | cons e es ih => intro s h; exact ih _ (inv_step wf h e)

/-! ### the two logs are append-only (so "over the lifetime" is what `notified` records) -/

/-- …and `raised` is sticky: nothing ever clears it, so `raised = false` at the end of a history
    means no `close()` raised an error of its own and the model never ran out of fuel anywhere
    in that history -/
def Grows (s s' : St) : Prop :=
  s.reports <+: s'.reports ∧ s.notified <+: s'.notified ∧ (s.raised = true → s'.raised = true)

theorem Grows.refl (s : St) : Grows s s := ⟨List.prefix_refl _, List.prefix_refl _, id⟩

theorem Grows.trans {a b c : St} (h1 : Grows a b) (h2 : Grows b c) : Grows a c :=
  ⟨List.IsPrefix.trans h1.1 h2.1, List.IsPrefix.trans h1.2.1 h2.2.1, fun h => h2.2.2 (h1.2.2 h)⟩

/-- prepend a step that leaves the three tracked fields alone -/
theorem Grows.after {s m t : St} (h : Grows m t) (hr : m.reports = s.reports)
    (hn : m.notified = s.notified) (hra : m.raised = s.raised) : Grows s t :=
  ⟨hr ▸ h.1, hn ▸ h.2.1, fun hx => h.2.2 (by rw [hra]; exact hx)⟩

def Mono (k : St → St) : Prop := ∀ s, Grows s (k s)

theorem runInner_grows {cfg : Cfg} {k : St → St} (hk : Mono k) (dl : Bool) (es : List InEv) :
    ∀ s, Grows s (runInner cfg k dl s es) := by
  induction es with
  | nil => intro s; exact Grows.refl s
  | cons e es ih =>
    intro s
    cases e with
    | api m =>
      simp only [runInner]
      exact Grows.after (ih _) rfl rfl rfl
    | close =>
      simp only [runInner]
      split
      · exact (hk s).trans (Grows.after (ih _) rfl rfl rfl)
      · exact (hk s).trans (Grows.after (ih _) rfl rfl rfl)

theorem handler_grows {cfg : Cfg} {k : St → St} (hk : Mono k) (s : St) (r : Report) (b : Beh) :
    Grows s (handler cfg k s r b) := by
  have h1 : Grows s { s with notified := s.notified ++ [r] } :=
    ⟨List.prefix_refl _, List.prefix_append _ _, id⟩
  have h2 := runInner_grows (cfg := cfg) hk true b.inner { s with notified := s.notified ++ [r] }
  unfold handler
  simp only []
  split
  · exact (h1.trans h2).trans ⟨List.prefix_refl _, List.prefix_refl _, id⟩
  · exact h1.trans h2

theorem reportWith_has {cfg : Cfg} {k : St → St} (hk : Mono k) (s : St) (r : Report) (b : Beh) :
    Grows { s with reports := s.reports ++ [r], callsMade := s.callsMade + 1 }
      (reportWith cfg k s r b) := by
  unfold reportWith
  simp only []
  split
  · exact Grows.refl _
  · split
    · exact hk _
    · split
      · exact hk _
      · exact (hk _).trans (handler_grows hk _ r b)
    · exact Grows.refl _

theorem reportWith_grows {cfg : Cfg} {k : St → St} (hk : Mono k) (s : St) (r : Report) (b : Beh) :
    Grows s (reportWith cfg k s r b) :=
  Grows.trans (b := { s with reports := s.reports ++ [r], callsMade := s.callsMade + 1 })
    ⟨List.prefix_append _ _, List.prefix_refl _, id⟩ (reportWith_has hk s r b)

theorem foldl_emit_grows {cfg : Cfg} {k : St → St} (hk : Mono k) (i : Nat)
    (rbs : List (Kind × Beh)) : ∀ s, Grows s (rbs.foldl (emit cfg k i) s) := by
  induction rbs with
  | nil => intro s; exact Grows.refl s
  | cons rb rbs ih =>
    intro s
    simp only [List.foldl_cons]
    refine Grows.trans (b := emit cfg k i s rb) ?_ (ih _)
    unfold emit
    split
    · exact Grows.refl s
    · exact reportWith_grows hk s _ _

theorem closeProtos_grows {cfg : Cfg} {k : St → St} (hk : Mono k) (ps : List Proto) :
    ∀ i s, Grows s (closeProtos cfg k i ps s) := by
  induction ps with
  | nil => intro i s; exact Grows.refl s
  | cons p ps ih =>
    intro i s
    have h2 := foldl_emit_grows (cfg := cfg) hk i p.onClose { s with closeLog := s.closeLog ++ [i] }
    have h1 : Grows s { s with closeLog := s.closeLog ++ [i] } := Grows.refl s
    show Grows s (if (p.onClose.foldl (emit cfg k i) { s with closeLog := s.closeLog ++ [i] }).flying then
        p.onClose.foldl (emit cfg k i) { s with closeLog := s.closeLog ++ [i] }
       else closeProtos cfg k (i + 1) ps
        { (p.onClose.foldl (emit cfg k i) { s with closeLog := s.closeLog ++ [i] }) with
          tasks := (p.onClose.foldl (emit cfg k i) { s with closeLog := s.closeLog ++ [i] }).tasks + p.tasks })
    split
    · exact h1.trans h2
    · exact (h1.trans h2).trans (Grows.after (ih (i + 1) _) rfl rfl rfl)

theorem blockEverything_grows (s : St) : Grows s (blockEverything s) := by
  refine ⟨List.prefix_refl _, List.prefix_refl _, ?_⟩
  intro hr
  unfold blockEverything
  simp [hr]

theorem lateLoop_grows {cfg : Cfg} {k : St → St} (hk : Mono k) (ps : List Proto) :
    ∀ i s, Grows s (lateLoop cfg k i ps s) := by
  induction ps with
  | nil => intro i s; exact Grows.refl s
  | cons p ps ih =>
    intro i s
    by_cases hlt : i < s.closedUpTo
    · rw [lateLoop_skip1 hlt]; exact ih (i + 1) s
    · rw [lateLoop_do hlt]
      have h2 := foldl_emit_grows (cfg := cfg) hk i p.onClose
        { s with closedUpTo := i + 1, closeLog := s.closeLog ++ [i] }
      have h1 : Grows s { s with closedUpTo := i + 1, closeLog := s.closeLog ++ [i] } := Grows.refl s
      split
      · exact h1.trans h2
      · exact (h1.trans h2).trans (Grows.after (ih (i + 1) _) rfl rfl rfl)

theorem closeF_grows (cfg : Cfg) : ∀ f, Mono (closeF cfg f) := by
  intro f
  induction f with
  | zero => intro s; exact ⟨List.prefix_refl _, List.prefix_refl _, fun _ => rfl⟩
  | succ f ih =>
    intro s
    rw [closeF]
    split
    · exact lateLoop_grows ih _ 0 s
    · split
      · exact ⟨List.prefix_refl _, List.prefix_refl _, fun _ => rfl⟩
      · have hb := blockEverything_grows
          { s with pushOn := false, pending := some s.nextId, nextId := s.nextId + 1, tasks := 1 }
        have h0 : Grows s
            { s with pushOn := false, pending := some s.nextId, nextId := s.nextId + 1, tasks := 1 } :=
          ⟨List.prefix_refl _, List.prefix_refl _, id⟩
        dsimp only
        split
        · exact h0.trans hb
        · exact (h0.trans hb).trans
            (Grows.after (closeProtos_grows (cfg := cfg) ih _ 0 _) rfl rfl rfl)

theorem step_grows (cfg : Cfg) (s : St) (e : Ev) : Grows s (step cfg s e).1 := by
  cases e with
  | report i k b =>
    have := reportWith_grows (cfg := cfg) (closeF_grows cfg topFuel) s ⟨i, k⟩ b
    simp only [step]
    split
    · exact this.trans ⟨List.prefix_refl _, List.prefix_refl _, id⟩
    · exact this
  | userClose =>
    have := closeF_grows cfg topFuel s
    simp only [step]
    split
    · exact this.trans ⟨List.prefix_refl _, List.prefix_refl _, id⟩
    · exact this
  | api m => simp only [step]; split <;> (try split) <;> exact Grows.refl s
  | dropDevice => exact ⟨List.prefix_refl _, List.prefix_refl _, id⟩
  | setListener b => exact ⟨List.prefix_refl _, List.prefix_refl _, id⟩
  | setPushListener b => exact ⟨List.prefix_refl _, List.prefix_refl _, id⟩
  | connectNext => exact ⟨List.prefix_refl _, List.prefix_refl _, id⟩
  | tasksCancelled => exact Grows.refl s
  | pushStartFault => simp only [step]; split <;> exact Grows.refl s
  | pushStart => simp only [step]; split <;> exact Grows.refl s
  | pushStop => simp only [step]; split <;> exact Grows.refl s
  | push i b =>
    simp only [step]
    split
    · exact runInner_grows (closeF_grows cfg topFuel) false b.inner s
    · exact Grows.refl s

theorem run_grows (cfg : Cfg) (evs : List Ev) : ∀ s, Grows s (run cfg s evs) := by
  induction evs with
  | nil => intro s; exact Grows.refl s
  | cons e es ih => intro s; exact (step_grows cfg s e).trans (ih _)

/-! ### a closing event closes; once closed, the cached set never changes -/

/-- events that the property names as final: the user's `close()` and any report -/
def Ev.isClosing : Ev → Bool
  | .userClose => true
  | .report _ _ _ => true
  | _ => false

theorem closed_of_closing {cfg : Cfg} (wf : WF cfg) {s : St} (h : Inv cfg s) (e : Ev)
    (he : e.isClosing = true) : Closed (step cfg s e).1 := by
  cases e with
  | report i k b =>
    obtain ⟨_, x, hx⟩ := inv_report wf h ⟨i, k⟩ b
    refine ⟨x, ?_⟩
    simp only [step]
    split <;> exact hx
  | userClose =>
    obtain ⟨_, ⟨x, hx⟩, _⟩ := inv_close wf h
    refine ⟨x, ?_⟩
    simp only [step]
    split <;> exact hx
  | api m => simp [Ev.isClosing] at he
  | dropDevice => simp [Ev.isClosing] at he
  | setListener b => simp [Ev.isClosing] at he
  | setPushListener b => simp [Ev.isClosing] at he
  | connectNext => simp [Ev.isClosing] at he
  | tasksCancelled => simp [Ev.isClosing] at he
  | pushStartFault => simp [Ev.isClosing] at he
  | pushStart => simp [Ev.isClosing] at he
  | pushStop => simp [Ev.isClosing] at he
  | push i b => simp [Ev.isClosing] at he

/-- once closed: the cached set keeps its identity and only grows, whatever happens -/
theorem step_closed_ext {cfg : Cfg} (wf : WF cfg) (s : St) (x : Nat) (h : Inv cfg s)
    (hp : s.pending = some x) (e : Ev) :
    (step cfg s e).1.pending = some x ∧ s.tasks ≤ (step cfg s e).1.tasks := by
  cases e with
  | report i k b =>
    obtain ⟨_, bb, _⟩ := reportWith_late wf.maxCalls 2 (h.1.to_midL hp) h.2 ⟨i, k⟩ b
    simp only [step]
    split
    · exact ⟨bb.pending.trans hp, bb.tasks⟩
    · exact ⟨bb.pending.trans hp, bb.tasks⟩
  | userClose =>
    obtain ⟨_, bb, _⟩ := closeF_closed wf.maxCalls 1 s (h.1.to_midL hp)
    simp only [step]
    split
    · exact ⟨bb.pending.trans hp, bb.tasks⟩
    · exact ⟨bb.pending.trans hp, bb.tasks⟩
  | api m => simp only [step]; split <;> (try split) <;> exact ⟨hp, Nat.le_refl _⟩
  | dropDevice => exact ⟨hp, Nat.le_refl _⟩
  | setListener b => exact ⟨hp, Nat.le_refl _⟩
  | setPushListener b => exact ⟨hp, Nat.le_refl _⟩
  | connectNext => exact ⟨hp, Nat.le_refl _⟩
  | tasksCancelled => exact ⟨hp, Nat.le_refl _⟩
  | pushStartFault => simp only [step]; split <;> exact ⟨hp, Nat.le_refl _⟩
  | pushStart => simp only [step]; split <;> exact ⟨hp, Nat.le_refl _⟩
  | pushStop => simp only [step]; split <;> exact ⟨hp, Nat.le_refl _⟩
  | push i b =>
    have hpo := (h.1.closed x hp).2
    simp only [step, hpo, Bool.false_and, Bool.false_eq_true, if_false]
    exact ⟨hp, Nat.le_refl _⟩

theorem run_closed_ext {cfg : Cfg} (wf : WF cfg) (evs : List Ev) :
    ∀ s x, Inv cfg s → s.pending = some x →
      (run cfg s evs).pending = some x ∧ s.tasks ≤ (run cfg s evs).tasks := by
  induction evs with
  | nil => intro s x _ hp; exact ⟨hp, Nat.le_refl _⟩
  | cons e es ih =>
    intro s x h hp
    have h1 := step_closed_ext wf s x h hp e
    have h2 := ih _ x (inv_step wf h e) h1.1
    exact ⟨h2.1, Nat.le_trans h1.2 h2.2⟩

theorem closed_run {cfg : Cfg} (wf : WF cfg) (evs : List Ev) (s : St) (hi : Inv cfg s)
    (h : Closed s) : Closed (run cfg s evs) := by
  obtain ⟨x, hx⟩ := h
  exact ⟨x, (run_closed_ext wf evs s x hi hx).1⟩

theorem run_append (cfg : Cfg) (a b : List Ev) : ∀ s, run cfg s (a ++ b) = run cfg (run cfg s a) b := by
  induction a with
  | nil => intro s; rfl
  | cons e es ih => intro s; simp only [List.cons_append, run]; exact ih _

end PyatvModel.C09
