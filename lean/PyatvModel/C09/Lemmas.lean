import PyatvModel.C09.Model
/-
C09 — invariants of the facade life-cycle model.

`Mid`  holds from the moment `close()` has stored `_pending_tasks` (so also during the
       protocol loop, while protocols report re-entrantly) — parameterised by the
       notification `d` that the caller of `state_was_updated` will still append;
`Inv`  holds in every state between two events.
-/
namespace PyatvModel.C09
open PyatvModel.Gen.C09 (Row Guard)

/-- what the user's DeviceListener must have received, given the history of reports -/
def firstOf : Listener → List Report → List Report
  | .alive, rs => rs.take 1
  | _, _ => []

/-- well-formed configuration: the facade as written (`max_calls = 1`, the shielded objects
    exist) and a listener that is not garbage-collected -/
structure WF (cfg : Cfg) : Prop where
  maxCalls : cfg.maxCalls = 1
  top : 0 < cfg.nObjs
  push : cfg.pushObj < cfg.nObjs
  live : cfg.listener ≠ .dead

theorem firstOf_nil (l : Listener) : firstOf l [] = [] := by
  cases l <;> rfl

theorem firstOf_append_of_ne (l : Listener) (rs t : List Report) (h : rs ≠ []) :
    firstOf l (rs ++ t) = firstOf l rs := by
  cases l <;> simp [firstOf]
  cases rs with
  | nil => exact absurd rfl h
  | cons a as => simp

theorem firstOf_length_le (l : Listener) (rs : List Report) : (firstOf l rs).length ≤ 1 := by
  cases l <;> simp [firstOf]
  omega

/-! ### shield -/

theorem blockFrom_replicate (n : Nat) (b : Bool) :
    blockFrom (List.replicate n (some b)) = (List.replicate n (some true), false) := by
  induction n with
  | zero => rfl
  | succ n ih => simp [List.replicate_succ, blockFrom, ih]

theorem isBlocking_open (s : St) (n o : Nat) (h : s.shield = List.replicate n (some false)) :
    isBlocking s o = false := by
  unfold isBlocking
  rw [h]
  by_cases ho : o < n
  · simp [ho]
  · simp [ho]

theorem isBlocking_closed (s : St) (n o : Nat) (h : s.shield = List.replicate n (some true))
    (ho : o < n) : isBlocking s o = true := by
  unfold isBlocking
  rw [h]
  simp [ho]

/-! ### close() once the task set is cached -/

theorem closeF_cached (cfg : Cfg) (f : Nat) (s : St) (x : Nat) (h : s.pending = some x) :
    closeF cfg (f + 1) s = s := by
  simp [closeF, h]

/-- a continuation that behaves like a `close()` that hits the cache -/
def Cached (k : St → St) : Prop := ∀ s x, s.pending = some x → k s = s

theorem cached_closeF (cfg : Cfg) (f : Nat) : Cached (closeF cfg (f + 1)) :=
  fun s x h => closeF_cached cfg f s x h

structure Mid (cfg : Cfg) (x : Nat) (sh : List Shield) (log : List Nat) (d : List Report)
    (s : St) : Prop where
  pending : s.pending = some x
  raised : s.raised = false
  calls : s.callsMade = s.reports.length
  notif : s.notified ++ d = firstOf cfg.listener s.reports
  shield : s.shield = sh
  pushOn : s.pushOn = false
  closeLog : s.closeLog = log

theorem reportWith_mid {cfg : Cfg} {k : St → St} {x sh log d s} (hm : cfg.maxCalls = 1)
    (hk : Cached k) (h : Mid cfg x sh log d s) (r : Report) :
    Mid cfg x sh log d (reportWith cfg k s r) := by
  obtain ⟨hp, hr, hc, hn, hs, hpo, hl⟩ := h
  unfold reportWith
  simp only [hm]
  by_cases h0 : s.callsMade = 0
  · -- first report ever: delivered
    have hrs : s.reports = [] := by
      have : s.reports.length = 0 := by omega
      exact List.eq_nil_of_length_eq_zero this
    rw [hrs, firstOf_nil] at hn
    have hnot : s.notified = [] := (List.append_eq_nil_iff.mp hn).1
    have hd : d = [] := (List.append_eq_nil_iff.mp hn).2
    simp only [h0, Nat.zero_add, ne_eq, Nat.succ_ne_zero, not_false_eq_true, Nat.lt_irrefl,
      and_false, if_false, gt_iff_lt]
    have hk' := hk { s with reports := s.reports ++ [r], callsMade := 1 } x hp
    cases hl' : cfg.listener with
    | none =>
      simp only [hk']
      exact ⟨hp, hr, by simp [hrs], by simp [hl', firstOf, hnot, hd], hs, hpo, hl⟩
    | alive =>
      simp only [hk']
      exact ⟨hp, hr, by simp [hrs], by simp [hl', firstOf, hnot, hd, hrs], hs, hpo, hl⟩
    | dead =>
      exact ⟨hp, hr, by simp [hrs], by simp [hl', firstOf, hnot, hd], hs, hpo, hl⟩
  · -- max_calls exhausted: swallowed
    have hne : s.reports ≠ [] := by
      intro he; rw [he] at hc; simp at hc; exact h0 hc
    have hgt : s.callsMade + 1 > 1 := by omega
    simp only [ne_eq, Nat.succ_ne_zero, not_false_eq_true, hgt, and_self, if_true]
    exact ⟨hp, hr, by simp [hc], by simpa [firstOf_append_of_ne _ _ _ hne] using hn, hs, hpo, hl⟩

theorem foldl_reportWith_mid {cfg : Cfg} {k : St → St} {x sh log d} (hm : cfg.maxCalls = 1)
    (hk : Cached k) (i : Nat) (kinds : List Kind) :
    ∀ s, Mid cfg x sh log d s →
      Mid cfg x sh log d (kinds.foldl (fun s kd => reportWith cfg k s ⟨i, kd⟩) s) := by
  induction kinds with
  | nil => intro s h; exact h
  | cons kd kds ih =>
    intro s h
    simp only [List.foldl_cons]
    exact ih _ (reportWith_mid hm hk h _)

theorem closeProtos_mid {cfg : Cfg} {k : St → St} {x sh d} (hm : cfg.maxCalls = 1)
    (hk : Cached k) (ps : List Proto) :
    ∀ i log s, Mid cfg x sh log d s →
      Mid cfg x sh (log ++ List.range' i ps.length) d (closeProtos cfg k i ps s) := by
  induction ps with
  | nil => intro i log s h; simpa [closeProtos] using h
  | cons p ps ih =>
    intro i log s h
    simp only [closeProtos]
    have h1 : Mid cfg x sh (log ++ [i]) d { s with closeLog := s.closeLog ++ [i] } :=
      ⟨h.pending, h.raised, h.calls, h.notif, h.shield, h.pushOn, by simp [h.closeLog]⟩
    have h2 := foldl_reportWith_mid hm hk i p.onClose _ h1
    have h3 : Mid cfg x sh (log ++ [i]) d
        { (p.onClose.foldl (fun s kd => reportWith cfg k s ⟨i, kd⟩)
            { s with closeLog := s.closeLog ++ [i] }) with
          tasks := (p.onClose.foldl (fun s kd => reportWith cfg k s ⟨i, kd⟩)
            { s with closeLog := s.closeLog ++ [i] }).tasks + p.tasks } :=
      ⟨h2.pending, h2.raised, h2.calls, h2.notif, h2.shield, h2.pushOn, h2.closeLog⟩
    have h4 := ih (i + 1) (log ++ [i]) _ h3
    have : log ++ [i] ++ List.range' (i + 1) ps.length = log ++ List.range' i (ps.length + 1) := by
      simp [List.range'_succ]
    rw [this] at h4
    simpa using h4

theorem blockEverything_mid {cfg : Cfg} {x n log d s}
    (h : Mid cfg x (List.replicate n (some false)) log d s) :
    Mid cfg x (List.replicate n (some true)) log d (blockEverything s) := by
  obtain ⟨hp, hr, hc, hn, hs, hpo, hl⟩ := h
  unfold blockEverything
  simp only [hs, blockFrom_replicate]
  exact ⟨hp, by simp [hr], hc, hn, rfl, hpo, hl⟩

/-- `close()` on an open device, entered with `d` still to be delivered by the caller -/
theorem closeF_open {cfg : Cfg} (wf : WF cfg) (f : Nat) (d : List Report) (s : St)
    (hp : s.pending = none) (hr : s.raised = false) (hc : s.callsMade = s.reports.length)
    (hn : s.notified ++ d = firstOf cfg.listener s.reports)
    (hs : s.shield = List.replicate cfg.nObjs (some false)) (hl : s.closeLog = []) :
    Mid cfg s.nextId (List.replicate cfg.nObjs (some true)) (List.range' 0 cfg.protos.length) d
      (closeF cfg (f + 2) s) := by
  have hb0 := isBlocking_open s cfg.nObjs 0 hs
  have hb1 := isBlocking_open s cfg.nObjs cfg.pushObj hs
  rw [closeF]
  simp only [hp, hb0, hb1, Bool.or_self, Bool.false_eq_true, if_false]
  apply blockEverything_mid
  have h0 : Mid cfg s.nextId (List.replicate cfg.nObjs (some false)) [] d
      { s with pushOn := false, pending := some s.nextId, nextId := s.nextId + 1, tasks := 1 } :=
    ⟨rfl, hr, hc, hn, hs, rfl, hl⟩
  have := closeProtos_mid wf.maxCalls (cached_closeF cfg f) cfg.protos 0 [] _ h0
  simpa using this

/-! ### the invariant between events -/

structure Inv (cfg : Cfg) (s : St) : Prop where
  raised : s.raised = false
  calls : s.callsMade = s.reports.length
  notif : s.notified = firstOf cfg.listener s.reports
  opened : s.pending = none →
    s.reports = [] ∧ s.closeLog = [] ∧ s.shield = List.replicate cfg.nObjs (some false)
  closed : ∀ x, s.pending = some x →
    s.shield = List.replicate cfg.nObjs (some true) ∧ s.pushOn = false ∧
      s.closeLog = List.range' 0 cfg.protos.length

theorem Inv.of_mid {cfg : Cfg} {x s}
    (h : Mid cfg x (List.replicate cfg.nObjs (some true)) (List.range' 0 cfg.protos.length) [] s) :
    Inv cfg s :=
  ⟨h.raised, h.calls, by simpa using h.notif, by simp [h.pending],
    fun _ _ => ⟨h.shield, h.pushOn, h.closeLog⟩⟩

theorem Inv.to_mid {cfg : Cfg} {x s} (h : Inv cfg s) (hp : s.pending = some x) :
    Mid cfg x (List.replicate cfg.nObjs (some true)) (List.range' 0 cfg.protos.length) [] s :=
  ⟨hp, h.raised, h.calls, by simp [h.notif], (h.closed x hp).1, (h.closed x hp).2.1,
    (h.closed x hp).2.2⟩

theorem inv_init (cfg : Cfg) : Inv cfg (init cfg) :=
  ⟨rfl, rfl, by simp [init, firstOf_nil], fun _ => ⟨rfl, rfl, rfl⟩, by simp [init]⟩

theorem inv_userClose {cfg : Cfg} (wf : WF cfg) {s : St} (h : Inv cfg s) :
    Inv cfg (closeF cfg topFuel s) := by
  cases hp : s.pending with
  | some x => rw [show topFuel = 1 + 1 from rfl, closeF_cached cfg 1 s x hp]; exact h
  | none =>
    obtain ⟨hrs, hlog, hsh⟩ := h.opened hp
    exact Inv.of_mid (closeF_open wf 0 [] s hp h.raised h.calls (by simp [h.notif]) hsh hlog)

theorem inv_report {cfg : Cfg} (wf : WF cfg) {s : St} (h : Inv cfg s) (r : Report) :
    Inv cfg (reportWith cfg (closeF cfg topFuel) s r) := by
  cases hp : s.pending with
  | some x =>
    exact Inv.of_mid (reportWith_mid wf.maxCalls (cached_closeF cfg 1) (h.to_mid hp) r)
  | none =>
    obtain ⟨hrs, hlog, hsh⟩ := h.opened hp
    have hc0 : s.callsMade = 0 := by rw [h.calls, hrs]; rfl
    have hnot : s.notified = [] := by rw [h.notif, hrs, firstOf_nil]
    unfold reportWith
    simp only [wf.maxCalls, hc0, Nat.zero_add, ne_eq, Nat.succ_ne_zero, not_false_eq_true,
      gt_iff_lt, Nat.lt_irrefl, and_false, if_false]
    cases hl : cfg.listener with
    | dead => exact absurd hl wf.live
    | none =>
      simp only []
      refine Inv.of_mid (x := s.nextId) ?_
      exact closeF_open wf 0 [] { s with reports := s.reports ++ [r], callsMade := 1 } hp h.raised
        (by simp [hrs]) (by simp [hl, firstOf, hnot]) hsh hlog
    | alive =>
      simp only []
      have hm := closeF_open wf 0 [r] { s with reports := s.reports ++ [r], callsMade := 1 } hp
        h.raised (by simp [hrs]) (by simp [hl, firstOf, hnot, hrs]) hsh hlog
      exact Inv.of_mid (x := s.nextId)
        ⟨hm.pending, hm.raised, hm.calls, by rw [List.append_nil]; exact hm.notif, hm.shield,
          hm.pushOn, hm.closeLog⟩

theorem inv_step {cfg : Cfg} (wf : WF cfg) {s : St} (h : Inv cfg s) (e : Ev) :
    Inv cfg (step cfg s e).1 := by
  cases e with
  | report i k => exact inv_report wf h ⟨i, k⟩
  | userClose =>
    have := inv_userClose wf h
    simp only [step]
    split <;> (try split) <;> exact this
  | api m => simp only [step]; split <;> exact h
  | pushStart =>
    simp only [step]
    split
    · exact h
    · rename_i hb
      refine ⟨h.raised, h.calls, h.notif, h.opened, ?_⟩
      intro x hx
      have := isBlocking_closed s cfg.nObjs cfg.pushObj (h.closed x hx).1 wf.push
      exact absurd this hb
  | pushStop =>
    simp only [step]
    split
    · exact h
    · exact ⟨h.raised, h.calls, h.notif, h.opened, fun x hx => ⟨(h.closed x hx).1, rfl, (h.closed x hx).2.2⟩⟩
  | push i => exact h

theorem inv_run {cfg : Cfg} (wf : WF cfg) (evs : List Ev) :
    ∀ s, Inv cfg s → Inv cfg (run cfg s evs) := by
  induction evs with
  | nil => intro s h; exact h
  | cons e es ih => intro s h; exact ih _ (inv_step wf h e)

/-! ### the two logs are append-only (so "over the lifetime" is what `notified` records) -/

/-- …and `raised` is sticky: nothing ever clears it, so `raised = false` at the end of a history
    means no `close()` raised and the model never ran out of fuel anywhere in that history -/
def Grows (s s' : St) : Prop :=
  s.reports <+: s'.reports ∧ s.notified <+: s'.notified ∧ (s.raised = true → s'.raised = true)

theorem Grows.refl (s : St) : Grows s s := ⟨List.prefix_refl _, List.prefix_refl _, id⟩

theorem Grows.trans {a b c : St} (h1 : Grows a b) (h2 : Grows b c) : Grows a c :=
  ⟨List.IsPrefix.trans h1.1 h2.1, List.IsPrefix.trans h1.2.1 h2.2.1, fun h => h2.2.2 (h1.2.2 h)⟩

def Mono (k : St → St) : Prop := ∀ s, Grows s (k s)

theorem reportWith_grows {cfg : Cfg} {k : St → St} (hk : Mono k) (s : St) (r : Report) :
    Grows s (reportWith cfg k s r) := by
  have h1 : Grows s { s with reports := s.reports ++ [r], callsMade := s.callsMade + 1 } :=
    ⟨List.prefix_append _ _, List.prefix_refl _, id⟩
  unfold reportWith
  simp only []
  split
  · exact h1
  · split
    · exact h1.trans (hk _)
    · refine (h1.trans (hk _)).trans ⟨List.prefix_refl _, List.prefix_append _ _, id⟩
    · exact h1

theorem foldl_reportWith_grows {cfg : Cfg} {k : St → St} (hk : Mono k) (i : Nat)
    (kinds : List Kind) :
    ∀ s, Grows s (kinds.foldl (fun s kd => reportWith cfg k s ⟨i, kd⟩) s) := by
  induction kinds with
  | nil => intro s; exact Grows.refl s
  | cons kd kds ih =>
    intro s
    simp only [List.foldl_cons]
    exact (reportWith_grows hk s _).trans (ih _)

theorem closeProtos_grows {cfg : Cfg} {k : St → St} (hk : Mono k) (ps : List Proto) :
    ∀ i s, Grows s (closeProtos cfg k i ps s) := by
  induction ps with
  | nil => intro i s; exact Grows.refl s
  | cons p ps ih =>
    intro i s
    simp only [closeProtos]
    have h1 : Grows s { s with closeLog := s.closeLog ++ [i] } := Grows.refl s
    have h2 := foldl_reportWith_grows (cfg := cfg) hk i p.onClose { s with closeLog := s.closeLog ++ [i] }
    refine (h1.trans h2).trans (Grows.trans ?_ (ih (i + 1) _))
    exact ⟨List.prefix_refl _, List.prefix_refl _, id⟩

theorem closeF_grows (cfg : Cfg) : ∀ f, Mono (closeF cfg f) := by
  intro f
  induction f with
  | zero => intro s; exact ⟨List.prefix_refl _, List.prefix_refl _, fun _ => rfl⟩
  | succ f ih =>
    intro s
    rw [closeF]
    split
    · exact Grows.refl s
    · split
      · exact ⟨List.prefix_refl _, List.prefix_refl _, fun _ => rfl⟩
      · have h := closeProtos_grows (cfg := cfg) ih cfg.protos 0
          { s with pushOn := false, pending := some s.nextId, nextId := s.nextId + 1, tasks := 1 }
        exact Grows.trans (b := closeProtos cfg (closeF cfg f) 0 cfg.protos
          { s with pushOn := false, pending := some s.nextId, nextId := s.nextId + 1, tasks := 1 })
          h ⟨List.prefix_refl _, List.prefix_refl _, by
            intro hr
            unfold blockEverything
            simp [hr]⟩

theorem step_grows (cfg : Cfg) (s : St) (e : Ev) : Grows s (step cfg s e).1 := by
  cases e with
  | report i k => exact reportWith_grows (closeF_grows cfg topFuel) s _
  | userClose =>
    have := closeF_grows cfg topFuel s
    simp only [step]
    split <;> (try split) <;> exact this
  | api m => simp only [step]; split <;> exact Grows.refl s
  | pushStart => simp only [step]; split <;> exact Grows.refl s
  | pushStop => simp only [step]; split <;> exact Grows.refl s
  | push i => exact Grows.refl s

theorem run_grows (cfg : Cfg) (evs : List Ev) : ∀ s, Grows s (run cfg s evs) := by
  induction evs with
  | nil => intro s; exact Grows.refl s
  | cons e es ih => intro s; exact (step_grows cfg s e).trans (ih _)

/-! ### once closed, the cached set never changes -/

theorem reportWith_cached_frame {cfg : Cfg} {k : St → St} (hk : Cached k) (s : St) (x : Nat)
    (hp : s.pending = some x) (r : Report) :
    (reportWith cfg k s r).pending = some x ∧ (reportWith cfg k s r).tasks = s.tasks ∧
      (reportWith cfg k s r).closeLog = s.closeLog ∧ (reportWith cfg k s r).shield = s.shield := by
  have hk' := hk { s with reports := s.reports ++ [r], callsMade := s.callsMade + 1 } x hp
  unfold reportWith
  simp only []
  split
  · exact ⟨hp, rfl, rfl, rfl⟩
  · split <;> (try simp only [hk']) <;> simp [hp]

theorem step_closed_frame (cfg : Cfg) (s : St) (x : Nat) (hp : s.pending = some x) (e : Ev) :
    (step cfg s e).1.pending = some x ∧ (step cfg s e).1.tasks = s.tasks ∧
      (step cfg s e).1.closeLog = s.closeLog := by
  cases e with
  | report i k =>
    have := reportWith_cached_frame (cfg := cfg) (cached_closeF cfg 1) s x hp ⟨i, k⟩
    exact ⟨this.1, this.2.1, this.2.2.1⟩
  | userClose =>
    have hc : closeF cfg topFuel s = s := closeF_cached cfg 1 s x hp
    simp only [step, hc, hp]
    split <;> exact ⟨hp, rfl, rfl⟩
  | api m => simp only [step]; split <;> exact ⟨hp, rfl, rfl⟩
  | pushStart => simp only [step]; split <;> exact ⟨hp, rfl, rfl⟩
  | pushStop => simp only [step]; split <;> exact ⟨hp, rfl, rfl⟩
  | push i => exact ⟨hp, rfl, rfl⟩

theorem run_closed_frame (cfg : Cfg) (evs : List Ev) :
    ∀ s x, s.pending = some x →
      (run cfg s evs).pending = some x ∧ (run cfg s evs).tasks = s.tasks ∧
        (run cfg s evs).closeLog = s.closeLog := by
  induction evs with
  | nil => intro s x hp; exact ⟨hp, rfl, rfl⟩
  | cons e es ih =>
    intro s x hp
    have h1 := step_closed_frame cfg s x hp e
    have h2 := ih _ x h1.1
    exact ⟨h2.1, h2.2.1.trans h1.2.1, h2.2.2.trans h1.2.2⟩

/-! ### a closing event closes -/

theorem reportWith_has {cfg : Cfg} {k : St → St} (hk : Mono k) (s : St) (r : Report) :
    s.reports ++ [r] <+: (reportWith cfg k s r).reports := by
  unfold reportWith
  simp only []
  split
  · exact List.prefix_refl _
  · split
    · exact (hk { s with reports := s.reports ++ [r], callsMade := s.callsMade + 1 }).1
    · exact (hk { s with reports := s.reports ++ [r], callsMade := s.callsMade + 1 }).1
    · exact List.prefix_refl _

/-- the device has been closed: `_pending_tasks` is set -/
def Closed (s : St) : Prop := ∃ x, s.pending = some x

/-- events that the property names as final: the user's `close()` and any report -/
def Ev.isClosing : Ev → Bool
  | .userClose => true
  | .report _ _ => true
  | _ => false

theorem closed_of_closing {cfg : Cfg} (wf : WF cfg) {s : St} (h : Inv cfg s) (e : Ev)
    (he : e.isClosing = true) : Closed (step cfg s e).1 := by
  have hinv := inv_step wf h e
  cases e with
  | report i k =>
    have hne : (step cfg s (.report i k)).1.reports ≠ [] := by
      intro hnil
      have := reportWith_has (cfg := cfg) (closeF_grows cfg topFuel) s ⟨i, k⟩
      simp only [step] at hnil
      rw [hnil] at this
      simp at this
    cases hp : (step cfg s (.report i k)).1.pending with
    | some x => exact ⟨x, hp⟩
    | none => exact absurd (hinv.opened hp).1 hne
  | userClose =>
    cases hp : s.pending with
    | some x =>
      have hc : closeF cfg topFuel s = s := closeF_cached cfg 1 s x hp
      refine ⟨x, ?_⟩
      simp only [step, hc, hp]
      split <;> exact hp
    | none =>
      obtain ⟨_, hlog, hsh⟩ := h.opened hp
      have hm := closeF_open wf 0 [] s hp h.raised h.calls (by simp [h.notif]) hsh hlog
      refine ⟨s.nextId, ?_⟩
      have : closeF cfg topFuel s = closeF cfg (0 + 2) s := rfl
      simp only [step, this, hm.pending, hm.raised]
      simp [hm.pending]
  | api m => simp [Ev.isClosing] at he
  | pushStart => simp [Ev.isClosing] at he
  | pushStop => simp [Ev.isClosing] at he
  | push i => simp [Ev.isClosing] at he

theorem closed_run (cfg : Cfg) (evs : List Ev) (s : St) (h : Closed s) : Closed (run cfg s evs) := by
  obtain ⟨x, hx⟩ := h
  exact ⟨x, (run_closed_frame cfg evs s x hx).1⟩

theorem run_append (cfg : Cfg) (a b : List Ev) : ∀ s, run cfg s (a ++ b) = run cfg (run cfg s a) b := by
  induction a with
  | nil => intro s; rfl
  | cons e es ih => intro s; simp only [List.cons_append, run]; exact ih _

end PyatvModel.C09
