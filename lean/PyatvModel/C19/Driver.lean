import PyatvModel.Base.Bytes
import PyatvModel.C19.Model
/-
Line protocol:  `run <retries> <script>`  with script over o|f|s|c ("-" = empty)
  → `<iterations> <ev,ev,...>`
-/
namespace PyatvModel.C19

def handle (_ : Unit) (ws : List String) : Unit × String :=
  match ws with
  | ["run", r, script] =>
    match r.toNat?, (if script == "-" then some [] else script.toList.mapM Outcome.ofChar?) with
    | some r, some os =>
      ((), s!"{iterations r 0 os} {csv ((run r 0 os).map Ev.toStr)}")
    | _, _ => ((), "bad-op")
  | _ => ((), "bad-op")

end PyatvModel.C19
