/-
C19 — model of `pyatv.core.protocol.heartbeater` (pyatv/core/protocol.py:35-77).

Transcribed loop (one iteration consumes one scripted outcome):

    while True:
        try:
            if attempts == 0: await asyncio.sleep(interval)      -- emits `sleep`
            await sender_func(message)                           -- emits `send`
        except CancelledError: break                             -- then `finish`
        except Exception: attempts += 1
                          if attempts > retries: failure_func(exc); return   -- `failure`
        else: attempts = 0
        finally: count += 1
    finish_func()

An outcome is what the environment does to that iteration: the keep-alive is answered
(`ok`), it raises/times out (`fail`), or the task is cancelled, delivered at the first
await of the iteration (`cancelSleep`; that is the send when no sleep happens) or while
the send is outstanding (`cancelSend`).  Import-free.
-/
namespace PyatvModel.C19

inductive Outcome | ok | fail | cancelSleep | cancelSend
  deriving DecidableEq, Repr

inductive Ev | sleep | send | failure | finish
  deriving DecidableEq, Repr

def Outcome.isCancel : Outcome → Bool
  | .cancelSleep | .cancelSend => true
  | _ => false

/-- events of the part of an iteration that precedes the send's outcome -/
def pre (a : Nat) : List Ev := if a = 0 then [.sleep, .send] else [.send]

/-- `run retries attempts script`: events emitted by the loop while consuming `script`.
    A script that ends without a terminating outcome leaves the loop running (no more
    events). -/
def run (r : Nat) : Nat → List Outcome → List Ev
  | _, [] => []
  | a, .ok :: os => pre a ++ run r 0 os
  | a, .fail :: os =>
      if a + 1 > r then pre a ++ [.failure] else pre a ++ run r (a + 1) os
  | a, .cancelSleep :: _ => (if a = 0 then [.sleep] else [.send]) ++ [.finish]
  | a, .cancelSend :: _ => pre a ++ [.finish]

/-- `count` at the moment the loop stops (or the script is exhausted). -/
def iterations (r : Nat) : Nat → List Outcome → Nat
  | _, [] => 0
  | _, .ok :: os => 1 + iterations r 0 os
  | a, .fail :: os => if a + 1 > r then 1 else 1 + iterations r (a + 1) os
  | _, .cancelSleep :: _ => 1
  | _, .cancelSend :: _ => 1

def Ev.toStr : Ev → String
  | .sleep => "sleep" | .send => "send" | .failure => "failure" | .finish => "finish"

def Outcome.ofChar? : Char → Option Outcome
  | 'o' => some .ok | 'f' => some .fail | 's' => some .cancelSleep | 'c' => some .cancelSend
  | _ => none

end PyatvModel.C19
