import PyatvModel.C17.Spec
/-
C17 — helper lemmas: the per-operation refinement (buffer = projection of the stream),
preservation of the stream invariant, and the wrapper simulation.
-/
namespace PyatvModel.C17
set_option linter.unusedSimpArgs false
set_option linter.unusedVariables false

theorem Stream.init_inv (size H : Nat) (prot : Bool) (h : 1 ≤ H) : (Stream.init size H prot).Inv := by
  constructor <;> simp [Stream.init] <;> omega

/-! ### add -/

theorem Stream.add_refines (a : Stream) (h : a.Inv) (d : Bytes) :
    a.toBuf.add d = ((a.add d).1.toBuf, (a.add d).2) := by
  have hl : a.low ≤ a.acc.length := Nat.le_trans h.low_cur h.cur_acc
  simp only [Buf.add, Stream.add, Stream.toBuf, List.length_drop]
  rw [List.drop_append_of_le_length hl]
  rfl

theorem Stream.add_inv (a : Stream) (h : a.Inv) (d : Bytes) : (a.add d).1.Inv := by
  have hl : a.low ≤ a.acc.length := Nat.le_trans h.low_cur h.cur_acc
  have hc := h.cap
  constructor <;> simp only [Stream.add, List.length_append, List.length_take]
  · exact h.hpos
  · exact h.low_cur
  · have := h.cur_acc; omega
  · exact h.low_mode
  · exact h.in_headroom
  · exact h.prot_low
  · omega

/-! ### get -/

theorem Stream.get_refines (a : Stream) (h : a.Inv) (n : Nat) :
    a.toBuf.get n = ((a.get n).1.toBuf, (a.get n).2) := by
  have hpos := h.hpos
  have hlc := h.low_cur
  rcases h.low_mode with h0 | hc
  · -- everything is kept: buf = acc, pos = cur
    cases hp : a.prot
    · -- unprotected
      by_cases hge : a.headroom ≤ a.cur + min n (a.acc.length - a.cur)
      · have hne : ¬ (a.cur + min n (a.acc.length - a.cur) = 0) := by omega
        have hlt : ¬ (a.cur + min n (a.acc.length - a.cur) < a.headroom) := by omega
        simp [Buf.get, Stream.get, Stream.toBuf, h0, hp, hge, hlt]
        omega
      · have hlt : a.cur + min n (a.acc.length - a.cur) < a.headroom := by omega
        simp [Buf.get, Stream.get, Stream.toBuf, h0, hp, hge, hlt]
    · simp [Buf.get, Stream.get, Stream.toBuf, h0, hp]
  · -- only the unread part is kept: buf = acc.drop cur
    by_cases h0 : a.low = 0
    · -- degenerate overlap with the first case (low = cur = 0)
      have hc0 : a.cur = 0 := by omega
      cases hp : a.prot
      · by_cases hge : a.headroom ≤ min n a.acc.length
        · have hne : ¬ (min n a.acc.length = 0) := by omega
          have hlt : ¬ (min n a.acc.length < a.headroom) := by omega
          simp [Buf.get, Stream.get, Stream.toBuf, h0, hc0, hp, hge, hne, hlt]
        · have hlt : min n a.acc.length < a.headroom := by omega
          simp [Buf.get, Stream.get, Stream.toBuf, h0, hc0, hp, hge, hlt]
      · simp [Buf.get, Stream.get, Stream.toBuf, h0, hc0, hp]
    · have hp : a.prot = false := by
        cases hp : a.prot
        · rfl
        · exact absurd (h.prot_low hp) h0
      have h0' : ¬ (a.cur = 0) := by omega
      have hne : ¬ (a.cur + min n (a.acc.length - a.cur) = 0) := by omega
      simp [Buf.get, Stream.get, Stream.toBuf, h0', hp, hc]

theorem Stream.get_inv (a : Stream) (h : a.Inv) (n : Nat) : (a.get n).1.Inv := by
  have h1 := h.hpos; have h2 := h.low_cur; have h3 := h.cur_acc; have h4 := h.low_mode
  have h5 := h.in_headroom; have h6 := h.prot_low; have h7 := h.cap
  have hlen : ((a.acc.drop a.cur).take n).length ≤ a.acc.length - a.cur := by
    simp only [List.length_take, List.length_drop]; omega
  generalize hL : ((a.acc.drop a.cur).take n).length = L at hlen
  cases hp : a.prot
  · simp only [hp, Bool.false_eq_true, forall_const] at h5 h6
    by_cases hc : a.low = 0 ∧ a.cur + L < a.headroom
    · constructor <;> simp [Stream.get, hL, hp, hc] <;> omega
    · constructor <;> simp [Stream.get, hL, hp, hc] <;> omega
  · have h0 : a.low = 0 := h6 hp
    constructor <;> simp [Stream.get, hL, hp, h0] <;> omega

/-! ### seek, protect -/

theorem Stream.seek_refines (a : Stream) (h : a.Inv) (p : Nat) :
    a.toBuf.seek p = ((a.seek p).1.toBuf, (a.seek p).2) := by
  by_cases hpc : p = a.cur
  · simp [Buf.seek, Stream.seek, Stream.toBuf, hpc]
  · by_cases h0 : a.low = 0
    · by_cases h1 : p < a.headroom
      · by_cases h2 : p < a.acc.length
        · have : ¬ (min a.headroom a.acc.length ≤ p) := by omega
          have : ¬ (a.headroom ≤ p) := by omega
          simp [Buf.seek, Stream.seek, Stream.toBuf, hpc, h0, h1, h2, *]
        · have : min a.headroom a.acc.length ≤ p := by omega
          have : ¬ (a.headroom ≤ p) := by omega
          simp [Buf.seek, Stream.seek, Stream.toBuf, hpc, h0, h1, h2, *]
      · have : a.headroom ≤ p := by omega
        simp [Buf.seek, Stream.seek, Stream.toBuf, hpc, h0, h1, *]
    · simp [Buf.seek, Stream.seek, Stream.toBuf, hpc, h0]

theorem Stream.seek_inv (a : Stream) (h : a.Inv) (p : Nat) : (a.seek p).1.Inv := by
  have h1 := h.hpos; have h2 := h.low_cur; have h3 := h.cur_acc; have h4 := h.low_mode
  have h5 := h.in_headroom; have h6 := h.prot_low; have h7 := h.cap
  unfold Stream.seek
  split
  · exact h
  · split
    · rename_i hc
      constructor <;> simp [hc.1] <;> omega
    · exact h

theorem Stream.setProtected_refines (a : Stream) (b : Bool) :
    a.toBuf.setProtected b = ((a.setProtected b).1.toBuf, (a.setProtected b).2) := by
  by_cases hb : b = a.prot
  · simp [Buf.setProtected, Stream.setProtected, Stream.toBuf, hb]
  · by_cases hc : a.cur = 0
    · simp [Buf.setProtected, Stream.setProtected, Stream.toBuf, hb, hc]
    · simp [Buf.setProtected, Stream.setProtected, Stream.toBuf, hb, hc]

theorem Stream.setProtected_inv (a : Stream) (h : a.Inv) (b : Bool) : (a.setProtected b).1.Inv := by
  have h1 := h.hpos; have h2 := h.low_cur; have h3 := h.cur_acc; have h4 := h.low_mode
  have h5 := h.in_headroom; have h6 := h.prot_low; have h7 := h.cap
  unfold Stream.setProtected
  split
  · exact h
  · split
    · exact h
    · rename_i hb hc
      have hc0 : a.cur = 0 := by simpa using hc
      constructor <;> simp [hc0] <;> omega

/-! ### whole operations and histories -/

theorem Stream.step_refines (a : Stream) (h : a.Inv) (op : Op) :
    a.toBuf.step op = ((a.step op).1.toBuf, (a.step op).2) := by
  cases op with
  | add d => simp [Buf.step, Stream.step, Stream.add_refines a h d]
  | get n => simp [Buf.step, Stream.step, Stream.get_refines a h n]
  | seek p => simp [Buf.step, Stream.step, Stream.seek_refines a h p]
  | protect b => simp [Buf.step, Stream.step, Stream.setProtected_refines a b]

theorem Stream.step_inv (a : Stream) (h : a.Inv) (op : Op) : (a.step op).1.Inv := by
  cases op with
  | add d => exact Stream.add_inv a h d
  | get n => exact Stream.get_inv a h n
  | seek p => exact Stream.seek_inv a h p
  | protect b => exact Stream.setProtected_inv a h b

theorem Stream.run_inv (a : Stream) (h : a.Inv) (ops : List Op) : (a.run ops).1.Inv := by
  induction ops generalizing a with
  | nil => exact h
  | cons op ops ih => exact ih _ (Stream.step_inv a h op)

theorem Stream.run_refines (a : Stream) (h : a.Inv) (ops : List Op) :
    a.toBuf.run ops = ((a.run ops).1.toBuf, (a.run ops).2) := by
  induction ops generalizing a with
  | nil => rfl
  | cons op ops ih =>
    simp only [Buf.run, Stream.run, Stream.step_refines a h op, ih _ (Stream.step_inv a h op)]

theorem Stream.step_size (a : Stream) (op : Op) : (a.step op).1.size = a.size := by
  cases op with
  | add d => rfl
  | get n => rfl
  | seek p =>
    simp only [Stream.step, Stream.seek]
    split
    · rfl
    · split <;> rfl
  | protect b =>
    simp only [Stream.step, Stream.setProtected]
    split
    · rfl
    · split <;> rfl

theorem Stream.run_size (a : Stream) (ops : List Op) : (a.run ops).1.size = a.size := by
  induction ops generalizing a with
  | nil => rfl
  | cons op ops ih => simp only [Stream.run]; rw [ih, Stream.step_size]

/-! ### the reference checker accepts every buffer history -/

theorem slice_prefix (A R : Bytes) (c m : Nat) (hc : c ≤ A.length) :
    (A.drop c).take m = (((A ++ R).drop c).take ((A.drop c).take m).length) := by
  rw [List.drop_append_of_le_length hc]
  rw [List.take_append_of_le_length (by simp only [List.length_take]; omega)]
  rw [List.take_eq_take_iff]
  simp

theorem Stream.next_step (a : Stream) (h : a.Inv) (op : Op) :
    Ref.next a.acc a.cur (op, (a.step op).2) = some ((a.step op).1.acc, (a.step op).1.cur) := by
  cases op with
  | add d =>
    have : min d.length (a.size - (a.acc.length - a.low)) ≤ d.length := Nat.min_le_left _ _
    simp [Ref.next, Stream.step, Stream.add, this]
  | get n =>
    have h1 : ((a.acc.drop a.cur).take n).length ≤ n := by simp only [List.length_take]; omega
    have h2 := slice_prefix a.acc [] a.cur n h.cur_acc
    rw [List.append_nil] at h2
    simp only [Ref.next, Stream.step, Stream.get]
    rw [if_pos ⟨h1, h2⟩]
  | seek p =>
    by_cases hpc : p = a.cur
    · simp [Ref.next, Stream.step, Stream.seek, hpc]
    · by_cases hc : a.low = 0 ∧ p < a.headroom ∧ p < a.acc.length
      · simp [Ref.next, Stream.step, Stream.seek, hpc, hc]
      · simp [Ref.next, Stream.step, Stream.seek, hpc, hc]
  | protect b =>
    by_cases hb : b = a.prot
    · simp [Ref.next, Stream.step, Stream.setProtected, hb]
    · by_cases hc : a.cur = 0
      · simp [Ref.next, Stream.step, Stream.setProtected, hb, hc]
      · simp [Ref.next, Stream.step, Stream.setProtected, hb, hc]

theorem Stream.ref_ok (a : Stream) (h : a.Inv) (ops : List Op) :
    Ref.ok a.acc a.cur (ops.zip (a.run ops).2) := by
  induction ops generalizing a with
  | nil => trivial
  | cons op ops ih =>
    simp only [Stream.run, List.zip_cons_cons, Ref.ok, Stream.next_step a h op]
    exact ih _ (Stream.step_inv a h op)

/-! ### wrappers: simulation against the source -/

theorem Src.read_spec (s : Src) (n : Nat) :
    (s.read n).2 ++ (s.read n).1.rest = s.rest ∧ (s.read n).2.length ≤ n := by
  unfold Src.read
  split
  · simp only [List.take_append_drop, List.length_take, true_and]; omega
  · simp only [List.take_append_drop, List.length_take, true_and]; omega

theorem Src.read_nonempty (s : Src) (n : Nat) (hn : 1 ≤ n) (hr : s.rest ≠ []) : (s.read n).2 ≠ [] := by
  unfold Src.read
  split
  · simp only [ne_eq, List.take_eq_nil_iff, not_or]; exact ⟨by omega, hr⟩
  · simp only [ne_eq, List.take_eq_nil_iff, not_or]; exact ⟨by omega, hr⟩

theorem Stream.toBuf_unread (a : Stream) (h : a.Inv) : a.toBuf.unread = a.acc.length - a.cur := by
  have h2 := h.low_cur; have h3 := h.cur_acc
  rcases h.low_mode with h0 | hc
  · simp [Buf.unread, Stream.toBuf, h0]
  · by_cases h0 : a.low = 0
    · simp [Buf.unread, Stream.toBuf, h0]
    · simp [Buf.unread, Stream.toBuf, h0]; omega

theorem Stream.toBuf_remaining (a : Stream) : a.toBuf.remaining = a.size - (a.acc.length - a.low) := by
  simp [Buf.remaining, Stream.toBuf]

theorem Stream.toBuf_fits (a : Stream) (n : Nat) :
    a.toBuf.fits n = decide (a.acc.length - a.low + n ≤ a.size) := by
  simp [Buf.fits, Stream.toBuf]

theorem Stream.toBuf_pending (a : Stream) (h : a.Inv) : a.toBuf.pending = a.acc.drop a.cur := by
  rcases h.low_mode with h0 | hc
  · simp [Buf.pending, Stream.toBuf, h0]
  · by_cases h0 : a.low = 0
    · have : a.cur = 0 := by omega
      simp [Buf.pending, Stream.toBuf, h0, this]
    · simp [Buf.pending, Stream.toBuf, h0]; rw [hc]

theorem Stream.add_all (a : Stream) (d : Bytes) (hd : d.length ≤ a.size - (a.acc.length - a.low)) :
    (a.add d).1.acc = a.acc ++ d ∧ (a.add d).1.cur = a.cur := by
  simp [Stream.add, Nat.min_eq_left hd]

/-- the simulation relation between a wrapper world and its ghost stream -/
structure Rel (S : Bytes) (w : World) (a : Stream) : Prop where
  buf : w.b = a.toBuf
  inv : a.Inv
  src : a.acc ++ w.src.rest = S

/-- pulling `m ≤ room` bytes from the source into the buffer keeps the relation -/
theorem Rel.pull {S : Bytes} {w : World} {a : Stream} (r : Rel S w a) (m : Nat)
    (hm : m ≤ a.size - (a.acc.length - a.low)) :
    ∃ a', Rel S { b := (w.b.add (w.src.read m).2).1, src := (w.src.read m).1 } a' ∧ a'.cur = a.cur ∧
      a'.acc = a.acc ++ (w.src.read m).2 := by
  have hs := Src.read_spec w.src m
  have hd : (w.src.read m).2.length ≤ a.size - (a.acc.length - a.low) := Nat.le_trans hs.2 hm
  have ha := Stream.add_all a _ hd
  refine ⟨(a.add (w.src.read m).2).1, ⟨?_, Stream.add_inv a r.inv _, ?_⟩, ha.2, ha.1⟩
  · simp only [r.buf, Stream.add_refines a r.inv]
  · simp only [ha.1, List.append_assoc, hs.1]; exact r.src

theorem Rel.fill {S : Bytes} {w : World} {a : Stream} (r : Rel S w a) (n : Nat) :
    ∃ a', Rel S (w.fill n) a' ∧ a'.cur = a.cur ∧ a.acc.length ≤ a'.acc.length ∧
      (w.b.remaining > 0 ∧ n > w.b.unread → a'.acc = a.acc ++ (w.src.read (min n w.b.remaining)).2) := by
  unfold World.fill
  split
  · have hrem : w.b.remaining = a.size - (a.acc.length - a.low) := by
      rw [r.buf]; exact Stream.toBuf_remaining a
    obtain ⟨a', r', hc, hacc⟩ := r.pull (min n w.b.remaining) (by rw [hrem]; exact Nat.min_le_right _ _)
    exact ⟨a', r', hc, by rw [hacc, List.length_append]; omega, fun _ => hacc⟩
  · rename_i hno
    exact ⟨a, r, rfl, Nat.le_refl _, fun h => absurd h hno⟩

theorem Rel.get {S : Bytes} {w : World} {a : Stream} (r : Rel S w a) (m : Nat) :
    Rel S { w with b := (w.b.get m).1 } (a.get m).1 ∧
      (w.b.get m).2 = (a.acc.drop a.cur).take m ∧
      (w.b.get m).2 = (S.drop a.cur).take (w.b.get m).2.length ∧
      (a.get m).1.cur = a.cur + (w.b.get m).2.length := by
  have hg : w.b.get m = ((a.get m).1.toBuf, (a.get m).2) := by rw [r.buf]; exact Stream.get_refines a r.inv m
  have hout : (a.get m).2 = (a.acc.drop a.cur).take m := rfl
  refine ⟨⟨by simp only [hg], Stream.get_inv a r.inv m, ?_⟩, by rw [hg, hout], ?_, by rw [hg, hout]; rfl⟩
  · exact r.src
  · rw [hg]; simp only [hout]; rw [← r.src]; exact slice_prefix a.acc w.src.rest a.cur m r.inv.cur_acc

theorem Rel.read {S : Bytes} {w : World} {a : Stream} (r : Rel S w a) (sz : Option Nat) :
    ∃ a', Rel S (w.read sz).1 a' ∧
      (∀ n, sz = some n → (w.read sz).2.length ≤ n) ∧
      (w.read sz).2 = (S.drop a.cur).take (w.read sz).2.length ∧
      a'.cur = a.cur + (w.read sz).2.length := by
  cases sz with
  | none =>
    obtain ⟨h1, h2, h3, h4⟩ := r.get w.b.unread
    exact ⟨_, h1, by simp, h3, h4⟩
  | some n =>
    cases n with
    | zero => exact ⟨a, r, by simp [World.read], by simp [World.read], by simp [World.read]⟩
    | succ n =>
      obtain ⟨a1, r1, hc1, _, _⟩ := r.fill (n + 1)
      obtain ⟨h1, h2, h3, h4⟩ := r1.get (min (n + 1) (w.fill (n + 1)).b.unread)
      refine ⟨_, h1, ?_, ?_, ?_⟩
      · intro k hk
        have hk' : k = n + 1 := by simpa using hk.symm
        subst hk'
        show ((w.fill (n + 1)).b.get (min (n + 1) (w.fill (n + 1)).b.unread)).2.length ≤ n + 1
        rw [h2]; simp only [List.length_take]; omega
      · rw [← hc1]; exact h3
      · rw [← hc1]; exact h4

theorem Rel.seek {S : Bytes} {w : World} {a : Stream} (r : Rel S w a) (p : Nat) :
    Rel S { w with b := (w.b.seek p).1 } (a.seek p).1 ∧ (w.b.seek p).2 = (a.seek p).2 ∧
      (w.b.seek p).1.pos = (a.seek p).1.cur := by
  have hg : w.b.seek p = ((a.seek p).1.toBuf, (a.seek p).2) := by
    rw [r.buf]; exact Stream.seek_refines a r.inv p
  refine ⟨⟨by simp only [hg], Stream.seek_inv a r.inv p, ?_⟩, by rw [hg], by rw [hg]; rfl⟩
  have : (a.seek p).1.acc = a.acc := by
    unfold Stream.seek
    split
    · rfl
    · split <;> rfl
  rw [this]; exact r.src

theorem Rel.protect {S : Bytes} {w : World} {a : Stream} (r : Rel S w a) (b : Bool) :
    Rel S { w with b := (w.b.setProtected b).1 } (a.setProtected b).1 ∧
      (a.setProtected b).1.cur = a.cur := by
  have hg : w.b.setProtected b = ((a.setProtected b).1.toBuf, (a.setProtected b).2) := by
    rw [r.buf]; exact Stream.setProtected_refines a b
  have hacc : (a.setProtected b).1.acc = a.acc ∧ (a.setProtected b).1.cur = a.cur := by
    unfold Stream.setProtected
    split
    · exact ⟨rfl, rfl⟩
    · split <;> exact ⟨rfl, rfl⟩
  refine ⟨⟨by simp only [hg], Stream.setProtected_inv a r.inv b, ?_⟩, hacc.2⟩
  rw [hacc.1]; exact r.src

/-- success of a stream seek means the cursor is the target; failure leaves it -/
theorem Stream.seek_cur (a : Stream) (p : Nat) :
    ((a.seek p).2 = true → (a.seek p).1.cur = p) ∧ ((a.seek p).2 = false → (a.seek p).1 = a) := by
  unfold Stream.seek
  split
  · rename_i h; simp [h]
  · split <;> simp

theorem Rel.pos {S : Bytes} {w : World} {a : Stream} (r : Rel S w a) : w.b.pos = a.cur := by
  rw [r.buf]; rfl

theorem Rel.step {S : Bytes} {w : World} {a : Stream} (r : Rel S w a) (k : Kind) (op : WOp) :
    ∃ a', Rel S (w.step k op).1 a' ∧ WRef.next S a.cur (op, (w.step k op).2) = some a'.cur := by
  cases op with
  | read sz =>
    obtain ⟨a', r', hlen, hslice, hcur⟩ := r.read sz
    refine ⟨a', r', ?_⟩
    have hl : lenOk sz (w.read sz).2.length = true := by
      cases sz with
      | none => rfl
      | some n => simpa [lenOk] using hlen n rfl
    simp only [World.step, WRef.next]
    rw [if_pos ⟨hl, hslice⟩, hcur]
  | seek p =>
    obtain ⟨r', hok, hpos⟩ := r.seek p
    have hsc := Stream.seek_cur a p
    cases k with
    | srw =>
      refine ⟨_, r', ?_⟩
      simp only [World.step, WRef.next, WRes.seekOk, hok]
      cases hb : (a.seek p).2
      · simp [hsc.2 hb]
      · simp [hsc.1 hb]
    | bio =>
      refine ⟨_, r', ?_⟩
      simp only [World.step, WRef.next, WRes.seekOk, hpos]
      by_cases hq : (a.seek p).1.cur = p
      · simp [hq]
      · cases hb : (a.seek p).2
        · simp [hsc.2 hb, hq]; intro h; rw [hsc.2 hb] at hq; exact absurd h hq
        · exact absurd (hsc.1 hb) hq
    | ssw =>
      refine ⟨_, r', ?_⟩
      simp only [World.step, WRef.next, WRes.seekOk, hpos]
      by_cases hq : (a.seek p).1.cur = p
      · simp [hq]
      · cases hb : (a.seek p).2
        · simp [hsc.2 hb, hq]; intro h; rw [hsc.2 hb] at hq; exact absurd h hq
        · exact absurd (hsc.1 hb) hq
  | seekCur off =>
    have hp := r.pos
    cases k with
    | srw => exact ⟨a, r, by simp [World.step, WRef.next, WRes.seekOk]⟩
    | bio =>
      refine ⟨a, r, ?_⟩
      simp only [World.step, WRef.next, WRes.seekOk, hp]
      by_cases h0 : off = 0
      · simp [h0]
      · have : ¬ (a.cur = a.cur + off) := by omega
        simp [this]
    | ssw =>
      refine ⟨a, r, ?_⟩
      simp only [World.step, WRef.next, WRes.seekOk, hp]
      by_cases h0 : off = 0
      · simp [h0]
      · have : ¬ (a.cur = a.cur + off) := by omega
        simp [this]
  | protect b =>
    obtain ⟨r', hc⟩ := r.protect b
    exact ⟨_, r', by simp [World.step, WRef.next, hc]⟩

theorem Rel.run {S : Bytes} {w : World} {a : Stream} (r : Rel S w a) (k : Kind) (ops : List WOp) :
    WRef.ok S a.cur (ops.zip (w.run k ops).2) ∧ ∃ a', Rel S (w.run k ops).1 a' := by
  induction ops generalizing w a with
  | nil => exact ⟨trivial, a, r⟩
  | cons op ops ih =>
    obtain ⟨a', r', hn⟩ := r.step k op
    simp only [World.run, List.zip_cons_cons, WRef.ok, hn]
    exact ih r'

theorem Rel.init (size H : Nat) (prot : Bool) (hH : 1 ≤ H) (S : Bytes) (ks : List Nat) :
    Rel S (World.init size H prot S ks) (Stream.init size H prot) :=
  ⟨rfl, Stream.init_inv size H prot hH, rfl⟩

/-- what is still to be delivered (unread buffer ++ rest of the source) is the source from
    the position on -/
theorem Rel.pending {S : Bytes} {w : World} {a : Stream} (r : Rel S w a) :
    w.b.pending ++ w.src.rest = S.drop w.b.pos := by
  rw [r.pos, r.buf, Stream.toBuf_pending a r.inv, ← r.src,
    List.drop_append_of_le_length r.inv.cur_acc]

/-! ### the HTTP (PatchedIceCastClient) stacking -/

theorem Src.readAll_spec (fuel : Nat) (s : Src) (n : Nat) (hf : n ≤ fuel) :
    (Src.readAll fuel s n).2 ++ (Src.readAll fuel s n).1.rest = s.rest ∧
    (Src.readAll fuel s n).2.length = min n s.rest.length := by
  induction fuel generalizing s n with
  | zero =>
    have : n = 0 := by omega
    subst this
    simp [Src.readAll]
  | succ fuel ih =>
    unfold Src.readAll
    by_cases hn : n = 0
    · subst hn; simp
    · have hs := Src.read_spec s n
      rw [if_neg hn]
      by_cases he : (s.read n).2 = []
      · rw [if_pos he]
        have hrest : s.rest = [] := by
          apply Classical.byContradiction
          intro hne
          exact Src.read_nonempty s n (by omega) hne he
        have h1 := hs.1
        rw [he, List.nil_append, hrest] at h1
        simp [h1, hrest]
      · rw [if_neg he]
        have hpos : 0 < (s.read n).2.length := List.length_pos_iff.mpr he
        have hi := ih (s.read n).1 (n - (s.read n).2.length) (by omega)
        have hlen : s.rest.length = (s.read n).2.length + (s.read n).1.rest.length := by
          rw [← hs.1, List.length_append]
        refine ⟨?_, ?_⟩
        · simp only []
          rw [List.append_assoc, hi.1, hs.1]
        · simp only [List.length_append]
          rw [hi.2, hlen]
          have := hs.2
          omega

theorem icyAudio_nil (M : Nat) (m : IcyMode) : icyAudio M m [] = [] := by
  cases m with
  | audio u => cases u <;> simp [icyAudio]
  | skip k => cases k <;> simp [icyAudio]

theorem icyAudio_audio_append (M : Nat) (c r : Bytes) (u : Nat) (h : c.length ≤ u) :
    icyAudio M (.audio u) (c ++ r) = c ++ icyAudio M (.audio (u - c.length)) r := by
  induction c generalizing u with
  | nil => simp
  | cons x c ih =>
    cases u with
    | zero => simp at h
    | succ u =>
      have h' : c.length ≤ u := by simpa using h
      have hsub : u + 1 - (x :: c).length = u - c.length := by simp
      simp only [List.cons_append, icyAudio, ih u h', hsub]

theorem icyAudio_skip_exact (M : Nat) (c r : Bytes) (k : Nat) (h : c.length = k + 1) :
    icyAudio M (.skip k) (c ++ r) = icyAudio M (.audio M) r := by
  induction c generalizing k with
  | nil => simp at h
  | cons x c ih =>
    cases k with
    | zero =>
      have : c = [] := List.length_eq_zero_iff.mp (by simpa using h)
      subst this
      simp [icyAudio]
    | succ k =>
      have h' : c.length = k + 1 := by simpa using h
      simp only [List.cons_append, icyAudio]
      exact ih k h'

theorem icyAudio_skip_short (M : Nat) (c : Bytes) (k : Nat) (h : c.length ≤ k + 1) :
    icyAudio M (.skip k) c = [] := by
  induction c generalizing k with
  | nil => exact icyAudio_nil M _
  | cons x c ih =>
    cases k with
    | zero =>
      have : c = [] := by simpa using h
      subst this
      simp [icyAudio, icyAudio_nil]
    | succ k =>
      have h' : c.length ≤ k + 1 := by simpa using h
      simp only [icyAudio]
      exact ih k h'

/-- what a turn's reading part does to the audio still to come: the fetched chunk is
    exactly its beginning; it is at most a block; `ended` only when no audio is left. -/
structure FetchOk (iw iw' : IWorld) (blk : Nat) : Prop where
  view : iw.view = iw'.held ++ iw'.view
  len : iw'.held.length ≤ blk
  fin : iw'.ended = true → iw'.view = []
  buf : iw'.w.b = iw.w.b
  stop : iw'.stopped = iw.stopped

theorem IWorld.fetchPlain_ok (iw : IWorld) (blk : Nat) (hblk : 1 ≤ blk) (hM : iw.metaint = 0) :
    FetchOk iw (iw.fetchPlain blk) blk := by
  have hs := Src.read_spec iw.w.src blk
  refine ⟨?_, ?_, ?_, rfl, rfl⟩
  · simp only [IWorld.view, IWorld.fetchPlain, IWorld.held, hM, if_true, Option.getD_some]
    exact hs.1.symm
  · simp only [IWorld.fetchPlain, IWorld.held, Option.getD_some]; exact hs.2
  · intro he
    have he' : (iw.w.src.read blk).2 = [] := by simpa [IWorld.fetchPlain, List.isEmpty_iff] using he
    have hrest : iw.w.src.rest = [] := by
      apply Classical.byContradiction
      intro hne
      exact Src.read_nonempty iw.w.src blk hblk hne he'
    have h1 := hs.1
    rw [he', List.nil_append, hrest] at h1
    simp only [IWorld.view, IWorld.fetchPlain, hM, if_true]
    exact h1

theorem IWorld.fetchIcy_ok (iw : IWorld) (blk : Nat) (hM : iw.metaint ≠ 0) :
    FetchOk iw (iw.fetchIcy blk) blk := by
  have hr := Src.readAll_spec (min iw.untilMeta blk) iw.w.src (min iw.untilMeta blk) (Nat.le_refl _)
  generalize hrd : Src.readAll (min iw.untilMeta blk) iw.w.src (min iw.untilMeta blk) = r at hr
  obtain ⟨hr1, hr2⟩ := hr
  have hlenu : r.2.length ≤ iw.untilMeta := by rw [hr2]; omega
  have hlenb : r.2.length ≤ blk := by rw [hr2]; omega
  -- the audio still to come starts with the chunk
  have hview : icyAudio iw.metaint (.audio iw.untilMeta) iw.w.src.rest
      = r.2 ++ icyAudio iw.metaint (.audio (iw.untilMeta - r.2.length)) r.1.rest := by
    rw [← hr1]
    exact icyAudio_audio_append iw.metaint r.2 r.1.rest iw.untilMeta hlenu
  unfold IWorld.fetchIcy
  simp only [hrd]
  by_cases hshort : r.2.length < min iw.untilMeta blk
  · -- the response ended inside the audio run
    rw [if_pos hshort]
    have hrest : r.1.rest = [] := by
      have : r.2.length = iw.w.src.rest.length := by omega
      have h2 : iw.w.src.rest.length = r.2.length + r.1.rest.length := by rw [← hr1, List.length_append]
      exact List.length_eq_zero_iff.mp (by omega)
    refine ⟨?_, hlenb, fun _ => ?_, rfl, rfl⟩
    · simp only [IWorld.view, IWorld.held, Option.getD_some, if_neg hM, hrest, icyAudio_nil, List.append_nil]
      rw [hview, hrest, icyAudio_nil, List.append_nil]
    · simp only [IWorld.view, if_neg hM, hrest, icyAudio_nil]
  · rw [if_neg hshort]
    by_cases hu : iw.untilMeta - r.2.length = 0
    · rw [if_pos hu]
      have hl := Src.readAll_spec 1 r.1 1 (Nat.le_refl _)
      generalize hld : Src.readAll 1 r.1 1 = l at hl
      obtain ⟨hl1, hl2⟩ := hl
      cases hl2' : l.2 with
      | nil =>
        -- no length byte: the response ended right after the run
        have hrest : r.1.rest = [] := by
          rw [hl2'] at hl2
          have : min 1 r.1.rest.length = 0 := by simpa using hl2.symm
          exact List.length_eq_zero_iff.mp (by omega)
        have hlrest : l.1.rest = [] := by
          rw [hl2', List.nil_append, hrest] at hl1; exact hl1
        simp only []
        refine ⟨?_, hlenb, fun _ => ?_, rfl, rfl⟩
        · simp only [IWorld.view, IWorld.held, Option.getD_some, if_neg hM, hlrest, icyAudio_nil, List.append_nil]
          rw [hview, hrest, icyAudio_nil, List.append_nil]
        · simp only [IWorld.view, if_neg hM, hlrest, icyAudio_nil]
      | cons x tl =>
        have htl : tl = [] := by
          rw [hl2'] at hl2
          have : tl.length + 1 = min 1 r.1.rest.length := by simpa using hl2
          exact List.length_eq_zero_iff.mp (by omega)
        subst htl
        have hm := Src.readAll_spec (16 * x.toNat) l.1 (16 * x.toNat) (Nat.le_refl _)
        generalize hmd : Src.readAll (16 * x.toNat) l.1 (16 * x.toNat) = m at hm
        obtain ⟨hm1, hm2⟩ := hm
        simp only [hmd]
        refine ⟨?_, hlenb, fun h => by simp at h, rfl, rfl⟩
        simp only [IWorld.view, IWorld.held, Option.getD_some, if_neg hM]
        rw [hview, hu]
        congr 1
        -- r.1.rest = x :: (metadata ++ rest after it)
        rw [hl2'] at hl1
        rw [← hl1, ← hm1]
        simp only [List.singleton_append, icyAudio]
        cases hk : 16 * x.toNat with
        | zero =>
          have : m.2 = [] := List.length_eq_zero_iff.mp (by rw [hm2, hk]; simp)
          simp [this]
        | succ k =>
          simp only []
          by_cases hfull : m.2.length = k + 1
          · exact icyAudio_skip_exact iw.metaint m.2 m.1.rest k hfull
          · -- metadata cut short by the end of the response
            have hlen2 : l.1.rest.length = m.2.length + m.1.rest.length := by
              rw [← hm1, List.length_append]
            have hmr : m.1.rest = [] := List.length_eq_zero_iff.mp (by rw [hk] at hm2; omega)
            rw [hmr, List.append_nil, icyAudio_nil]
            exact icyAudio_skip_short iw.metaint m.2 k (by rw [hk] at hm2; omega)
    · rw [if_neg hu]
      refine ⟨?_, hlenb, fun h => by simp at h, rfl, rfl⟩
      simp only [IWorld.view, IWorld.held, Option.getD_some, if_neg hM]
      exact hview

/-- the world as the consumer's reference sees it: a fetched-but-unstored chunk and the
    audio still to be downloaded count as "in the source" -/
def IWorld.virt (iw : IWorld) : World :=
  { b := iw.w.b, src := { rest := iw.held ++ iw.view, ks := iw.w.src.ks } }

structure IRel (S : Bytes) (iw : IWorld) (a : Stream) : Prop where
  rel : Rel S iw.virt a
  room : iw.held.length ≤ a.size - (a.acc.length - a.low)

theorem Stream.get_keeps (a : Stream) (h : a.Inv) (n : Nat) :
    (a.get n).1.acc = a.acc ∧ (a.get n).1.size = a.size ∧ a.low ≤ (a.get n).1.low := by
  have h2 := h.low_cur
  refine ⟨rfl, rfl, ?_⟩
  simp only [Stream.get]
  split
  · exact Nat.le_refl _
  · split
    · rename_i hc; omega
    · omega

theorem Stream.seek_keeps (a : Stream) (p : Nat) :
    (a.seek p).1.acc = a.acc ∧ (a.seek p).1.size = a.size ∧ (a.seek p).1.low = a.low := by
  unfold Stream.seek
  split
  · exact ⟨rfl, rfl, rfl⟩
  · split <;> exact ⟨rfl, rfl, rfl⟩

theorem Stream.setProtected_keeps (a : Stream) (b : Bool) :
    (a.setProtected b).1.acc = a.acc ∧ (a.setProtected b).1.size = a.size ∧
      (a.setProtected b).1.low = a.low ∧ (a.setProtected b).1.cur = a.cur := by
  unfold Stream.setProtected
  split
  · exact ⟨rfl, rfl, rfl, rfl⟩
  · split <;> exact ⟨rfl, rfl, rfl, rfl⟩

/-- the invariant of the download side: the end is decided (`ended`), and flagged
    (`stopped`), only when no audio is left to download -/
structure IWorld.StopOk (iw : IWorld) : Prop where
  fin : iw.ended = true → iw.view = []
  stop : iw.stopped = true → iw.held = [] ∧ iw.view = []

theorem IWorld.fetch_cases (iw : IWorld) (blk : Nat) (hblk : 1 ≤ blk) :
    ((iw.fetch blk).1 = iw) ∨
    (iw.chunk = none ∧ iw.w.b.fits blk = true ∧ FetchOk iw (iw.fetch blk).1 blk) := by
  unfold IWorld.fetch
  split
  · exact Or.inl rfl
  · rename_i hno
    have hnone : iw.chunk = none := by
      cases hc : iw.chunk with
      | none => rfl
      | some d => simp [hc] at hno
    split
    · rename_i hf
      refine Or.inr ⟨hnone, hf, ?_⟩
      by_cases hM : iw.metaint = 0
      · simp only [if_pos hM]; exact IWorld.fetchPlain_ok iw blk hblk hM
      · simp only [if_neg hM]; exact IWorld.fetchIcy_ok iw blk hM
    · exact Or.inl rfl

theorem IRel.fetch {S : Bytes} {iw : IWorld} {a : Stream} (r : IRel S iw a) (blk : Nat) (hblk : 1 ≤ blk) :
    IRel S (iw.fetch blk).1 a := by
  rcases IWorld.fetch_cases iw blk hblk with h | ⟨hnone, hf, ok⟩
  · rw [h]; exact r
  · have hb : iw.w.b = a.toBuf := r.rel.buf
    rw [hb, Stream.toBuf_fits] at hf
    have hf' : a.acc.length - a.low + blk ≤ a.size := by simpa using hf
    refine ⟨⟨?_, r.rel.inv, ?_⟩, ?_⟩
    · show (iw.fetch blk).1.w.b = a.toBuf
      rw [ok.buf]; exact hb
    · have := r.rel.src
      simp only [IWorld.virt, IWorld.held, hnone, Option.getD_none, List.nil_append] at this
      show a.acc ++ ((iw.fetch blk).1.held ++ (iw.fetch blk).1.view) = S
      rw [← ok.view]; exact this
    · have := ok.len; omega

theorem IRel.store {S : Bytes} {iw : IWorld} {a : Stream} (r : IRel S iw a) :
    ∃ a', IRel S iw.store.1 a' ∧ a'.cur = a.cur := by
  unfold IWorld.store
  split
  · rename_i d hd
    have hroom : d.length ≤ a.size - (a.acc.length - a.low) := by
      have := r.room; simpa [IWorld.held, hd] using this
    have ha := Stream.add_all a d hroom
    refine ⟨(a.add d).1, ⟨⟨?_, Stream.add_inv a r.rel.inv d, ?_⟩, ?_⟩, ha.2⟩
    · have hb : iw.w.b = a.toBuf := r.rel.buf
      simp only [IWorld.virt, hb, Stream.add_refines a r.rel.inv]
    · have := r.rel.src
      simp only [IWorld.virt, IWorld.held, hd, Option.getD_some] at this
      simp only [IWorld.virt, IWorld.held, Option.getD_none, List.nil_append, ha.1, List.append_assoc]
      exact this
    · simp [IWorld.held]
  · exact ⟨a, r, rfl⟩

theorem IRel.feed {S : Bytes} {iw : IWorld} {a : Stream} (r : IRel S iw a) (blk : Nat) (hblk : 1 ≤ blk) :
    ∃ a', IRel S (iw.feed blk).1 a' ∧ a'.cur = a.cur := by
  unfold IWorld.feed
  split
  · exact (r.fetch blk hblk).store
  · exact ⟨a, r, rfl⟩

theorem IRel.step {S : Bytes} {iw : IWorld} {a : Stream} (r : IRel S iw a) (op : IOp)
    (hop : op.blockOk = true) :
    ∃ a', IRel S (iw.step op).1 a' ∧ IRef.next S a.cur (op, (iw.step op).2) = some a'.cur := by
  cases op with
  | fetch blk =>
    exact ⟨a, r.fetch blk (by simpa [IOp.blockOk] using hop), by simp [IWorld.step, IRef.next]⟩
  | store =>
    obtain ⟨a', r', hc⟩ := r.store
    exact ⟨a', r', by simp [IWorld.step, IRef.next, hc]⟩
  | feed blk =>
    obtain ⟨a', r', hc⟩ := r.feed blk (by simpa [IOp.blockOk] using hop)
    exact ⟨a', r', by simp [IWorld.step, IRef.next, hc]⟩
  | read n =>
    obtain ⟨h1, h2, h3, h4⟩ := r.rel.get n
    have hk := Stream.get_keeps a r.rel.inv n
    refine ⟨_, ⟨h1, ?_⟩, ?_⟩
    · have := r.room
      show iw.held.length ≤ (a.get n).1.size - ((a.get n).1.acc.length - (a.get n).1.low)
      rw [hk.1, hk.2.1]; omega
    · have hlen : (iw.w.b.get n).2.length ≤ n := by
        have : (iw.virt.b.get n).2 = (a.acc.drop a.cur).take n := h2
        show (iw.virt.b.get n).2.length ≤ n
        rw [this]; simp only [List.length_take]; omega
      simp only [IWorld.step, IRef.next]
      rw [if_pos ⟨hlen, h3⟩]
      exact congrArg some h4.symm
  | seek p =>
    obtain ⟨r', hok, hpos⟩ := r.rel.seek p
    have hsc := Stream.seek_cur a p
    have hk := Stream.seek_keeps a p
    refine ⟨_, ⟨r', ?_⟩, ?_⟩
    · have := r.room
      show iw.held.length ≤ (a.seek p).1.size - ((a.seek p).1.acc.length - (a.seek p).1.low)
      rw [hk.1, hk.2.1, hk.2.2]; exact this
    · have hpos' : (iw.w.b.seek p).1.pos = (a.seek p).1.cur := hpos
      simp only [IWorld.step, IRef.next, WRes.seekOk, hpos']
      by_cases hq : (a.seek p).1.cur = p
      · simp [hq]
      · cases hb : (a.seek p).2
        · simp [hsc.2 hb, hq]; intro h; rw [hsc.2 hb] at hq; exact absurd h hq
        · exact absurd (hsc.1 hb) hq
  | protect b =>
    obtain ⟨r', hc⟩ := r.rel.protect b
    have hk := Stream.setProtected_keeps a b
    refine ⟨_, ⟨r', ?_⟩, by simp [IWorld.step, IRef.next, hc]⟩
    have := r.room
    show iw.held.length ≤ (a.setProtected b).1.size - ((a.setProtected b).1.acc.length - (a.setProtected b).1.low)
    rw [hk.1, hk.2.1, hk.2.2.1]; exact this

theorem IRel.run {S : Bytes} {iw : IWorld} {a : Stream} (r : IRel S iw a) (ops : List IOp)
    (hops : ∀ op ∈ ops, op.blockOk = true) :
    IRef.ok S a.cur (ops.zip (iw.run ops).2) ∧ ∃ a', IRel S (iw.run ops).1 a' := by
  induction ops generalizing iw a with
  | nil => exact ⟨trivial, a, r⟩
  | cons op ops ih =>
    obtain ⟨a', r', hn⟩ := r.step op (hops op (List.mem_cons_self))
    simp only [IWorld.run, List.zip_cons_cons, IRef.ok, hn]
    exact ih r' (fun o ho => hops o (List.mem_cons_of_mem _ ho))

theorem IRel.init (size H : Nat) (prot : Bool) (hH : 1 ≤ H) (M : Nat) (W : Bytes) (ks : List Nat) :
    IRel (audioOf M W) (IWorld.init size H prot M W ks) (Stream.init size H prot) := by
  refine ⟨⟨rfl, Stream.init_inv size H prot hH, ?_⟩, Nat.zero_le _⟩
  rfl

theorem IWorld.fetch_stopOk (iw : IWorld) (h : iw.StopOk) (blk : Nat) (hblk : 1 ≤ blk) :
    (iw.fetch blk).1.StopOk := by
  rcases IWorld.fetch_cases iw blk hblk with he | ⟨hnone, _, ok⟩
  · rw [he]; exact h
  · refine ⟨ok.fin, fun hst => ?_⟩
    rw [ok.stop] at hst
    have hs := h.stop hst
    have hv := ok.view
    rw [hs.2] at hv
    have : (iw.fetch blk).1.held = [] ∧ (iw.fetch blk).1.view = [] := by
      have := congrArg List.length hv
      simp only [List.length_nil, List.length_append] at this
      exact ⟨List.length_eq_zero_iff.mp (by omega), List.length_eq_zero_iff.mp (by omega)⟩
    exact this

theorem IWorld.store_stopOk (iw : IWorld) (h : iw.StopOk) : iw.store.1.StopOk := by
  unfold IWorld.store
  split
  · refine ⟨fun he => h.fin he, fun hst => ⟨by simp [IWorld.held], h.fin hst⟩⟩
  · exact h

theorem IWorld.step_stopOk (iw : IWorld) (h : iw.StopOk) (op : IOp) (hop : op.blockOk = true) :
    (iw.step op).1.StopOk := by
  cases op with
  | fetch blk => exact IWorld.fetch_stopOk iw h blk (by simpa [IOp.blockOk] using hop)
  | store => exact IWorld.store_stopOk iw h
  | feed blk =>
    simp only [IWorld.step, IWorld.feed]
    split
    · exact IWorld.store_stopOk _ (IWorld.fetch_stopOk iw h blk (by simpa [IOp.blockOk] using hop))
    · exact h
  | read n => exact ⟨h.fin, h.stop⟩
  | seek p => exact ⟨h.fin, h.stop⟩
  | protect b => exact ⟨h.fin, h.stop⟩

theorem IWorld.run_stopOk (iw : IWorld) (h : iw.StopOk) (ops : List IOp)
    (hops : ∀ op ∈ ops, op.blockOk = true) : (iw.run ops).1.StopOk := by
  induction ops generalizing iw with
  | nil => exact h
  | cons op ops ih =>
    exact ih _ (IWorld.step_stopOk iw h op (hops op (List.mem_cons_self)))
      (fun o ho => hops o (List.mem_cons_of_mem _ ho))

/-! ### histories without seeks: the answers concatenate to a prefix -/

theorem take_slice (A : Bytes) (c : Nat) (b : Bytes) (hb : b = (A.drop c).take b.length) :
    A.take c ++ b = A.take (c + b.length) := by
  rw [List.take_add, ← hb]

theorem Stream.concat_noSeek (a : Stream) (h : a.Inv) (ops : List Op)
    (hns : ∀ op ∈ ops, op.isSeek = false) :
    a.acc.take a.cur ++ (a.run ops).2.flatMap Res.bytes
      = (a.run ops).1.acc.take (a.run ops).1.cur := by
  induction ops generalizing a with
  | nil => simp [Stream.run]
  | cons op ops ih =>
    have ih' := ih _ (Stream.step_inv a h op) (fun o ho => hns o (List.mem_cons_of_mem _ ho))
    simp only [Stream.run, List.flatMap_cons]
    rw [← ih', ← List.append_assoc]
    congr 1
    cases op with
    | add d =>
      simp only [Stream.step, Stream.add, Res.bytes, List.append_nil]
      rw [List.take_append_of_le_length h.cur_acc]
    | get n =>
      have h2 := slice_prefix a.acc [] a.cur n h.cur_acc
      rw [List.append_nil] at h2
      simp only [Stream.step, Stream.get, Res.bytes]
      exact take_slice a.acc a.cur _ h2
    | seek p => exact absurd (hns _ (List.mem_cons_self)) (by simp [Op.isSeek])
    | protect b =>
      have : (a.setProtected b).1.acc = a.acc ∧ (a.setProtected b).1.cur = a.cur := by
        unfold Stream.setProtected
        split
        · exact ⟨rfl, rfl⟩
        · split <;> exact ⟨rfl, rfl⟩
      simp only [Stream.step, Res.bytes, List.append_nil, this.1, this.2]

/-- any seek-free trace the wrapper checker accepts concatenates to a source slice -/
theorem WRef.concat_noSeek (S : Bytes) (c : Nat) (ops : List WOp) (rs : List WRes)
    (hlen : rs.length = ops.length)
    (hok : WRef.ok S c (ops.zip rs)) (hns : ∀ op ∈ ops, op.isSeek = false) :
    S.take c ++ rs.flatMap WRes.bytes = S.take (c + (rs.flatMap WRes.bytes).length) := by
  induction ops generalizing c rs with
  | nil =>
    have : rs = [] := List.length_eq_zero_iff.mp hlen
    simp [this]
  | cons op ops ih =>
    cases rs with
    | nil => simp at hlen
    | cons r rs =>
      have hlen' : rs.length = ops.length := by simpa using hlen
      have hns' : ∀ o ∈ ops, o.isSeek = false := fun o ho => hns o (List.mem_cons_of_mem _ ho)
      simp only [List.zip_cons_cons, WRef.ok] at hok
      cases op with
      | read sz =>
        cases r with
        | data b =>
          simp only [WRef.next] at hok
          by_cases hc : lenOk sz b.length = true ∧ b = (S.drop c).take b.length
          · rw [if_pos hc] at hok
            have := ih (c + b.length) rs hlen' hok hns'
            simp only [List.flatMap_cons, WRes.bytes, List.length_append]
            rw [← List.append_assoc, take_slice S c b hc.2, this, Nat.add_assoc]
          · rw [if_neg hc] at hok
            exact absurd hok (by simp)
        | pos q => simp [WRef.next] at hok
        | flag ok => simp [WRef.next] at hok
      | seek p => exact absurd (hns _ (List.mem_cons_self)) (by simp [WOp.isSeek])
      | seekCur off => exact absurd (hns _ (List.mem_cons_self)) (by simp [WOp.isSeek])
      | protect b =>
        cases r with
        | data b => simp [WRef.next] at hok
        | pos q =>
          simp only [WRef.next] at hok
          simpa [WRes.bytes] using ih c rs hlen' hok hns'
        | flag ok =>
          simp only [WRef.next] at hok
          simpa [WRes.bytes] using ih c rs hlen' hok hns'

/-! ### progress: unprotected, a read of ≥ 1 byte is empty only at the end of the source -/

theorem Rel.read_progress {S : Bytes} {w : World} {a : Stream} (r : Rel S w a) (n : Nat) (hn : 1 ≤ n)
    (hprot : a.prot = false) (hsz : a.headroom ≤ a.size) (hmore : a.cur < S.length) :
    (w.read (some n)).2 ≠ [] := by
  obtain ⟨a1, r1, hc1, hge, hpull⟩ := r.fill n
  have hinv := r.inv
  have h2 := hinv.low_cur; have h3 := hinv.cur_acc; have h4 := hinv.low_mode
  have h5 := hinv.in_headroom; have h7 := hinv.cap; have h1 := hinv.hpos
  -- after the refill at least one byte is buffered beyond the cursor
  have hbuf : a1.cur < a1.acc.length := by
    rw [hc1]
    by_cases hun : a.cur < a.acc.length
    · omega
    · have hcur : a.cur = a.acc.length := by omega
      have hrest : w.src.rest ≠ [] := by
        intro he
        have := r.src
        rw [he, List.append_nil] at this
        rw [← this] at hmore
        omega
      have hunread : w.b.unread = 0 := by rw [r.buf, Stream.toBuf_unread a hinv]; omega
      have hrem : w.b.remaining > 0 := by
        rw [r.buf, Stream.toBuf_remaining]
        rcases h4 with h0 | hc
        · have := h5 h0 hprot; omega
        · omega
      have hacc := hpull ⟨hrem, by omega⟩
      have hne := Src.read_nonempty w.src (min n w.b.remaining) (by omega) hrest
      have hlen : 0 < (w.src.read (min n w.b.remaining)).2.length := List.length_pos_iff.mpr hne
      rw [hacc, List.length_append]
      omega
  cases n with
  | zero => omega
  | succ m =>
    obtain ⟨_, hout, _, _⟩ := r1.get (min (m + 1) (w.fill (m + 1)).b.unread)
    have hu : (w.fill (m + 1)).b.unread = a1.acc.length - a1.cur := by
      rw [r1.buf, Stream.toBuf_unread a1 r1.inv]
    show ((w.fill (m + 1)).b.get (min (m + 1) (w.fill (m + 1)).b.unread)).2 ≠ []
    rw [hout, hu]
    intro he
    have := congrArg List.length he
    simp only [List.length_take, List.length_drop, List.length_nil] at this
    omega

/-! ### construction parameters never change -/

theorem Buf.add_params (s : Buf) (d : Bytes) :
    (s.add d).1.size = s.size ∧ (s.add d).1.headroom = s.headroom := ⟨rfl, rfl⟩

theorem Buf.get_params (s : Buf) (n : Nat) :
    (s.get n).1.size = s.size ∧ (s.get n).1.headroom = s.headroom := by
  simp only [Buf.get]
  repeat' split
  all_goals exact ⟨rfl, rfl⟩

theorem Buf.seek_params (s : Buf) (p : Nat) :
    (s.seek p).1.size = s.size ∧ (s.seek p).1.headroom = s.headroom := by
  unfold Buf.seek
  repeat' split
  all_goals exact ⟨rfl, rfl⟩

theorem Buf.setProtected_params (s : Buf) (b : Bool) :
    (s.setProtected b).1.size = s.size ∧ (s.setProtected b).1.headroom = s.headroom := by
  unfold Buf.setProtected
  repeat' split
  all_goals exact ⟨rfl, rfl⟩

theorem World.fill_params (w : World) (n : Nat) :
    (w.fill n).b.size = w.b.size ∧ (w.fill n).b.headroom = w.b.headroom := by
  unfold World.fill
  split
  · exact Buf.add_params _ _
  · exact ⟨rfl, rfl⟩

theorem World.step_params (k : Kind) (w : World) (op : WOp) :
    (w.step k op).1.b.size = w.b.size ∧ (w.step k op).1.b.headroom = w.b.headroom := by
  cases op with
  | read sz =>
    cases sz with
    | none => exact Buf.get_params _ _
    | some n =>
      cases n with
      | zero => exact ⟨rfl, rfl⟩
      | succ m =>
        have h1 := Buf.get_params (w.fill (m + 1)).b (min (m + 1) (w.fill (m + 1)).b.unread)
        have h2 := World.fill_params w (m + 1)
        exact ⟨h1.1.trans h2.1, h1.2.trans h2.2⟩
  | seek p => cases k <;> exact Buf.seek_params _ _
  | seekCur off => cases k <;> exact ⟨rfl, rfl⟩
  | protect b => exact Buf.setProtected_params _ _

theorem World.run_params (k : Kind) (w : World) (ops : List WOp) :
    (w.run k ops).1.b.size = w.b.size ∧ (w.run k ops).1.b.headroom = w.b.headroom := by
  induction ops generalizing w with
  | nil => exact ⟨rfl, rfl⟩
  | cons op ops ih =>
    have h1 := ih (w.step k op).1
    have h2 := World.step_params k w op
    exact ⟨h1.1.trans h2.1, h1.2.trans h2.2⟩

end PyatvModel.C17
