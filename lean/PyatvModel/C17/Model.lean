import PyatvModel.Base.Bytes
/-
C17 — executable model of the audio input buffering layers.

Transcribed source (tree under test, after the `fix:` commit recorded in findings/C17.json):

* `pyatv/support/buffer.py` `SemiSeekableBuffer`
    __init__ :53-69   size :77-79 (`Buf.unread`)   remaining :82-88 (`Buf.remaining`)
    protected_headroom setter :106-114 (`Buf.setProtected`)   add :116-123   get :125-150
    seek :152-177   fits :179-185
* `pyatv/protocols/raop/audio_source.py`
    BufferedIOBaseWrapper.read :134-146 / .seek :148-152        (`World.read`, kind `bio`)
    StreamReaderWrapper.read :178-197 / .seek :199-205          (`World.read`, kind `srw`)
    StreamableSourceWrapper.read :229-231 / .seek :233-237      (kind `ssw`: stacked on
      StreamReaderWrapper exactly as BufferedIOBaseSource.open does; `IWorld.step`: stacked on
      PatchedIceCastClient.read :481-494 / .seek :474-479, whose download step
      `_download_stream` :515-547 (one turn of its loop) is `IWorld.fetch` + `IWorld.store`)

Conventions.  Sizes are `Nat`; the Python code uses `int` and the two agree because the
subtractions that could go negative (`buffer_size - len(buffer)`, `len(buffer) - position`)
never do on reachable states (`len(buffer) ≤ buffer_size`, `position ≤ len(buffer)` while
headroom is held) — those are part of the proved invariant, and the correspondence run
compares the observable `size`/`remaining`/`position` after every operation.  A read size
is `Option Nat` (`none` = Python's `-1`, "everything buffered"); seek offsets are `Nat`
(negative offsets are outside the modelled domain).  The source under a wrapper answers
`read n` with a non-empty prefix of at most `n` bytes; how short is dictated by an oracle
list, so every short-read pattern is covered by quantifying over the list.
Import-free (only Base.Bytes).
-/
namespace PyatvModel.C17

/-! ## SemiSeekableBuffer -/

structure Buf where
  buf : Bytes
  pos : Nat
  hasHeadroom : Bool
  prot : Bool
  size : Nat
  headroom : Nat
  deriving DecidableEq, Repr

def Buf.init (size headroom : Nat) (prot : Bool) : Buf :=
  { buf := [], pos := 0, hasHeadroom := true, prot := prot, size := size, headroom := headroom }

/-- property `size`: unread bytes -/
def Buf.unread (s : Buf) : Nat := s.buf.length - (if s.hasHeadroom then s.pos else 0)

/-- property `remaining` (repaired): room left for `add` -/
def Buf.remaining (s : Buf) : Nat := s.size - s.buf.length

def Buf.fits (s : Buf) (n : Nat) : Bool := s.buf.length + n ≤ s.size

def Buf.add (s : Buf) (d : Bytes) : Buf × Nat :=
  let room := min d.length (s.size - s.buf.length)
  ({ s with buf := s.buf ++ d.take room }, room)

def Buf.get (s : Buf) (n : Nat) : Buf × Bytes :=
  let data := if s.hasHeadroom then (s.buf.drop s.pos).take n else s.buf.take n
  let pos' := s.pos + data.length
  if s.prot then ({ s with pos := pos' }, data)
  else if s.hasHeadroom then
    if pos' ≥ s.headroom then
      ({ s with pos := pos', hasHeadroom := false, buf := s.buf.drop pos' }, data)
    else ({ s with pos := pos' }, data)
  else ({ s with pos := pos', buf := s.buf.drop data.length }, data)

def Buf.seek (s : Buf) (p : Nat) : Buf × Bool :=
  if p = s.pos then (s, true)
  else if !s.hasHeadroom then (s, false)
  else if p ≥ s.headroom then (s, false)
  else if p ≥ min s.headroom s.buf.length then (s, false)   -- `position > headroom_data - 1`
  else ({ s with pos := p }, true)

/-- the `protected_headroom` setter; `false` = `InvalidStateError` -/
def Buf.setProtected (s : Buf) (b : Bool) : Buf × Bool :=
  if b = s.prot then (s, true)
  else if s.pos ≠ 0 then (s, false)
  else ({ s with prot := b }, true)

inductive Op
  | add (d : Bytes) | get (n : Nat) | seek (p : Nat) | protect (b : Bool)
  deriving DecidableEq, Repr

inductive Res
  | count (k : Nat) | data (b : Bytes) | flag (ok : Bool)
  deriving DecidableEq, Repr

def Buf.step (s : Buf) : Op → Buf × Res
  | .add d => ((s.add d).1, .count (s.add d).2)
  | .get n => ((s.get n).1, .data (s.get n).2)
  | .seek p => ((s.seek p).1, .flag (s.seek p).2)
  | .protect b => ((s.setProtected b).1, .flag (s.setProtected b).2)

def Buf.run (s : Buf) : List Op → Buf × List Res
  | [] => (s, [])
  | op :: ops => (((s.step op).1.run ops).1, (s.step op).2 :: ((s.step op).1.run ops).2)

/-! ## The source below a wrapper -/

structure Src where
  rest : Bytes
  ks : List Nat
  deriving DecidableEq, Repr

/-- `read n`: a prefix of at most `n` bytes; the next oracle entry `k` shortens it to
    `min n (k+1)` (never empty while data remains and `n ≥ 1`); oracle exhausted ⇒ full. -/
def Src.read (s : Src) (n : Nat) : Src × Bytes :=
  match s.ks with
  | [] => ({ rest := s.rest.drop n, ks := [] }, s.rest.take n)
  | k :: ks => ({ rest := s.rest.drop (min n (k + 1)), ks := ks }, s.rest.take (min n (k + 1)))

/-! ## BufferedIOBaseWrapper / StreamReaderWrapper / StreamableSourceWrapper -/

structure World where
  b : Buf
  src : Src
  deriving DecidableEq, Repr

/-- which wrapper is driven: only the shape of `seek`'s answer differs. -/
inductive Kind | bio | srw | ssw
  deriving DecidableEq, Repr

inductive WOp
  | read (size : Option Nat) | seek (p : Nat) | seekCur (off : Nat) | protect (b : Bool)
  deriving DecidableEq, Repr

inductive WRes
  | data (b : Bytes) | pos (p : Nat) | flag (ok : Bool)
  deriving DecidableEq, Repr

/-- the refill step shared by both `read`s: only when room is left, a size was given and
    the buffer holds less than asked for; never more than fits. -/
def World.fill (w : World) (n : Nat) : World :=
  if w.b.remaining > 0 ∧ n > w.b.unread then
    { b := (w.b.add (w.src.read (min n w.b.remaining)).2).1, src := (w.src.read (min n w.b.remaining)).1 }
  else w

def World.read (w : World) : Option Nat → World × Bytes
  | some 0 => (w, [])
  | some n =>
      let w1 := w.fill n
      ({ w1 with b := (w1.b.get (min n w1.b.unread)).1 }, (w1.b.get (min n w1.b.unread)).2)
  | none => ({ w with b := (w.b.get w.b.unread).1 }, (w.b.get w.b.unread).2)

def World.step (k : Kind) (w : World) : WOp → World × WRes
  | .read sz => ((w.read sz).1, .data (w.read sz).2)
  | .seek p =>
      let b' := (w.b.seek p).1
      match k with
      | .srw => ({ w with b := b' }, .flag (w.b.seek p).2)
      | _ => ({ w with b := b' }, .pos b'.pos)
  | .seekCur _ =>
      match k with
      | .srw => (w, .flag false)
      | _ => (w, .pos w.b.pos)
  | .protect b => ({ w with b := (w.b.setProtected b).1 }, .flag (w.b.setProtected b).2)

def World.run (k : Kind) (w : World) : List WOp → World × List WRes
  | [] => (w, [])
  | op :: ops => (((w.step k op).1.run k ops).1, (w.step k op).2 :: ((w.step k op).1.run k ops).2)

def World.init (size headroom : Nat) (prot : Bool) (S : Bytes) (ks : List Nat) : World :=
  { b := Buf.init size headroom prot, src := { rest := S, ks := ks } }

/-! ## StreamableSourceWrapper over PatchedIceCastClient (HTTP streams) -/

/-- `_readall(fileobject, n)`: raw reads of what is still missing until `n` bytes are
    there or a read comes back empty (end of the response).  `fuel ≥ n` suffices. -/
def Src.readAll : Nat → Src → Nat → Src × Bytes
  | 0, s, _ => (s, [])
  | fuel + 1, s, n =>
    if n = 0 then (s, [])
    else if (s.read n).2 = [] then ((s.read n).1, [])
    else ((Src.readAll fuel (s.read n).1 (n - (s.read n).2.length)).1,
          (s.read n).2 ++ (Src.readAll fuel (s.read n).1 (n - (s.read n).2.length)).2)

/-- The download side is a second thread.  Its loop turn has two steps that the consumer
    can observe separately: `fetch` (wait for room, read at most a block of audio from the
    response — in ICY mode up to the next metadata block, which is then skipped) and
    `store` (take the lock, add the chunk, and only then flag the end of the stream if the
    response ended during this turn).  `chunk` is a chunk fetched but not yet stored,
    `ended` says the turn in progress hit the end of the response, `stopped` is
    `_stop_stream`, `metaint` the `icy-metaint` header (0 = absent), `untilMeta` the audio
    bytes left before the next metadata block. -/
structure IWorld where
  w : World
  chunk : Option Bytes
  ended : Bool
  stopped : Bool
  metaint : Nat
  untilMeta : Nat
  deriving DecidableEq, Repr

inductive IOp
  | fetch (blk : Nat) | store | feed (blk : Nat) | read (n : Nat) | seek (p : Nat) | protect (b : Bool)
  deriving DecidableEq, Repr

/-- the reading part of a turn without ICY metadata: one raw read of at most a block -/
def IWorld.fetchPlain (iw : IWorld) (blk : Nat) : IWorld :=
  { iw with w := { iw.w with src := (iw.w.src.read blk).1 }, chunk := some (iw.w.src.read blk).2,
            ended := (iw.w.src.read blk).2.isEmpty }

/-- the reading part of a turn with ICY metadata -/
def IWorld.fetchIcy (iw : IWorld) (blk : Nat) : IWorld :=
  let wanted := min iw.untilMeta blk
  let r := Src.readAll wanted iw.w.src wanted
  let u := iw.untilMeta - r.2.length
  if r.2.length < wanted then
    { iw with w := { iw.w with src := r.1 }, chunk := some r.2, ended := true, untilMeta := u }
  else if u = 0 then
    let l := Src.readAll 1 r.1 1
    match l.2 with
    | [] => { iw with w := { iw.w with src := l.1 }, chunk := some r.2, ended := true, untilMeta := u }
    | x :: _ =>
      { iw with w := { iw.w with src := (Src.readAll (16 * x.toNat) l.1 (16 * x.toNat)).1 },
                chunk := some r.2, ended := false, untilMeta := iw.metaint }
  else { iw with w := { iw.w with src := r.1 }, chunk := some r.2, ended := false, untilMeta := u }

/-- first half of a turn of `_download_stream`'s loop; `false` = nothing was read (stream
    already stopped, a chunk is still waiting to be stored, or no room for a whole block). -/
def IWorld.fetch (iw : IWorld) (blk : Nat) : IWorld × Bool :=
  if iw.stopped ∨ iw.chunk.isSome then (iw, false)
  else if iw.w.b.fits blk then
    (if iw.metaint = 0 then iw.fetchPlain blk else iw.fetchIcy blk, true)
  else (iw, false)

/-- second half: `with self._buffer_lock: self._buffer.add(chunk)`, then the end flag -/
def IWorld.store (iw : IWorld) : IWorld × Bool :=
  match iw.chunk with
  | some d => ({ iw with w := { iw.w with b := (iw.w.b.add d).1 }, chunk := none, stopped := iw.ended }, true)
  | none => (iw, false)

/-- a whole, uninterrupted turn -/
def IWorld.feed (iw : IWorld) (blk : Nat) : IWorld × Bool :=
  if (iw.fetch blk).2 then ((iw.fetch blk).1.store.1, true) else (iw, false)

/-- consumer side (`PatchedIceCastClient.read` once it does not have to wait: enough is
    buffered or the stream is flagged as stopped; `.seek`; the shared buffer's protection) -/
def IWorld.step (iw : IWorld) : IOp → IWorld × WRes
  | .fetch blk => ((iw.fetch blk).1, .flag (iw.fetch blk).2)
  | .store => (iw.store.1, .flag iw.store.2)
  | .feed blk => ((iw.feed blk).1, .flag (iw.feed blk).2)
  | .read n => ({ iw with w := { iw.w with b := (iw.w.b.get n).1 } }, .data (iw.w.b.get n).2)
  | .seek p => ({ iw with w := { iw.w with b := (iw.w.b.seek p).1 } }, .pos (iw.w.b.seek p).1.pos)
  | .protect b =>
      ({ iw with w := { iw.w with b := (iw.w.b.setProtected b).1 } }, .flag (iw.w.b.setProtected b).2)

def IWorld.run (iw : IWorld) : List IOp → IWorld × List WRes
  | [] => (iw, [])
  | op :: ops => (((iw.step op).1.run ops).1, (iw.step op).2 :: ((iw.step op).1.run ops).2)

/-- `W` is the body of the HTTP response (the wire: audio only when `metaint = 0`) -/
def IWorld.init (size headroom : Nat) (prot : Bool) (metaint : Nat) (W : Bytes) (ks : List Nat) : IWorld :=
  { w := World.init size headroom prot W ks, chunk := none, ended := false, stopped := false,
    metaint := metaint, untilMeta := metaint }

/-! ## Deterministic test data shared with the harness -/

/-- byte `i` of pattern `seed`: neighbours differ and the period is not 256. -/
def patByte (seed i : Nat) : UInt8 := UInt8.ofNat ((seed + i + 17 * (i / 256)) % 256)

def pat (seed start len : Nat) : Bytes := (List.range len).map (fun i => patByte seed (start + i))

/-- metadata block number `i` announcing `l` sixteen-byte units -/
def metaBlock (l i : Nat) : Bytes :=
  UInt8.ofNat l :: (List.range (16 * l)).map (fun j => UInt8.ofNat ((165 + 7 * i + j) % 256))

/-- ICY wire: runs of `M` audio bytes, each full run followed by a metadata block whose
    length byte cycles through `metas` -/
def icyWireAux (M : Nat) (metas : List Nat) : Nat → Nat → Bytes → Bytes
  | 0, _, _ => []
  | fuel + 1, i, a =>
    if a.length < M then a
    else a.take M ++ metaBlock (metas.getD (i % metas.length) 0) i ++ icyWireAux M metas fuel (i + 1) (a.drop M)

/-- the response body the harness builds: `alen` pattern bytes of audio, framed when
    `M > 0`, cut after `cut` bytes -/
def wire (seed M : Nat) (metas : List Nat) (alen cut : Nat) : Bytes :=
  if M = 0 then pat seed 0 alen else (icyWireAux M metas (alen + 1) 0 (pat seed 0 alen)).take cut

end PyatvModel.C17
