import PyatvModel.Base.Bytes
import PyatvModel.C17.Model
/-
Line protocol (stateful; `-` = empty hex):

  reset <size> <headroom> <prot 0|1>                      buffer mode
  ireset <size> <headroom> <prot> <seed> <audio len> <ks csv|-> <icy-metaint|0> <cut> <meta lengths csv|->
                                                          ice mode over the response body
                                                          `wire seed metaint metas alen cut`
  wreset <bio|srw|ssw> <size> <headroom> <prot> <seed> <srclen> <ks csv|->
                                                          wrapper mode over the source
                                                          `pat seed 0 srclen`, short-read oracle ks
  buffer mode : add <hex> | addp <seed> <start> <len> | get <n> | seek <p> | prot <0|1>
  bio/srw/ssw : read <n|-1> | seek <p> | seekcur <off> | prot <0|1>
  ice         : feed <blk> | fetch <blk> | store | read <n> | seek <p> | prot <0|1>
                (answers carry one more field: the end-of-stream flag `_stop_stream`)

Answer: `<result> <position> <unread> <remaining> <stored> <has_headroom> <protected> <src consumed>`
with result `n:<count>` | `d:<digest>` | `f:<0|1>` | `p:<position>`; `ok` for resets.
A digest is the hex of the bytes when there are at most 24, else
`L<len>.<first 8 hex>.<last 8 hex>.<weighted checksum>`.
Anything else (unknown word, wrong mode, malformed number): `bad-op`, state unchanged.
-/
namespace PyatvModel.C17

def cks : Nat → Nat → Bytes → Nat
  | _, acc, [] => acc
  | i, acc, x :: t => cks (i + 1) ((acc + (i % 65536 + 1) * x.toNat) % 1000003) t

def digest (b : Bytes) : String :=
  if b.length ≤ 24 then toHex b
  else s!"L{b.length}.{toHex (b.take 8)}.{toHex (b.drop (b.length - 8))}.{cks 0 0 b}"

inductive DState
  | none
  | buf (s : Buf)
  | world (k : Kind) (w : World) (total : Nat)
  | ice (w : IWorld) (total : Nat)

def bit (b : Bool) : String := if b then "1" else "0"

def bool? : String → Option Bool
  | "0" => some false
  | "1" => some true
  | _ => Option.none

def obs (s : Buf) (consumed : Nat) : String :=
  s!"{s.pos} {s.unread} {s.remaining} {s.buf.length} {bit s.hasHeadroom} {bit s.prot} {consumed}"

def Res.show : Res → String
  | .count k => s!"n:{k}"
  | .data b => s!"d:{digest b}"
  | .flag ok => s!"f:{bit ok}"

def WRes.show : WRes → String
  | .data b => s!"d:{digest b}"
  | .pos p => s!"p:{p}"
  | .flag ok => s!"f:{bit ok}"

def size? (s : String) : Option (Option Nat) :=
  if s == "-1" then some Option.none else s.toNat?.map some

def kind? : String → Option Kind
  | "bio" => some .bio
  | "srw" => some .srw
  | "ssw" => some .ssw
  | _ => Option.none

def bufOp? : List String → Option Op
  | ["add", h] => (ofHex? h).map Op.add
  | ["addp", sd, st, ln] => do
      let sd ← sd.toNat?; let st ← st.toNat?; let ln ← ln.toNat?
      pure (Op.add (pat sd st ln))
  | ["get", n] => n.toNat?.map Op.get
  | ["seek", p] => p.toNat?.map Op.seek
  | ["prot", b] => (bool? b).map Op.protect
  | _ => Option.none

def worldOp? : List String → Option WOp
  | ["read", n] => (size? n).map WOp.read
  | ["seek", p] => p.toNat?.map WOp.seek
  | ["seekcur", d] => d.toNat?.map WOp.seekCur
  | ["prot", b] => (bool? b).map WOp.protect
  | _ => Option.none

def iceOp? : List String → Option IOp
  | ["feed", k] => k.toNat?.map IOp.feed
  | ["fetch", k] => k.toNat?.map IOp.fetch
  | ["store"] => some IOp.store
  | ["read", n] => n.toNat?.map IOp.read
  | ["seek", p] => p.toNat?.map IOp.seek
  | ["prot", b] => (bool? b).map IOp.protect
  | _ => Option.none

def handle (st : DState) (ws : List String) : DState × String :=
  match ws with
  | ["reset", sz, hr, pr] =>
    match sz.toNat?, hr.toNat?, bool? pr with
    | some sz, some hr, some pr => (.buf (Buf.init sz hr pr), "ok")
    | _, _, _ => (st, "bad-op")
  | ["wreset", kd, sz, hr, pr, sd, ln, ks] =>
    match sz.toNat?, hr.toNat?, bool? pr, sd.toNat?, ln.toNat?, csvNats? ks with
    | some sz, some hr, some pr, some sd, some ln, some ks =>
      let w := World.init sz hr pr (pat sd 0 ln) ks
      match kind? kd with
        | some k => (.world k w ln, "ok")
        | Option.none => (st, "bad-op")
    | _, _, _, _, _, _ => (st, "bad-op")
  | ["ireset", sz, hr, pr, sd, ln, ks, mi, cut, metas] =>
    match sz.toNat?, hr.toNat?, bool? pr, sd.toNat?, ln.toNat?, csvNats? ks, mi.toNat?, cut.toNat?, csvNats? metas with
    | some sz, some hr, some pr, some sd, some ln, some ks, some mi, some cut, some metas =>
      let W := wire sd mi metas ln cut
      (.ice (IWorld.init sz hr pr mi W ks) W.length, "ok")
    | _, _, _, _, _, _, _, _, _ => (st, "bad-op")
  | _ =>
    match st with
    | .none => (st, "bad-op")
    | .buf s =>
      match bufOp? ws with
      | some op => let r := s.step op; (.buf r.1, s!"{r.2.show} {obs r.1 0}")
      | Option.none => (st, "bad-op")
    | .world k w total =>
      match worldOp? ws with
      | some op =>
        let r := w.step k op
        (.world k r.1 total, s!"{r.2.show} {obs r.1.b (total - r.1.src.rest.length)}")
      | Option.none => (st, "bad-op")
    | .ice w total =>
      match iceOp? ws with
      | some op =>
        let r := w.step op
        (.ice r.1 total, s!"{r.2.show} {obs r.1.w.b (total - r.1.w.src.rest.length)} {bit r.1.stopped}")
      | Option.none => (st, "bad-op")

end PyatvModel.C17
