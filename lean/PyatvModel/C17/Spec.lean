import PyatvModel.C17.Model
/-
C17 — the specification side: an abstract byte stream with a cursor and a low-water mark.

`Stream` keeps *every* byte ever accepted (`acc`), the absolute read cursor (`cur`) and
the low-water mark (`low`): bytes `acc[low..]` are still stored, bytes below `low` are gone
for good.  The concrete buffer is a *projection* of it (`Stream.toBuf` forgets the
discarded bytes), so the refinement is stated as "the buffer, run on any history, is the
projection of the stream run on the same history, with identical answers".

`Ref.ok` / `WRef.ok` are the reference byte-stream checkers in the words of the property:
they look only at operations and answers (never at buffer internals) and are what the
Python oracle in harness/c17.py implements independently.
Import-free.
-/
namespace PyatvModel.C17

structure Stream where
  acc : Bytes
  cur : Nat
  low : Nat
  prot : Bool
  size : Nat
  headroom : Nat
  deriving DecidableEq, Repr

def Stream.init (size headroom : Nat) (prot : Bool) : Stream :=
  { acc := [], cur := 0, low := 0, prot := prot, size := size, headroom := headroom }

/-- forget what was discarded: headroom is held exactly while nothing was discarded -/
def Stream.toBuf (a : Stream) : Buf :=
  { buf := a.acc.drop a.low, pos := a.cur, hasHeadroom := decide (a.low = 0), prot := a.prot,
    size := a.size, headroom := a.headroom }

/-- accept as much of `d` as the stored window (`acc[low..]`) leaves room for -/
def Stream.add (a : Stream) (d : Bytes) : Stream × Nat :=
  let k := min d.length (a.size - (a.acc.length - a.low))
  ({ a with acc := a.acc ++ d.take k }, k)

/-- return `acc[cur .. cur+n]`, advance the cursor; unless protected, the low-water mark
    stays at 0 while the cursor is inside the headroom and follows the cursor afterwards -/
def Stream.get (a : Stream) (n : Nat) : Stream × Bytes :=
  let out := (a.acc.drop a.cur).take n
  let cur' := a.cur + out.length
  let low' := if a.prot then a.low else if a.low = 0 ∧ cur' < a.headroom then 0 else cur'
  ({ a with cur := cur', low := low' }, out)

/-- a seek succeeds iff it is a no-op or targets stored headroom data -/
def Stream.seek (a : Stream) (p : Nat) : Stream × Bool :=
  if p = a.cur then (a, true)
  else if a.low = 0 ∧ p < a.headroom ∧ p < a.acc.length then ({ a with cur := p }, true)
  else (a, false)

def Stream.setProtected (a : Stream) (b : Bool) : Stream × Bool :=
  if b = a.prot then (a, true)
  else if a.cur ≠ 0 then (a, false)
  else ({ a with prot := b }, true)

def Stream.step (a : Stream) : Op → Stream × Res
  | .add d => ((a.add d).1, .count (a.add d).2)
  | .get n => ((a.get n).1, .data (a.get n).2)
  | .seek p => ((a.seek p).1, .flag (a.seek p).2)
  | .protect b => ((a.setProtected b).1, .flag (a.setProtected b).2)

def Stream.run (a : Stream) : List Op → Stream × List Res
  | [] => (a, [])
  | op :: ops => (((a.step op).1.run ops).1, (a.step op).2 :: ((a.step op).1.run ops).2)

/-- the invariant of reachable streams (headroom ≥ 1 is part of it) -/
structure Stream.Inv (a : Stream) : Prop where
  hpos : 1 ≤ a.headroom
  low_cur : a.low ≤ a.cur                       -- the cursor never points at discarded data
  cur_acc : a.cur ≤ a.acc.length
  low_mode : a.low = 0 ∨ a.low = a.cur           -- either all is kept, or exactly the unread part
  in_headroom : a.low = 0 → a.prot = false → a.cur < a.headroom
  prot_low : a.prot = true → a.low = 0
  cap : a.acc.length - a.low ≤ a.size

/-! ### reference checkers (operations and answers only) -/

/-- one observed buffer operation against the reference `(acc, cur)`; `none` = the answer
    contradicts the reference stream -/
def Ref.next (acc : Bytes) (cur : Nat) : Op × Res → Option (Bytes × Nat)
  | (.add d, .count k) => if k ≤ d.length then some (acc ++ d.take k, cur) else none
  | (.get n, .data b) =>
      if b.length ≤ n ∧ b = (acc.drop cur).take b.length then some (acc, cur + b.length) else none
  | (.seek p, .flag ok) => if ok then some (acc, p) else some (acc, cur)
  | (.protect _, .flag _) => some (acc, cur)
  | _ => none

def Ref.ok (acc : Bytes) (cur : Nat) : List (Op × Res) → Prop
  | [] => True
  | x :: t => match Ref.next acc cur x with
    | some (acc', cur') => Ref.ok acc' cur' t
    | none => False

instance Ref.decOk : (acc : Bytes) → (cur : Nat) → (t : List (Op × Res)) → Decidable (Ref.ok acc cur t)
  | _, _, [] => isTrue trivial
  | acc, cur, x :: t =>
    match h : Ref.next acc cur x with
    | some (acc', cur') =>
      have := Ref.decOk acc' cur' t
      decidable_of_iff (Ref.ok acc' cur' t) (by simp [Ref.ok, h])
    | none => isFalse (by simp [Ref.ok, h])

/-- did this wrapper `seek p` (answered `r`) report success? -/
def WRes.seekOk (target : Nat) : WRes → Bool
  | .pos q => decide (q = target)
  | .flag ok => ok
  | .data _ => false

/-- a read of size `sz` (`none` = everything buffered) may return at most `sz` bytes -/
def lenOk : Option Nat → Nat → Bool
  | some n, l => decide (l ≤ n)
  | none, _ => true

/-- one observed wrapper operation against the source `S` and the reference cursor -/
def WRef.next (S : Bytes) (cur : Nat) : WOp × WRes → Option Nat
  | (.read sz, .data b) =>
      if lenOk sz b.length = true ∧ b = (S.drop cur).take b.length then some (cur + b.length)
      else none
  | (.read _, _) => none
  | (_, .data _) => none
  | (.seek p, r) => if r.seekOk p then some p else some cur
  | (.seekCur off, r) => if r.seekOk (cur + off) then some (cur + off) else some cur
  | (.protect _, _) => some cur

def WRef.ok (S : Bytes) (cur : Nat) : List (WOp × WRes) → Prop
  | [] => True
  | x :: t => match WRef.next S cur x with
    | some cur' => WRef.ok S cur' t
    | none => False

instance WRef.decOk (S : Bytes) : (cur : Nat) → (t : List (WOp × WRes)) → Decidable (WRef.ok S cur t)
  | _, [] => isTrue trivial
  | cur, x :: t =>
    match h : WRef.next S cur x with
    | some cur' =>
      have := WRef.decOk S cur' t
      decidable_of_iff (WRef.ok S cur' t) (by simp [WRef.ok, h])
    | none => isFalse (by simp [WRef.ok, h])

def IRef.next (S : Bytes) (cur : Nat) : IOp × WRes → Option Nat
  | (.read n, .data b) =>
      if b.length ≤ n ∧ b = (S.drop cur).take b.length then some (cur + b.length) else none
  | (.read _, _) => none
  | (_, .data _) => none
  | (.seek p, r) => if r.seekOk p then some p else some cur
  | (.feed _, _) => some cur
  | (.fetch _, _) => some cur
  | (.store, _) => some cur
  | (.protect _, _) => some cur

def IRef.ok (S : Bytes) (cur : Nat) : List (IOp × WRes) → Prop
  | [] => True
  | x :: t => match IRef.next S cur x with
    | some cur' => IRef.ok S cur' t
    | none => False

instance IRef.decOk (S : Bytes) : (cur : Nat) → (t : List (IOp × WRes)) → Decidable (IRef.ok S cur t)
  | _, [] => isTrue trivial
  | cur, x :: t =>
    match h : IRef.next S cur x with
    | some cur' =>
      have := IRef.decOk S cur' t
      decidable_of_iff (IRef.ok S cur' t) (by simp [IRef.ok, h])
    | none => isFalse (by simp [IRef.ok, h])

/-- download-side operations use a block of at least one byte -/
def IOp.blockOk : IOp → Bool
  | .fetch blk => decide (1 ≤ blk)
  | .feed blk => decide (1 ≤ blk)
  | _ => true

/-- the chunk fetched but not yet stored (empty when there is none) -/
def IWorld.held (iw : IWorld) : Bytes := iw.chunk.getD []

/-! ### ICY framing: which bytes of a response body are audio -/

/-- reader state: `audio u` = `u` audio bytes before the next length byte; `skip k` =
    `k + 1` metadata bytes still to skip -/
inductive IcyMode
  | audio (u : Nat) | skip (k : Nat)
  deriving DecidableEq, Repr

/-- the audio bytes of an ICY body, byte by byte (the format, not the code): after every
    `M` audio bytes one length byte `l`, then `16 * l` bytes of metadata -/
def icyAudio (M : Nat) : IcyMode → Bytes → Bytes
  | _, [] => []
  | .audio 0, x :: t =>
      match 16 * x.toNat with
      | 0 => icyAudio M (.audio M) t
      | k + 1 => icyAudio M (.skip k) t
  | .audio (u + 1), x :: t => x :: icyAudio M (.audio u) t
  | .skip 0, _ :: t => icyAudio M (.audio M) t
  | .skip (k + 1), _ :: t => icyAudio M (.skip k) t

/-- what the consumer of an HTTP stream must receive: the body itself without
    `icy-metaint`, its audio bytes with -/
def audioOf (M : Nat) (W : Bytes) : Bytes := if M = 0 then W else icyAudio M (.audio M) W

/-- the audio still to come from the not yet downloaded part of the body -/
def IWorld.view (iw : IWorld) : Bytes :=
  if iw.metaint = 0 then iw.w.src.rest else icyAudio iw.metaint (.audio iw.untilMeta) iw.w.src.rest

/-! ### reading traces -/

def Res.bytes : Res → Bytes
  | .data b => b
  | _ => []

def WRes.bytes : WRes → Bytes
  | .data b => b
  | _ => []

def Op.isSeek : Op → Bool
  | .seek _ => true
  | _ => false

def WOp.isSeek : WOp → Bool
  | .seek _ => true
  | .seekCur _ => true
  | _ => false

/-- what is still to be delivered from a buffer: its unread bytes -/
def Buf.pending (s : Buf) : Bytes := if s.hasHeadroom then s.buf.drop s.pos else s.buf

end PyatvModel.C17
