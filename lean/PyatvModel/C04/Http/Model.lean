import PyatvModel.Base.Bytes
import PyatvModel.Gen.C04HttpConsts
/-
C04 / HTTP-RTSP — executable model of the message codec in pyatv/support/http.py (pinned tree).

Transcribes:
  * `_format_message`      http.py:51   (request line, automatic User-Agent / Content-Type /
                                          Content-Length, caller's headers, CRLFCRLF, body)
  * `format_request`       http.py:204
  * `format_response`      http.py:156  (status line, automatic Server first, caller's headers,
                                          Content-Length last)
  * `_key_value`           http.py:108
  * `_parse_http_message`  http.py:113  (CRLFCRLF split, CRLF split, ": " split, case-insensitive
                                          header dict, Content-Length, body / rest)
  * `parse_request`        http.py:215  regex `([A-Z_]+) ([^ ]+) ([^/]+)/([0-9.]+)`
  * `parse_response`       http.py:183  regex `([^/]+)/([0-9.]+) ([0-9]+) (.*)`
  * `requests.structures.CaseInsensitiveDict` as far as used (set / get / iteration order).

Text is modelled as its UTF-8 bytes (`str.encode` / `bytes.decode` are parameters: the header
block the encoder writes is valid UTF-8 by construction; on the parse side the harness decides
validity of the header block and of the body itself).  Each of the two `re.match` patterns is
modelled by the longest-match scan it is equivalent to: every repeated character class in them is
followed by a literal that is not in the class (or by the end of the pattern), so backtracking can
never find a match that the greedy scan misses, and the greedy one is the one `re` reports.
`int()` of the Content-Length value is modelled for plain ASCII digit strings; other spellings that
Python accepts (sign, blanks, underscores, non-ASCII digits) answer `unmodelled`.
-/
namespace PyatvModel.C04.Http

abbrev Hdrs := List (Bytes × Bytes)

def crlf : Bytes := [13, 10]
def crlf2 : Bytes := [13, 10, 13, 10]
def colonSp : Bytes := [58, 32]

def lowerByte (b : UInt8) : UInt8 := if 65 ≤ b.toNat ∧ b.toNat ≤ 90 then UInt8.ofNat (b.toNat + 32) else b
/-- `str.lower()` restricted to ASCII header names -/
def lower (bs : Bytes) : Bytes := bs.map lowerByte

/-! ## requests.structures.CaseInsensitiveDict -/

/-- `d[key] = value`: `_store[key.lower()] = (key, value)` — position of the first insertion,
    spelling and value of the last. -/
def ciSet (k v : Bytes) : Hdrs → Hdrs
  | [] => [(k, v)]
  | (k', v') :: r => if lower k' = lower k then (k, v) :: r else (k', v') :: ciSet k v r

def ciOfList (l : Hdrs) : Hdrs := l.foldl (fun d kv => ciSet kv.1 kv.2 d) []

def ciGet (k : Bytes) : Hdrs → Option Bytes
  | [] => none
  | (k', v') :: r => if lower k' = lower k then some v' else ciGet k r

def ciHas (k : Bytes) (d : Hdrs) : Bool := (ciGet k d).isSome

/-! ## decimal integers -/

def natToDec (n : Nat) : Bytes :=
  if h : n < 10 then [UInt8.ofNat (48 + n)] else natToDec (n / 10) ++ [UInt8.ofNat (48 + n % 10)]
termination_by n
decreasing_by omega

def isDigit (b : UInt8) : Bool := 48 ≤ b.toNat && b.toNat ≤ 57

def decVal (bs : Bytes) : Nat := bs.foldl (fun acc b => acc * 10 + (b.toNat - 48)) 0

inductive IntRes | ok (n : Nat) | valueError | unmodelled

/-- `int(text)` as far as modelled -/
def pyInt (bs : Bytes) : IntRes :=
  if bs ≠ [] ∧ bs.all isDigit then .ok (decVal bs)
  else if bs.all (fun b => isDigit b || b = 43 || b = 45 || b = 95 || b = 32 || (9 ≤ b.toNat && b.toNat ≤ 13)
                            || (28 ≤ b.toNat && b.toNat ≤ 31) || 128 ≤ b.toNat) ∧ bs ≠ [] then .unmodelled
  else .valueError

/-! ## formatting -/

def hdrLine (kv : Bytes × Bytes) : Bytes := kv.1 ++ colonSp ++ kv.2

def kUserAgent : Bytes := [85, 115, 101, 114, 45, 65, 103, 101, 110, 116]                    -- "User-Agent"
def kContentType : Bytes := [67, 111, 110, 116, 101, 110, 116, 45, 84, 121, 112, 101]        -- "Content-Type"
def kContentLength : Bytes := [67, 111, 110, 116, 101, 110, 116, 45, 76, 101, 110, 103, 116, 104]  -- "Content-Length"
def kServer : Bytes := [83, 101, 114, 118, 101, 114]                                         -- "Server"
def application : Bytes := [97, 112, 112, 108, 105, 99, 97, 116, 105, 111, 110]              -- "application"

/-- the header lines `_format_message` writes before the caller's own -/
def autoReq (userAgent : Bytes) (contentType : Option Bytes) (d : Hdrs) (body : Bytes) : Hdrs :=
  (if ciHas kUserAgent d then [] else [(kUserAgent, userAgent)])
    ++ (match contentType with
        | some ct => if ct ≠ [] then [(kContentType, ct)] else []
        | none => [])
    ++ (if body ≠ [] then [(kContentLength, natToDec body.length)] else [])

/-- `_format_message(method, uri, protocol, user_agent, content_type, headers, body)` -/
def fmtMessage (method uri protocol userAgent : Bytes) (contentType : Option Bytes) (headers : Hdrs)
    (body : Bytes) : Bytes :=
  let d := ciOfList headers
  (method ++ [32] ++ uri ++ [32] ++ protocol)
    ++ (autoReq userAgent contentType d body ++ d).flatMap (fun kv => crlf ++ hdrLine kv)
    ++ crlf ++ crlf ++ body

structure Req where
  method : Bytes
  path : Bytes
  proto : Bytes
  version : Bytes
  headers : Hdrs
  body : Bytes
  deriving DecidableEq, Repr

structure Resp where
  proto : Bytes
  version : Bytes
  code : Nat
  message : Bytes
  headers : Hdrs
  body : Bytes
  deriving DecidableEq, Repr

/-- `format_request` -/
def fmtReq (r : Req) : Bytes :=
  fmtMessage r.method r.path (r.proto ++ [47] ++ r.version) Gen.C04Http.userAgent none r.headers r.body

def autoRespFront (d : Hdrs) : Hdrs := if ciHas kServer d then [] else [(kServer, Gen.C04Http.serverName)]
def autoRespBack (body : Bytes) : Hdrs := if body ≠ [] then [(kContentLength, natToDec body.length)] else []

/-- `format_response` (body already bytes: `str` bodies are UTF-8 encoded, `dict` bodies go
    through plistlib — parameters) -/
def fmtResp (r : Resp) : Bytes :=
  let d := ciOfList r.headers
  (r.proto ++ [47] ++ r.version ++ [32] ++ natToDec r.code ++ [32] ++ r.message ++ crlf)
    ++ (autoRespFront d ++ d ++ autoRespBack r.body).flatMap (fun kv => hdrLine kv ++ crlf)
    ++ crlf ++ r.body

/-! ## parsing -/

/-- `s.split(pat, maxsplit=1)` when `pat` occurs: text before / after the first occurrence -/
def splitOnce (pat : Bytes) : Bytes → Option (Bytes × Bytes)
  | [] => none
  | c :: t =>
    if pat.isPrefixOf (c :: t) then some ([], (c :: t).drop pat.length)
    else (splitOnce pat t).map fun p => (c :: p.1, p.2)

/-- `s.split("\r\n")`: first piece and the remaining pieces -/
def splitCRLF : Bytes → Bytes × List Bytes
  | [] => ([], [])
  | [c] => ([c], [])
  | c :: d :: t =>
    if c = 13 ∧ d = 10 then ([], (splitCRLF t).1 :: (splitCRLF t).2)
    else ((c :: (splitCRLF (d :: t)).1), (splitCRLF (d :: t)).2)

inductive PErr | index | value | unmodelled
  deriving DecidableEq, Repr

def PErr.toStr : PErr → String
  | .index => "index" | .value => "value" | .unmodelled => "unmodelled"

/-- result of `_parse_http_message` -/
inductive Parsed
  | need                                                   -- (None, {}, b"", message)
  | err (e : PErr)
  | ok (first : Bytes) (hdrs : Hdrs) (body rest : Bytes)
  deriving Repr

def mapM? {α β : Type} (f : α → Option β) : List α → Option (List β)
  | [] => some []
  | x :: xs => match f x, mapM? f xs with
    | some y, some ys => some (y :: ys)
    | _, _ => none

/-- `int(msg_headers.get("Content-Length", 0))` -/
def contentLength (d : Hdrs) : IntRes :=
  match ciGet kContentLength d with
  | none => .ok 0
  | some v => pyInt v

def parseHttpMessage (m : Bytes) : Parsed :=
  match splitOnce crlf2 m with
  | none => .need
  | some (hs, body) =>
    let (first, lines) := splitCRLF hs
    match mapM? (splitOnce colonSp) (lines.filter (· ≠ [])) with
    | none => .err .index                                   -- `split[1]` of a line without ": "
    | some kvs =>
      let d := ciOfList kvs
      match contentLength d with
      | .valueError => .err .value
      | .unmodelled => .err .unmodelled
      | .ok n => if body.length < n then .need else .ok first d (body.take n) (body.drop n)

def isUpperUs (b : UInt8) : Bool := (65 ≤ b.toNat && b.toNat ≤ 90) || b = 95
def isDigitDot (b : UInt8) : Bool := isDigit b || b = 46

/-- `re.match(r"([A-Z_]+) ([^ ]+) ([^/]+)/([0-9.]+)", line).groups()` -/
def matchReqLine (s : Bytes) : Option (Bytes × Bytes × Bytes × Bytes) :=
  let m := s.takeWhile isUpperUs
  if m = [] then none else
  match s.dropWhile isUpperUs with
  | [] => none
  | c1 :: r2 =>
    if c1 ≠ 32 then none else
    let p := r2.takeWhile (· ≠ 32)
    if p = [] then none else
    match r2.dropWhile (· ≠ 32) with
    | [] => none
    | _ :: r4 =>
      let pr := r4.takeWhile (· ≠ 47)
      if pr = [] then none else
      match r4.dropWhile (· ≠ 47) with
      | [] => none
      | _ :: r6 =>
        let v := r6.takeWhile isDigitDot
        if v = [] then none else some (m, p, pr, v)

/-- `re.match(r"([^/]+)/([0-9.]+) ([0-9]+) (.*)", line).groups()` (`.` = anything but "\n") -/
def matchRespLine (s : Bytes) : Option (Bytes × Bytes × Bytes × Bytes) :=
  let pr := s.takeWhile (· ≠ 47)
  if pr = [] then none else
  match s.dropWhile (· ≠ 47) with
  | [] => none
  | _ :: r2 =>
    let v := r2.takeWhile isDigitDot
    if v = [] then none else
    match r2.dropWhile isDigitDot with
    | [] => none
    | c3 :: r4 =>
      if c3 ≠ 32 then none else
      let code := r4.takeWhile isDigit
      if code = [] then none else
      match r4.dropWhile isDigit with
      | [] => none
      | c5 :: r6 =>
        if c5 ≠ 32 then none else some (pr, v, code, r6.takeWhile (· ≠ 10))

inductive Res (α : Type)
  | none (rest : Bytes)          -- `(None, rest)`
  | err (e : PErr)
  | ok (v : α) (rest : Bytes)
  deriving DecidableEq, Repr

/-- `parse_request` -/
def parseReq (m : Bytes) : Res Req :=
  match parseHttpMessage m with
  | .need => .none m
  | .err e => .err e
  | .ok first d body rest =>
    if first = [] then .none rest                          -- `if not first_line`
    else match matchReqLine first with
      | none => .err .value
      | some (method, path, proto, version) => .ok ⟨method, path, proto, version, d, body⟩ rest

/-- `parse_response` -/
def parseResp (m : Bytes) : Res Resp :=
  match parseHttpMessage m with
  | .need => .none m
  | .err e => .err e
  | .ok first d body rest =>
    match matchRespLine first with
    | none => .err .value
    | some (proto, version, code, message) => .ok ⟨proto, version, decVal code, message, d, body⟩ rest

/-- `msg_headers.get("Content-Type", "").startswith("application")`: the body stays `bytes` -/
def ctApplication (d : Hdrs) : Bool :=
  match ciGet kContentType d with
  | some v => application.isPrefixOf v
  | none => false

end PyatvModel.C04.Http
