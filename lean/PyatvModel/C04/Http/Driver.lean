import PyatvModel.Base.Bytes
import PyatvModel.C04.Http.Model
/-
Line protocol (hex fields, `-` = empty):

  hdrs ::= `_` | k~v(|k~v)*
  fmtreq  <method> <path> <proto> <version> <hdrs> <body>                  → hex  (`format_request`)
  fmtmsg  <method> <uri> <protocol> <user-agent> <ctype|_> <hdrs> <body>   → hex  (`_format_message`)
  fmtresp <proto> <version> <code> <message> <hdrs> <body>                 → hex  (`format_response`)
  parsereq <bytes>   → `ok <method> <path> <proto> <version> <hdrs> <body> <app|any> <rest>` | `none <rest>` | `err:class`
  parseresp <bytes>  → `ok <proto> <version> <code> <message> <hdrs> <body> <app|any> <rest>` | `none <rest>` | `err:class`
  (`app`: Content-Type starts with "application", the body is kept as bytes; `any`: the code tries UTF-8)
-/
namespace PyatvModel.C04.Http

def hdrsOf? (s : String) : Option Hdrs :=
  if s == "_" then some [] else
  (s.splitOn "|").mapM fun kv =>
    match kv.splitOn "~" with
    | [k, v] => do pure (← ofHex? k, ← ofHex? v)
    | _ => none

def hdrsToStr (d : Hdrs) : String :=
  if d.isEmpty then "_" else String.intercalate "|" (d.map fun (k, v) => toHex k ++ "~" ++ toHex v)

def appStr (d : Hdrs) : String := if ctApplication d then "app" else "any"

def handle (_ : Unit) (ws : List String) : Unit × String :=
  match ws with
  | ["fmtreq", m, p, pr, v, h, b] =>
    match ofHex? m, ofHex? p, ofHex? pr, ofHex? v, hdrsOf? h, ofHex? b with
    | some m, some p, some pr, some v, some h, some b => ((), toHex (fmtReq ⟨m, p, pr, v, h, b⟩))
    | _, _, _, _, _, _ => ((), "bad-op")
  | ["fmtmsg", m, u, pr, ua, ct, h, b] =>
    match ofHex? m, ofHex? u, ofHex? pr, ofHex? ua, (if ct == "_" then some none else (ofHex? ct).map some),
          hdrsOf? h, ofHex? b with
    | some m, some u, some pr, some ua, some ct, some h, some b => ((), toHex (fmtMessage m u pr ua ct h b))
    | _, _, _, _, _, _, _ => ((), "bad-op")
  | ["fmtresp", pr, v, code, msg, h, b] =>
    match ofHex? pr, ofHex? v, code.toNat?, ofHex? msg, hdrsOf? h, ofHex? b with
    | some pr, some v, some code, some msg, some h, some b => ((), toHex (fmtResp ⟨pr, v, code, msg, h, b⟩))
    | _, _, _, _, _, _ => ((), "bad-op")
  | ["parsereq", m] =>
    match ofHex? m with
    | some m =>
      match parseReq m with
      | .none rest => ((), "none " ++ toHex rest)
      | .err e => ((), "err:" ++ e.toStr)
      | .ok r rest =>
        ((), s!"ok {toHex r.method} {toHex r.path} {toHex r.proto} {toHex r.version} {hdrsToStr r.headers} {toHex r.body} {appStr r.headers} {toHex rest}")
    | none => ((), "bad-op")
  | ["parseresp", m] =>
    match ofHex? m with
    | some m =>
      match parseResp m with
      | .none rest => ((), "none " ++ toHex rest)
      | .err e => ((), "err:" ++ e.toStr)
      | .ok r rest =>
        ((), s!"ok {toHex r.proto} {toHex r.version} {r.code} {toHex r.message} {hdrsToStr r.headers} {toHex r.body} {appStr r.headers} {toHex rest}")
    | none => ((), "bad-op")
  | _ => ((), "bad-op")

end PyatvModel.C04.Http
