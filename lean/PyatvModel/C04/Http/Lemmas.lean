import PyatvModel.C04.Http.Model
/-
Helper lemmas for the HTTP/RTSP codec theorems (Props/C04Http.lean).
-/
namespace PyatvModel.C04.Http

/-! ## the explicit domain -/

/-- `pat` occurs in `s` as a contiguous substring -/
def occurs (pat : Bytes) : Bytes → Bool
  | [] => pat.isPrefixOf []
  | c :: t => pat.isPrefixOf (c :: t) || occurs pat t

/-- free of CR and LF -/
def NoCRLF (s : Bytes) : Prop := ∀ b ∈ s, b ≠ 13 ∧ b ≠ 10

instance (s : Bytes) : Decidable (NoCRLF s) := by unfold NoCRLF; infer_instance

/-- a header: name and value free of CR/LF, name free of ": " -/
def HdrOk (kv : Bytes × Bytes) : Prop := NoCRLF kv.1 ∧ NoCRLF kv.2 ∧ occurs colonSp kv.1 = false

instance (kv : Bytes × Bytes) : Decidable (HdrOk kv) := by unfold HdrOk; infer_instance

def lkeys (d : Hdrs) : List Bytes := d.map fun kv => lower kv.1

/-- header list: every header fine, names pairwise different ignoring case, and no
    Content-Length of the caller's own (the encoder writes it) -/
def HdrsOk (d : Hdrs) : Prop :=
  (∀ kv ∈ d, HdrOk kv) ∧ (lkeys d).Nodup ∧ lower kContentLength ∉ lkeys d

instance (d : Hdrs) : Decidable (HdrsOk d) := by unfold HdrsOk; infer_instance

def ReqOk (r : Req) : Prop :=
  r.method ≠ [] ∧ (∀ b ∈ r.method, isUpperUs b = true) ∧
  r.path ≠ [] ∧ (∀ b ∈ r.path, b ≠ 32) ∧ NoCRLF r.path ∧
  r.proto ≠ [] ∧ (∀ b ∈ r.proto, b ≠ 47) ∧ NoCRLF r.proto ∧
  r.version ≠ [] ∧ (∀ b ∈ r.version, isDigitDot b = true) ∧ HdrsOk r.headers

instance (r : Req) : Decidable (ReqOk r) := by unfold ReqOk; infer_instance

def RespOk (r : Resp) : Prop :=
  r.proto ≠ [] ∧ (∀ b ∈ r.proto, b ≠ 47) ∧ NoCRLF r.proto ∧
  r.version ≠ [] ∧ (∀ b ∈ r.version, isDigitDot b = true) ∧
  NoCRLF r.message ∧ HdrsOk r.headers

instance (r : Resp) : Decidable (RespOk r) := by unfold RespOk; infer_instance

/-! ## splitting -/

theorem splitOnce_colonSp (k v : Bytes) (h : occurs colonSp k = false) :
    splitOnce colonSp (k ++ colonSp ++ v) = some (k, v) := by
  induction k with
  | nil => simp [splitOnce, colonSp]
  | cons c k ih =>
    simp only [occurs, Bool.or_eq_false_iff] at h
    have ih := ih h.2
    have hp : colonSp.isPrefixOf (c :: (k ++ colonSp ++ v)) = false := by
      have h1 := h.1
      cases k with
      | nil => simp [colonSp, List.isPrefixOf] at h1 ⊢
      | cons d k => simpa [colonSp, List.isPrefixOf] using h1
    simp only [List.cons_append, splitOnce, hp, ih]
    simp

def prependFst (w : Bytes) (p : Bytes × Bytes) : Bytes × Bytes := (w ++ p.1, p.2)

theorem splitOnce_cons_of_not_prefix (pat : Bytes) (c : UInt8) (t : Bytes)
    (h : pat.isPrefixOf (c :: t) = false) :
    splitOnce pat (c :: t) = (splitOnce pat t).map fun p => (c :: p.1, p.2) := by
  simp [splitOnce, h]

theorem splitOnce_crlf2_skip (w X : Bytes) (h : ∀ b ∈ w, b ≠ 13) :
    splitOnce crlf2 (w ++ X) = (splitOnce crlf2 X).map (prependFst w) := by
  induction w with
  | nil =>
    simp only [List.nil_append]
    cases splitOnce crlf2 X <;> simp [prependFst]
  | cons c w ih =>
    have hc : c ≠ 13 := h c (by simp)
    have ih := ih (fun b hb => h b (by simp [hb]))
    have hp : crlf2.isPrefixOf (c :: (w ++ X)) = false := by
      simp [crlf2, List.isPrefixOf, Ne.symm hc]
    simp only [List.cons_append, splitOnce, hp, ih]
    cases splitOnce crlf2 X <;> simp [prependFst]

theorem splitOnce_crlf2_line (l X : Bytes) (hne : l ≠ []) (h : ∀ b ∈ l, b ≠ 13) :
    splitOnce crlf2 (crlf ++ l ++ X) = (splitOnce crlf2 X).map (prependFst (crlf ++ l)) := by
  cases l with
  | nil => exact absurd rfl hne
  | cons c l =>
    have hc : c ≠ 13 := h c (by simp)
    have h1 : crlf2.isPrefixOf (13 :: 10 :: c :: (l ++ X)) = false := by
      simp [crlf2, List.isPrefixOf, Ne.symm hc]
    have h2 : crlf2.isPrefixOf (10 :: c :: (l ++ X)) = false := by
      simp [crlf2, List.isPrefixOf]
    have h3 := splitOnce_crlf2_skip (c :: l) X h
    simp only [List.cons_append] at h3
    simp only [crlf, List.cons_append, List.nil_append]
    rw [splitOnce_cons_of_not_prefix _ _ _ h1, splitOnce_cons_of_not_prefix _ _ _ h2, h3]
    cases splitOnce crlf2 X <;> simp [prependFst]

theorem splitOnce_crlf2_here (body : Bytes) : splitOnce crlf2 (crlf ++ crlf ++ body) = some ([], body) := by
  simp [splitOnce, crlf, crlf2]

/-- the header block the encoders write: start line, then CRLF + line for every header -/
def block (start : Bytes) (lines : List Bytes) : Bytes := start ++ lines.flatMap (fun l => crlf ++ l)

theorem splitOnce_lines (lines : List Bytes) (body : Bytes)
    (h : ∀ l ∈ lines, l ≠ [] ∧ ∀ b ∈ l, b ≠ 13) :
    splitOnce crlf2 (lines.flatMap (fun l => crlf ++ l) ++ (crlf ++ crlf ++ body))
      = some (lines.flatMap (fun l => crlf ++ l), body) := by
  induction lines with
  | nil => simpa using splitOnce_crlf2_here body
  | cons l ls ih =>
    have ih := ih (fun x hx => h x (by simp [hx]))
    have hl := h l (by simp)
    have := splitOnce_crlf2_line l (ls.flatMap (fun l => crlf ++ l) ++ (crlf ++ crlf ++ body)) hl.1 hl.2
    simp only [List.flatMap_cons, List.append_assoc] at this ih ⊢
    rw [this, ih]
    simp [prependFst]

theorem splitOnce_block (start : Bytes) (lines : List Bytes) (body : Bytes)
    (hs : ∀ b ∈ start, b ≠ 13) (h : ∀ l ∈ lines, l ≠ [] ∧ ∀ b ∈ l, b ≠ 13) :
    splitOnce crlf2 (block start lines ++ (crlf ++ crlf ++ body)) = some (block start lines, body) := by
  unfold block
  rw [List.append_assoc, splitOnce_crlf2_skip start _ hs, splitOnce_lines lines body h]
  simp [prependFst]

theorem splitCRLF_cons (c : UInt8) (t : Bytes) (hc : c ≠ 13) :
    splitCRLF (c :: t) = (c :: (splitCRLF t).1, (splitCRLF t).2) := by
  cases t with
  | nil => simp [splitCRLF]
  | cons d t => simp [splitCRLF, hc]

theorem splitCRLF_skip (w X : Bytes) (h : ∀ b ∈ w, b ≠ 13) :
    splitCRLF (w ++ X) = (w ++ (splitCRLF X).1, (splitCRLF X).2) := by
  induction w with
  | nil => simp
  | cons c w ih =>
    rw [List.cons_append, splitCRLF_cons c _ (h c (by simp)), ih (fun b hb => h b (by simp [hb]))]
    simp

theorem splitCRLF_lines (lines : List Bytes) (h : ∀ l ∈ lines, ∀ b ∈ l, b ≠ 13) :
    splitCRLF (lines.flatMap (fun l => crlf ++ l)) = ([], lines) := by
  induction lines with
  | nil => simp [splitCRLF]
  | cons l ls ih =>
    have ih := ih (fun x hx => h x (by simp [hx]))
    have := splitCRLF_skip l (ls.flatMap (fun l => crlf ++ l)) (h l (by simp))
    simp only [List.flatMap_cons, crlf, List.cons_append, List.nil_append, splitCRLF] at this ih ⊢
    simp [this, ih]

theorem splitCRLF_block (start : Bytes) (lines : List Bytes) (hs : ∀ b ∈ start, b ≠ 13)
    (h : ∀ l ∈ lines, ∀ b ∈ l, b ≠ 13) : splitCRLF (block start lines) = (start, lines) := by
  unfold block
  rw [splitCRLF_skip start _ hs, splitCRLF_lines lines h]
  simp

/-! ## header lines -/

theorem hdrLine_ne_nil (kv : Bytes × Bytes) : hdrLine kv ≠ [] := by
  simp [hdrLine, colonSp]

theorem mapM_hdrLines (d : Hdrs) (h : ∀ kv ∈ d, occurs colonSp kv.1 = false) :
    mapM? (splitOnce colonSp) ((d.map hdrLine).filter (· ≠ [])) = some d := by
  induction d with
  | nil => rfl
  | cons kv d ih =>
    have ih := ih (fun x hx => h x (by simp [hx]))
    have hk := splitOnce_colonSp kv.1 kv.2 (h kv (by simp))
    have hne := hdrLine_ne_nil kv
    simp only [List.map_cons, List.filter_cons, hne, ne_eq, not_false_eq_true, decide_true, if_true, mapM?]
    simp only [hdrLine] at hk ⊢
    rw [hk, ih]

theorem hdrLine_noCR (kv : Bytes × Bytes) (h : HdrOk kv) : ∀ b ∈ hdrLine kv, b ≠ 13 := by
  intro b hb
  simp only [hdrLine, colonSp, List.mem_append, List.mem_cons, List.not_mem_nil, or_false] at hb
  rcases hb with (hb | hb | hb) | hb
  · exact (h.1 b hb).1
  · subst hb; decide
  · subst hb; decide
  · exact (h.2.1 b hb).1

/-! ## the case-insensitive dict -/

theorem ciSet_append (k v : Bytes) (d : Hdrs) (h : lower k ∉ lkeys d) : ciSet k v d = d ++ [(k, v)] := by
  induction d with
  | nil => rfl
  | cons e d ih =>
    obtain ⟨k', v'⟩ := e
    simp only [lkeys, List.map_cons, List.mem_cons, not_or] at h
    have ih := ih (by simpa [lkeys] using h.2)
    simp [ciSet, Ne.symm h.1, ih]

theorem ciOfList_go (l d : Hdrs) (h : (lkeys (d ++ l)).Nodup) :
    l.foldl (fun d kv => ciSet kv.1 kv.2 d) d = d ++ l := by
  induction l generalizing d with
  | nil => simp
  | cons kv l ih =>
    have hk : lower kv.1 ∉ lkeys d := by
      simp only [lkeys, List.map_append, List.map_cons] at h
      have := (List.nodup_append.mp h).2.2
      intro hm
      exact this _ hm _ (by simp) rfl
    rw [List.foldl_cons, ciSet_append _ _ _ hk, ih _ (by simpa using h)]
    simp

theorem ciOfList_id (l : Hdrs) (h : (lkeys l).Nodup) : ciOfList l = l := by
  simpa [ciOfList] using ciOfList_go l [] (by simpa using h)

theorem ciGet_none (k : Bytes) (d : Hdrs) (h : lower k ∉ lkeys d) : ciGet k d = none := by
  induction d with
  | nil => rfl
  | cons e d ih =>
    obtain ⟨k', v'⟩ := e
    simp only [lkeys, List.map_cons, List.mem_cons, not_or] at h
    simp [ciGet, Ne.symm h.1, ih (by simpa [lkeys] using h.2)]

theorem ciGet_append_none (k : Bytes) (a b : Hdrs) (h : ciGet k a = none) : ciGet k (a ++ b) = ciGet k b := by
  induction a with
  | nil => rfl
  | cons e a ih =>
    obtain ⟨k', v'⟩ := e
    by_cases hk : lower k' = lower k
    · simp [ciGet, hk] at h
    · simp only [ciGet, hk, if_false] at h
      simp [ciGet, hk, ih h]

theorem ciHas_iff (k : Bytes) (d : Hdrs) : ciHas k d = true ↔ lower k ∈ lkeys d := by
  induction d with
  | nil => simp [ciHas, ciGet, lkeys]
  | cons e d ih =>
    obtain ⟨k', v'⟩ := e
    by_cases hk : lower k' = lower k
    · simp [ciHas, ciGet, hk, lkeys]
    · have : ¬ lower k = lower k' := fun e => hk e.symm
      simp only [ciHas, ciGet, hk, if_false, lkeys, List.map_cons, List.mem_cons, this, false_or]
      exact ih

/-! ## decimal numbers -/

theorem digit_byte (n : Nat) (h : n < 10) : (UInt8.ofNat (48 + n)).toNat = 48 + n := by
  simp [Nat.mod_eq_of_lt (show 48 + n < 256 by omega)]

theorem natToDec_spec (n : Nat) :
    natToDec n ≠ [] ∧ (natToDec n).all isDigit = true ∧ ∀ acc, (natToDec n).foldl (fun a b => a * 10 + (b.toNat - 48)) acc = acc * 10 ^ (natToDec n).length + n := by
  induction n using natToDec.induct with
  | case1 n h =>
    rw [natToDec]; simp only [h, dif_pos]
    refine ⟨by simp, ?_, ?_⟩
    · simp [isDigit]; omega
    · intro acc; simp; omega
  | case2 n h ih =>
    rw [natToDec]; simp only [h, dif_neg, not_false_eq_true]
    obtain ⟨h1, h2, h3⟩ := ih
    have hd := digit_byte (n % 10) (Nat.mod_lt _ (by omega))
    refine ⟨by simp, ?_, ?_⟩
    · simp only [List.all_append, h2, Bool.true_and]
      simp [isDigit]; omega
    · intro acc
      rw [List.foldl_append, h3]
      simp only [List.foldl_cons, List.foldl_nil, hd, List.length_append, List.length_singleton]
      rw [Nat.pow_succ]
      have := Nat.div_add_mod n 10
      rw [Nat.add_mul, Nat.mul_assoc]
      omega

theorem pyInt_natToDec (n : Nat) : pyInt (natToDec n) = .ok n := by
  obtain ⟨h1, h2, h3⟩ := natToDec_spec n
  have : decVal (natToDec n) = n := by simpa [decVal] using h3 0
  simp [pyInt, h1, h2, this]

theorem natToDec_noCRLF (n : Nat) : NoCRLF (natToDec n) := by
  intro b hb
  have := (natToDec_spec n).2.1
  rw [List.all_eq_true] at this
  have hd := this b hb
  constructor <;> (intro e; subst e; simp [isDigit] at hd)

/-! ## start lines -/

set_option linter.unusedSimpArgs false in
theorem span_append {p : UInt8 → Bool} (a : Bytes) (b : UInt8) (c : Bytes)
    (ha : ∀ x ∈ a, p x = true) (hb : p b = false) :
    (a ++ b :: c).takeWhile p = a ∧ (a ++ b :: c).dropWhile p = b :: c := by
  induction a with
  | nil => simp [List.takeWhile, List.dropWhile, hb]
  | cons x a ih =>
    have ih := ih (fun y hy => ha y (by simp [hy]))
    simp [List.takeWhile, List.dropWhile, ha x (by simp), ih]

theorem takeWhile_all {p : UInt8 → Bool} (a : Bytes) (ha : ∀ x ∈ a, p x = true) : a.takeWhile p = a := by
  induction a with
  | nil => rfl
  | cons x a ih => simp [List.takeWhile, ha x (by simp), ih (fun y hy => ha y (by simp [hy]))]

theorem takeWhile_stop {p : UInt8 → Bool} (a : Bytes) (ha : ∀ x ∈ a, p x = true) :
    a.takeWhile p = a ∧ a.dropWhile p = [] := by
  induction a with
  | nil => simp
  | cons x a ih => simp [List.takeWhile, List.dropWhile, ha x (by simp), ih (fun y hy => ha y (by simp [hy]))]

/-! ## `_parse_http_message` on a block the encoders write -/

theorem parse_block (start : Bytes) (hs : Hdrs) (B : Bytes) (n : Nat)
    (hstart : ∀ b ∈ start, b ≠ 13) (hok : ∀ kv ∈ hs, HdrOk kv) (hnd : (lkeys hs).Nodup)
    (hn : contentLength hs = IntRes.ok n)
    (hlen : n ≤ B.length) :
    parseHttpMessage (block start (hs.map hdrLine) ++ (crlf ++ crlf ++ B))
      = .ok start hs (B.take n) (B.drop n) := by
  have hl1 : ∀ l ∈ hs.map hdrLine, l ≠ [] ∧ ∀ b ∈ l, b ≠ 13 := by
    intro l hl
    obtain ⟨kv, hkv, rfl⟩ := List.mem_map.mp hl
    exact ⟨hdrLine_ne_nil kv, hdrLine_noCR kv (hok kv hkv)⟩
  have h1 := splitOnce_block start (hs.map hdrLine) B hstart hl1
  have h2 := splitCRLF_block start (hs.map hdrLine) hstart (fun l hl => (hl1 l hl).2)
  have h3 := mapM_hdrLines hs (fun kv hkv => (hok kv hkv).2.2)
  have h4 := ciOfList_id hs hnd
  simp only [parseHttpMessage, h1, h2, h3, h4, hn]
  rw [if_neg (by omega)]

theorem lower_ua_ne_cl : lower kUserAgent ≠ lower kContentLength := by decide
theorem lower_server_ne_cl : lower kServer ≠ lower kContentLength := by decide

theorem uaOk : HdrOk (kUserAgent, Gen.C04Http.userAgent) := by decide
theorem serverOk : HdrOk (kServer, Gen.C04Http.serverName) := by decide

theorem clOk (n : Nat) : HdrOk (kContentLength, natToDec n) :=
  ⟨(by show NoCRLF kContentLength; decide), natToDec_noCRLF n,
    (by show occurs colonSp kContentLength = false; decide)⟩

/-- the Content-Length the decoder sees in `front ++ d ++ back` where only `back` may carry one -/
theorem contentLength_of (front d : Hdrs) (body : Bytes)
    (hf : lower kContentLength ∉ lkeys front) (hd : lower kContentLength ∉ lkeys d) :
    contentLength (front ++ d ++ autoRespBack body) = IntRes.ok body.length := by
  unfold contentLength
  rw [List.append_assoc, ciGet_append_none _ _ _ (ciGet_none _ _ hf), ciGet_append_none _ _ _ (ciGet_none _ _ hd)]
  by_cases hb : body = []
  · simp [autoRespBack, hb, ciGet]
  · simp [autoRespBack, hb, ciGet, pyInt_natToDec]

theorem take_drop_body (body rest : Bytes) :
    (body ++ rest).take body.length = body ∧ (body ++ rest).drop body.length = rest := by
  simp

end PyatvModel.C04.Http
