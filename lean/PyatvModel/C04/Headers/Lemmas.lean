import PyatvModel.C04.Headers.Model
import Mathlib.Data.List.Induction
/-
C04/fixed headers — helper lemmas: big-endian encode/decode round trip for every width,
and the generic layout theorems by induction over an arbitrary layout.
-/
namespace PyatvModel.C04.Headers

theorem beEnc_length (w n : Nat) : (beEnc w n).length = w := by
  induction w generalizing n with
  | zero => rfl
  | succ w ih => simp [beEnc, ih]

theorem beDec_snoc (xs : Bytes) (b : UInt8) : beDec (xs ++ [b]) = beDec xs * 256 + b.toNat := by
  simp [beDec, List.foldl_append]

/-- decoding reads back exactly the low `w` bytes -/
theorem beDec_beEnc_mod (w n : Nat) : beDec (beEnc w n) = n % 256 ^ w := by
  induction w generalizing n with
  | zero => simp [beEnc, beDec, Nat.mod_one]
  | succ w ih =>
    rw [beEnc, beDec_snoc, ih, UInt8.toNat_ofNat']
    have e : 256 ^ (w + 1) = 256 * 256 ^ w := by rw [Nat.pow_succ, Nat.mul_comm]
    rw [e, Nat.mod_mul]
    omega

theorem beDec_beEnc (w n : Nat) (h : n < 256 ^ w) : beDec (beEnc w n) = n := by
  rw [beDec_beEnc_mod, Nat.mod_eq_of_lt h]

theorem beDec_lt (bs : Bytes) : beDec bs < 256 ^ bs.length := by
  induction bs using List.reverseRecOn with
  | nil => simp [beDec]
  | append_singleton xs b ih =>
    rw [beDec_snoc, List.length_append, List.length_singleton, Nat.pow_succ]
    have := UInt8.toNat_lt b
    omega

/-- and the other direction: every `w`-byte string is the encoding of its value -/
theorem beEnc_beDec (bs : Bytes) : beEnc bs.length (beDec bs) = bs := by
  induction bs using List.reverseRecOn with
  | nil => rfl
  | append_singleton xs b ih =>
    rw [beDec_snoc, List.length_append, List.length_singleton, beEnc]
    have hb := UInt8.toNat_lt b
    have h1 : (beDec xs * 256 + b.toNat) / 256 = beDec xs := by omega
    have h2 : (beDec xs * 256 + b.toNat) % 256 = b.toNat := by omega
    rw [h1, h2, ih]; simp

/-- the stated domain of one field: integers below `2^(8·width)`, byte strings of exactly
    the field's size -/
def FitsField : Field → Val → Prop
  | .uint w, .int n => n < 256 ^ w
  | .raw k, .bytes b => b.length = k
  | _, _ => False

instance : (f : Field) → (v : Val) → Decidable (FitsField f v)
  | .uint w, .int n => inferInstanceAs (Decidable (n < 256 ^ w))
  | .raw k, .bytes b => inferInstanceAs (Decidable (b.length = k))
  | .uint _, .bytes _ => isFalse (fun h => h)
  | .raw _, .int _ => isFalse (fun h => h)

def Fits : Layout → List Val → Prop
  | [], [] => True
  | f :: fs, v :: vs => FitsField f v ∧ Fits fs vs
  | _, _ => False

instance : (l : Layout) → (vs : List Val) → Decidable (Fits l vs)
  | [], [] => isTrue trivial
  | f :: fs, v :: vs =>
    have := instDecidableFits fs vs
    inferInstanceAs (Decidable (FitsField f v ∧ Fits fs vs))
  | [], _ :: _ => isFalse (fun h => h)
  | _ :: _, [] => isFalse (fun h => h)

theorem encField_length (f : Field) (v : Val) (a : Bytes) (h : encField f v = some a) :
    a.length = f.width := by
  cases f <;> cases v <;> simp only [encField, reduceCtorEq] at h
  · split at h
    · cases h; exact beEnc_length _ _
    · cases h
  · cases h
    simp only [Field.width, List.length_take, List.length_append, List.length_replicate]
    omega

theorem enc_length (l : Layout) : ∀ (vs : List Val) (bs : Bytes), enc l vs = some bs → bs.length = width l := by
  induction l with
  | nil =>
    intro vs bs h
    cases vs <;> simp [enc] at h
    subst h; rfl
  | cons f fs ih =>
    intro vs bs h
    cases vs with
    | nil => simp [enc] at h
    | cons v vs =>
      simp only [enc] at h
      split at h
      · rename_i a r ha hr
        cases h
        simp [width, encField_length f v a ha, ih vs r hr]
      · cases h

theorem encField_fits (f : Field) (v : Val) (h : FitsField f v) :
    ∃ a, encField f v = some a ∧ a.length = f.width ∧ ∀ r, decFields (f :: []) (a ++ r) = [v] := by
  cases f <;> cases v <;> simp only [FitsField] at h
  · rename_i w n
    refine ⟨beEnc w n, by simp [encField, h], beEnc_length _ _, ?_⟩
    intro r
    simp only [decFields]
    rw [List.take_left' (beEnc_length _ _), beDec_beEnc _ _ h]
  · rename_i k b
    refine ⟨b, ?_, by simp [Field.width, h], ?_⟩
    · simp [encField, ← h]
    · intro r
      simp only [decFields]
      rw [List.take_left' h]

theorem decFields_cons (f : Field) (fs : Layout) (a r : Bytes) (ha : a.length = f.width) :
    decFields (f :: fs) (a ++ r) = decFields [f] (a ++ r) ++ decFields fs r := by
  cases f <;> simp only [Field.width] at ha <;>
    simp [decFields, List.drop_left' ha]

/-- generic round trip, with arbitrary bytes following (they are left alone) -/
theorem enc_decFields (l : Layout) :
    ∀ vs, Fits l vs → ∃ bs, enc l vs = some bs ∧ bs.length = width l ∧ ∀ r, decFields l (bs ++ r) = vs := by
  induction l with
  | nil =>
    intro vs h
    cases vs with
    | nil => exact ⟨[], rfl, rfl, fun _ => rfl⟩
    | cons _ _ => exact absurd h (by simp [Fits])
  | cons f fs ih =>
    intro vs h
    cases vs with
    | nil => exact absurd h (by simp [Fits])
    | cons v vs =>
      obtain ⟨hf, hfs⟩ := h
      obtain ⟨a, ha, hal, had⟩ := encField_fits f v hf
      obtain ⟨r, hr, hrl, hrd⟩ := ih vs hfs
      refine ⟨a ++ r, by simp [enc, ha, hr], ?_, ?_⟩
      · simp [width, hal, hrl]
      · intro x
        rw [List.append_assoc, decFields_cons f fs a (r ++ x) hal, had, hrd]
        rfl

end PyatvModel.C04.Headers
