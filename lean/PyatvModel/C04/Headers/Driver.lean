import PyatvModel.Base.Bytes
import PyatvModel.C04.Headers.Model
/-
Line protocol (fixed headers); `<Name>` = attribute name of a generated packet class:
  `len <Name>`                 → Σ widths
  `enc <Name> <v> <v> …`       → hex | `err:error`        (struct.error)
  `dec <Name> <hex>`           → `ok <v> <v> …` | `err:error`
  `decx <Name> <hex>`          → same with allow_excessive=True
values: decimal integer (a leading `-` is a negative number: never in range), or `x<hex>`
for a byte string (`x` alone = empty).
-/
namespace PyatvModel.C04.Headers

def findLayout (name : String) : Option Layout :=
  match Gen.C04Headers.all.find? (·.name == name) with
  | some p => layoutOf p
  | none => none

/-- `none` = malformed word; `some none` = a negative integer -/
def val? (w : String) : Option (Option Val) :=
  match w.toList with
  | 'x' :: rest => (ofHexChars? rest).map (fun b => some (.bytes b))
  | '-' :: rest => if (String.ofList rest).toNat?.isSome then some none else none
  | _ => w.toNat?.map (fun n => some (.int n))

def showVal : Val → String
  | .int n => toString n
  | .bytes b => "x" ++ (if b.isEmpty then "" else toHex b)

def showVals (vs : List Val) : String := String.intercalate " " ("ok" :: vs.map showVal)

def handle (_ : Unit) (ws : List String) : Unit × String :=
  match ws with
  | ["len", name] =>
    match findLayout name with
    | some l => ((), toString (width l))
    | none => ((), "bad-op")
  | "enc" :: name :: vals =>
    match findLayout name, vals.mapM val? with
    | some l, some ovs =>
      match ovs.mapM id with
      | some vs =>
        match enc l vs with
        | some bs => ((), toHex bs)
        | none => ((), "err:error")
      | none => ((), "err:error")
    | _, _ => ((), "bad-op")
  | [op, name, h] =>
    if op == "dec" || op == "decx" then
      match findLayout name, ofHex? h with
      | some l, some bs =>
        match (if op == "dec" then dec l bs else decExcess l bs) with
        | some vs => ((), showVals vs)
        | none => ((), "err:error")
      | _, _ => ((), "bad-op")
    else ((), "bad-op")
  | _ => ((), "bad-op")

end PyatvModel.C04.Headers
