import PyatvModel.Base.Bytes
import PyatvModel.Gen.C04Headers
/-
C04/fixed headers — model of `pyatv/support/packet.py` `defpacket` (:7-35):

    fmt = ">" + "".join(kwargs.values())
    encode(*args)  = struct.pack(fmt, *args)
    decode(data, allow_excessive=False)
                   = msg_type._make(struct.unpack(fmt, data if not allow_excessive
                                                       else data[0:struct.calcsize(fmt)]))
    length         = struct.calcsize(fmt)

and of the part of CPython's `struct` these layouts use (standard sizes, no alignment,
because the format starts with a byte-order character): `B H I Q` = unsigned big-endian
integers of 1/2/4/8 bytes (`struct.error` when the argument is not in range), `<n>s` =
byte string, padded with NUL / truncated to n bytes when packing.  The layouts themselves
(`PyatvModel.Gen.C04Headers`) are regenerated from the real classes on every check.
Every failure of pack/unpack is `struct.error`: `none` below.
-/
namespace PyatvModel.C04.Headers

/-- big-endian, `w` bytes (the low `w` bytes of `n`) -/
def beEnc : Nat → Nat → Bytes
  | 0, _ => []
  | w + 1, n => beEnc w (n / 256) ++ [UInt8.ofNat (n % 256)]

/-- `int.from_bytes(bs, "big")` -/
def beDec (bs : Bytes) : Nat := bs.foldl (fun a b => a * 256 + b.toNat) 0

inductive Field
  | uint (w : Nat)     -- unsigned integer of `w` bytes
  | raw (n : Nat)      -- `<n>s`
  deriving DecidableEq, Repr

inductive Val
  | int (n : Nat)
  | bytes (b : Bytes)
  deriving DecidableEq, Repr

abbrev Layout := List Field

/-- interpretation of one struct format item (character, count) -/
def fieldOf : Char × Nat → Option Field
  | ('B', 1) => some (.uint 1)
  | ('H', 1) => some (.uint 2)
  | ('I', 1) => some (.uint 4)
  | ('Q', 1) => some (.uint 8)
  | ('s', n) => some (.raw n)
  | _ => none

/-- layout of a generated packet description; only big-endian (`>`/`!`) is modelled -/
def layoutOf (p : Gen.C04Headers.Packet) : Option Layout :=
  if p.order = '>' ∨ p.order = '!' then p.fields.mapM (fun f => fieldOf f.2) else none

def Field.width : Field → Nat
  | .uint w => w
  | .raw n => n

/-- `struct.calcsize` -/
def width (l : Layout) : Nat := (l.map Field.width).sum

def encField : Field → Val → Option Bytes
  | .uint w, .int n => if n < 256 ^ w then some (beEnc w n) else none
  | .raw k, .bytes b => some ((b ++ List.replicate (k - b.length) 0).take k)
  | _, _ => none

/-- `struct.pack(fmt, *args)` -/
def enc : Layout → List Val → Option Bytes
  | [], [] => some []
  | f :: fs, v :: vs =>
    match encField f v, enc fs vs with
    | some a, some r => some (a ++ r)
    | _, _ => none
  | _, _ => none

def decFields : Layout → Bytes → List Val
  | [], _ => []
  | .uint w :: fs, bs => .int (beDec (bs.take w)) :: decFields fs (bs.drop w)
  | .raw k :: fs, bs => .bytes (bs.take k) :: decFields fs (bs.drop k)

/-- `struct.unpack(fmt, data)`: the buffer must have exactly `calcsize` bytes -/
def dec (l : Layout) (bs : Bytes) : Option (List Val) :=
  if bs.length = width l then some (decFields l bs) else none

/-- `decode(data, allow_excessive=True)` -/
def decExcess (l : Layout) (bs : Bytes) : Option (List Val) := dec l (bs.take (width l))

end PyatvModel.C04.Headers
