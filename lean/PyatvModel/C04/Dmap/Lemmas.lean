import PyatvModel.C04.Dmap.Model
import PyatvModel.C04.Headers.Lemmas
/-
C04/DMAP — helper lemmas: the domain predicate, one `_parse` step on a well-formed tag,
and the generalised round trip (arbitrary bytes after the encoded sequence, any
sufficient fuel).
-/
namespace PyatvModel.C04.Dmap
open PyatvModel.C04.Headers (beEnc beDec beEnc_length beDec_beEnc)

/-- domain of one leaf: widths 1/2/4/8 with the value in range; strings valid UTF-8;
    payloads shorter than 2^32 (the 4-byte length field) -/
def Leaf.ok (utf8 : Bytes → Bool) : Leaf → Bool
  | .uint w n => (w == 1 || w == 2 || w == 4 || w == 8) && decide (n < 256 ^ w)
  | .bool _ => true
  | .str s => utf8 s && decide (s.length < 2 ^ 32)
  | .raw b => decide (b.length < 2 ^ 32)

/-- domain of a tree: 4-byte names that are valid UTF-8 and that the lookup maps to the
    node's kind; every leaf in its domain; container payloads shorter than 2^32 -/
def Tree.ok (lk : Bytes → Kind) (utf8 : Bytes → Bool) : Tree → Bool
  | .nil => true
  | .leaf name v rest =>
    decide (name.length = 4) && utf8 name && decide (lk name = v.kind) && v.ok utf8 && rest.ok lk utf8
  | .cont name ch rest =>
    decide (name.length = 4) && utf8 name && decide (lk name = .container)
      && decide ((enc ch).length < 2 ^ 32) && ch.ok lk utf8 && rest.ok lk utf8

theorem tag_length (name payload : Bytes) (h : name.length = 4) :
    (tag name payload).length = 8 + payload.length := by
  simp [tag, beEnc_length, h]; omega

theorem tag_take4 (name payload tail : Bytes) (h : name.length = 4) :
    (tag name payload ++ tail).take 4 = name := by
  simp only [tag, List.append_assoc]
  rw [← h, List.take_left]

theorem tag_len_field (name payload tail : Bytes) (h : name.length = 4) :
    ((tag name payload ++ tail).drop 4).take 4 = beEnc 4 payload.length := by
  simp only [tag, List.append_assoc]
  rw [← h, List.drop_left]
  exact List.take_left' (beEnc_length _ _)

theorem tag_drop8 (name payload tail : Bytes) (h : name.length = 4) :
    (tag name payload ++ tail).drop 8 = payload ++ tail := by
  simp only [tag, List.append_assoc]
  have : name ++ (beEnc 4 payload.length ++ (payload ++ tail))
      = (name ++ beEnc 4 payload.length) ++ (payload ++ tail) := by simp
  rw [this]
  exact List.drop_left' (by simp [beEnc_length, h])

/-- one `_parse` step on a well-formed non-container tag -/
theorem parse_leaf_step (lk : Bytes → Kind) (utf8 : Bytes → Bool) (name payload tail : Bytes) (m f : Nat)
    (hname : name.length = 4) (hu : utf8 name = true) (hkc : lk name ≠ .container)
    (hlen : payload.length < 2 ^ 32) :
    parse lk utf8 (f + 1) (tag name payload ++ tail) (8 + payload.length + m) =
      match decodeLeaf utf8 (lk name) payload with
      | .error e => .error e
      | .ok v =>
        match parse lk utf8 f tail m with
        | .error e => .error e
        | .ok rest => .ok (.leaf name v rest) := by
  have hn : ¬ (8 + payload.length + m = 0) := by omega
  have hsub : 8 + payload.length + m - 8 - payload.length = m := by omega
  simp only [parse, hn, if_false, tag_take4 _ _ _ hname, hu, if_true, tag_len_field _ _ _ hname,
    tag_drop8 _ _ _ hname, beDec_beEnc 4 _ (by simpa using hlen), List.take_left, List.drop_left, hsub]
  cases hk : lk name <;> first | exact absurd hk hkc | rfl

/-- one `_parse` step on a well-formed container tag -/
theorem parse_cont_step (lk : Bytes → Kind) (utf8 : Bytes → Bool) (name payload tail : Bytes) (m f : Nat)
    (hname : name.length = 4) (hu : utf8 name = true) (hk : lk name = .container)
    (hlen : payload.length < 2 ^ 32) :
    parse lk utf8 (f + 1) (tag name payload ++ tail) (8 + payload.length + m) =
      match parse lk utf8 f (payload ++ tail) payload.length with
      | .error e => .error e
      | .ok ch =>
        match parse lk utf8 f tail m with
        | .error e => .error e
        | .ok rest => .ok (.cont name ch rest) := by
  have hn : ¬ (8 + payload.length + m = 0) := by omega
  have hsub : 8 + payload.length + m - 8 - payload.length = m := by omega
  simp only [parse, hn, if_false, tag_take4 _ _ _ hname, hu, if_true, tag_len_field _ _ _ hname,
    tag_drop8 _ _ _ hname, beDec_beEnc 4 _ (by simpa using hlen), List.drop_left, hsub, hk]
  rfl

theorem payload_length_lt (utf8 : Bytes → Bool) (v : Leaf) (h : v.ok utf8 = true) :
    v.payload.length < 2 ^ 32 := by
  cases v with
  | uint w n =>
    simp only [Leaf.ok, Bool.and_eq_true, Bool.or_eq_true, beq_iff_eq, decide_eq_true_eq] at h
    simp only [Leaf.payload, beEnc_length]
    omega
  | bool b => simp [Leaf.payload]
  | str s => simp only [Leaf.ok, Bool.and_eq_true, decide_eq_true_eq] at h; exact h.2
  | raw b => simpa [Leaf.ok, Leaf.payload] using h

theorem decodeLeaf_payload (utf8 : Bytes → Bool) (v : Leaf) (h : v.ok utf8 = true) :
    decodeLeaf utf8 v.kind v.payload = .ok v.view := by
  cases v with
  | uint w n =>
    simp only [Leaf.ok, Bool.and_eq_true, decide_eq_true_eq] at h
    simp [decodeLeaf, Leaf.kind, Leaf.payload, Leaf.view, beDec_beEnc w n h.2]
  | bool b => cases b <;> rfl
  | str s =>
    simp only [Leaf.ok, Bool.and_eq_true] at h
    simp [decodeLeaf, Leaf.kind, Leaf.payload, Leaf.view, h.1]
  | raw b => rfl

theorem kind_ne_container (v : Leaf) : v.kind ≠ .container := by cases v <;> simp [Leaf.kind]

theorem size_pos (t : Tree) : 0 < t.size := by cases t <;> simp [Tree.size] <;> omega

/-- generalised round trip: any bytes may follow the encoded sequence inside the buffer
    (they belong to the enclosing container's siblings), any sufficient fuel -/
theorem parse_enc_gen (lk : Bytes → Kind) (utf8 : Bytes → Bool) (t : Tree) :
    ∀ (extra : Bytes) (fuel : Nat), t.ok lk utf8 = true → t.size ≤ fuel →
      parse lk utf8 fuel (enc t ++ extra) (enc t).length = .ok t.view := by
  induction t with
  | nil =>
    intro extra fuel _ hf
    cases fuel with
    | zero => simp [Tree.size] at hf
    | succ f => simp [parse, enc, Tree.view]
  | leaf name v rest ih =>
    intro extra fuel hok hf
    simp only [Tree.ok, Bool.and_eq_true, decide_eq_true_eq] at hok
    obtain ⟨⟨⟨⟨hname, hu⟩, hk⟩, hv⟩, hrest⟩ := hok
    cases fuel with
    | zero => simp [Tree.size] at hf
    | succ f =>
      simp only [Tree.size] at hf
      have hl : (enc (.leaf name v rest)).length = 8 + v.payload.length + (enc rest).length := by
        simp [enc, tag_length _ _ hname]
      rw [hl]
      simp only [enc, List.append_assoc]
      rw [parse_leaf_step lk utf8 name v.payload (enc rest ++ extra) _ f hname hu
        (by rw [hk]; exact kind_ne_container v) (payload_length_lt utf8 v hv)]
      rw [hk, decodeLeaf_payload utf8 v hv, ih extra f hrest (by omega)]
      rfl
  | cont name ch rest ihc ihr =>
    intro extra fuel hok hf
    simp only [Tree.ok, Bool.and_eq_true, decide_eq_true_eq] at hok
    obtain ⟨⟨⟨⟨⟨hname, hu⟩, hk⟩, hlen⟩, hch⟩, hrest⟩ := hok
    cases fuel with
    | zero => simp [Tree.size] at hf
    | succ f =>
      simp only [Tree.size] at hf
      have hl : (enc (.cont name ch rest)).length = 8 + (enc ch).length + (enc rest).length := by
        simp [enc, tag_length _ _ hname]
      rw [hl]
      simp only [enc, List.append_assoc]
      rw [parse_cont_step lk utf8 name (enc ch) (enc rest ++ extra) _ f hname hu hk hlen]
      rw [ihc (enc rest ++ extra) f hch (by omega), ihr extra f hrest (by omega)]
      rfl

end PyatvModel.C04.Dmap
