import PyatvModel.Base.Bytes
import PyatvModel.C04.Headers.Model
/-
C04/DMAP — model of `pyatv/protocols/dmap/tags.py` (tag writers :44-100, readers :7-37) and
`pyatv/protocols/dmap/parser.py` `_parse`/`parse` (:33-57), with `string_tag` as repaired by
`fix: DMAP string_tag wrote the length in code points instead of UTF-8 bytes`.

    uintN_tag(name, v)  = name.encode() + (N).to_bytes(4,"big") + v.to_bytes(N,"big")   N = 1,2,4,8
    bool_tag(name, v)   = name.encode() + b"\0\0\0\1" + (b"\1" if v else b"\0")
    raw_tag(name, v)    = name.encode() + len(v).to_bytes(4,"big") + v         (= container_tag)
    string_tag(name, v) = data = v.encode("utf-8"); name.encode() + len(data).to_bytes(4,"big") + data
                          -- pinned tree: len(v) (code points) instead of len(data)

    _parse(data, data_len, tag_lookup, pos, ctx):
        if pos >= data_len: return ctx
        f_name = read_str(data, pos, 4)            -- data[pos:pos+4].decode("utf-8")
        f_len  = read_uint(data, pos + 4, 4)       -- int.from_bytes(data[pos+4:pos+8], "big")
        pos += 8
        tag = tag_lookup(f_name)
        if tag.type == "container": ctx.append({f_name: _parse(data, pos + f_len, tag_lookup, pos, ctx=[])})
        else:                       ctx.append({f_name: tag.type(data, pos, f_len)})
        return _parse(data, data_len, tag_lookup, pos + f_len, ctx)

Strings and tag names are modelled as their UTF-8 byte sequences; whether a byte sequence is
valid UTF-8 is the parameter `utf8` (Python raises UnicodeDecodeError when it is not).  The
tag lookup is the parameter `lk`.  `parse` works on `avail = data[pos:]` and `n = data_len - pos`
(slices never fail in Python: a short buffer gives short names, lengths and values).  Python's
recursion (one frame per tag) becomes explicit `fuel`; running out is `Err.fuel`
(RecursionError).  Big-endian integers: `PyatvModel.C04.Headers.beEnc/beDec`.
-/
namespace PyatvModel.C04.Dmap
open PyatvModel.C04.Headers (beEnc beDec)

/-- what `tag_lookup(name).type` is -/
inductive Kind | container | uint | bool | str | raw | ignore
  deriving DecidableEq, Repr

/-- argument of one non-container tag writer -/
inductive Leaf
  | uint (w n : Nat)      -- uint8/16/32/64_tag (w = 1, 2, 4, 8)
  | bool (b : Bool)       -- bool_tag
  | str (s : Bytes)       -- string_tag; `s` = value.encode("utf-8")
  | raw (b : Bytes)       -- raw_tag
  deriving DecidableEq, Repr

/-- a sequence of tags, as built by concatenating tag writers (`container_tag(name, children)`) -/
inductive Tree
  | nil
  | leaf (name : Bytes) (v : Leaf) (rest : Tree)
  | cont (name : Bytes) (children : Tree) (rest : Tree)
  deriving Repr

/-- a decoded value -/
inductive DVal
  | uint (n : Nat) | bool (b : Bool) | str (s : Bytes) | raw (b : Bytes) | none
  deriving DecidableEq, Repr

/-- what `parse` returns: `[{name: value}, {name: [children…]}, …]` -/
inductive DTree
  | nil
  | leaf (name : Bytes) (v : DVal) (rest : DTree)
  | cont (name : Bytes) (children : DTree) (rest : DTree)
  deriving DecidableEq, Repr

/-- name + 4-byte big-endian payload length + payload -/
def tag (name payload : Bytes) : Bytes := name ++ beEnc 4 payload.length ++ payload

def Leaf.payload : Leaf → Bytes
  | .uint w n => beEnc w n
  | .bool b => [if b then 1 else 0]
  | .str s => s
  | .raw b => b

def enc : Tree → Bytes
  | .nil => []
  | .leaf name v rest => tag name v.payload ++ enc rest
  | .cont name ch rest => tag name (enc ch) ++ enc rest

/-- `string_tag` on the pinned tree: the length field holds the number of code points `cps` -/
def stringTagPinned (name : Bytes) (cps : Nat) (s : Bytes) : Bytes := name ++ beEnc 4 cps ++ s

inductive Err | unicode | fuel
  deriving DecidableEq, Repr

/-- `tag.type(data, pos, f_len)` on the slice it reads -/
def decodeLeaf (utf8 : Bytes → Bool) : Kind → Bytes → Except Err DVal
  | .uint, b => .ok (.uint (beDec b))
  | .bool, b => .ok (.bool (beDec b == 1))
  | .str, b => if utf8 b then .ok (.str b) else .error .unicode
  | .raw, b => .ok (.raw b)
  | .ignore, _ => .ok .none
  | .container, _ => .ok .none

/-- `_parse` -/
def parse (lk : Bytes → Kind) (utf8 : Bytes → Bool) : Nat → Bytes → Nat → Except Err DTree
  | 0, _, _ => .error .fuel
  | fuel + 1, avail, n =>
    if n = 0 then .ok .nil
    else
      let name := avail.take 4
      if utf8 name then
        let flen := beDec ((avail.drop 4).take 4)
        let body := avail.drop 8
        match lk name with
        | .container =>
          match parse lk utf8 fuel body flen with
          | .error e => .error e
          | .ok ch =>
            match parse lk utf8 fuel (body.drop flen) (n - 8 - flen) with
            | .error e => .error e
            | .ok rest => .ok (.cont name ch rest)
        | k =>
          match decodeLeaf utf8 k (body.take flen) with
          | .error e => .error e
          | .ok v =>
            match parse lk utf8 fuel (body.drop flen) (n - 8 - flen) with
            | .error e => .error e
            | .ok rest => .ok (.leaf name v rest)
      else .error .unicode

/-- `parse(data, tag_lookup)` -/
def parseTop (lk : Bytes → Kind) (utf8 : Bytes → Bool) (fuel : Nat) (data : Bytes) : Except Err DTree :=
  parse lk utf8 fuel data data.length

/-! ### the value a tree denotes after decoding (integer widths are not visible in Python ints) -/
def Leaf.view : Leaf → DVal
  | .uint _ n => .uint n
  | .bool b => .bool b
  | .str s => .str s
  | .raw b => .raw b

def Tree.view : Tree → DTree
  | .nil => .nil
  | .leaf name v rest => .leaf name v.view rest.view
  | .cont name ch rest => .cont name ch.view rest.view

def Leaf.kind : Leaf → Kind
  | .uint _ _ => .uint | .bool _ => .bool | .str _ => .str | .raw _ => .raw

/-- number of `_parse` frames needed -/
def Tree.size : Tree → Nat
  | .nil => 1
  | .leaf _ _ rest => 1 + rest.size
  | .cont _ ch rest => 1 + ch.size + rest.size

/-- strict UTF-8 validity as CPython's decoder defines it (no overlong forms, no surrogates,
    at most U+10FFFF).  Used by the driver as the concrete `utf8`; the theorems take `utf8`
    as a parameter. -/
def utf8Valid : Bytes → Bool
  | [] => true
  | b0 :: rest =>
    let c (b : UInt8) : Bool := 0x80 ≤ b && b ≤ 0xBF
    if b0 ≤ 0x7F then utf8Valid rest
    else if 0xC2 ≤ b0 && b0 ≤ 0xDF then
      match rest with
      | b1 :: r => c b1 && utf8Valid r
      | _ => false
    else if 0xE0 ≤ b0 && b0 ≤ 0xEF then
      match rest with
      | b1 :: b2 :: r =>
        (if b0 == 0xE0 then 0xA0 ≤ b1 && b1 ≤ 0xBF else if b0 == 0xED then 0x80 ≤ b1 && b1 ≤ 0x9F else c b1)
          && c b2 && utf8Valid r
      | _ => false
    else if 0xF0 ≤ b0 && b0 ≤ 0xF4 then
      match rest with
      | b1 :: b2 :: b3 :: r =>
        (if b0 == 0xF0 then 0x90 ≤ b1 && b1 ≤ 0xBF else if b0 == 0xF4 then 0x80 ≤ b1 && b1 ≤ 0x8F else c b1)
          && c b2 && c b3 && utf8Valid r
      | _ => false
    else false

end PyatvModel.C04.Dmap
