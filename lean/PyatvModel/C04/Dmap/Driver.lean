import PyatvModel.Base.Bytes
import PyatvModel.C04.Dmap.Model
/-
Line protocol (DMAP); state = the tag lookup table of the harness:
  `table <default-kind> <namehex>=<kind> …`   → `ok`      kinds: c u b s r i
  `enc <items>`                               → hex | `err:OverflowError`
       item := `u <w> <namehex> <n>` | `b <namehex> <0|1>` | `s <namehex> <hex>` | `r <namehex> <hex>`
             | `c <namehex> [ <items> ]`
  `parse <hex>`                               → `[name=val,…]` | `err:UnicodeDecodeError` | `err:RecursionError`
       val := `u<n>` | `b0` | `b1` | `s<hex>` | `r<hex>` | `n` | `[…]`
`parse` runs with `utf8 := utf8Valid` and fuel 2000 (Python: one stack frame per tag).
-/
namespace PyatvModel.C04.Dmap
open PyatvModel.C04.Headers (beEnc beDec)

structure Table where
  default : Kind
  entries : List (Bytes × Kind)

def Table.lookup (t : Table) (name : Bytes) : Kind :=
  match t.entries.find? (·.1 == name) with
  | some e => e.2
  | none => t.default

def kind? : String → Option Kind
  | "c" => some .container | "u" => some .uint | "b" => some .bool
  | "s" => some .str | "r" => some .raw | "i" => some .ignore
  | _ => none

def hexPlain (b : Bytes) : String := if b.isEmpty then "" else toHex b

def entry? (w : String) : Option (Bytes × Kind) :=
  match w.splitOn "=" with
  | [n, k] => do
      let n ← ofHex? (if n == "" then "-" else n)
      let k ← kind? k
      pure (n, k)
  | _ => none

/-- items up to a closing `]` (or the end of the line at top level) -/
partial def items? : List String → Option (Tree × List String)
  | [] => some (.nil, [])
  | "]" :: rest => some (.nil, "]" :: rest)
  | "u" :: w :: n :: v :: rest => do
      let w ← w.toNat?
      let n ← ofHex? n
      let v ← v.toNat?
      let (t, r) ← items? rest
      pure (.leaf n (.uint w v) t, r)
  | "b" :: n :: v :: rest => do
      let n ← ofHex? n
      let v ← (if v == "1" then some true else if v == "0" then some false else none)
      let (t, r) ← items? rest
      pure (.leaf n (.bool v) t, r)
  | "s" :: n :: v :: rest => do
      let n ← ofHex? n
      let v ← ofHex? v
      let (t, r) ← items? rest
      pure (.leaf n (.str v) t, r)
  | "r" :: n :: v :: rest => do
      let n ← ofHex? n
      let v ← ofHex? v
      let (t, r) ← items? rest
      pure (.leaf n (.raw v) t, r)
  | "c" :: n :: "[" :: rest => do
      let n ← ofHex? n
      let (ch, r) ← items? rest
      match r with
      | "]" :: r' =>
        let (t, r'') ← items? r'
        pure (.cont n ch t, r'')
      | _ => none
  | _ => none

/-- would the Python writers raise (`int.to_bytes` OverflowError)?  `none` = a width other than
    1/2/4/8 (no such writer) -/
def encodable : Tree → Option Bool
  | .nil => some true
  | .leaf _ v rest =>
    let here : Option Bool := match v with
      | .uint w n => if w == 1 || w == 2 || w == 4 || w == 8 then some (n < 256 ^ w) else none
      | .bool _ => some true
      | .str s => some (s.length < 2 ^ 32)
      | .raw b => some (b.length < 2 ^ 32)
    match here, encodable rest with
    | some a, some b => some (a && b)
    | _, _ => none
  | .cont _ ch rest =>
    match encodable ch, encodable rest with
    | some a, some b => some (a && b && (enc ch).length < 2 ^ 32)
    | _, _ => none

def showVal : DVal → String
  | .uint n => s!"u{n}"
  | .bool b => if b then "b1" else "b0"
  | .str s => "s" ++ hexPlain s
  | .raw b => "r" ++ hexPlain b
  | .none => "n"

def showTree : DTree → List String
  | .nil => []
  | .leaf name v rest => (hexPlain name ++ "=" ++ showVal v) :: showTree rest
  | .cont name ch rest =>
    (hexPlain name ++ "=[" ++ String.intercalate "," (showTree ch) ++ "]") :: showTree rest

def handle (tb : Table) (ws : List String) : Table × String :=
  match ws with
  | "table" :: d :: es =>
    match kind? d, es.mapM entry? with
    | some d, some es => (⟨d, es⟩, "ok")
    | _, _ => (tb, "bad-op")
  | "enc" :: toks =>
    match items? toks with
    | some (t, []) =>
      match encodable t with
      | some true => (tb, toHex (enc t))
      | some false => (tb, "err:OverflowError")
      | none => (tb, "bad-op")
    | _ => (tb, "bad-op")
  | ["parse", h] =>
    match ofHex? h with
    | some bs =>
      match parseTop tb.lookup utf8Valid 2000 bs with
      | .ok t => (tb, "[" ++ String.intercalate "," (showTree t) ++ "]")
      | .error .unicode => (tb, "err:UnicodeDecodeError")
      | .error .fuel => (tb, "err:RecursionError")
    | none => (tb, "bad-op")
  | _ => (tb, "bad-op")

end PyatvModel.C04.Dmap
