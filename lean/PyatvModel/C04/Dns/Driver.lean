import PyatvModel.Base.Bytes
import PyatvModel.C04.Dns.Model
/-
Line protocol (hex = lower-case hex, `-` = empty byte string):

  name      ::= `.` (no labels) | hex(,hex)*
  encname <name>                         → hex            (`qname_encode(labels)`)
  encptr <labels-name> <offset>          → hex            (reference: labels + compression pointer)
  parsename <msg> <pos>                  → `<ok|err:class> <name> <next>`
  pack <id> <flags> <QD> <AN> <NS> <AR>  → hex            (`DnsMessage.pack`)
        section ::= `_` | rec(;rec)*
        QD rec  ::= name:qtype:qclass
        AN rec  ::= name:qtype:qclass:ttl:rdname
        NS/AR   ::= name:qtype:qclass:ttl:rdhex
  unpack <msg>                           → `ok <id> <flags> <QD> <AN> <NS> <AR>` | `err:class`
        resource ::= name:qtype:qclass:ttl:rdlen:rd
        rd ::= a=hex | n=name | s=prio/weight/port/name | t=(`.` | k~v(|k~v)*) | r=hex
-/
namespace PyatvModel.C04.Dns

def nameToStr (ls : List Bytes) : String :=
  if ls.isEmpty then "." else String.intercalate "," (ls.map toHex)

def nameOfStr? (s : String) : Option (List Bytes) :=
  if s == "." then some [] else (s.splitOn ",").mapM ofHex?

def sectionOf? {α : Type} (f : List String → Option α) (s : String) : Option (List α) :=
  if s == "_" then some [] else (s.splitOn ";").mapM fun r => f (r.splitOn ":")

def questionOf? : List String → Option Question
  | [n, t, c] => do pure ⟨← nameOfStr? n, ← t.toNat?, ← c.toNat?⟩
  | _ => none

def ansOf? : List String → Option AnsIn
  | [n, t, c, ttl, rd] => do pure ⟨← nameOfStr? n, ← t.toNat?, ← c.toNat?, ← ttl.toNat?, ← nameOfStr? rd⟩
  | _ => none

def rawOf? : List String → Option RawIn
  | [n, t, c, ttl, rd] => do pure ⟨← nameOfStr? n, ← t.toNat?, ← c.toNat?, ← ttl.toNat?, ← ofHex? rd⟩
  | _ => none

def questionToStr (q : Question) : String := s!"{nameToStr q.name}:{q.qtype}:{q.qclass}"

def rdToStr : RData → String
  | .a ip => "a=" ++ toHex ip
  | .name ls => "n=" ++ nameToStr ls
  | .srv p w port t => s!"s={p}/{w}/{port}/{nameToStr t}"
  | .txt kvs => "t=" ++ (if kvs.isEmpty then "." else
      String.intercalate "|" (kvs.map fun (k, v) => toHex k ++ "~" ++ toHex v))
  | .raw bs => "r=" ++ toHex bs

def resourceToStr (r : Resource) : String :=
  s!"{nameToStr r.name}:{r.qtype}:{r.qclass}:{r.ttl}:{r.rdlen}:{rdToStr r.rd}"

def sectionToStr {α : Type} (f : α → String) (l : List α) : String :=
  if l.isEmpty then "_" else String.intercalate ";" (l.map f)

def statusStr : Option Err → String
  | none => "ok"
  | some e => "err:" ++ e.toStr

def handle (_ : Unit) (ws : List String) : Unit × String :=
  match ws with
  | ["encname", n] =>
    match nameOfStr? n with
    | some ls => ((), toHex (encName ls))
    | none => ((), "bad-op")
  | ["encptr", n, t] =>
    match nameOfStr? n, t.toNat? with
    | some ls, some t => ((), toHex (encLabels ls ++ encPtr t))
    | _, _ => ((), "bad-op")
  | ["parsename", m, p] =>
    match ofHex? m, p.toNat? with
    | some msg, some pos =>
      let r := parseName msg pos
      ((), s!"{statusStr r.err} {nameToStr r.labels} {r.next}")
    | _, _ => ((), "bad-op")
  | ["pack", id, fl, qd, an, ns, ar] =>
    match id.toNat?, fl.toNat?, sectionOf? questionOf? qd, sectionOf? ansOf? an,
          sectionOf? rawOf? ns, sectionOf? rawOf? ar with
    | some id, some fl, some qd, some an, some ns, some ar => ((), toHex (pack ⟨id, fl, qd, an, ns, ar⟩))
    | _, _, _, _, _, _ => ((), "bad-op")
  | ["unpack", m] =>
    match ofHex? m with
    | some msg =>
      match unpack msg with
      | .err e => ((), "err:" ++ e.toStr)
      | .ok m _ =>
        ((), s!"ok {m.id} {m.flags} {sectionToStr questionToStr m.qd} {sectionToStr resourceToStr m.an} {sectionToStr resourceToStr m.ns} {sectionToStr resourceToStr m.ar}")
    | none => ((), "bad-op")
  | _ => ((), "bad-op")

end PyatvModel.C04.Dns
