import PyatvModel.C04.Dns.Model
/-
Helper lemmas for the DNS codec theorems (Props/C04Dns.lean).
-/
namespace PyatvModel.C04.Dns

/-- a label the wire format can carry: 1..63 bytes (RFC 1035 §2.3.4) of valid UTF-8 (what
    `str.encode` produces), not starting with the ACE prefix "xn--" (those are IDNA-decoded on
    receipt: a parameter of the model). -/
def LabelOk (l : Bytes) : Prop := 0 < l.length ∧ l.length ≤ 63 ∧ utf8Valid l = true ∧ isAce l = false

instance (l : Bytes) : Decidable (LabelOk l) := by unfold LabelOk; infer_instance

def LabelsOk (ls : List Bytes) : Prop := ∀ l ∈ ls, LabelOk l

instance (ls : List Bytes) : Decidable (LabelsOk ls) := by unfold LabelsOk; infer_instance

/-! ### bytes -/

theorem toNat_ofNat_lt (n : Nat) (h : n < 256) : (UInt8.ofNat n).toNat = n := by
  simp [Nat.mod_eq_of_lt h]

theorem readByte_of_drop {msg : Bytes} {pos : Nat} {b : UInt8} {Y : Bytes}
    (h : msg.drop pos = b :: Y) : readByte msg pos = some b := by
  simp [readByte, h]

theorem drop_add_of_drop {msg : Bytes} {pos : Nat} {X Y : Bytes}
    (h : msg.drop pos = X ++ Y) : msg.drop (pos + X.length) = Y := by
  rw [← List.drop_drop, h, List.drop_left]

theorem length_ge_of_drop {msg : Bytes} {pos : Nat} {X Y : Bytes}
    (h : msg.drop pos = X ++ Y) : msg.length - pos = X.length + Y.length := by
  have := congrArg List.length h
  simpa using this

/-! ### encoder -/

theorem truncLabel_of_le (l : Bytes) (h : l.length ≤ 63) : truncLabel l = l := by
  unfold truncLabel
  cases hl : l.length with
  | zero => rfl
  | succ n => simp only [truncLabelF]; rw [if_neg (by omega)]

theorem encName_eq (ls : List Bytes) (h : LabelsOk ls) : encName ls = encLabels ls ++ [0] := by
  induction ls with
  | nil => rfl
  | cons l ls ih =>
    have hl : LabelOk l := h l (by simp)
    have ih := ih (fun x hx => h x (by simp [hx]))
    simp only [encName, encLabels, truncLabel_of_le l hl.2.1]
    rw [if_neg (by have := hl.1; omega), ih]
    simp

theorem length_le_encLabels (ls : List Bytes) : ls.length ≤ (encLabels ls).length := by
  induction ls with
  | nil => simp [encLabels]
  | cons l ls ih => simp [encLabels]; omega

/-! ### decoder: the label loop -/

/-- reading the labels `ls` laid out at `pos` takes `ls.length` iterations and leaves the loop at
    the byte after them. -/
theorem parseNameF_labels (msg : Bytes) (ls : List Bytes) (h : LabelsOk ls) :
    ∀ (f pos seg : Nat) (acc : List Bytes) (ret : Option Nat) (Y : Bytes),
      msg.drop pos = encLabels ls ++ Y →
      parseNameF msg (f + ls.length) pos seg acc ret
        = parseNameF msg f (pos + (encLabels ls).length) seg (acc ++ ls) ret := by
  induction ls with
  | nil => intro f pos seg acc ret Y _; simp [encLabels]
  | cons l ls ih =>
    intro f pos seg acc ret Y hd
    have hl : LabelOk l := h l (by simp)
    have ih := ih (fun x hx => h x (by simp [hx]))
    obtain ⟨h0, h63, hutf, hace⟩ := hl
    have hn : (UInt8.ofNat l.length).toNat = l.length := toNat_ofNat_lt _ (by omega)
    simp only [encLabels, List.cons_append] at hd
    have hb := readByte_of_drop hd
    have hrest : msg.drop (pos + 1) = l ++ (encLabels ls ++ Y) := by
      have := drop_add_of_drop (X := [UInt8.ofNat l.length]) (by simpa using hd)
      simpa using this
    have hlabel : (msg.drop (pos + 1)).take l.length = l := by
      rw [hrest]; simp
    have hnext : msg.drop (pos + 1 + l.length) = encLabels ls ++ Y := drop_add_of_drop hrest
    rw [show f + (l :: ls).length = (f + ls.length) + 1 by simp; omega]
    simp only [parseNameF, hb, hn]
    rw [if_neg (by omega), if_neg (by omega), if_pos (by omega)]
    simp only [hlabel, hace, hutf]
    rw [ih _ _ _ _ _ _ hnext]
    simp only [encLabels, List.length_cons, List.length_append, List.append_assoc, List.singleton_append]
    rw [show pos + 1 + l.length + (encLabels ls).length = pos + (l.length + (encLabels ls).length + 1) by omega]
    simp

theorem parseNameF_zero {msg : Bytes} {pos : Nat} {Y : Bytes} (f seg : Nat) (acc : List Bytes)
    (ret : Option Nat) (h : msg.drop pos = 0 :: Y) :
    parseNameF msg (f + 1) pos seg acc ret = ⟨none, acc, ret.getD (pos + 1)⟩ := by
  simp [parseNameF, readByte_of_drop h]

theorem encPtr_bytes (t : Nat) (h : t < 16384) :
    (UInt8.ofNat (192 + t / 256)).toNat = 192 + t / 256 ∧ (UInt8.ofNat (t % 256)).toNat = t % 256 :=
  ⟨toNat_ofNat_lt _ (by omega), toNat_ofNat_lt _ (by omega)⟩

theorem parseNameF_ptr {msg : Bytes} {pos t : Nat} {Y : Bytes} (f seg : Nat) (acc : List Bytes)
    (ret : Option Nat) (ht : t < 16384) (hseg : t < seg) (h : msg.drop pos = encPtr t ++ Y) :
    parseNameF msg (f + 1) pos seg acc ret = parseNameF msg f t t acc (some (ret.getD (pos + 2))) := by
  obtain ⟨h1, h2⟩ := encPtr_bytes t ht
  simp only [encPtr, List.cons_append, List.nil_append] at h
  have hb := readByte_of_drop h
  have hb2 : readByte msg (pos + 1) = some (UInt8.ofNat (t % 256)) := by
    have := drop_add_of_drop (X := [UInt8.ofNat (192 + t / 256)]) (by simpa using h)
    exact readByte_of_drop (by simpa using this)
  simp only [parseNameF, hb, hb2, h1, h2]
  rw [if_neg (by omega), if_pos (by omega)]
  have ht' : (192 + t / 256) % 64 * 256 + t % 256 = t := by omega
  rw [ht', if_neg (by omega)]

/-- RFC 1035 §4.1.4 well-formed (possibly compressed) name starting at offset `s`: a sequence of
    labels ended either by the root label, or by a pointer to a *prior* well-formed name whose
    own extent ends at or before `s`.  `e` is the offset just after the name's own bytes. -/
inductive WfName (msg : Bytes) : Nat → List Bytes → Nat → Prop
  | plain (s : Nat) (ls : List Bytes) (Y : Bytes) :
      LabelsOk ls → msg.drop s = encLabels ls ++ 0 :: Y →
      WfName msg s ls (s + (encLabels ls).length + 1)
  | ptr (s : Nat) (ls1 : List Bytes) (t : Nat) (ls2 : List Bytes) (e' : Nat) (Y : Bytes) :
      LabelsOk ls1 → msg.drop s = encLabels ls1 ++ (encPtr t ++ Y) → t < 16384 →
      WfName msg t ls2 e' → e' ≤ s →
      WfName msg s (ls1 ++ ls2) (s + (encLabels ls1).length + 2)

theorem WfName.end_le {msg : Bytes} {s e : Nat} {ls : List Bytes} (h : WfName msg s ls e) :
    e ≤ msg.length := by
  cases h with
  | plain s ls Y _ hd => have := length_ge_of_drop hd; simp at this; omega
  | ptr s ls1 t ls2 e' Y _ hd _ _ _ => have := length_ge_of_drop hd; simp [encPtr] at this; omega

theorem WfName.start_lt {msg : Bytes} {s e : Nat} {ls : List Bytes} (h : WfName msg s ls e) : s < e := by
  cases h <;> omega

/-- the decoder follows a well-formed name with any fuel `≥ e` (in particular `nameFuel msg`) and
    any `segment_start ≥ s` (the pointers of a well-formed name point before the name's start) -/
theorem parseNameF_wf {msg : Bytes} {s e : Nat} {ls : List Bytes} (h : WfName msg s ls e) :
    ∀ (f seg : Nat) (acc : List Bytes) (ret : Option Nat), e ≤ f → s ≤ seg →
      parseNameF msg f s seg acc ret = ⟨none, acc ++ ls, ret.getD e⟩ := by
  induction h with
  | plain s ls Y hok hd =>
    intro f seg acc ret hf _
    have hlen := length_le_encLabels ls
    obtain ⟨f', rfl⟩ : ∃ f', f = (f' + 1) + ls.length := ⟨f - ls.length - 1, by omega⟩
    rw [parseNameF_labels msg ls hok _ _ _ _ _ _ hd, parseNameF_zero _ _ _ _ (drop_add_of_drop hd)]
  | ptr s ls1 t ls2 e' Y hok hd ht hw hle ih =>
    intro f seg acc ret hf hseg
    have hlen := length_le_encLabels ls1
    have hlt := hw.start_lt
    obtain ⟨f', rfl⟩ : ∃ f', f = (f' + 1) + ls1.length := ⟨f - ls1.length - 1, by omega⟩
    rw [parseNameF_labels msg ls1 hok _ _ _ _ _ _ hd,
      parseNameF_ptr _ _ _ _ ht (by omega) (drop_add_of_drop hd), ih f' _ _ _ (by omega) (Nat.le_refl _)]
    simp

theorem le_nameFuel (msg : Bytes) : msg.length ≤ nameFuel msg := by
  unfold nameFuel
  exact Nat.le_trans (Nat.le_succ _) (Nat.le_mul_of_pos_right _ (Nat.succ_pos _))

/-! ### plain (uncompressed) names as the encoder emits them -/

theorem parseName_encName {msg : Bytes} {pos : Nat} {ls : List Bytes} {Y : Bytes} (hok : LabelsOk ls)
    (hd : msg.drop pos = encName ls ++ Y) :
    parseName msg pos = ⟨none, ls, pos + (encName ls).length⟩ := by
  rw [encName_eq ls hok] at hd ⊢
  have hd' : msg.drop pos = encLabels ls ++ 0 :: Y := by simpa using hd
  have hw := WfName.plain (msg := msg) pos ls Y hok hd'
  have := parseNameF_wf hw (nameFuel msg) pos [] none
    (by have := hw.end_le; have := le_nameFuel msg; omega) (Nat.le_refl _)
  simpa [parseName, Nat.add_assoc] using this

/-! ### fixed-width fields -/

theorem u16_val (n : Nat) (h : n < 65536) :
    (UInt8.ofNat (n / 256)).toNat * 256 + (UInt8.ofNat (n % 256)).toNat = n := by
  rw [toNat_ofNat_lt _ (by omega), toNat_ofNat_lt _ (by omega)]; omega

theorem readU16_of_drop {msg : Bytes} {pos n : Nat} {Y : Bytes} (h : n < 65536)
    (hd : msg.drop pos = u16 n ++ Y) : readU16 msg pos = some n := by
  simp only [readU16, hd, u16]
  simp; omega

theorem readU32_of_drop {msg : Bytes} {pos n : Nat} {Y : Bytes} (h : n < 4294967296)
    (hd : msg.drop pos = u32 n ++ Y) : readU32 msg pos = some n := by
  simp only [readU32, hd, u32]
  simp only [List.cons_append, List.nil_append, List.take_succ_cons, List.take_zero]
  rw [toNat_ofNat_lt _ (by omega), toNat_ofNat_lt _ (by omega), toNat_ofNat_lt _ (by omega),
    toNat_ofNat_lt _ (by omega)]
  congr 1; omega

theorem length_u16 (n : Nat) : (u16 n).length = 2 := rfl
theorem length_u32 (n : Nat) : (u32 n).length = 4 := rfl

/-! ### the explicit domain of the message round trip -/

def QuestionOk (q : Question) : Prop := LabelsOk q.name ∧ q.qtype < 65536 ∧ q.qclass < 65536

instance (q : Question) : Decidable (QuestionOk q) := by unfold QuestionOk; infer_instance

/-- one DNS-SD TXT entry `key=value` (RFC 6763 §6): non-empty printable-ASCII key without `=`,
    at most 255 bytes in all; keys are compared case-insensitively by the decoder, which stores
    them lowered, so the round trip is stated for lower-case keys. -/
def TxtEntryOk (kv : Bytes × Bytes) : Prop :=
  kv.1 ≠ [] ∧ isAscii kv.1 = true ∧ lower kv.1 = kv.1 ∧ (61 : UInt8) ∉ kv.1 ∧
    kv.1.length + 1 + kv.2.length ≤ 255

instance (kv : Bytes × Bytes) : Decidable (TxtEntryOk kv) := by unfold TxtEntryOk; infer_instance

def TxtOk (kvs : List (Bytes × Bytes)) : Prop :=
  (∀ kv ∈ kvs, TxtEntryOk kv) ∧ (kvs.map Prod.fst).Nodup

instance (kvs : List (Bytes × Bytes)) : Decidable (TxtOk kvs) := by unfold TxtOk; infer_instance

/-- the record type selects the RDATA form (`QueryType.parse_rdata`) -/
def RDataOk (qtype : Nat) : RData → Prop
  | .a ip => qtype = 1 ∧ ip.length = 4
  | .name ls => qtype = 12 ∧ LabelsOk ls
  | .srv p w port t => qtype = 33 ∧ p < 65536 ∧ w < 65536 ∧ port < 65536 ∧ LabelsOk t
  | .txt kvs => qtype = 16 ∧ TxtOk kvs
  | .raw _ => qtype ≠ 1 ∧ qtype ≠ 12 ∧ qtype ≠ 16 ∧ qtype ≠ 33

instance (t : Nat) (rd : RData) : Decidable (RDataOk t rd) := by
  cases rd <;> unfold RDataOk <;> infer_instance

def ResourceOk (r : Resource) : Prop :=
  LabelsOk r.name ∧ r.qtype < 65536 ∧ r.qclass < 65536 ∧ r.ttl < 4294967296 ∧
    r.rdlen = (Ref.rdata r.rd).length ∧ r.rdlen < 65536 ∧ RDataOk r.qtype r.rd

instance (r : Resource) : Decidable (ResourceOk r) := by unfold ResourceOk; infer_instance

/-- `DnsMessage.pack` serialises the `rd` of an *answer* with `qname_encode`: answers are PTR-style -/
def AnswerOk (r : Resource) : Prop := ResourceOk r ∧ r.qtype = 12

instance (r : Resource) : Decidable (AnswerOk r) := by unfold AnswerOk; infer_instance

def MsgOk (m : Msg) : Prop :=
  m.id < 65536 ∧ m.flags < 65536 ∧
  m.qd.length < 65536 ∧ m.an.length < 65536 ∧ m.ns.length < 65536 ∧ m.ar.length < 65536 ∧
  (∀ q ∈ m.qd, QuestionOk q) ∧ (∀ r ∈ m.an, AnswerOk r) ∧
  (∀ r ∈ m.ns, ResourceOk r) ∧ (∀ r ∈ m.ar, ResourceOk r)

instance (m : Msg) : Decidable (MsgOk m) := by unfold MsgOk; infer_instance

/-! ### reference layout vs. the code's helpers -/

theorem refBe2 (n : Nat) (h : n < 65536) : Ref.be 2 n = u16 n := by
  simp [Ref.be, u16, List.range_succ, Nat.mod_eq_of_lt (show n / 256 < 256 by omega)]

theorem refBe4 (n : Nat) (h : n < 4294967296) : Ref.be 4 n = u32 n := by
  simp [Ref.be, u32, List.range_succ, Nat.mod_eq_of_lt (show n / 16777216 < 256 by omega)]

theorem encLabels_eq_flatMap (ls : List Bytes) :
    encLabels ls = ls.flatMap fun l => UInt8.ofNat l.length :: l := by
  induction ls with
  | nil => rfl
  | cons l ls ih => simp [encLabels, ih]

theorem refName_eq (ls : List Bytes) (h : LabelsOk ls) : Ref.name ls = encName ls := by
  rw [encName_eq ls h, Ref.name, encLabels_eq_flatMap]

/-! ### questions -/

theorem unpackQuestion_pack {msg : Bytes} {pos : Nat} {q : Question} {Y : Bytes} (h : QuestionOk q)
    (hd : msg.drop pos = packQuestion q ++ Y) :
    unpackQuestion msg pos = .ok q (pos + (packQuestion q).length) := by
  obtain ⟨hn, ht, hc⟩ := h
  simp only [packQuestion, List.append_assoc] at hd
  have h1 := drop_add_of_drop hd
  have h2 := drop_add_of_drop h1
  simp only [unpackQuestion, parseName_encName hn hd, readU16_of_drop ht h1]
  rw [length_u16] at h2
  simp only [Nat.add_assoc] at h2 ⊢
  simp only [readU16_of_drop hc h2, packQuestion, List.length_append, length_u16]

/-! ### TXT -/

theorem splitEq_entry (k v : Bytes) (h : (61 : UInt8) ∉ k) : splitEq (k ++ 61 :: v) = some (k, v) := by
  induction k with
  | nil => simp [splitEq]
  | cons c k ih =>
    have hc : c ≠ 61 := fun e => h (by simp [e])
    have ih := ih (fun hm => h (by simp [hm]))
    simp [splitEq, hc, ih]

theorem dictSet_append (k v : Bytes) (d : List (Bytes × Bytes)) (h : k ∉ d.map Prod.fst) :
    dictSet k v d = d ++ [(k, v)] := by
  induction d with
  | nil => rfl
  | cons e d ih =>
    obtain ⟨k', v'⟩ := e
    have hk : k' ≠ k := fun e => h (by simp [e])
    have ih := ih (fun hm => h (by simp [hm]))
    simp [dictSet, hk, ih]

theorem txtChunk_entry (kv : Bytes × Bytes) (d : List (Bytes × Bytes)) (h : TxtEntryOk kv)
    (hd : kv.1 ∉ d.map Prod.fst) :
    txtChunk (kv.1 ++ [61] ++ kv.2) d = .ok (d ++ [kv]) := by
  obtain ⟨k, v⟩ := kv
  obtain ⟨hne, hasc, hlow, heq, _⟩ := h
  simp only [List.append_assoc, List.singleton_append] at *
  simp only [txtChunk, splitEq_entry k v heq, hasc, hlow, if_true]
  rw [if_neg (by cases k <;> simp_all), dictSet_append k v d hd]

theorem parseTxtF_ref (msg : Bytes) (kvs : List (Bytes × Bytes)) :
    ∀ (f pos : Nat) (d : List (Bytes × Bytes)) (Y : Bytes), TxtOk kvs →
      (∀ kv ∈ kvs, kv.1 ∉ d.map Prod.fst) →
      msg.drop pos = Ref.rdata (.txt kvs) ++ Y → kvs.length + 1 ≤ f →
      parseTxtF msg (pos + (Ref.rdata (.txt kvs)).length) f pos d
        = .ok (d ++ kvs) (pos + (Ref.rdata (.txt kvs)).length) := by
  induction kvs with
  | nil =>
    intro f pos d Y _ _ _ hf
    obtain ⟨f', rfl⟩ : ∃ f', f = f' + 1 := ⟨f - 1, by omega⟩
    simp [Ref.rdata, parseTxtF]
  | cons kv kvs ih =>
    intro f pos d Y hok hdis hd hf
    obtain ⟨f', rfl⟩ : ∃ f', f = f' + 1 := ⟨f - 1, by simp at hf; omega⟩
    have hkv : TxtEntryOk kv := hok.1 kv (by simp)
    have hnd := hok.2
    simp only [List.map_cons, List.nodup_cons] at hnd
    have hok' : TxtOk kvs := ⟨fun x hx => hok.1 x (by simp [hx]), hnd.2⟩
    have hlen : (kv.1 ++ [61] ++ kv.2).length < 256 := by
      have := hkv.2.2.2.2; simp; omega
    have hrd : Ref.rdata (.txt (kv :: kvs))
        = UInt8.ofNat (kv.1 ++ [61] ++ kv.2).length :: ((kv.1 ++ [61] ++ kv.2) ++ Ref.rdata (.txt kvs)) := by
      simp [Ref.rdata, Ref.charString]
    rw [hrd] at hd ⊢
    simp only [List.cons_append] at hd
    have hb := readByte_of_drop hd
    have hrest : msg.drop (pos + 1) = (kv.1 ++ [61] ++ kv.2) ++ (Ref.rdata (.txt kvs) ++ Y) := by
      have := drop_add_of_drop (X := [UInt8.ofNat (kv.1 ++ [61] ++ kv.2).length]) (by simpa using hd)
      simpa using this
    have hchunk : (msg.drop (pos + 1)).take (kv.1 ++ [61] ++ kv.2).length = kv.1 ++ [61] ++ kv.2 := by
      rw [hrest]; exact List.take_left' rfl
    have hnext := drop_add_of_drop hrest
    have hdis' : ∀ x ∈ kvs, x.1 ∉ (d ++ [kv]).map Prod.fst := by
      intro x hx hm
      simp only [List.map_append, List.map_cons, List.map_nil, List.mem_append, List.mem_singleton] at hm
      rcases hm with hm | hm
      · exact hdis x (by simp [hx]) hm
      · exact hnd.1 (by rw [← hm]; exact List.mem_map_of_mem hx)
    have hstop : pos + (UInt8.ofNat (kv.1 ++ [61] ++ kv.2).length :: ((kv.1 ++ [61] ++ kv.2) ++ Ref.rdata (.txt kvs))).length
        = (pos + 1 + (kv.1 ++ [61] ++ kv.2).length) + (Ref.rdata (.txt kvs)).length := by
      simp only [List.length_cons, List.length_append]; omega
    rw [hstop]
    simp only [parseTxtF, hb, toNat_ofNat_lt _ hlen, hchunk]
    rw [if_pos (by omega), txtChunk_entry kv d hkv (hdis kv (by simp))]
    simp only []
    rw [ih f' _ _ Y hok' hdis' hnext (by simp at hf; omega)]
    simp

/-! ### RDATA -/

theorem parseRData_ref {msg : Bytes} {pos t : Nat} {rd : RData} {Y : Bytes} (h : RDataOk t rd)
    (hd : msg.drop pos = Ref.rdata rd ++ Y) :
    parseRData msg t pos (Ref.rdata rd).length = .ok rd (pos + (Ref.rdata rd).length) := by
  cases rd with
  | a ip =>
    obtain ⟨rfl, hl⟩ := h
    simp only [Ref.rdata] at hd ⊢
    have : (msg.drop pos).take 4 = ip := by rw [hd, ← hl]; simp
    simp [parseRData, hl, this]
  | name ls =>
    obtain ⟨rfl, hl⟩ := h
    simp only [Ref.rdata, refName_eq ls hl] at hd ⊢
    simp [parseRData, parseName_encName hl hd]
  | srv p w port tg =>
    obtain ⟨rfl, hp, hw, hport, hl⟩ := h
    simp only [Ref.rdata, refName_eq tg hl, refBe2 _ hp, refBe2 _ hw, refBe2 _ hport, List.append_assoc] at hd ⊢
    have h1 := drop_add_of_drop hd
    have h2 := drop_add_of_drop h1
    have h3 := drop_add_of_drop h2
    simp only [length_u16, Nat.add_assoc] at h1 h2 h3
    simp [parseRData, readU16_of_drop hp hd, readU16_of_drop hw h1, readU16_of_drop hport h2,
      parseName_encName hl h3, length_u16]
    omega
  | txt kvs =>
    obtain ⟨rfl, hk⟩ := h
    have hf : kvs.length + 1 ≤ msg.length + 1 := by
      have h1 := length_ge_of_drop hd
      have h2 : kvs.length ≤ (Ref.rdata (.txt kvs)).length := by
        clear hd h1 hk
        induction kvs with
        | nil => simp
        | cons kv kvs ih => simp [Ref.rdata, Ref.charString] at ih ⊢; omega
      omega
    have := parseTxtF_ref msg kvs (msg.length + 1) pos [] Y hk (by simp) hd hf
    simp [parseRData, this]
  | raw bs =>
    obtain ⟨h1, h2, h3, h4⟩ := h
    simp only [Ref.rdata] at hd ⊢
    have : (msg.drop pos).take bs.length = bs := by rw [hd]; simp
    simp [parseRData, h1, h2, h3, h4, this]

/-! ### resource records -/

theorem unpackResource_ref {msg : Bytes} {pos : Nat} {r : Resource} {Y : Bytes} (h : ResourceOk r)
    (hd : msg.drop pos = Ref.rr r ++ Y) :
    unpackResource msg pos = .ok r (pos + (Ref.rr r).length) := by
  obtain ⟨hn, ht, hc, httl, hlen, hlt, hrd⟩ := h
  simp only [Ref.rr, refName_eq _ hn, refBe2 _ ht, refBe2 _ hc, refBe4 _ httl, ← hlen, refBe2 _ hlt,
    List.append_assoc] at hd ⊢
  have h1 := drop_add_of_drop hd
  have h2 := drop_add_of_drop h1
  have h3 := drop_add_of_drop h2
  have h4 := drop_add_of_drop h3
  have h5 := drop_add_of_drop h4
  simp only [length_u16, length_u32, Nat.add_assoc] at h1 h2 h3 h4 h5
  have hr := parseRData_ref hrd h5
  rw [← hlen] at hr
  simp only [unpackResource, parseName_encName hn hd, readU16_of_drop ht h1, readU16_of_drop hc h2,
    readU32_of_drop httl h3, readU16_of_drop hlt h4, Nat.add_assoc, hr]
  simp [length_u16, length_u32, hlen]
  rw [if_pos (by omega)]
  cases r; simp_all

/-! ### sections -/

theorem unpackMany_flatMap {α : Type} (f : Bytes → Nat → Res α) (enc : α → Bytes) (P : α → Prop)
    (msg : Bytes)
    (hf : ∀ x pos Y, P x → msg.drop pos = enc x ++ Y → f msg pos = .ok x (pos + (enc x).length))
    (xs : List α) :
    ∀ (pos : Nat) (Y : Bytes), (∀ x ∈ xs, P x) → msg.drop pos = xs.flatMap enc ++ Y →
      unpackMany f msg xs.length pos = .ok xs (pos + (xs.flatMap enc).length) := by
  induction xs with
  | nil => intro pos Y _ _; simp [unpackMany]
  | cons x xs ih =>
    intro pos Y hp hd
    simp only [List.flatMap_cons, List.append_assoc] at hd
    have h1 := drop_add_of_drop hd
    simp only [List.length_cons, unpackMany, hf x pos _ (hp x (by simp)) hd,
      ih _ Y (fun y hy => hp y (by simp [hy])) h1]
    simp [Nat.add_assoc]

/-! ### encoder = reference, record by record -/

theorem flatMap_congr' {α : Type} {l : List α} {f g : α → Bytes} (h : ∀ x ∈ l, f x = g x) :
    l.flatMap f = l.flatMap g := by
  induction l with
  | nil => rfl
  | cons x xs ih => simp [h x (by simp), ih (fun y hy => h y (by simp [hy]))]

theorem packQuestion_eq_ref (q : Question) (h : QuestionOk q) : packQuestion q = Ref.question q := by
  simp [packQuestion, Ref.question, refName_eq _ h.1, refBe2 _ h.2.1, refBe2 _ h.2.2]

theorem packRaw_eq_ref (r : Resource) (h : ResourceOk r) :
    packRaw ⟨r.name, r.qtype, r.qclass, r.ttl, Ref.rdata r.rd⟩ = Ref.rr r := by
  obtain ⟨hn, ht, hc, httl, hlen, hlt, _⟩ := h
  simp [packRaw, Ref.rr, refName_eq _ hn, refBe2 _ ht, refBe2 _ hc, refBe4 _ httl, ← hlen, refBe2 _ hlt]

theorem packAnswer_eq_ref (r : Resource) (h : AnswerOk r) :
    packAnswer ⟨r.name, r.qtype, r.qclass, r.ttl, r.rd.nameOf⟩ = Ref.rr r := by
  obtain ⟨⟨hn, ht, hc, httl, hlen, hlt, hrd⟩, h12⟩ := h
  cases hr : r.rd with
  | name ls =>
    rw [hr] at hrd hlen
    have hl : LabelsOk ls := hrd.2
    simp only [Ref.rdata, refName_eq ls hl] at hlen
    simp [packAnswer, Ref.rr, hr, RData.nameOf, Ref.rdata, refName_eq _ hn, refName_eq _ hl, refBe2 _ ht,
      refBe2 _ hc, refBe4 _ httl, ← hlen, refBe2 _ hlt]
  | a ip => rw [hr] at hrd; exact absurd hrd.1 (by omega)
  | srv p w port t => rw [hr] at hrd; exact absurd hrd.1 (by omega)
  | txt kvs => rw [hr] at hrd; exact absurd hrd.1 (by omega)
  | raw bs => rw [hr] at hrd; exact absurd hrd.2.1 (by omega)

end PyatvModel.C04.Dns
