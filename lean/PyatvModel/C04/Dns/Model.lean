import PyatvModel.Base.Bytes
/-
C04 / DNS — executable model of pyatv/support/dns.py (pinned tree).

Transcribes:
  * `qname_encode`            dns.py:71   (sequence-of-labels API; the dotted-string API only adds
                                           `ServiceInstanceName.split_name`, which is exercised by the
                                           harness, not modelled)
  * `parse_string`            dns.py:139
  * `parse_domain_name`       dns.py:149  (as repaired by `fix: parse_domain_name rejects compression
                                           pointers that do not point strictly backwards` — defect D2 /
                                           property C05: a pointer must point before `segment_start`, the
                                           offset where the part of the name being read began, else
                                           `ValueError`.  The loop is modelled with fuel `(n+1)²`, n =
                                           `msg.length`; `Props/C05Dns.parseName_never_hangs` proves the
                                           fuel is never exhausted (`hang` unreachable).  The pinned loop,
                                           which has no such check, is `C05.Model.parseNamePinnedF`.)
  * `parse_txt_dict`          dns.py:206
  * `parse_srv_dict`          dns.py:233
  * `QueryType.parse_rdata`   dns.py:257
  * `DnsHeader`, `DnsQuestion.unpack_read/pack`, `DnsResource.unpack_read`   dns.py:278-359
  * `DnsMessage.unpack/pack`  dns.py:361-437

Labels are *byte strings*: NFC normalisation and the IDNA decoding of labels starting with "xn--"
are parameters of the model (the harness applies the code's own normalisation before handing labels
over and compares at the byte level; a label with the ACE prefix makes the model answer `idna`,
"outside the model").  UTF-8 is modelled as far as the code depends on it: strict validity of a
received label (`label.decode("utf-8")` raises otherwise) and code-point boundaries when an
over-long label is truncated (`dropLastCp`).

A `BytesIO` is modelled as the immutable message plus a position (`Nat`): `read(n)` at `pos` is
`(msg.drop pos).take n` (short at EOF, exactly like `BytesIO.read`), `seek` is unrestricted.
-/
namespace PyatvModel.C04.Dns

/-! ## encoder: `qname_encode` -/

def isCont (b : UInt8) : Bool := b.toNat / 64 = 2

/-- `encoded_label.decode()[:-1].encode()` on valid UTF-8: drop the last code point. -/
def dropLastCp (bs : Bytes) : Bytes := ((bs.reverse.dropWhile isCont).drop 1).reverse

def truncLabelF : Nat → Bytes → Bytes
  | 0, l => l
  | f + 1, l => if l.length > 63 then truncLabelF f (dropLastCp l) else l

/-- the `while encoded_length > 63` loop -/
def truncLabel (l : Bytes) : Bytes := truncLabelF l.length l

/-- `qname_encode(labels)`: the root label is appended when missing; an empty label ends the
    name (`break`), whatever follows it. -/
def encName : List Bytes → Bytes
  | [] => [0]
  | l :: ls =>
    let t := truncLabel l
    if t.length = 0 then [0] else UInt8.ofNat t.length :: (t ++ encName ls)

/-- the labels without the terminating root label (used to state theorems and by the reference
    compression encoder) -/
def encLabels : List Bytes → Bytes
  | [] => []
  | l :: ls => UInt8.ofNat l.length :: (l ++ encLabels ls)

/-- a compression pointer to offset `t` (RFC 1035 §4.1.4): `11` + 14-bit offset -/
def encPtr (t : Nat) : Bytes := [UInt8.ofNat (192 + t / 256), UInt8.ofNat (t % 256)]

/-! ## decoder: `parse_domain_name` -/

inductive Err | struct | assert | value | unicode | hang | idna
  deriving DecidableEq, Repr

def Err.toStr : Err → String
  | .struct => "struct" | .assert => "assert" | .value => "value"
  | .unicode => "unicode" | .hang => "hang" | .idna => "idna"

def inRange (b : UInt8) (lo hi : Nat) : Bool := lo ≤ b.toNat && b.toNat ≤ hi

/-- strict UTF-8 as CPython decodes it (no overlong forms, no surrogates, ≤ U+10FFFF) -/
def utf8Valid : Bytes → Bool
  | [] => true
  | b0 :: r =>
    if b0.toNat < 0x80 then utf8Valid r
    else if inRange b0 0xC2 0xDF then
      match r with
      | b1 :: r' => inRange b1 0x80 0xBF && utf8Valid r'
      | _ => false
    else if inRange b0 0xE0 0xEF then
      match r with
      | b1 :: b2 :: r' =>
        (if b0.toNat = 0xE0 then inRange b1 0xA0 0xBF
         else if b0.toNat = 0xED then inRange b1 0x80 0x9F else inRange b1 0x80 0xBF)
          && inRange b2 0x80 0xBF && utf8Valid r'
      | _ => false
    else if inRange b0 0xF0 0xF4 then
      match r with
      | b1 :: b2 :: b3 :: r' =>
        (if b0.toNat = 0xF0 then inRange b1 0x90 0xBF
         else if b0.toNat = 0xF4 then inRange b1 0x80 0x8F else inRange b1 0x80 0xBF)
          && inRange b2 0x80 0xBF && inRange b3 0x80 0xBF && utf8Valid r'
      | _ => false
    else false

/-- `label[:4] == b"xn--"` -/
def isAce (l : Bytes) : Bool := l.take 4 == [120, 110, 45, 45]

/-- result of `parse_domain_name`: labels read so far (also on failure — the harness needs them
    because the real code decodes each label as it goes) and the stream position afterwards. -/
structure NameRes where
  err : Option Err
  labels : List Bytes
  next : Nat
  deriving DecidableEq, Repr

def readByte (msg : Bytes) (pos : Nat) : Option UInt8 := (msg.drop pos).head?

/-- one iteration of the `while buffer:` loop per unit of fuel.
    `seg` = `segment_start` (where the part of the name being read began: a pointer must point
    before it), `ret` = `compression_offset` (set at the first pointer only). -/
def parseNameF (msg : Bytes) : Nat → Nat → Nat → List Bytes → Option Nat → NameRes
  | 0, pos, _, acc, _ => ⟨some .hang, acc, pos⟩
  | f + 1, pos, seg, acc, ret =>
    match readByte msg pos with
    | none => ⟨some .struct, acc, pos⟩                 -- struct.unpack(">B", b"")
    | some b =>
      let n := b.toNat
      if n = 0 then ⟨none, acc, ret.getD (pos + 1)⟩
      else if n / 64 = 3 then
        match readByte msg (pos + 1) with
        | none => ⟨some .struct, acc, pos + 1⟩          -- struct.unpack(">H", 1 byte)
        | some lo =>
          let target := (n % 64) * 256 + lo.toNat
          if seg ≤ target then ⟨some .value, acc, pos + 2⟩     -- `new_offset >= segment_start`: ValueError
          else parseNameF msg f target target acc (some (ret.getD (pos + 2)))
      else if n / 64 = 0 then
        let label := (msg.drop (pos + 1)).take n      -- may be short at EOF
        if isAce label then ⟨some .idna, acc, pos + 1 + label.length⟩       -- label.decode("idna"): parameter
        else if utf8Valid label then parseNameF msg f (pos + 1 + label.length) seg (acc ++ [label]) ret
        else ⟨some .unicode, acc, pos + 1 + label.length⟩
      else ⟨some .assert, acc, pos + 1⟩                 -- assert length_flags in (0, 0b11)

/-- iterations granted to the name loop: `(n + 1)²`.  Each jump moves `segment_start` strictly
    towards 0 and each label moves the position strictly forward, so `seg·(n+1) + (n − pos) + 1`
    bounds the remaining iterations (`Props/C05Dns`). -/
def nameFuel (msg : Bytes) : Nat := (msg.length + 1) * (msg.length + 1)

/-- `parse_domain_name(buffer)` with the stream at `pos` (`segment_start = buffer.tell()`). -/
def parseName (msg : Bytes) (pos : Nat) : NameRes := parseNameF msg (nameFuel msg) pos pos [] none

/-! ## fixed-width fields -/

def u16 (n : Nat) : Bytes := [UInt8.ofNat (n / 256), UInt8.ofNat (n % 256)]
def u32 (n : Nat) : Bytes :=
  [UInt8.ofNat (n / 16777216), UInt8.ofNat (n / 65536 % 256), UInt8.ofNat (n / 256 % 256), UInt8.ofNat (n % 256)]

def readU16 (msg : Bytes) (pos : Nat) : Option Nat :=
  match (msg.drop pos).take 2 with
  | [a, b] => some (a.toNat * 256 + b.toNat)
  | _ => none

def readU32 (msg : Bytes) (pos : Nat) : Option Nat :=
  match (msg.drop pos).take 4 with
  | [a, b, c, d] => some (a.toNat * 16777216 + b.toNat * 65536 + c.toNat * 256 + d.toNat)
  | _ => none

/-! ## values -/

structure Question where
  name : List Bytes
  qtype : Nat
  qclass : Nat
  deriving DecidableEq, Repr

/-- what `QueryType.parse_rdata` returns -/
inductive RData
  | a (ip : Bytes)                                      -- str(IPv4Address(4 bytes))
  | name (ls : List Bytes)                              -- PTR
  | srv (prio weight port : Nat) (target : List Bytes)  -- dict priority/weight/port/target
  | txt (kvs : List (Bytes × Bytes))                    -- CaseInsensitiveDict, insertion order
  | raw (bs : Bytes)                                    -- any other type
  deriving DecidableEq, Repr

structure Resource where
  name : List Bytes
  qtype : Nat
  qclass : Nat
  ttl : Nat
  rdlen : Nat
  rd : RData
  deriving DecidableEq, Repr

structure Msg where
  id : Nat
  flags : Nat
  qd : List Question
  an : List Resource
  ns : List Resource
  ar : List Resource
  deriving DecidableEq, Repr

/-- what `DnsMessage.pack` is handed for an *answer*: `rd` is a name and goes through
    `qname_encode`; `rd_length` is ignored. -/
structure AnsIn where
  name : List Bytes
  qtype : Nat
  qclass : Nat
  ttl : Nat
  rd : List Bytes

/-- what `DnsMessage.pack` is handed for an authority / additional record: `rd` is raw bytes the
    caller serialised. -/
structure RawIn where
  name : List Bytes
  qtype : Nat
  qclass : Nat
  ttl : Nat
  rd : Bytes

structure PackIn where
  id : Nat
  flags : Nat
  qd : List Question
  an : List AnsIn
  ns : List RawIn
  ar : List RawIn

/-! ## `DnsMessage.pack` -/

def packQuestion (q : Question) : Bytes := encName q.name ++ u16 q.qtype ++ u16 q.qclass

def packAnswer (r : AnsIn) : Bytes :=
  let data := encName r.rd
  encName r.name ++ u16 r.qtype ++ u16 r.qclass ++ u32 r.ttl ++ u16 data.length ++ data

def packRaw (r : RawIn) : Bytes :=
  encName r.name ++ u16 r.qtype ++ u16 r.qclass ++ u32 r.ttl ++ u16 r.rd.length ++ r.rd

def packHeader (id flags qd an ns ar : Nat) : Bytes :=
  u16 id ++ u16 flags ++ u16 qd ++ u16 an ++ u16 ns ++ u16 ar

def pack (m : PackIn) : Bytes :=
  packHeader m.id m.flags m.qd.length m.an.length m.ns.length m.ar.length
    ++ (m.qd.flatMap packQuestion) ++ (m.an.flatMap packAnswer)
    ++ (m.ns.flatMap packRaw) ++ (m.ar.flatMap packRaw)

/-! ## `DnsMessage.unpack` -/

inductive Res (α : Type)
  | ok (v : α) (next : Nat)
  | err (e : Err)
  deriving Repr

def lowerByte (b : UInt8) : UInt8 := if 65 ≤ b.toNat ∧ b.toNat ≤ 90 then UInt8.ofNat (b.toNat + 32) else b
def lower (bs : Bytes) : Bytes := bs.map lowerByte
def isAscii (bs : Bytes) : Bool := bs.all (fun b => b.toNat < 128)

/-- `CaseInsensitiveDict.__setitem__` (pyatv.support.collections): keys are stored lowered; an
    existing key keeps its position. -/
def dictSet (k v : Bytes) : List (Bytes × Bytes) → List (Bytes × Bytes)
  | [] => [(k, v)]
  | (k', v') :: r => if k' = k then (k, v) :: r else (k', v') :: dictSet k v r

/-- `chunk.split(b"=", 1)` when `b"=" in chunk` -/
def splitEq : Bytes → Option (Bytes × Bytes)
  | [] => none
  | c :: t => if c = 61 then some ([], t) else (splitEq t).map fun (k, v) => (c :: k, v)

/-- the body of the `while` loop of `parse_txt_dict` for one chunk -/
def txtChunk (chunk : Bytes) (d : List (Bytes × Bytes)) : Except Err (List (Bytes × Bytes)) :=
  match splitEq chunk with
  | none => if isAscii chunk then .ok (dictSet (lower chunk) [] d) else .error .unicode
  | some (k, v) =>
    if k.length = 0 then .ok d
    else if isAscii k then .ok (dictSet (lower k) v d)
    else .ok d

/-- `parse_txt_dict`; each iteration consumes at least the length byte -/
def parseTxtF (msg : Bytes) (stop : Nat) : Nat → Nat → List (Bytes × Bytes) → Res (List (Bytes × Bytes))
  | 0, _, _ => .err .hang
  | f + 1, pos, d =>
    if pos < stop then
      match readByte msg pos with
      | none => .err .struct
      | some b =>
        let chunk := (msg.drop (pos + 1)).take b.toNat
        match txtChunk chunk d with
        | .error e => .err e
        | .ok d' => parseTxtF msg stop f (pos + 1 + chunk.length) d'
    else .ok d pos

def parseRData (msg : Bytes) (qtype pos len : Nat) : Res RData :=
  if qtype = 1 then
    if len ≠ 4 then .err .value
    else
      let ip := (msg.drop pos).take 4
      if ip.length = 4 then .ok (.a ip) (pos + 4) else .err .value     -- AddressValueError
  else if qtype = 12 then
    match parseName msg pos with
    | ⟨none, ls, nx⟩ => .ok (.name ls) nx
    | ⟨some e, _, _⟩ => .err e
  else if qtype = 16 then
    match parseTxtF msg (pos + len) (msg.length + 1) pos [] with
    | .ok d nx => .ok (.txt d) nx
    | .err e => .err e
  else if qtype = 33 then
    match readU16 msg pos, readU16 msg (pos + 2), readU16 msg (pos + 4) with
    | some p, some w, some port =>
      match parseName msg (pos + 6) with
      | ⟨none, ls, nx⟩ => .ok (.srv p w port ls) nx
      | ⟨some e, _, _⟩ => .err e
    | _, _, _ => .err .struct
  else
    let bs := (msg.drop pos).take len
    .ok (.raw bs) (pos + bs.length)

def unpackQuestion (msg : Bytes) (pos : Nat) : Res Question :=
  match parseName msg pos with
  | ⟨some e, _, _⟩ => .err e
  | ⟨none, ls, p1⟩ =>
    match readU16 msg p1, readU16 msg (p1 + 2) with
    | some t, some c => .ok ⟨ls, t, c⟩ (p1 + 4)
    | _, _ => .err .struct

def unpackResource (msg : Bytes) (pos : Nat) : Res Resource :=
  match parseName msg pos with
  | ⟨some e, _, _⟩ => .err e
  | ⟨none, ls, p1⟩ =>
    match readU16 msg p1, readU16 msg (p1 + 2), readU32 msg (p1 + 4), readU16 msg (p1 + 8) with
    | some t, some c, some ttl, some len =>
      let before := p1 + 10
      match parseRData msg t before len with
      | .err e => .err e
      | .ok rd nx => if nx = before + len then .ok ⟨ls, t, c, ttl, len, rd⟩ nx else .err .assert
    | _, _, _, _ => .err .struct

/-- `[f(buffer) for _ in range(n)]` -/
def unpackMany {α : Type} (f : Bytes → Nat → Res α) (msg : Bytes) : Nat → Nat → Res (List α)
  | 0, pos => .ok [] pos
  | n + 1, pos =>
    match f msg pos with
    | .err e => .err e
    | .ok x p1 =>
      match unpackMany f msg n p1 with
      | .err e => .err e
      | .ok xs p2 => .ok (x :: xs) p2

def unpack (msg : Bytes) : Res Msg :=
  match readU16 msg 0, readU16 msg 2, readU16 msg 4, readU16 msg 6, readU16 msg 8, readU16 msg 10 with
  | some id, some flags, some qd, some an, some ns, some ar =>
    match unpackMany unpackQuestion msg qd 12 with
    | .err e => .err e
    | .ok qs p1 =>
      match unpackMany unpackResource msg an p1 with
      | .err e => .err e
      | .ok ans p2 =>
        match unpackMany unpackResource msg ns p2 with
        | .err e => .err e
        | .ok nss p3 =>
          match unpackMany unpackResource msg ar p3 with
          | .err e => .err e
          | .ok ars p4 => .ok ⟨id, flags, qs, ans, nss, ars⟩ p4
  | _, _, _, _, _, _ => .err .struct

/-! ## independent reference for the RFC 1035 layout (§3.2.1, §3.3, §3.3.12, §3.3.14, RFC 2782,
     RFC 6763 §6) — written from the RFCs, not from the code -/

namespace Ref

def be (width n : Nat) : Bytes :=
  (List.range width).reverse.map fun i => UInt8.ofNat (n / 256 ^ i % 256)

def name (ls : List Bytes) : Bytes := (ls.flatMap fun l => UInt8.ofNat l.length :: l) ++ [0]

def charString (s : Bytes) : Bytes := UInt8.ofNat s.length :: s

def rdata : RData → Bytes
  | .a ip => ip
  | .name ls => name ls
  | .srv p w port t => be 2 p ++ be 2 w ++ be 2 port ++ name t
  | .txt kvs => kvs.flatMap fun (k, v) => charString (k ++ [61] ++ v)
  | .raw bs => bs

def rr (r : Resource) : Bytes :=
  name r.name ++ be 2 r.qtype ++ be 2 r.qclass ++ be 4 r.ttl ++ be 2 (rdata r.rd).length ++ rdata r.rd

def question (q : Question) : Bytes := name q.name ++ be 2 q.qtype ++ be 2 q.qclass

def message (m : Msg) : Bytes :=
  be 2 m.id ++ be 2 m.flags ++ be 2 m.qd.length ++ be 2 m.an.length ++ be 2 m.ns.length ++ be 2 m.ar.length
    ++ m.qd.flatMap question ++ m.an.flatMap rr ++ m.ns.flatMap rr ++ m.ar.flatMap rr

end Ref

/-- how a typed message is handed to `DnsMessage.pack`: answers carry their name `rd` as is,
    authority/additional records carry `rd` serialised by the caller (reference layout). -/
def RData.nameOf : RData → List Bytes
  | .name ls => ls
  | _ => []

def toPackIn (m : Msg) : PackIn :=
  { id := m.id, flags := m.flags, qd := m.qd,
    an := m.an.map fun r => ⟨r.name, r.qtype, r.qclass, r.ttl, r.rd.nameOf⟩,
    ns := m.ns.map fun r => ⟨r.name, r.qtype, r.qclass, r.ttl, Ref.rdata r.rd⟩,
    ar := m.ar.map fun r => ⟨r.name, r.qtype, r.qclass, r.ttl, Ref.rdata r.rd⟩ }

end PyatvModel.C04.Dns
