import PyatvModel.C04.Tlv8.Model
/-
C04/TLV8 — helper lemmas: one fragment is consumed by one `parse` step; successive
updates of the same tag concatenate; the fragment loop as a whole performs one update.
-/
namespace PyatvModel.C04.Tlv8

theorem upd_upd (res : Dict) (t : UInt8) (a b : Bytes) :
    upd (upd res t a) t b = upd res t (a ++ b) := by
  induction res with
  | nil => simp [upd]
  | cons kw rest ih =>
    obtain ⟨k, w⟩ := kw
    by_cases h : k = t
    · simp [upd, h]
    · simp [upd, h, ih]

theorem upd_fresh (res : Dict) (t : UInt8) (v : Bytes) (h : t ∉ res.map Prod.fst) :
    upd res t v = res ++ [(t, v)] := by
  induction res with
  | nil => simp [upd]
  | cons kw rest ih =>
    obtain ⟨k, w⟩ := kw
    simp only [List.map_cons, List.mem_cons, not_or] at h
    have hk : ¬ k = t := fun e => h.1 e.symm
    simp [upd, hk, ih h.2]

theorem upd_keys (res : Dict) (t : UInt8) (v : Bytes) (h : t ∈ res.map Prod.fst) :
    (upd res t v).map Prod.fst = res.map Prod.fst := by
  induction res with
  | nil => simp at h
  | cons kw rest ih =>
    obtain ⟨k, w⟩ := kw
    by_cases hk : k = t
    · simp [upd, hk]
    · simp only [List.map_cons, List.mem_cons] at h
      have : t ∈ rest.map Prod.fst := by
        rcases h with h | h
        · exact absurd h.symm hk
        · exact h
      simp [upd, hk, ih this]

/-- one well-formed fragment (any size ≤ 255, not only the encoder's) is one update -/
theorem parse_frag (t : UInt8) (v rest : Bytes) (res : Dict) (h : v.length ≤ 255) :
    parse (t :: UInt8.ofNat v.length :: (v ++ rest)) res = parse rest (upd res t v) := by
  rw [parse]
  have : (UInt8.ofNat v.length).toNat = v.length := by
    rw [UInt8.toNat_ofNat']; omega
  rw [this, List.drop_left, List.take_left]

/-- the whole fragment loop for one item is one update with the whole value -/
theorem parse_writeFrags (t : UInt8) (v : Bytes) :
    ∀ (rest : Bytes) (res : Dict), parse (writeFrags t v ++ rest) res = parse rest (upd res t v) := by
  induction h : v.length using Nat.strongRecOn generalizing v with
  | _ n ih =>
    intro rest res
    rw [writeFrags]
    by_cases hle : v.length ≤ 255
    · rw [if_pos hle]
      exact parse_frag t v rest res hle
    · rw [if_neg hle]
      have hlen : (v.take 255).length = 255 := by simp; omega
      have h1 : t :: 255 :: (v.take 255 ++ writeFrags t (v.drop 255)) ++ rest
          = t :: UInt8.ofNat (v.take 255).length :: (v.take 255 ++ (writeFrags t (v.drop 255) ++ rest)) := by
        rw [hlen]; simp
      rw [h1, parse_frag t _ _ res (by omega)]
      rw [ih (v.drop 255).length (by simp; omega) (v.drop 255) rfl, upd_upd, List.take_append_drop]

theorem parse_writeTlv (d : Dict) :
    ∀ (rest : Bytes) (res : Dict),
      parse (writeTlv d ++ rest) res = parse rest (d.foldl (fun r kv => upd r kv.1 kv.2) res) := by
  induction d with
  | nil => intro rest res; simp [writeTlv]
  | cons kv d ih =>
    intro rest res
    have : writeTlv (kv :: d) = writeFrags kv.1 kv.2 ++ writeTlv d := by simp [writeTlv]
    rw [this, List.append_assoc, parse_writeFrags, ih]
    simp

theorem foldl_upd_fresh (d : Dict) :
    ∀ res : Dict, ((res ++ d).map Prod.fst).Nodup →
      d.foldl (fun r kv => upd r kv.1 kv.2) res = res ++ d := by
  induction d with
  | nil => intro res _; simp
  | cons kv d ih =>
    intro res hnd
    have hfresh : kv.1 ∉ res.map Prod.fst := by
      simp only [List.map_append, List.map_cons] at hnd
      have := (List.nodup_append.mp hnd).2.2
      intro hm
      exact this _ hm _ (by simp) rfl
    simp only [List.foldl_cons]
    rw [upd_fresh res kv.1 kv.2 hfresh, ih]
    · simp
    · simpa using hnd

/-- number of fragments the encoder emits for a value of length `n` -/
def nfrags (n : Nat) : Nat := if n = 0 then 1 else (n + 254) / 255

theorem writeFrags_length (t : UInt8) (v : Bytes) :
    (writeFrags t v).length = v.length + 2 * nfrags v.length := by
  induction h : v.length using Nat.strongRecOn generalizing v with
  | _ n ih =>
    rw [writeFrags]
    by_cases hle : v.length ≤ 255
    · rw [if_pos hle]
      simp only [List.length_cons, nfrags]
      split <;> omega
    · rw [if_neg hle]
      simp only [List.length_cons, List.length_append, List.length_take]
      rw [ih (v.drop 255).length (by simp; omega) (v.drop 255) rfl]
      simp only [List.length_drop, nfrags]
      have h1 : ¬ v.length - 255 = 0 := by omega
      have h2 : ¬ n = 0 := by omega
      rw [if_neg h1, if_neg h2]
      omega

end PyatvModel.C04.Tlv8
