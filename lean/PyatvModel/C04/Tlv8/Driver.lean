import PyatvModel.Base.Bytes
import PyatvModel.C04.Tlv8.Model
/-
Line protocol (TLV8):
  `w <tag> <hex> <tag> <hex> …`  (insertion order; `w` alone = empty dict) → hex of `write_tlv`
  `r <hex>`                       → `ok <tag> <hex> …`  |  `err:IndexError`
-/
namespace PyatvModel.C04.Tlv8

def items? : List String → Option Dict
  | [] => some []
  | [_] => none
  | t :: h :: rest => do
      let t ← t.toNat?
      if t ≥ 256 then none
      let v ← ofHex? h
      let r ← items? rest
      pure ((UInt8.ofNat t, v) :: r)

def showDict (d : Dict) : String :=
  String.intercalate " " ("ok" :: d.flatMap (fun kv => [toString kv.1.toNat, toHex kv.2]))

def handle (_ : Unit) (ws : List String) : Unit × String :=
  match ws with
  | "w" :: rest =>
    match items? rest with
    | some d => ((), toHex (writeTlv d))
    | none => ((), "bad-op")
  | ["r", h] =>
    match ofHex? h with
    | some bs =>
      match readTlv bs with
      | .ok d => ((), showDict d)
      | .error .indexError => ((), "err:IndexError")
    | none => ((), "bad-op")
  | _ => ((), "bad-op")

end PyatvModel.C04.Tlv8
