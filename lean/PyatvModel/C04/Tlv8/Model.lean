import PyatvModel.Base.Bytes
/-
C04/TLV8 — model of `pyatv/auth/hap_tlv8.py` `read_tlv` (:79-101) and `write_tlv` (:104-126),
as repaired by `fix: write_tlv dropped items with an empty value`.

    def write_tlv(data: dict):
        tlv = b""
        for key, value in data.items():
            tag = bytes([int(key)]); length = len(value); pos = 0
            while True:                              -- pinned tree: `while pos < len(value):`
                size = min(length, 255)
                tlv += tag; tlv += bytes([size]); tlv += value[pos : pos + size]
                pos += size; length -= size
                if pos >= len(value): break          -- (repair: the body runs at least once)
        return tlv

    def read_tlv(data):  _parse(data, 0, len(data)):
        if pos >= size: return result
        tag = int(data[pos]); length = data[pos + 1]          -- IndexError if absent
        value = data[pos + 2 : pos + 2 + length]              -- slice: silently short
        if tag in result: result[tag] += value else: result[tag] = value
        return _parse(data, pos + 2 + length, size, result)

A dict is an insertion-ordered association list with distinct keys (`Dict`); tags are
bytes (`bytes([int(key)])` raises outside 0..255).  `writeFrags t v` is the inner loop on
the not yet written part `v = value[pos:]` (`length = len v`): one fragment of
`min(len v, 255)` bytes, and again iff something is left.  `parse` consumes the buffer
from the front (`data[pos:]`).  `writeFragsPinned` is the loop before the repair.
-/
namespace PyatvModel.C04.Tlv8

abbrev Item := UInt8 × Bytes
abbrev Dict := List Item

/-- inner loop of the repaired `write_tlv` for one item -/
def writeFrags (t : UInt8) (v : Bytes) : Bytes :=
  if v.length ≤ 255 then t :: UInt8.ofNat v.length :: v
  else t :: 255 :: (v.take 255 ++ writeFrags t (v.drop 255))
termination_by v.length
decreasing_by simp; omega

/-- the loop as it is on the pinned tree (`while pos < len(value)`): nothing for `b""` -/
def writeFragsPinned (t : UInt8) (v : Bytes) : Bytes :=
  if v.isEmpty then [] else writeFrags t v

def writeTlv (d : Dict) : Bytes := d.flatMap (fun kv => writeFrags kv.1 kv.2)

def writeTlvPinned (d : Dict) : Bytes := d.flatMap (fun kv => writeFragsPinned kv.1 kv.2)

/-- `if tag in result: result[tag] += value else: result[tag] = value` -/
def upd : Dict → UInt8 → Bytes → Dict
  | [], t, v => [(t, v)]
  | (k, w) :: rest, t, v => if k = t then (k, w ++ v) :: rest else (k, w) :: upd rest t v

inductive Err | indexError
  deriving DecidableEq, Repr

/-- `_parse` of `read_tlv` on the unread part of the buffer -/
def parse (data : Bytes) (res : Dict) : Except Err Dict :=
  match data with
  | [] => .ok res
  | [_] => .error .indexError
  | t :: l :: rest => parse (rest.drop l.toNat) (upd res t (rest.take l.toNat))
termination_by data.length
decreasing_by simp; omega

def readTlv (data : Bytes) : Except Err Dict := parse data []

end PyatvModel.C04.Tlv8
