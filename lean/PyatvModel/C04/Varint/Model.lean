import PyatvModel.Base.Bytes
/-
C04/varint — model of `pyatv/support/variant.py` (whole file, 21 lines).

    def read_variant(variant):                       -- :4
        result = 0; cnt = 0
        for data in variant:
            result |= (data & 0x7F) << (7 * cnt)
            cnt += 1
            if not data & 0x80:
                return result, variant[cnt:]
        raise ValueError("invalid variant")          -- input exhausted (also: empty input)

    def write_variant(number):                       -- :16
        if number < 128: return bytes([number])
        return bytes([(number & 0x7F) | 0x80]) + write_variant(number >> 7)

`readVar` keeps the bit operations of the source (`|||`, `<<<`, `&&&`); the lemmas show
they coincide with the arithmetic reading.  The only failure of `read_variant` is the
`ValueError` raised when the input ends before a byte without the continuation bit:
`none` below.  Numbers are naturals (a negative argument makes `bytes([number])` raise).
-/
namespace PyatvModel.C04.Varint

/-- `write_variant` -/
def writeVar (n : Nat) : Bytes :=
  if n < 128 then [UInt8.ofNat n]
  else UInt8.ofNat ((n &&& 0x7F) ||| 0x80) :: writeVar (n >>> 7)
termination_by n
decreasing_by
  rw [Nat.shiftRight_eq_div_pow]
  exact Nat.div_lt_self (by omega) (by decide)

/-- the `for` loop of `read_variant`: `acc` = `result`, `cnt` = `cnt` -/
def readLoop : Bytes → Nat → Nat → Option (Nat × Bytes)
  | [], _, _ => none
  | b :: rest, acc, cnt =>
    let acc' := acc ||| ((b.toNat &&& 0x7F) <<< (7 * cnt))
    if b.toNat &&& 0x80 = 0 then some (acc', rest) else readLoop rest acc' (cnt + 1)

/-- `read_variant`; `none` = `ValueError("invalid variant")` -/
def readVar (bs : Bytes) : Option (Nat × Bytes) := readLoop bs 0 0

end PyatvModel.C04.Varint
