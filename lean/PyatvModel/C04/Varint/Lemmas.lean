import PyatvModel.C04.Varint.Model
import Mathlib.Tactic.Ring
/-
C04/varint — helper lemmas: the bit operations of variant.py read arithmetically, the
shape of `writeVar n` (continuation bytes then one final byte), and the general decoder
equation against the base-128 little-endian value `refVal` (the format as described in
the protobuf encoding document the repo's docs link to).
-/
namespace PyatvModel.C04.Varint

/-- value of a sequence of 7-bit groups, least significant group first -/
def refVal : Bytes → Nat
  | [] => 0
  | b :: bs => b.toNat % 128 + 128 * refVal bs

/-- continuation bit set -/
def Cont (b : UInt8) : Prop := 128 ≤ b.toNat

instance (b : UInt8) : Decidable (Cont b) := inferInstanceAs (Decidable (128 ≤ b.toNat))

theorem and80_lt : ∀ n, n < 128 → n &&& 0x80 = 0 := by decide +kernel
theorem and80_ge : ∀ n, n < 256 → 128 ≤ n → n &&& 0x80 ≠ 0 := by decide +kernel
theorem and7f (n : Nat) : n &&& 0x7F = n % 128 := Nat.and_two_pow_sub_one_eq_mod n 7

theorem or80 (x : Nat) (h : x < 128) : x ||| 0x80 = x + 128 := by
  have := Nat.two_pow_add_eq_or_of_lt (i := 7) (b := x) (by simpa using h) 1
  rw [Nat.or_comm]; simp at this; omega

theorem toNat_lt (b : UInt8) : b.toNat < 256 := UInt8.toNat_lt b

theorem or_shift (acc x i : Nat) (h : acc < 2 ^ i) : acc ||| (x <<< i) = acc + x * 2 ^ i := by
  rw [Nat.or_comm, ← Nat.shiftLeft_add_eq_or_of_lt h, Nat.shiftLeft_eq, Nat.add_comm]

theorem pow7 (c : Nat) : 2 ^ (7 * (c + 1)) = 128 * 2 ^ (7 * c) := by
  rw [Nat.mul_add, Nat.pow_add]; ring

/-- General decoder equation: continuation bytes `pre`, a final byte `l`, anything after. -/
theorem readLoop_spec (pre : Bytes) (l : UInt8) (r : Bytes) (hl : ¬ Cont l) :
    ∀ acc cnt, (∀ b ∈ pre, Cont b) → acc < 2 ^ (7 * cnt) →
      readLoop (pre ++ l :: r) acc cnt = some (acc + refVal (pre ++ [l]) * 2 ^ (7 * cnt), r) := by
  induction pre with
  | nil =>
    intro acc cnt _ hacc
    have hl' : l.toNat < 128 := by simpa [Cont] using hl
    simp only [List.nil_append, readLoop, and80_lt _ hl', if_true, refVal, and7f]
    rw [or_shift _ _ _ hacc]; simp
  | cons b pre ih =>
    intro acc cnt hpre hacc
    have hb : Cont b := hpre b (by simp)
    have hb2 : b.toNat &&& 0x80 ≠ 0 := and80_ge _ (toNat_lt b) hb
    simp only [List.cons_append, readLoop, hb2, if_false, and7f]
    rw [or_shift _ _ _ hacc]
    have hm : b.toNat % 128 < 128 := Nat.mod_lt _ (by decide)
    have hacc' : acc + b.toNat % 128 * 2 ^ (7 * cnt) < 2 ^ (7 * (cnt + 1)) := by
      rw [pow7]
      calc acc + b.toNat % 128 * 2 ^ (7 * cnt)
          < 2 ^ (7 * cnt) + 127 * 2 ^ (7 * cnt) := by
            have : b.toNat % 128 * 2 ^ (7 * cnt) ≤ 127 * 2 ^ (7 * cnt) :=
              Nat.mul_le_mul_right _ (by omega)
            omega
        _ = 128 * 2 ^ (7 * cnt) := by ring
    rw [ih _ _ (fun x hx => hpre x (by simp [hx])) hacc']
    simp only [refVal, pow7]
    congr 2; ring

/-- `refVal` of a group sequence of length `k` is below `128^k`. -/
theorem refVal_lt (bs : Bytes) : refVal bs < 128 ^ bs.length := by
  induction bs with
  | nil => simp [refVal]
  | cons b bs ih =>
    simp only [refVal, List.length_cons, Nat.pow_succ]
    have : b.toNat % 128 < 128 := Nat.mod_lt _ (by decide)
    omega

/-- Shape and value of the encoder's output. -/
theorem writeVar_shape (n : Nat) :
    ∃ pre l, writeVar n = pre ++ [l] ∧ (∀ b ∈ pre, Cont b) ∧ ¬ Cont l ∧
      refVal (pre ++ [l]) = n ∧ (128 ≤ n → l ≠ 0) := by
  induction n using Nat.strongRecOn with
  | _ n ih =>
    rw [writeVar]
    by_cases h : n < 128
    · refine ⟨[], UInt8.ofNat n, by simp [h], by simp, ?_, ?_, by omega⟩
      · simp only [Cont, UInt8.toNat_ofNat']; omega
      · simp only [List.nil_append, refVal, UInt8.toNat_ofNat']; omega
    · have hlt : n >>> 7 < n := by
        rw [Nat.shiftRight_eq_div_pow]; exact Nat.div_lt_self (by omega) (by decide)
      obtain ⟨pre, l, he, hp, hl, hv, hz⟩ := ih _ hlt
      have hm : n % 128 < 128 := Nat.mod_lt _ (by decide)
      have hb : (UInt8.ofNat ((n &&& 0x7F) ||| 0x80)).toNat = n % 128 + 128 := by
        rw [and7f, or80 _ hm, UInt8.toNat_ofNat']; omega
      refine ⟨UInt8.ofNat ((n &&& 0x7F) ||| 0x80) :: pre, l, by simp [h, he], ?_, hl, ?_, ?_⟩
      · intro b hbm
        rcases List.mem_cons.mp hbm with rfl | hbm
        · simp only [Cont, hb]; omega
        · exact hp b hbm
      · simp only [List.cons_append, refVal, hb, hv, Nat.shiftRight_eq_div_pow]
        omega
      · intro _
        by_cases h2 : 128 ≤ n >>> 7
        · exact hz h2
        · -- the tail is a single byte holding n/128 ≥ 1
          have hs : n >>> 7 < 128 := by omega
          rw [writeVar, if_pos hs] at he
          have hl1 : pre = [] ∧ l = UInt8.ofNat (n >>> 7) := by
            cases pre with
            | nil => simpa using he.symm
            | cons x xs =>
              have := congrArg List.length he
              simp at this
          rw [hl1.2]
          intro hzero
          have := congrArg UInt8.toNat hzero
          rw [UInt8.toNat_ofNat'] at this
          rw [Nat.shiftRight_eq_div_pow] at hs this
          simp at this; omega

end PyatvModel.C04.Varint
