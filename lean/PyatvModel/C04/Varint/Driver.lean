import PyatvModel.Base.Bytes
import PyatvModel.C04.Varint.Model
/-
Line protocol (varint):
  `w <n>`    → hex of `write_variant(n)`
  `r <hex>`  → `ok <n> <resthex>`  |  `err:ValueError`
-/
namespace PyatvModel.C04.Varint

def handle (_ : Unit) (ws : List String) : Unit × String :=
  match ws with
  | ["w", n] =>
    match n.toNat? with
    | some n => ((), toHex (writeVar n))
    | none => ((), "bad-op")
  | ["r", h] =>
    match ofHex? h with
    | some bs =>
      match readVar bs with
      | some (n, rest) => ((), s!"ok {n} {toHex rest}")
      | none => ((), "err:ValueError")
    | none => ((), "bad-op")
  | _ => ((), "bad-op")

end PyatvModel.C04.Varint
