import PyatvModel.Base.Bytes
/-
C04 / OPACK — executable model of `pyatv/support/opack.py` (repaired tree: the three
`fix:` commits of branch build-c04opack, see findings/C04_opack.json).

Transcribes
  * `_pack`   (opack.py:38-141)  → `packScalar` (the per-type branches), `packAux`
              (containers, :101-112), `intern` (the object-list tail, :116-139),
  * `pack`    (opack.py:33)      → `pack`,
  * `_unpack` (opack.py:148-257) → `unpackScalar` (one-object branches), `unpackAux`
              (containers :202-233, pointers :234-245, object-list tail :249-255),
  * `unpack`  (opack.py:143)     → `unpack`,
  * `_sized_int` (opack.py:19)   → the `size` field of `Value.int`.

Python values are modelled by `Value`:
  * `int n size` — `size = 0` is a plain `int`, `size = k > 0` the `int_<k>b` subclass
    made by `_sized_int` (`getattr(data, "size", None)`; `not size_hint` ⇔ `size = 0`);
  * `float bits` — the IEEE-754 binary64 pattern (no float arithmetic anywhere);
  * `str utf8`  — the UTF-8 encoding of the string (CPython's `str.encode`/`bytes.decode`
    bijection on valid UTF-8 is trusted; validity is checked by `utf8Valid`);
  * `uuid b`    — `UUID.bytes`;
  * `dict kvs`  — items in insertion order.
Exceptions are modelled by their class only (`Err`).  `Err.fuel` is a model artefact
(recursion budget); `unpack` gives the budget `length + 1`, which is never exhausted
(`Fuel.unpack_ne_fuel`).
-/
namespace PyatvModel.C04.Opack

inductive Value where
  | none
  | bool (b : Bool)
  | int (n : Int) (size : Nat)
  | float (bits : UInt64)
  | str (utf8 : Bytes)
  | bytes (b : Bytes)
  | uuid (b : Bytes)
  | list (xs : List Value)
  | dict (kvs : List (Value × Value))

inductive Err where
  | index | type | value | struct | fuel
  deriving DecidableEq, Repr

/-- encoder object list: the encodings entered so far -/
abbrev Table := List Bytes
/-- decoder object list: `(encoding, decoded value)` -/
abbrev DTable := List (Bytes × Value)

/-! ### little endian -/

/-- `n.to_bytes(w, "little")` for `0 ≤ n < 256^w` -/
def leBytes : Nat → Nat → Bytes
  | 0, _ => []
  | w + 1, n => UInt8.ofNat (n % 256) :: leBytes w (n / 256)

/-- `int.from_bytes(b, "little")` -/
def fromLE : Bytes → Nat
  | [] => 0
  | b :: bs => b.toNat + 256 * fromLE bs

/-- `n.to_bytes(w, "little")`; `none` = OverflowError -/
def toBytes? (w : Nat) (n : Int) : Option Bytes :=
  if 0 ≤ n ∧ n < (256 : Int) ^ w then some (leBytes w n.toNat) else none

/-! ### encoder -/

def packInt (n : Int) (h : Nat) : Option Bytes :=
  if n < 0x28 ∧ h = 0 then
    (if 0 ≤ n + 8 then some [UInt8.ofNat (n + 8).toNat] else none)   -- bytes([data + 8])
  else if (n ≤ 0xFF ∧ h = 0) ∨ h = 1 then (toBytes? 1 n).map (0x30 :: ·)
  else if (n ≤ 0xFFFF ∧ h = 0) ∨ h = 2 then (toBytes? 2 n).map (0x31 :: ·)
  else if (n ≤ 0xFFFFFFFF ∧ h = 0) ∨ h = 4 then (toBytes? 4 n).map (0x32 :: ·)
  else if n ≤ 0xFFFFFFFFFFFFFFFF then (toBytes? 8 n).map (0x33 :: ·)
  else none                                                          -- packed_bytes is None

def packStr (s : Bytes) : Option Bytes :=
  if s.length ≤ 0x20 then some (UInt8.ofNat (0x40 + s.length) :: s)
  else if s.length ≤ 0xFF then some (0x61 :: (leBytes 1 s.length ++ s))
  else if s.length ≤ 0xFFFF then some (0x62 :: (leBytes 2 s.length ++ s))
  else if s.length ≤ 0xFFFFFF then some (0x63 :: (leBytes 3 s.length ++ s))
  else if s.length ≤ 0xFFFFFFFF then some (0x64 :: (leBytes 4 s.length ++ s))
  else none

def packData (b : Bytes) : Option Bytes :=
  if b.length ≤ 0x20 then some (UInt8.ofNat (0x70 + b.length) :: b)
  else if b.length ≤ 0xFF then some (0x91 :: (leBytes 1 b.length ++ b))
  else if b.length ≤ 0xFFFF then some (0x92 :: (leBytes 2 b.length ++ b))
  else if b.length ≤ 0xFFFFFFFF then some (0x93 :: (leBytes 4 b.length ++ b))
  else if b.length ≤ 0xFFFFFFFFFFFFFFFF then some (0x94 :: (leBytes 8 b.length ++ b))
  else none

/-- the non-container branches of `_pack`; `none` = the call raises -/
def packScalar : Value → Option Bytes
  | .none => some [0x04]
  | .bool b => some [if b then 1 else 2]
  | .uuid b => some (0x05 :: b)
  | .int n h => packInt n h
  | .float f => some (0x36 :: leBytes 8 f.toNat)
  | .str s => packStr s
  | .bytes b => packData b
  | .list _ => none
  | .dict _ => none

/-- `object_list.index(packed_bytes)` / `packed_bytes in object_list` -/
def indexOf? (b : Bytes) : Table → Option Nat
  | [] => none
  | x :: xs => if x = b then some 0 else (indexOf? b xs).map (· + 1)

/-- the pointer written for object index `i`; `none`: no branch taken, bytes unchanged -/
def ptrBytes (i : Nat) : Option Bytes :=
  if i < 0x21 then some [UInt8.ofNat (0xA0 + i)]
  else if i ≤ 0xFF then some (0xC1 :: leBytes 1 i)
  else if i ≤ 0xFFFF then some (0xC2 :: leBytes 2 i)
  else if i ≤ 0xFFFFFF then some (0xC3 :: leBytes 3 i)
  else if i ≤ 0xFFFFFFFF then some (0xC4 :: leBytes 4 i)
  else none

/-- tail of `_pack` (non-containers): reuse if in object list, otherwise add -/
def intern (b : Bytes) (t : Table) : Bytes × Table :=
  match indexOf? b t with
  | some i => ((ptrBytes i).getD b, t)
  | none => if 1 < b.length then (b, t ++ [b]) else (b, t)

/-- header, joined items, terminator of a list (`base = 0xD0`) or dict (`0xE0`) -/
def container (base : Nat) (n : Nat) (items : Bytes) : Bytes :=
  UInt8.ofNat (base + min n 0xF) :: (items ++ (if 0xF ≤ n then [0x03] else []))

mutual
def packAux : Value → Table → Option (Bytes × Table)
  | .list xs, t =>
    match packList xs t with
    | none => none
    | some (bs, t') => some (container 0xD0 xs.length bs, t')
  | .dict kvs, t =>
    match packPairs kvs t with
    | none => none
    | some (bs, t') => some (container 0xE0 kvs.length bs, t')
  | .none, t => (packScalar .none).map (intern · t)
  | .bool b, t => (packScalar (.bool b)).map (intern · t)
  | .int n h, t => (packScalar (.int n h)).map (intern · t)
  | .float f, t => (packScalar (.float f)).map (intern · t)
  | .str s, t => (packScalar (.str s)).map (intern · t)
  | .bytes b, t => (packScalar (.bytes b)).map (intern · t)
  | .uuid b, t => (packScalar (.uuid b)).map (intern · t)
def packList : List Value → Table → Option (Bytes × Table)
  | [], t => some ([], t)
  | x :: xs, t =>
    match packAux x t with
    | none => none
    | some (b, t1) =>
      match packList xs t1 with
      | none => none
      | some (bs, t2) => some (b ++ bs, t2)
def packPairs : List (Value × Value) → Table → Option (Bytes × Table)
  | [], t => some ([], t)
  | (k, v) :: rest, t =>
    match packAux k t with
    | none => none
    | some (bk, t1) =>
      match packAux v t1 with
      | none => none
      | some (bv, t2) =>
        match packPairs rest t2 with
        | none => none
        | some (bs, t3) => some (bk ++ (bv ++ bs), t3)
end

/-- `opack.pack`; `none` = raises -/
def pack (v : Value) : Option Bytes := (packAux v []).map (·.1)

/-! ### Python equality of dict keys, UTF-8, float widening (decoder side) -/

/-- the integer a binary64 pattern denotes, if it is finite and integral -/
def floatToInt? (f : UInt64) : Option Int :=
  let x := f.toNat
  let neg := x / 2 ^ 63 = 1
  let e := (x / 2 ^ 52) % 2048
  let m := x % 2 ^ 52
  let sign (a : Nat) : Int := if neg then -(a : Int) else a
  if e = 2047 then none
  else if e = 0 then (if m = 0 then some 0 else none)
  else
    let M := 2 ^ 52 + m
    if 1075 ≤ e then some (sign (M * 2 ^ (e - 1075)))
    else if M % 2 ^ (1075 - e) = 0 then some (sign (M / 2 ^ (1075 - e))) else none

def floatIsNaN (f : UInt64) : Bool :=
  (f.toNat / 2 ^ 52) % 2048 = 2047 ∧ f.toNat % 2 ^ 52 ≠ 0

def floatEq (f g : UInt64) : Bool :=
  !floatIsNaN f && !floatIsNaN g && (f == g || (f.toNat % 2 ^ 63 = 0 ∧ g.toNat % 2 ^ 63 = 0))

def boolInt (b : Bool) : Int := if b then 1 else 0

/-- Python `==` between two hashable OPACK values (`1 == True == 1.0`, `0.0 == -0.0`,
    `NaN != NaN`; `int_<k>b` compares as `int`).  Object identity of NaN keys is not
    modelled (NaN dict keys are outside `Packable`). -/
def pyEq : Value → Value → Bool
  | .none, .none => true
  | .bool a, .bool b => a == b
  | .bool a, .int n _ => n == boolInt a
  | .int n _, .bool a => n == boolInt a
  | .bool a, .float f => floatToInt? f == some (boolInt a)
  | .float f, .bool a => floatToInt? f == some (boolInt a)
  | .int a _, .int b _ => a == b
  | .int a _, .float f => floatToInt? f == some a
  | .float f, .int a _ => floatToInt? f == some a
  | .float f, .float g => floatEq f g
  | .str a, .str b => a == b
  | .bytes a, .bytes b => a == b
  | .uuid a, .uuid b => a == b
  | _, _ => false

def hashable : Value → Bool
  | .list _ => false
  | .dict _ => false
  | _ => true

/-- `output[key] = value` on an insertion-ordered dict: the first key object stays -/
def dictPut (k v : Value) : List (Value × Value) → List (Value × Value)
  | [] => [(k, v)]
  | (k', v') :: rest => if pyEq k' k then (k', v) :: rest else (k', v') :: dictPut k v rest

/-- `none` = TypeError (unhashable key) -/
def dictSet (acc : List (Value × Value)) (k v : Value) : Option (List (Value × Value)) :=
  if hashable k then some (dictPut k v acc) else none

def isCont (b : UInt8) : Bool := 0x80 ≤ b.toNat ∧ b.toNat ≤ 0xBF

/-- one UTF-8 scalar value as CPython's strict decoder accepts it (no overlongs, no
    surrogates, ≤ U+10FFFF); returns the remaining bytes -/
def utf8Step : Bytes → Option Bytes
  | [] => none
  | a :: rest =>
    let x := a.toNat
    if x < 0x80 then some rest
    else if 0xC2 ≤ x ∧ x ≤ 0xDF then
      match rest with
      | b :: r => if isCont b then some r else none
      | _ => none
    else if 0xE0 ≤ x ∧ x ≤ 0xEF then
      match rest with
      | b :: c :: r =>
        let lo := if x = 0xE0 then 0xA0 else 0x80
        let hi := if x = 0xED then 0x9F else 0xBF
        if lo ≤ b.toNat ∧ b.toNat ≤ hi ∧ isCont c then some r else none
      | _ => none
    else if 0xF0 ≤ x ∧ x ≤ 0xF4 then
      match rest with
      | b :: c :: d :: r =>
        let lo := if x = 0xF0 then 0x90 else 0x80
        let hi := if x = 0xF4 then 0x8F else 0xBF
        if lo ≤ b.toNat ∧ b.toNat ≤ hi ∧ isCont c ∧ isCont d then some r else none
      | _ => none
    else none

def utf8Loop : Nat → Bytes → Bool
  | _, [] => true
  | 0, _ :: _ => false
  | n + 1, b :: bs =>
    match utf8Step (b :: bs) with
    | none => false
    | some r => utf8Loop n r

/-- `bytes.decode("utf-8")` succeeds -/
def utf8Valid (s : Bytes) : Bool := utf8Loop s.length s

/-- binary32 pattern → the binary64 pattern of the same real (exact; `struct.unpack("<f")`).
    NaN payloads are shifted; the harness compares NaNs only as "is NaN". -/
def widenF32 (x : Nat) : UInt64 :=
  let s := (x / 2 ^ 31) % 2
  let e := (x / 2 ^ 23) % 256
  let m := x % 2 ^ 23
  let body : Nat :=
    if e = 255 then 2047 * 2 ^ 52 + m * 2 ^ 29
    else if e = 0 then
      (if m = 0 then 0
       else
        let k := Nat.log2 m
        (k + 874) * 2 ^ 52 + (m - 2 ^ k) * 2 ^ (52 - k))
    else (e + 896) * 2 ^ 52 + m * 2 ^ 29
  UInt64.ofNat (s * 2 ^ 63 + body)

/-! ### decoder -/

/-- the single-object branches of `_unpack`: `(value, remaining, add_to_object_list)` -/
def unpackScalar (t : Nat) (rest : Bytes) : Except Err (Value × Bytes × Bool) :=
  if t = 0x01 then .ok (.bool true, rest, false)
  else if t = 0x02 then .ok (.bool false, rest, false)
  else if t = 0x04 then .ok (.none, rest, false)
  else if t = 0x05 then
    (if (rest.take 16).length = 16 then .ok (.uuid (rest.take 16), rest.drop 16, true)
     else .error .value)
  else if t = 0x06 then .ok (.int (fromLE (rest.take 8)) 0, rest.drop 8, true)
  else if t = 0x07 then .ok (.int (-1) 0, rest, false)
  else if 0x08 ≤ t ∧ t ≤ 0x2F then .ok (.int ((t - 8 : Nat) : Int) 0, rest, false)
  else if t = 0x35 then
    (if (rest.take 4).length = 4 then
      .ok (.float (widenF32 (fromLE (rest.take 4))), rest.drop 4, true)
     else .error .struct)
  else if t = 0x36 then
    (if (rest.take 8).length = 8 then
      .ok (.float (UInt64.ofNat (fromLE (rest.take 8))), rest.drop 8, true)
     else .error .struct)
  else if 0x30 ≤ t ∧ t ≤ 0x3F then
    .ok (.int (fromLE (rest.take (2 ^ (t % 16)))) (2 ^ (t % 16)), rest.drop (2 ^ (t % 16)), true)
  else if 0x40 ≤ t ∧ t ≤ 0x60 then
    (if utf8Valid (rest.take (t - 0x40)) then
      .ok (.str (rest.take (t - 0x40)), rest.drop (t - 0x40), true)
     else .error .value)
  else if 0x61 ≤ t ∧ t ≤ 0x64 then
    let nb := t % 16
    let len := fromLE (rest.take nb)
    (if utf8Valid ((rest.drop nb).take len) then
      .ok (.str ((rest.drop nb).take len), (rest.drop nb).drop len, true)
     else .error .value)
  else if 0x70 ≤ t ∧ t ≤ 0x90 then
    .ok (.bytes (rest.take (t - 0x70)), rest.drop (t - 0x70), true)
  else if 0x91 ≤ t ∧ t ≤ 0x94 then
    let nb := 2 ^ (t % 16 - 1)
    let len := fromLE (rest.take nb)
    .ok (.bytes ((rest.drop nb).take len), (rest.drop nb).drop len, true)
  else .error .type

/-- `data[: len(data) - len(remaining)]` -/
def consumed (data remaining : Bytes) : Bytes := data.take (data.length - remaining.length)

def hasRaw (raw : Bytes) : DTable → Bool
  | [] => false
  | e :: es => if e.1 = raw then true else hasRaw raw es

/-- tail of `_unpack`: enter `(encoded, value)` unless single byte or already present -/
def enter (raw : Bytes) (v : Value) (t : DTable) : DTable :=
  if 1 < raw.length ∧ hasRaw raw t = false then t ++ [(raw, v)] else t

/-- `for _ in range(count): value, ptr = _unpack(ptr, object_list); output.append(value)` -/
def repeatN (f : Bytes → DTable → Except Err (Value × Bytes × DTable)) :
    Nat → Bytes → DTable → Except Err (List Value × Bytes × DTable)
  | 0, ptr, t => .ok ([], ptr, t)
  | n + 1, ptr, t =>
    match f ptr t with
    | .error e => .error e
    | .ok (v, ptr1, t1) =>
      match repeatN f n ptr1 t1 with
      | .error e => .error e
      | .ok (vs, ptr2, t2) => .ok (v :: vs, ptr2, t2)

/-- `while ptr[0] != 0x03: …; ptr = ptr[1:]` (`budget`: iterations available) -/
def untilTerm (f : Bytes → DTable → Except Err (Value × Bytes × DTable)) :
    Nat → Bytes → DTable → Except Err (List Value × Bytes × DTable)
  | _, [], _ => .error .index
  | budget, b :: ptr, t =>
    if b = 0x03 then .ok ([], ptr, t)
    else
      match budget with
      | 0 => .error .fuel
      | budget + 1 =>
        match f (b :: ptr) t with
        | .error e => .error e
        | .ok (v, ptr1, t1) =>
          match untilTerm f budget ptr1 t1 with
          | .error e => .error e
          | .ok (vs, ptr2, t2) => .ok (v :: vs, ptr2, t2)

/-- one `key, ptr = _unpack(…); value, ptr = _unpack(…); output[key] = value` -/
def pairStep (f : Bytes → DTable → Except Err (Value × Bytes × DTable))
    (acc : List (Value × Value)) (ptr : Bytes) (t : DTable) :
    Except Err (List (Value × Value) × Bytes × DTable) :=
  match f ptr t with
  | .error e => .error e
  | .ok (k, ptr1, t1) =>
    match f ptr1 t1 with
    | .error e => .error e
    | .ok (v, ptr2, t2) =>
      match dictSet acc k v with
      | none => .error .type
      | some acc' => .ok (acc', ptr2, t2)

def repeatPairs (f : Bytes → DTable → Except Err (Value × Bytes × DTable)) :
    Nat → List (Value × Value) → Bytes → DTable → Except Err (List (Value × Value) × Bytes × DTable)
  | 0, acc, ptr, t => .ok (acc, ptr, t)
  | n + 1, acc, ptr, t =>
    match pairStep f acc ptr t with
    | .error e => .error e
    | .ok (acc', ptr', t') => repeatPairs f n acc' ptr' t'

def untilTermPairs (f : Bytes → DTable → Except Err (Value × Bytes × DTable)) :
    Nat → List (Value × Value) → Bytes → DTable → Except Err (List (Value × Value) × Bytes × DTable)
  | _, _, [], _ => .error .index
  | budget, acc, b :: ptr, t =>
    if b = 0x03 then .ok (acc, ptr, t)
    else
      match budget with
      | 0 => .error .fuel
      | budget + 1 =>
        match pairStep f acc (b :: ptr) t with
        | .error e => .error e
        | .ok (acc', ptr', t') => untilTermPairs f budget acc' ptr' t'

/-- `_unpack(data, object_list)` → `(value, remaining, object_list')` -/
def unpackAux : Nat → Bytes → DTable → Except Err (Value × Bytes × DTable)
  | 0, _, _ => .error .fuel
  | _ + 1, [], _ => .error .index
  | fuel + 1, tag :: rest, tbl =>
    let t := tag.toNat
    if 0xD0 ≤ t ∧ t ≤ 0xDF then
      match (if t % 16 = 0xF then untilTerm (unpackAux fuel) rest.length rest tbl
             else repeatN (unpackAux fuel) (t % 16) rest tbl) with
      | .error e => .error e
      | .ok (vs, ptr, tbl') => .ok (.list vs, ptr, tbl')
    else if 0xE0 ≤ t then
      match (if t % 16 = 0xF then untilTermPairs (unpackAux fuel) rest.length [] rest tbl
             else repeatPairs (unpackAux fuel) (t % 16) [] rest tbl) with
      | .error e => .error e
      | .ok (kvs, ptr, tbl') => .ok (.dict kvs, ptr, tbl')
    else if 0xA0 ≤ t ∧ t ≤ 0xC0 then
      match tbl[t - 0xA0]? with
      | none => .error .index
      | some e => .ok (e.2, rest, tbl)
    else if 0xC1 ≤ t ∧ t ≤ 0xC4 then
      match tbl[fromLE (rest.take (t - 0xC0))]? with
      | none => .error .index
      | some e => .ok (e.2, rest.drop (t - 0xC0), tbl)
    else
      match unpackScalar t rest with
      | .error e => .error e
      | .ok (v, rem, add) =>
        .ok (v, rem, if add then enter (consumed (tag :: rest) rem) v tbl else tbl)

/-- `opack.unpack(data)` → `(value, remaining)` -/
def unpack (data : Bytes) : Except Err (Value × Bytes) :=
  match unpackAux (data.length + 1) data [] with
  | .error e => .error e
  | .ok (v, rem, _) => .ok (v, rem)

/-! ### what `unpack (pack v)` returns: `v` with every int carrying its encoded width -/

def intWidth (n : Int) (h : Nat) : Nat :=
  if n < 0x28 ∧ h = 0 then 0
  else if (n ≤ 0xFF ∧ h = 0) ∨ h = 1 then 1
  else if (n ≤ 0xFFFF ∧ h = 0) ∨ h = 2 then 2
  else if (n ≤ 0xFFFFFFFF ∧ h = 0) ∨ h = 4 then 4
  else 8

mutual
/-- annotate every int with the width `pack` writes it in (`_sized_int`); nothing else changes -/
def canon : Value → Value
  | .int n h => .int n (intWidth n h)
  | .list xs => .list (canonList xs)
  | .dict kvs => .dict (canonPairs kvs)
  | .none => .none
  | .bool b => .bool b
  | .float f => .float f
  | .str s => .str s
  | .bytes b => .bytes b
  | .uuid b => .uuid b
def canonList : List Value → List Value
  | [] => []
  | x :: xs => canon x :: canonList xs
def canonPairs : List (Value × Value) → List (Value × Value)
  | [] => []
  | (k, v) :: r => (canon k, canon v) :: canonPairs r
end

mutual
/-- forget the `int_<k>b` decoration: the value as Python's `==` on ints sees it -/
def erase : Value → Value
  | .int n _ => .int n 0
  | .list xs => .list (eraseList xs)
  | .dict kvs => .dict (erasePairs kvs)
  | .none => .none
  | .bool b => .bool b
  | .float f => .float f
  | .str s => .str s
  | .bytes b => .bytes b
  | .uuid b => .uuid b
def eraseList : List Value → List Value
  | [] => []
  | x :: xs => erase x :: eraseList xs
def erasePairs : List (Value × Value) → List (Value × Value)
  | [] => []
  | (k, v) :: r => (erase k, erase v) :: erasePairs r
end

/-! ### the domain -/

/-- non-container values `pack` encodes per the documented format -/
def scalarOk : Value → Bool
  | .none => true
  | .bool _ => true
  | .int n h =>
    (n == -1 && h == 0) ||
    (decide (0 ≤ n) && decide (n < 2 ^ 64) &&
      (h == 0 || (h == 1 && decide (n < 2 ^ 8)) || (h == 2 && decide (n < 2 ^ 16))
        || (h == 4 && decide (n < 2 ^ 32)) || h == 8))
  | .float _ => true
  | .str s => utf8Valid s && decide (s.length ≤ 0xFFFFFFFF)
  | .bytes b => decide (b.length ≤ 0xFFFFFFFFFFFFFFFF)
  | .uuid b => b.length == 16
  | .list _ => false
  | .dict _ => false

/-- dict keys: scalars that are not NaN (a Python dict distinguishes NaN keys by identity) -/
def keyOk : Value → Bool
  | .float f => !floatIsNaN f
  | v => scalarOk v

/-- the keys of a real Python dict are pairwise `!=` -/
def keysDistinct : List Value → Bool
  | [] => true
  | k :: ks => ks.all (fun k' => !pyEq k k') && keysDistinct ks

mutual
def packable : Value → Bool
  | .list xs => packableList xs
  | .dict kvs => packablePairs kvs && keysDistinct (kvs.map Prod.fst)
  | .none => true
  | .bool _ => true
  | .int n h => scalarOk (.int n h)
  | .float _ => true
  | .str s => scalarOk (.str s)
  | .bytes b => scalarOk (.bytes b)
  | .uuid b => scalarOk (.uuid b)
def packableList : List Value → Bool
  | [] => true
  | x :: xs => packable x && packableList xs
def packablePairs : List (Value × Value) → Bool
  | [] => true
  | (k, v) :: r => keyOk k && packable v && packablePairs r
end

/-- **The domain**: values built from None, bool, -1 and ints in [0, 2^64) (plain or with a
    size 1/2/4/8 they fit in), floats, valid-UTF-8 strings < 4 GiB, bytes < 2^64, UUIDs,
    lists and dicts (keys: pairwise-unequal non-NaN scalars), nested without bound. -/
def Packable (v : Value) : Prop := packable v = true

instance (v : Value) : Decidable (Packable v) := by unfold Packable; infer_instance

end PyatvModel.C04.Opack
