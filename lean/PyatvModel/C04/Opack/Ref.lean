import PyatvModel.C04.Opack.Model
/-
C04 / OPACK — reference encoder and decoder transcribed from the repository's format
documentation `docs/documentation/protocols.md`, section "OPACK" (table of tag bytes,
"Endless Collections", "Pointers"), NOT from `opack.py`.

Reading of the document used here:
  * "Data is encoded using little endian"; a value is written in the smallest class of
    the table that holds it (0–39 in one byte, then 1/2/4/8-byte ints `0x30..0x33`;
    strings 0–32 bytes `0x40+len`, then 1/2/3/4-byte lengths `0x61..0x64`; data 0–32
    bytes `0x70+len`, then 1/2/3/4-byte lengths `0x91..0x94`); an int that carries an
    explicit width 1/2/4/8 is written in that width; floats are `0x36` + binary64.
  * "Dictionaries and lists support up to 14 elements when including number of elements
    in a single byte"; more elements: count nibble `F`, items, terminator `0x03`.
  * Pointers: "The index table can be constructed by appending every new decoded object
    (excluding ignored types) to list.  Lists and dictionary bytes are ignored as well
    as other types represented by a single byte."  `0xA0+i` for i ≤ 0x20, then `0xC1..0xC4`
    with the low nibble giving the number of index bytes.
The reference decoder additionally reads what the table lists but pyatv does not write:
`0x07` (-1), `0x35` (float32), and is used by the harness on reference-variant streams.
-/
namespace PyatvModel.C04.Opack

/-- a length/index class of the table: header byte and number of little-endian bytes -/
def refClass (small : Nat) (smallMax : Nat) (classes : List (Nat × Nat)) (n : Nat) : Option Bytes :=
  if n ≤ smallMax then some [UInt8.ofNat (small + n)]
  else
    match classes.find? (fun c => n < 256 ^ c.2) with
    | some c => some (UInt8.ofNat c.1 :: leBytes c.2 n)
    | none => none

def refInt (n : Int) (w : Nat) : Option Bytes :=
  if n = -1 ∧ w = 0 then some [0x07]
  else if n < 0 then none
  else
    let m := n.toNat
    let width : Nat := if w ≠ 0 then w else if m < 2 ^ 8 then 1 else if m < 2 ^ 16 then 2 else if m < 2 ^ 32 then 4 else 8
    if w = 0 ∧ m ≤ 39 then some [UInt8.ofNat (0x08 + m)]
    else if m < 256 ^ width then
      (if width = 1 then some (0x30 :: leBytes 1 m)
       else if width = 2 then some (0x31 :: leBytes 2 m)
       else if width = 4 then some (0x32 :: leBytes 4 m)
       else if width = 8 then some (0x33 :: leBytes 8 m)
       else none)
    else none

def refScalar : Value → Option Bytes
  | .none => some [0x04]
  | .bool true => some [0x01]
  | .bool false => some [0x02]
  | .uuid b => some (0x05 :: b)
  | .int n w => refInt n w
  | .float f => some (0x36 :: leBytes 8 f.toNat)
  | .str s => (refClass 0x40 32 [(0x61, 1), (0x62, 2), (0x63, 3), (0x64, 4)] s.length).map (· ++ s)
  | .bytes b => (refClass 0x70 32 [(0x91, 1), (0x92, 2), (0x93, 3), (0x94, 4)] b.length).map (· ++ b)
  | .list _ => none
  | .dict _ => none

/-- emit one non-container object: a pointer if an equal object is already in the index
    table, else the object itself (entered into the table unless it is a single byte) -/
def refEmit (enc : Bytes) (tbl : List Bytes) : Bytes × List Bytes :=
  match indexOf? enc tbl with
  | some i =>
    (match refClass 0xA0 0x20 [(0xC1, 1), (0xC2, 2), (0xC3, 3), (0xC4, 4)] i with
     | some p => (p, tbl)
     | none => (enc, tbl))
  | none => (enc, if enc.length = 1 then tbl else tbl ++ [enc])

def refContainer (base : Nat) (n : Nat) (items : Bytes) : Bytes :=
  if n ≤ 14 then UInt8.ofNat (base + n) :: items
  else UInt8.ofNat (base + 0xF) :: (items ++ [0x03])

mutual
def refPackAux : Value → List Bytes → Option (Bytes × List Bytes)
  | .list xs, t => (refPackList xs t).map (fun r => (refContainer 0xD0 xs.length r.1, r.2))
  | .dict kvs, t => (refPackPairs kvs t).map (fun r => (refContainer 0xE0 kvs.length r.1, r.2))
  | .none, t => (refScalar .none).map (refEmit · t)
  | .bool b, t => (refScalar (.bool b)).map (refEmit · t)
  | .int n h, t => (refScalar (.int n h)).map (refEmit · t)
  | .float f, t => (refScalar (.float f)).map (refEmit · t)
  | .str s, t => (refScalar (.str s)).map (refEmit · t)
  | .bytes b, t => (refScalar (.bytes b)).map (refEmit · t)
  | .uuid b, t => (refScalar (.uuid b)).map (refEmit · t)
def refPackList : List Value → List Bytes → Option (Bytes × List Bytes)
  | [], t => some ([], t)
  | x :: xs, t =>
    (refPackAux x t).bind fun r1 => (refPackList xs r1.2).map fun r2 => (r1.1 ++ r2.1, r2.2)
def refPackPairs : List (Value × Value) → List Bytes → Option (Bytes × List Bytes)
  | [], t => some ([], t)
  | (k, v) :: rest, t =>
    (refPackAux k t).bind fun r1 => (refPackAux v r1.2).bind fun r2 =>
      (refPackPairs rest r2.2).map fun r3 => (r1.1 ++ (r2.1 ++ r3.1), r3.2)
end

/-- the documented encoding of `v` -/
def refPack (v : Value) : Option Bytes := (refPackAux v []).map (·.1)

/-! ### reference decoder (documentation reading; index table = decoded objects in stream
order, lists/dicts/single-byte objects and pointers excluded) -/

def refLenObject (rest : Bytes) (nb : Nat) : Option (Bytes × Bytes) :=
  let hdr := rest.take nb
  let body := rest.drop nb
  if hdr.length = nb ∧ fromLE hdr ≤ body.length then some (body.take (fromLE hdr), body.drop (fromLE hdr))
  else none

/-- `(value, rest, indexed?)` for one non-container, non-pointer object -/
def refScalarDec (t : Nat) (rest : Bytes) : Option (Value × Bytes × Bool) :=
  let fixed (n : Nat) (mk : Bytes → Value) : Option (Value × Bytes × Bool) :=
    if n ≤ rest.length then some (mk (rest.take n), rest.drop n, true) else none
  let sized (r : Option (Bytes × Bytes)) (mk : Bytes → Option Value) : Option (Value × Bytes × Bool) :=
    r.bind fun x => (mk x.1).map fun v => (v, x.2, true)
  let mkStr (s : Bytes) : Option Value := if utf8Valid s then some (.str s) else none
  if t = 0x01 then some (.bool true, rest, false)
  else if t = 0x02 then some (.bool false, rest, false)
  else if t = 0x04 then some (.none, rest, false)
  else if t = 0x05 then fixed 16 .uuid
  else if t = 0x07 then some (.int (-1) 0, rest, false)
  else if 0x08 ≤ t ∧ t ≤ 0x2F then some (.int ((t - 8 : Nat) : Int) 0, rest, false)
  else if t = 0x30 then fixed 1 (fun b => .int (fromLE b) 1)
  else if t = 0x31 then fixed 2 (fun b => .int (fromLE b) 2)
  else if t = 0x32 then fixed 4 (fun b => .int (fromLE b) 4)
  else if t = 0x33 then fixed 8 (fun b => .int (fromLE b) 8)
  else if t = 0x35 then fixed 4 (fun b => .float (widenF32 (fromLE b)))
  else if t = 0x36 then fixed 8 (fun b => .float (UInt64.ofNat (fromLE b)))
  else if 0x40 ≤ t ∧ t ≤ 0x60 then
    (if t - 0x40 ≤ rest.length then
      (mkStr (rest.take (t - 0x40))).map fun v => (v, rest.drop (t - 0x40), t ≠ 0x40)
     else none)
  else if 0x61 ≤ t ∧ t ≤ 0x64 then sized (refLenObject rest (t - 0x60)) mkStr
  else if 0x70 ≤ t ∧ t ≤ 0x90 then
    (if t - 0x70 ≤ rest.length then some (.bytes (rest.take (t - 0x70)), rest.drop (t - 0x70), t ≠ 0x70)
     else none)
  else if 0x91 ≤ t ∧ t ≤ 0x94 then sized (refLenObject rest (t - 0x90)) (fun b => some (.bytes b))
  else none

def refItems (f : Bytes → List Value → Option (Value × Bytes × List Value)) :
    Nat → Option Nat → Bytes → List Value → Option (List Value × Bytes × List Value)
  | 0, _, _, _ => none
  | budget + 1, count, ptr, t =>
    match count, ptr with
    | some 0, _ => some ([], ptr, t)
    | none, 0x03 :: r => some ([], r, t)
    | _, _ =>
      (f ptr t).bind fun (v, p1, t1) =>
        (refItems f budget (count.map (· - 1)) p1 t1).map fun (vs, p2, t2) => (v :: vs, p2, t2)

def pairUp : List Value → List (Value × Value) → Option (List (Value × Value))
  | [], acc => some acc
  | k :: v :: r, acc => if hashable k then pairUp r (dictPut k v acc) else none
  | [_], _ => none

def refUnpackAux : Nat → Bytes → List Value → Option (Value × Bytes × List Value)
  | 0, _, _ => none
  | _ + 1, [], _ => none
  | fuel + 1, tag :: rest, tbl =>
    let t := tag.toNat
    if 0xD0 ≤ t ∧ t ≤ 0xDF then
      (refItems (refUnpackAux fuel) (rest.length + 1) (if t = 0xDF then none else some (t - 0xD0)) rest tbl).map
        fun (vs, p, t') => (.list vs, p, t')
    else if 0xE0 ≤ t ∧ t ≤ 0xEF then
      (refItems (refUnpackAux fuel) (rest.length + 1) (if t = 0xEF then none else some (2 * (t - 0xE0))) rest tbl).bind
        fun (vs, p, t') =>
          (if t = 0xEF ∧ vs.length % 2 = 1 then none else pairUp vs []).map fun kvs => (.dict kvs, p, t')
    else if 0xA0 ≤ t ∧ t ≤ 0xC0 then tbl[t - 0xA0]?.map fun v => (v, rest, tbl)
    else if 0xC1 ≤ t ∧ t ≤ 0xC4 then
      (if t - 0xC0 ≤ rest.length then
        tbl[fromLE (rest.take (t - 0xC0))]?.map fun v => (v, rest.drop (t - 0xC0), tbl)
       else none)
    else
      (refScalarDec t rest).map fun (v, r, indexed) => (v, r, if indexed then tbl ++ [v] else tbl)

/-- decode one object per the documentation; `none` = not a well-formed documented stream -/
def refUnpack (data : Bytes) : Option (Value × Bytes) :=
  (refUnpackAux (data.length + 1) data []).map fun (v, r, _) => (v, r)

/-! ### where code and documentation can be compared: data objects below 64 KiB
(the document gives `0x93`/`0x94` 3/4-byte lengths, `opack.py` writes 4/8-byte lengths) -/

mutual
def dataShort : Value → Bool
  | .bytes b => decide (b.length ≤ 0xFFFF)
  | .list xs => dataShortList xs
  | .dict kvs => dataShortPairs kvs
  | .none => true
  | .bool _ => true
  | .int _ _ => true
  | .float _ => true
  | .str _ => true
  | .uuid _ => true
def dataShortList : List Value → Bool
  | [] => true
  | x :: xs => dataShort x && dataShortList xs
def dataShortPairs : List (Value × Value) → Bool
  | [] => true
  | (k, v) :: r => dataShort k && dataShort v && dataShortPairs r
end

end PyatvModel.C04.Opack
