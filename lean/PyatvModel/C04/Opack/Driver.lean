import PyatvModel.Base.Bytes
import PyatvModel.C04.Opack.Model
import PyatvModel.C04.Opack.Ref
/-
Line protocol (one word per value; tokens separated by ',' in prefix order):
  n | T | F | i<int>:<size> | f<16 hex digits> | fnan (output only) | s<hex> | b<hex> | u<hex>
  | L<count>,<items…> | D<count>,<key>,<value>,…

  pack <value>        → ok <hex> | err
  refpack <value>     → ok <hex> | err
  unpack <hex>        → ok <value> <rest hex> | err:<index|type|value|struct|fuel>
  refunpack <hex>     → ok <value> <rest hex> | err
  packable <value>    → true | false
  ptr <index>         → ok <hex> | none          (`ptrBytes`)
  packwith <value> <n> <hex>   → `packAux value (n copies-distinct table with <hex> at index n)`:
                        table = [le8-int encodings of 0..n-1] ++ [<hex>]      → ok <hex>
  unpackwith <hex> <n> → `unpackAux` with a decoder table of n entries whose i-th value is int i
                        → ok <value> <rest> | err:<class>
-/
namespace PyatvModel.C04.Opack

def hexOf (b : Bytes) : String := String.ofList (b.flatMap hexOfByte)

def hex16 (n : Nat) : String :=
  String.ofList ((List.range 16).reverse.map fun i => hexDigit ((n / 16 ^ i) % 16))

partial def dumpTokens : Value → List String
  | .none => ["n"]
  | .bool true => ["T"]
  | .bool false => ["F"]
  | .int n h => [s!"i{n}:{h}"]
  | .float f => [if floatIsNaN f then "fnan" else "f" ++ hex16 f.toNat]
  | .str s => ["s" ++ hexOf s]
  | .bytes b => ["b" ++ hexOf b]
  | .uuid b => ["u" ++ hexOf b]
  | .list xs => s!"L{xs.length}" :: xs.flatMap dumpTokens
  | .dict kvs => s!"D{kvs.length}" :: kvs.flatMap (fun kv => dumpTokens kv.1 ++ dumpTokens kv.2)

def dump (v : Value) : String := String.intercalate "," (dumpTokens v)

def hexPayload? (s : String) : Option Bytes :=
  if s.isEmpty then some [] else ofHexChars? s.toList

def parseInt? (s : String) : Option Int :=
  if s.startsWith "-" then (s.drop 1).toNat?.map (fun n => -(n : Int)) else s.toNat?.map (fun n => (n : Int))

mutual
partial def parseValue : List String → Option (Value × List String)
  | [] => none
  | tok :: rest =>
    let body := (tok.drop 1).toString
    match tok.front with
    | 'n' => if body.isEmpty then some (.none, rest) else none
    | 'T' => if body.isEmpty then some (.bool true, rest) else none
    | 'F' => if body.isEmpty then some (.bool false, rest) else none
    | 'i' =>
      match body.splitOn ":" with
      | [a, b] => match parseInt? a, b.toNat? with
        | some n, some h => some (.int n h, rest)
        | _, _ => none
      | _ => none
    | 'f' =>
      if body.length ≠ 16 then none else
      (ofHexChars? body.toList).map fun bs => (.float (UInt64.ofNat (fromLE bs.reverse)), rest)
    | 's' => (hexPayload? body).map fun b => (.str b, rest)
    | 'b' => (hexPayload? body).map fun b => (.bytes b, rest)
    | 'u' => (hexPayload? body).map fun b => (.uuid b, rest)
    | 'L' => body.toNat?.bind fun n => (parseMany n rest).map fun (xs, r) => (.list xs, r)
    | 'D' => body.toNat?.bind fun n => (parsePairs n rest).map fun (xs, r) => (.dict xs, r)
    | _ => none
partial def parseMany : Nat → List String → Option (List Value × List String)
  | 0, toks => some ([], toks)
  | n + 1, toks =>
    (parseValue toks).bind fun (v, r) => (parseMany n r).map fun (vs, r') => (v :: vs, r')
partial def parsePairs : Nat → List String → Option (List (Value × Value) × List String)
  | 0, toks => some ([], toks)
  | n + 1, toks =>
    (parseValue toks).bind fun (k, r) => (parseValue r).bind fun (v, r') =>
      (parsePairs n r').map fun (kvs, r'') => ((k, v) :: kvs, r'')
end

def value? (s : String) : Option Value :=
  match parseValue (s.splitOn ",") with
  | some (v, []) => some v
  | _ => none

def Err.toStr : Err → String
  | .index => "index" | .type => "type" | .value => "value" | .struct => "struct" | .fuel => "fuel"

def okHex (b : Bytes) : String := "ok " ++ toHex b

def showDec : Except Err (Value × Bytes) → String
  | .ok (v, r) => s!"ok {dump v} {toHex r}"
  | .error e => "err:" ++ e.toStr

def handle (_ : Unit) (ws : List String) : Unit × String :=
  match ws with
  | ["pack", v] =>
    match value? v with
    | some v => ((), match pack v with | some b => okHex b | none => "err")
    | none => ((), "bad-op")
  | ["refpack", v] =>
    match value? v with
    | some v => ((), match refPack v with | some b => okHex b | none => "err")
    | none => ((), "bad-op")
  | ["packable", v] =>
    match value? v with
    | some v => ((), if packable v then "true" else "false")
    | none => ((), "bad-op")
  | ["unpack", h] =>
    match ofHex? h with
    | some b => ((), showDec (unpack b))
    | none => ((), "bad-op")
  | ["refunpack", h] =>
    match ofHex? h with
    | some b => ((), match refUnpack b with | some (v, r) => s!"ok {dump v} {toHex r}" | none => "err")
    | none => ((), "bad-op")
  | ["ptr", i] =>
    match i.toNat? with
    | some i => ((), match ptrBytes i with | some b => okHex b | none => "none")
    | none => ((), "bad-op")
  | ["packwith", v, n, h] =>
    match value? v, n.toNat?, ofHex? h with
    | some v, some n, some raw =>
      let tbl : Table := (List.range n).map (fun i => (0x33 : UInt8) :: leBytes 8 i) ++ [raw]
      ((), match packAux v tbl with | some (b, t) => s!"ok {toHex b} {t.length}" | none => "err")
    | _, _, _ => ((), "bad-op")
  | ["unpackwith", h, n] =>
    match ofHex? h, n.toNat? with
    | some b, some n =>
      let tbl : DTable := (List.range n).map (fun i => ((0x33 : UInt8) :: leBytes 8 i, Value.int i 8))
      ((), match unpackAux (b.length + 1) b tbl with
           | .ok (v, r, t) => s!"ok {dump v} {toHex r} {t.length}"
           | .error e => "err:" ++ e.toStr)
    | _, _ => ((), "bad-op")
  | _ => ((), "bad-op")

end PyatvModel.C04.Opack
