import PyatvModel.C04.Opack.Lemmas
import PyatvModel.C04.Opack.Ref
/-
C04 / OPACK — `pack` (model of opack.py) against `refPack` (transcribed from the format
documentation): they agree on every in-domain value whose data objects are below 64 KiB.
-/
namespace PyatvModel.C04.Opack

/-! ### `pack` against the documentation-derived `refPack` -/

theorem ptrBytes_eq_ref (i : Nat) :
    ptrBytes i = refClass 0xA0 0x20 [(0xC1, 1), (0xC2, 2), (0xC3, 3), (0xC4, 4)] i := by
  unfold ptrBytes refClass
  by_cases c0 : i < 0x21
  · have : i ≤ 0x20 := by omega
    simp [c0, this]
  · have n0 : ¬ i ≤ 0x20 := by omega
    by_cases c1 : i ≤ 0xFF
    · have : i < 256 := by omega
      simp [c0, n0, c1, List.find?, this]
    · have n1 : ¬ i < 256 := by omega
      by_cases c2 : i ≤ 0xFFFF
      · have : i < 65536 := by omega
        simp [c0, n0, c1, c2, List.find?, n1, this]
      · have n2 : ¬ i < 65536 := by omega
        by_cases c3 : i ≤ 0xFFFFFF
        · have : i < 16777216 := by omega
          simp [c0, n0, c1, c2, c3, List.find?, n1, n2, this]
        · have n3 : ¬ i < 16777216 := by omega
          by_cases c4 : i ≤ 0xFFFFFFFF
          · have : i < 4294967296 := by omega
            simp [c0, n0, c1, c2, c3, c4, List.find?, n1, n2, n3, this]
          · have n4 : ¬ i < 4294967296 := by omega
            simp [c0, n0, c1, c2, c3, c4, List.find?, n1, n2, n3, n4]

theorem intern_eq_refEmit (b : Bytes) (t : Table) (h : b ≠ []) : intern b t = refEmit b t := by
  unfold intern refEmit
  cases hi : indexOf? b t with
  | some i =>
    simp only [ptrBytes_eq_ref]
    cases refClass 0xA0 0x20 [(0xC1, 1), (0xC2, 2), (0xC3, 3), (0xC4, 4)] i <;> rfl
  | none =>
    have : b.length ≠ 0 := by
      intro h0; exact h (List.length_eq_zero_iff.mp h0)
    by_cases h1 : b.length = 1
    · simp [h1]
    · have : 1 < b.length := by omega
      simp [h1, this]

theorem container_eq_ref (base n : Nat) (items : Bytes) :
    container base n items = refContainer base n items := by
  unfold container refContainer
  by_cases h : n ≤ 14
  · have h1 : ¬ 0xF ≤ n := by omega
    have h2 : min n 0xF = n := by omega
    simp [h, h1, h2]
  · have h1 : 0xF ≤ n := by omega
    have h2 : min n 0xF = 0xF := by omega
    simp [h, h1, h2]

theorem packStr_eq_ref (s : Bytes) (h : s.length ≤ 0xFFFFFFFF) :
    packStr s = (refClass 0x40 32 [(0x61, 1), (0x62, 2), (0x63, 3), (0x64, 4)] s.length).map (· ++ s) := by
  unfold packStr refClass
  by_cases c0 : s.length ≤ 0x20
  · simp [c0]
  · by_cases c1 : s.length ≤ 0xFF
    · have : s.length < 256 := by omega
      simp [c0, c1, List.find?, this]
    · have n1 : ¬ s.length < 256 := by omega
      by_cases c2 : s.length ≤ 0xFFFF
      · have : s.length < 65536 := by omega
        simp [c0, c1, c2, List.find?, n1, this]
      · have n2 : ¬ s.length < 65536 := by omega
        by_cases c3 : s.length ≤ 0xFFFFFF
        · have : s.length < 16777216 := by omega
          simp [c0, c1, c2, c3, List.find?, n1, n2, this]
        · have n3 : ¬ s.length < 16777216 := by omega
          have : s.length < 4294967296 := by omega
          simp [c0, c1, c2, c3, h, List.find?, n1, n2, n3, this]

theorem packData_eq_ref (s : Bytes) (h : s.length ≤ 0xFFFF) :
    packData s = (refClass 0x70 32 [(0x91, 1), (0x92, 2), (0x93, 3), (0x94, 4)] s.length).map (· ++ s) := by
  unfold packData refClass
  by_cases c0 : s.length ≤ 0x20
  · simp [c0]
  · by_cases c1 : s.length ≤ 0xFF
    · have : s.length < 256 := by omega
      simp [c0, c1, List.find?, this]
    · have n1 : ¬ s.length < 256 := by omega
      have : s.length < 65536 := by omega
      simp [c0, c1, h, List.find?, n1, this]

theorem packInt_eq_ref (n : Int) (h : Nat) (ok : scalarOk (.int n h) = true) : packInt n h = refInt n h := by
  simp only [scalarOk, Bool.or_eq_true, Bool.and_eq_true, beq_iff_eq, decide_eq_true_eq] at ok
  rcases ok with ⟨rfl, rfl⟩ | ⟨⟨hn0, hn64⟩, hh⟩
  · decide
  · obtain ⟨m, rfl⟩ := Int.eq_ofNat_of_zero_le hn0
    have c4' : (m : Int) ≤ 0xFFFFFFFFFFFFFFFF := by omega
    have hm1 : ¬ ((m : Int) = -1) := by omega
    have hneg : ¬ ((m : Int) < 0) := by omega
    have p64 : m < 18446744073709551616 := by omega
    by_cases h0 : h = 0
    · subst h0
      by_cases c0 : m < 0x28
      · have c0' : (m : Int) < 0x28 := by omega
        have e2 : (0 : Int) ≤ (m : Int) + 8 := by omega
        have e3 : ((m : Int) + 8).toNat = 8 + m := by omega
        have e4 : m ≤ 39 := by omega
        simp [packInt, refInt, c0', e2, e3, e4, hm1, hneg]
      · have c0' : ¬ (m : Int) < 0x28 := by omega
        have e4 : ¬ m ≤ 39 := by omega
        by_cases c1 : m ≤ 0xFF
        · have c1' : (m : Int) ≤ 0xFF := by omega
          have q : m < 256 := by omega
          simp [packInt, refInt, c0', c1', toBytes_nat 1 m (by omega), hm1, hneg, e4, q]
        · have c1' : ¬ (m : Int) ≤ 0xFF := by omega
          have q1 : ¬ m < 256 := by omega
          by_cases c2 : m ≤ 0xFFFF
          · have c2' : (m : Int) ≤ 0xFFFF := by omega
            have q : m < 65536 := by omega
            simp [packInt, refInt, c0', c1', c2', toBytes_nat 2 m (by omega), hm1, hneg, e4, q1, q]
          · have c2' : ¬ (m : Int) ≤ 0xFFFF := by omega
            have q2 : ¬ m < 65536 := by omega
            by_cases c3 : m ≤ 0xFFFFFFFF
            · have c3' : (m : Int) ≤ 0xFFFFFFFF := by omega
              have q : m < 4294967296 := by omega
              simp [packInt, refInt, c0', c1', c2', c3', toBytes_nat 4 m (by omega), hm1, hneg, e4, q1, q2, q]
            · have c3' : ¬ (m : Int) ≤ 0xFFFFFFFF := by omega
              have q3 : ¬ m < 4294967296 := by omega
              simp [packInt, refInt, c0', c1', c2', c3', c4', toBytes_nat 8 m (by omega), hm1, hneg, e4, q1, q2, q3, p64]
    · simp only [h0, false_or] at hh
      rcases hh with ((⟨rfl, h8⟩ | ⟨rfl, h16⟩) | ⟨rfl, h32⟩) | rfl
      · have q : m < 256 := by omega
        simp [packInt, refInt, toBytes_nat 1 m (by omega), hm1, hneg, q]
      · have q : m < 65536 := by omega
        simp [packInt, refInt, toBytes_nat 2 m (by omega), hm1, hneg, q]
      · have q : m < 4294967296 := by omega
        simp [packInt, refInt, toBytes_nat 4 m (by omega), hm1, hneg, q]
      · simp [packInt, refInt, c4', toBytes_nat 8 m (by omega), hm1, hneg, p64]

theorem packScalar_eq_ref (v : Value) (ok : scalarOk v = true) (hs : dataShort v = true) :
    packScalar v = refScalar v := by
  cases v with
  | none => rfl
  | bool x => cases x <;> rfl
  | int n h => exact packInt_eq_ref n h ok
  | float f => rfl
  | str s =>
    simp only [scalarOk, Bool.and_eq_true, decide_eq_true_eq] at ok
    exact packStr_eq_ref s ok.2
  | bytes s =>
    simp only [dataShort, decide_eq_true_eq] at hs
    exact packData_eq_ref s hs
  | uuid u => rfl
  | list xs => simp [scalarOk] at ok
  | dict kvs => simp [scalarOk] at ok

theorem packScalar_ne_nil (v : Value) (b : Bytes) (h : packScalar v = some b) (ok : scalarOk v = true) : b ≠ [] := by
  obtain ⟨tag, body, _, rfl, _⟩ := scalar_dec v ok b h []
  simp

theorem packAux_eq_ref_scalar (v : Value) (ok : scalarOk v = true) (hs : dataShort v = true) (t : Table) :
    (packScalar v).map (intern · t) = (refScalar v).map (refEmit · t) := by
  rw [← packScalar_eq_ref v ok hs]
  cases hb : packScalar v with
  | none => rfl
  | some b =>
    simp only [Option.map_some]
    rw [intern_eq_refEmit b t (packScalar_ne_nil v b hb ok)]


mutual
theorem packAux_eq_ref : ∀ (v : Value), packable v = true → dataShort v = true →
    ∀ t, packAux v t = refPackAux v t
  | .list xs, hv, hs, t => by
    simp only [packable] at hv
    simp only [dataShort] at hs
    simp only [packAux, refPackAux, ← packList_eq_ref xs hv hs t]
    cases packList xs t with
    | none => rfl
    | some r => simp [container_eq_ref]
  | .dict kvs, hv, hs, t => by
    simp only [packable, Bool.and_eq_true] at hv
    simp only [dataShort] at hs
    simp only [packAux, refPackAux, ← packPairs_eq_ref kvs hv.1 hs t]
    cases packPairs kvs t with
    | none => rfl
    | some r => simp [container_eq_ref]
  | .none, _, _, t => by simp only [packAux, refPackAux]; exact packAux_eq_ref_scalar _ rfl rfl t
  | .bool _, _, _, t => by simp only [packAux, refPackAux]; exact packAux_eq_ref_scalar _ rfl rfl t
  | .int n h, hv, _, t => by
    simp only [packAux, refPackAux]; exact packAux_eq_ref_scalar _ (by simpa [packable] using hv) rfl t
  | .float _, _, _, t => by simp only [packAux, refPackAux]; exact packAux_eq_ref_scalar _ rfl rfl t
  | .str s, hv, _, t => by
    simp only [packAux, refPackAux]; exact packAux_eq_ref_scalar _ (by simpa [packable] using hv) rfl t
  | .bytes b, hv, hs, t => by
    simp only [packAux, refPackAux]; exact packAux_eq_ref_scalar _ (by simpa [packable] using hv) hs t
  | .uuid b, hv, _, t => by
    simp only [packAux, refPackAux]; exact packAux_eq_ref_scalar _ (by simpa [packable] using hv) rfl t
theorem packList_eq_ref : ∀ (xs : List Value), packableList xs = true → dataShortList xs = true →
    ∀ t, packList xs t = refPackList xs t
  | [], _, _, t => rfl
  | x :: xs, hv, hs, t => by
    simp only [packableList, Bool.and_eq_true] at hv
    simp only [dataShortList, Bool.and_eq_true] at hs
    simp only [packList, refPackList, ← packAux_eq_ref x hv.1 hs.1 t]
    cases packAux x t with
    | none => rfl
    | some r1 =>
      obtain ⟨b, t1⟩ := r1
      simp only [Option.bind_some, ← packList_eq_ref xs hv.2 hs.2 t1]
      cases packList xs t1 with
      | none => rfl
      | some r2 => rfl
theorem packPairs_eq_ref : ∀ (kvs : List (Value × Value)), packablePairs kvs = true →
    dataShortPairs kvs = true → ∀ t, packPairs kvs t = refPackPairs kvs t
  | [], _, _, t => rfl
  | (k, v) :: r, hv, hs, t => by
    simp only [packablePairs, Bool.and_eq_true] at hv
    simp only [dataShortPairs, Bool.and_eq_true] at hs
    have hk : packAux k t = refPackAux k t := by
      have ok := keyOk_scalarOk k hv.1.1
      rw [packAux_scalar k ok, packAux_eq_ref_scalar k ok hs.1.1 t]
      cases k <;> simp_all [refPackAux, scalarOk]
    simp only [packPairs, refPackPairs, ← hk]
    cases packAux k t with
    | none => rfl
    | some r1 =>
      obtain ⟨bk, t1⟩ := r1
      simp only [Option.bind_some, ← packAux_eq_ref v hv.1.2 hs.1.2 t1]
      cases packAux v t1 with
      | none => rfl
      | some r2 =>
        obtain ⟨bv, t2⟩ := r2
        simp only [Option.bind_some, ← packPairs_eq_ref r hv.2 hs.2 t2]
        cases packPairs r t2 with
        | none => rfl
        | some r3 => rfl
end

end PyatvModel.C04.Opack
