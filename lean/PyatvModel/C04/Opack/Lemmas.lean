import PyatvModel.C04.Opack.Model
/-
C04 / OPACK — helper lemmas for the round-trip theorem.

Layout: little-endian facts · per-tag-class facts about `unpackScalar` · `scalar_dec`
(every in-domain non-container object decodes to its canonical form and leaves exactly
the rest) · object-list invariant `InStep` · the mutual induction `rt_value / rt_list /
rt_pairs` with the encoder's and the decoder's object lists kept in step.
-/
namespace PyatvModel.C04.Opack

/-! ### little endian, take/drop -/

theorem length_leBytes (w n : Nat) : (leBytes w n).length = w := by
  induction w generalizing n with
  | zero => rfl
  | succ w ih => simp [leBytes, ih]

theorem toNat_ofNat_lt {n : Nat} (h : n < 256) : (UInt8.ofNat n).toNat = n := by
  simp [UInt8.toNat_ofNat']; omega

theorem fromLE_leBytes (w n : Nat) (h : n < 256 ^ w) : fromLE (leBytes w n) = n := by
  induction w generalizing n with
  | zero => simp [leBytes, fromLE]; omega
  | succ w ih =>
    have h2 : n / 256 < 256 ^ w := by
      rw [Nat.pow_succ] at h
      exact Nat.div_lt_of_lt_mul (by rw [Nat.mul_comm]; exact h)
    simp only [leBytes, fromLE, ih _ h2]
    rw [toNat_ofNat_lt (Nat.mod_lt _ (by decide))]; omega

theorem take_app {α} (a b : List α) (n : Nat) (h : a.length = n) : (a ++ b).take n = a := by
  subst h; simp

theorem drop_app {α} (a b : List α) (n : Nat) (h : a.length = n) : (a ++ b).drop n = b := by
  subst h; simp

theorem consumed_app (b rest : Bytes) : consumed (b ++ rest) rest = b := by
  simp [consumed]

/-! ### `unpackScalar` per tag class -/

theorem us_small (t : Nat) (rest : Bytes) (h1 : 8 ≤ t) (h2 : t ≤ 0x2F) :
    unpackScalar t rest = .ok (.int ((t - 8 : Nat) : Int) 0, rest, false) := by
  unfold unpackScalar
  simp (disch := omega) only [if_neg, if_pos]

theorem us_uuid (b rest : Bytes) (h : b.length = 16) :
    unpackScalar 5 (b ++ rest) = .ok (.uuid b, rest, true) := by
  unfold unpackScalar
  simp [take_app b rest 16 h, drop_app b rest 16 h, h]

theorem us_int (k : Nat) (hk : k ≤ 3) (n : Nat) (rest : Bytes) (h : n < 256 ^ (2 ^ k)) :
    unpackScalar (0x30 + k) (leBytes (2 ^ k) n ++ rest) = .ok (.int n (2 ^ k), rest, true) := by
  unfold unpackScalar
  have hm : (0x30 + k) % 16 = k := by omega
  simp (disch := omega) only [if_neg, if_pos]
  rw [hm, take_app _ _ _ (length_leBytes _ _), drop_app _ _ _ (length_leBytes _ _), fromLE_leBytes _ _ h]

theorem us_float (f : UInt64) (rest : Bytes) :
    unpackScalar 0x36 (leBytes 8 f.toNat ++ rest) = .ok (.float f, rest, true) := by
  unfold unpackScalar
  have hlt : f.toNat < 256 ^ 8 := by
    have := UInt64.toNat_lt f
    omega
  simp (disch := omega) only [if_neg, if_pos]
  rw [take_app _ _ _ (length_leBytes _ _), drop_app _ _ _ (length_leBytes _ _), fromLE_leBytes _ _ hlt]
  simp [length_leBytes]

theorem us_str_short (s rest : Bytes) (h : s.length ≤ 0x20) (hv : utf8Valid s = true) :
    unpackScalar (0x40 + s.length) (s ++ rest) = .ok (.str s, rest, true) := by
  unfold unpackScalar
  have e : 0x40 + s.length - 0x40 = s.length := by omega
  simp (disch := omega) only [if_neg, if_pos]
  rw [e, take_app _ _ _ rfl, drop_app _ _ _ rfl]
  simp [hv]

theorem us_str_long (nb : Nat) (h1 : 1 ≤ nb) (h4 : nb ≤ 4) (s rest : Bytes)
    (h : s.length < 256 ^ nb) (hv : utf8Valid s = true) :
    unpackScalar (0x60 + nb) (leBytes nb s.length ++ (s ++ rest)) = .ok (.str s, rest, true) := by
  unfold unpackScalar
  have hm : (0x60 + nb) % 16 = nb := by omega
  simp (disch := omega) only [if_neg, if_pos]
  simp only [hm, take_app _ _ _ (length_leBytes _ _), drop_app _ _ _ (length_leBytes _ _),
    fromLE_leBytes _ _ h, take_app _ _ _ rfl, drop_app _ _ _ rfl]
  simp [hv]

theorem us_bytes_short (s rest : Bytes) (h : s.length ≤ 0x20) :
    unpackScalar (0x70 + s.length) (s ++ rest) = .ok (.bytes s, rest, true) := by
  unfold unpackScalar
  have e : 0x70 + s.length - 0x70 = s.length := by omega
  simp (disch := omega) only [if_neg, if_pos]
  rw [e, take_app _ _ _ rfl, drop_app _ _ _ rfl]

theorem us_bytes_long (k : Nat) (h1 : 1 ≤ k) (h4 : k ≤ 4) (s rest : Bytes)
    (h : s.length < 256 ^ (2 ^ (k - 1))) :
    unpackScalar (0x90 + k) (leBytes (2 ^ (k - 1)) s.length ++ (s ++ rest)) = .ok (.bytes s, rest, true) := by
  unfold unpackScalar
  have hm : (0x90 + k) % 16 = k := by omega
  simp (disch := omega) only [if_neg, if_pos]
  simp only [hm, take_app _ _ _ (length_leBytes _ _), drop_app _ _ _ (length_leBytes _ _),
    fromLE_leBytes _ _ h, take_app _ _ _ rfl, drop_app _ _ _ rfl]

/-! ### one encoded object decodes to its canonical form -/

/-- what the round trip needs to know about one encoded non-container object -/
def ScalarDec (v : Value) (b rest : Bytes) : Prop :=
  ∃ tag body add, b = tag :: body ∧ tag.toNat < 0xA0 ∧ tag.toNat ≠ 3 ∧
    unpackScalar tag.toNat (body ++ rest) = .ok (canon v, rest, add) ∧ (add = false → body = [])

theorem us_int1 (n : Nat) (rest : Bytes) (h : n < 256) :
    unpackScalar 0x30 (leBytes 1 n ++ rest) = .ok (.int n 1, rest, true) := by
  simpa using us_int 0 (by omega) n rest (by simpa using h)
theorem us_int2 (n : Nat) (rest : Bytes) (h : n < 65536) :
    unpackScalar 0x31 (leBytes 2 n ++ rest) = .ok (.int n 2, rest, true) := by
  simpa using us_int 1 (by omega) n rest (by simpa using h)
theorem us_int4 (n : Nat) (rest : Bytes) (h : n < 4294967296) :
    unpackScalar 0x32 (leBytes 4 n ++ rest) = .ok (.int n 4, rest, true) := by
  simpa using us_int 2 (by omega) n rest (by simpa using h)
theorem us_int8 (n : Nat) (rest : Bytes) (h : n < 18446744073709551616) :
    unpackScalar 0x33 (leBytes 8 n ++ rest) = .ok (.int n 8, rest, true) := by
  exact us_int 3 (by omega) n rest h

theorem toBytes_nat (w m : Nat) (h : m < 256 ^ w) : toBytes? w (m : Int) = some (leBytes w m) := by
  unfold toBytes?
  have h' : (m : Int) < (256 : Int) ^ w := by
    have h1 := Int.ofNat_lt.mpr h
    rw [Int.natCast_pow] at h1
    exact h1
  rw [if_pos ⟨Int.natCast_nonneg m, h'⟩]
  rfl

theorem int_dec (n : Int) (h : Nat) (ok : scalarOk (.int n h) = true) (b : Bytes)
    (hb : packInt n h = some b) (rest : Bytes) : ScalarDec (.int n h) b rest := by
  simp only [scalarOk, Bool.or_eq_true, Bool.and_eq_true, beq_iff_eq, decide_eq_true_eq] at ok
  rcases ok with ⟨rfl, rfl⟩ | ⟨⟨hn0, hn64⟩, hh⟩
  · have : b = [7] := by
      have : packInt (-1) 0 = some [7] := by decide
      rw [this] at hb; exact (Option.some.inj hb).symm
    subst this
    exact ⟨7, [], false, rfl, by decide, by decide, by simp [unpackScalar, canon, intWidth], fun _ => rfl⟩
  · obtain ⟨m, rfl⟩ := Int.eq_ofNat_of_zero_le hn0
    have hm64 : m < 18446744073709551616 := by omega
    have key : ∀ (w : Nat) (tag : UInt8) (k : Nat), k ≤ 3 → w = 2 ^ k → tag.toNat = 0x30 + k →
        m < 256 ^ w → intWidth m h = w →
        packInt m h = (toBytes? w m).map (tag :: ·) → ScalarDec (.int m h) b rest := by
      intro w tag k hk hw ht hlt hiw hp
      rw [hp, toBytes_nat w m hlt] at hb
      have hb' := (Option.some.inj hb).symm
      refine ⟨tag, leBytes w m, true, hb', by omega, by omega, ?_, fun h => by cases h⟩
      subst hw
      rw [ht, us_int k hk m rest hlt]
      simp only [canon, hiw]
    by_cases h0 : h = 0
    · subst h0
      by_cases c0 : m < 0x28
      · have c0' : (m : Int) < 0x28 := by omega
        have hp : packInt m 0 = some [UInt8.ofNat (m + 8)] := by
          have e : ((m : Int) + 8).toNat = m + 8 := by omega
          have e2 : (0 : Int) ≤ (m : Int) + 8 := by omega
          simp [packInt, c0', e, e2]
        rw [hp] at hb
        have hb' := (Option.some.inj hb).symm
        refine ⟨UInt8.ofNat (m + 8), [], false, hb', ?_, ?_, ?_, fun _ => rfl⟩
        · rw [toNat_ofNat_lt (by omega)]; omega
        · rw [toNat_ofNat_lt (by omega)]; omega
        · rw [toNat_ofNat_lt (by omega), us_small _ _ (by omega) (by omega)]
          have : m + 8 - 8 = m := by omega
          simp [canon, intWidth, c0', this]
      · have c0' : ¬ (m : Int) < 0x28 := by omega
        by_cases c1 : m ≤ 0xFF
        · have c1' : (m : Int) ≤ 0xFF := by omega
          exact key 1 0x30 0 (by omega) rfl rfl (by omega) (by simp [intWidth, c0', c1']) (by simp [packInt, c0', c1'])
        · have c1' : ¬ (m : Int) ≤ 0xFF := by omega
          by_cases c2 : m ≤ 0xFFFF
          · have c2' : (m : Int) ≤ 0xFFFF := by omega
            exact key 2 0x31 1 (by omega) rfl rfl (by omega) (by simp [intWidth, c0', c1', c2']) (by simp [packInt, c0', c1', c2'])
          · have c2' : ¬ (m : Int) ≤ 0xFFFF := by omega
            by_cases c3 : m ≤ 0xFFFFFFFF
            · have c3' : (m : Int) ≤ 0xFFFFFFFF := by omega
              exact key 4 0x32 2 (by omega) rfl rfl (by omega) (by simp [intWidth, c0', c1', c2', c3']) (by simp [packInt, c0', c1', c2', c3'])
            · have c3' : ¬ (m : Int) ≤ 0xFFFFFFFF := by omega
              have c4' : (m : Int) ≤ 0xFFFFFFFFFFFFFFFF := by omega
              exact key 8 0x33 3 (by omega) rfl rfl (by omega) (by simp [intWidth, c0', c1', c2', c3']) (by simp [packInt, c0', c1', c2', c3', c4'])
    · have c4' : (m : Int) ≤ 0xFFFFFFFFFFFFFFFF := by omega
      simp only [h0, false_or] at hh
      rcases hh with ((⟨rfl, h8⟩ | ⟨rfl, h16⟩) | ⟨rfl, h32⟩) | rfl
      · exact key 1 0x30 0 (by omega) rfl rfl (by omega) (by simp [intWidth]) (by simp [packInt])
      · exact key 2 0x31 1 (by omega) rfl rfl (by omega) (by simp [intWidth]) (by simp [packInt])
      · exact key 4 0x32 2 (by omega) rfl rfl (by omega) (by simp [intWidth]) (by simp [packInt])
      · exact key 8 0x33 3 (by omega) rfl rfl (by omega) (by simp [intWidth]) (by simp [packInt, c4'])


theorem str_dec (s : Bytes) (ok : scalarOk (.str s) = true) (b : Bytes)
    (hb : packStr s = some b) (rest : Bytes) : ScalarDec (.str s) b rest := by
  simp only [scalarOk, Bool.and_eq_true, decide_eq_true_eq] at ok
  obtain ⟨hv, hlen⟩ := ok
  have long : ∀ (nb : Nat), 1 ≤ nb → nb ≤ 4 → s.length < 256 ^ nb →
      packStr s = some (UInt8.ofNat (0x60 + nb) :: (leBytes nb s.length ++ s)) → ScalarDec (.str s) b rest := by
    intro nb h1 h4 hlt hp
    rw [hp] at hb
    have hb' := (Option.some.inj hb).symm
    have ht : (UInt8.ofNat (0x60 + nb)).toNat = 0x60 + nb := toNat_ofNat_lt (by omega)
    refine ⟨_, _, true, hb', by omega, by omega, ?_, fun h => by cases h⟩
    rw [ht, List.append_assoc, us_str_long nb h1 h4 s rest hlt hv]
    rfl
  by_cases c0 : s.length ≤ 0x20
  · have hp : packStr s = some (UInt8.ofNat (0x40 + s.length) :: s) := by simp [packStr, c0]
    rw [hp] at hb
    have hb' := (Option.some.inj hb).symm
    have ht : (UInt8.ofNat (0x40 + s.length)).toNat = 0x40 + s.length := toNat_ofNat_lt (by omega)
    refine ⟨_, _, true, hb', by omega, by omega, ?_, fun h => by cases h⟩
    rw [ht, us_str_short s rest c0 hv]; rfl
  · by_cases c1 : s.length ≤ 0xFF
    · exact long 1 (by omega) (by omega) (by omega) (by simp [packStr, c0, c1])
    · by_cases c2 : s.length ≤ 0xFFFF
      · exact long 2 (by omega) (by omega) (by omega) (by simp [packStr, c0, c1, c2])
      · by_cases c3 : s.length ≤ 0xFFFFFF
        · exact long 3 (by omega) (by omega) (by omega) (by simp [packStr, c0, c1, c2, c3])
        · exact long 4 (by omega) (by omega) (by omega) (by simp [packStr, c0, c1, c2, c3, hlen])

theorem data_dec (s : Bytes) (ok : scalarOk (.bytes s) = true) (b : Bytes)
    (hb : packData s = some b) (rest : Bytes) : ScalarDec (.bytes s) b rest := by
  simp only [scalarOk, decide_eq_true_eq] at ok
  have long : ∀ (k : Nat), 1 ≤ k → k ≤ 4 → s.length < 256 ^ (2 ^ (k - 1)) →
      packData s = some (UInt8.ofNat (0x90 + k) :: (leBytes (2 ^ (k - 1)) s.length ++ s)) → ScalarDec (.bytes s) b rest := by
    intro k h1 h4 hlt hp
    rw [hp] at hb
    have hb' := (Option.some.inj hb).symm
    have ht : (UInt8.ofNat (0x90 + k)).toNat = 0x90 + k := toNat_ofNat_lt (by omega)
    refine ⟨_, _, true, hb', by omega, by omega, ?_, fun h => by cases h⟩
    rw [ht, List.append_assoc, us_bytes_long k h1 h4 s rest hlt]
    rfl
  by_cases c0 : s.length ≤ 0x20
  · have hp : packData s = some (UInt8.ofNat (0x70 + s.length) :: s) := by simp [packData, c0]
    rw [hp] at hb
    have hb' := (Option.some.inj hb).symm
    have ht : (UInt8.ofNat (0x70 + s.length)).toNat = 0x70 + s.length := toNat_ofNat_lt (by omega)
    refine ⟨_, _, true, hb', by omega, by omega, ?_, fun h => by cases h⟩
    rw [ht, us_bytes_short s rest c0]; rfl
  · by_cases c1 : s.length ≤ 0xFF
    · exact long 1 (by omega) (by omega) (by omega) (by simp [packData, c0, c1])
    · by_cases c2 : s.length ≤ 0xFFFF
      · exact long 2 (by omega) (by omega) (by omega) (by simp [packData, c0, c1, c2])
      · by_cases c3 : s.length ≤ 0xFFFFFFFF
        · exact long 3 (by omega) (by omega) (by omega) (by simp [packData, c0, c1, c2, c3])
        · exact long 4 (by omega) (by omega) (by omega) (by simp [packData, c0, c1, c2, c3, ok])

theorem scalar_dec (v : Value) (ok : scalarOk v = true) (b : Bytes) (hb : packScalar v = some b)
    (rest : Bytes) : ScalarDec v b rest := by
  cases v with
  | none =>
    have hb' := (Option.some.inj hb).symm
    exact ⟨4, [], false, hb', by decide, by decide, by simp [unpackScalar, canon], fun _ => rfl⟩
  | bool x =>
    have hb' := (Option.some.inj hb).symm
    cases x
    · exact ⟨2, [], false, hb', by decide, by decide, by simp [unpackScalar, canon], fun _ => rfl⟩
    · exact ⟨1, [], false, hb', by decide, by decide, by simp [unpackScalar, canon], fun _ => rfl⟩
  | int n h => exact int_dec n h ok b hb rest
  | float f =>
    have hb' := (Option.some.inj hb).symm
    exact ⟨0x36, _, true, hb', by decide, by decide, us_float f rest, fun h => by cases h⟩
  | str s => exact str_dec s ok b hb rest
  | bytes s => exact data_dec s ok b hb rest
  | uuid u =>
    have hb' := (Option.some.inj hb).symm
    simp only [scalarOk, beq_iff_eq] at ok
    exact ⟨0x05, _, true, hb', by decide, by decide, us_uuid u rest ok, fun h => by cases h⟩
  | list xs => simp [scalarOk] at ok
  | dict kvs => simp [scalarOk] at ok


/-! ### the decoder on one scalar / one pointer -/

theorem unpackAux_scalar (fuel : Nat) (tag : UInt8) (rest : Bytes) (tbl : DTable)
    (h : tag.toNat < 0xA0) :
    unpackAux (fuel + 1) (tag :: rest) tbl =
      match unpackScalar tag.toNat rest with
      | .error e => .error e
      | .ok (v, rem, add) =>
        .ok (v, rem, if add then enter (consumed (tag :: rest) rem) v tbl else tbl) := by
  rw [unpackAux]
  simp (disch := omega) only [if_neg]
  rfl

theorem scalar_rt (v : Value) (ok : scalarOk v = true) (b : Bytes) (hb : packScalar v = some b)
    (fuel : Nat) (rest : Bytes) (tbl : DTable) :
    unpackAux (fuel + 1) (b ++ rest) tbl = .ok (canon v, rest, enter b (canon v) tbl) := by
  obtain ⟨tag, body, add, rfl, hlt, _, hus, hadd⟩ := scalar_dec v ok b hb rest
  rw [List.cons_append, unpackAux_scalar _ _ _ _ hlt, hus]
  cases add with
  | true =>
    have := consumed_app (tag :: body) rest
    simp only [List.cons_append] at this
    simp [this]
  | false =>
    have := hadd rfl
    subst this
    simp [enter]

theorem unpackAux_ptr (i : Nat) (p : Bytes) (hp : ptrBytes i = some p) (fuel : Nat) (rest : Bytes)
    (td : DTable) :
    unpackAux (fuel + 1) (p ++ rest) td =
      match td[i]? with
      | none => .error .index
      | some e => .ok (e.2, rest, td) := by
  unfold ptrBytes at hp
  have wide : ∀ (k : Nat), 1 ≤ k → k ≤ 4 → i < 256 ^ k → p = UInt8.ofNat (0xC0 + k) :: leBytes k i →
      unpackAux (fuel + 1) (p ++ rest) td =
      match td[i]? with
      | none => .error .index
      | some e => .ok (e.2, rest, td) := by
    intro k h1 h4 hlt hp
    subst hp
    have ht : (UInt8.ofNat (0xC0 + k)).toNat = 0xC0 + k := toNat_ofNat_lt (by omega)
    rw [List.cons_append, unpackAux]
    simp only [ht]
    simp (disch := omega) only [if_neg, if_pos]
    have e : 0xC0 + k - 0xC0 = k := by omega
    rw [e, take_app _ _ _ (length_leBytes _ _), drop_app _ _ _ (length_leBytes _ _), fromLE_leBytes _ _ hlt]
    rfl
  by_cases c0 : i < 0x21
  · simp only [c0, if_true] at hp
    have := (Option.some.inj hp).symm
    subst this
    have ht : (UInt8.ofNat (0xA0 + i)).toNat = 0xA0 + i := toNat_ofNat_lt (by omega)
    rw [List.cons_append, unpackAux]
    simp only [ht]
    simp (disch := omega) only [if_neg, if_pos]
    have e : 0xA0 + i - 0xA0 = i := by omega
    rw [e]; rfl
  · by_cases c1 : i ≤ 0xFF
    · simp only [c0, c1, if_true, if_false] at hp
      exact wide 1 (by omega) (by omega) (by omega) (Option.some.inj hp).symm
    · by_cases c2 : i ≤ 0xFFFF
      · simp only [c0, c1, c2, if_true, if_false] at hp
        exact wide 2 (by omega) (by omega) (by omega) (Option.some.inj hp).symm
      · by_cases c3 : i ≤ 0xFFFFFF
        · simp only [c0, c1, c2, c3, if_true, if_false] at hp
          exact wide 3 (by omega) (by omega) (by omega) (Option.some.inj hp).symm
        · by_cases c4 : i ≤ 0xFFFFFFFF
          · simp only [c0, c1, c2, c3, c4, if_true, if_false] at hp
            exact wide 4 (by omega) (by omega) (by omega) (Option.some.inj hp).symm
          · simp [c0, c1, c2, c3, c4] at hp


/-! ### the object lists of encoder and decoder, in step -/

/-- a decoder entry is the encoding of some in-domain object together with its decoded form -/
def GoodEntry (e : Bytes × Value) : Prop :=
  ∃ w, scalarOk w = true ∧ packScalar w = some e.1 ∧ e.2 = canon w

/-- **the table invariant**: the decoder's object list holds, position by position, the
    encodings in the encoder's object list, each with the value it decodes to -/
def InStep (te : Table) (td : DTable) : Prop :=
  td.map Prod.fst = te ∧ ∀ e ∈ td, GoodEntry e

theorem inStep_nil : InStep [] [] := ⟨rfl, by simp⟩

theorem hasRaw_iff (raw : Bytes) (td : DTable) : hasRaw raw td = true ↔ raw ∈ td.map Prod.fst := by
  induction td with
  | nil => simp [hasRaw]
  | cons e es ih =>
    simp only [hasRaw, List.map_cons, List.mem_cons]
    by_cases h : e.1 = raw
    · simp [h]
    · simp only [h, if_false, ih]
      constructor
      · exact Or.inr
      · rintro (h' | h')
        · exact absurd h'.symm h
        · exact h'

theorem indexOf?_none (b : Bytes) (t : Table) : indexOf? b t = none ↔ b ∉ t := by
  induction t with
  | nil => simp [indexOf?]
  | cons x xs ih =>
    simp only [indexOf?, List.mem_cons]
    by_cases h : x = b
    · simp [h]
    · simp only [h, if_false, Option.map_eq_none_iff, ih]
      constructor
      · intro h1 h2
        rcases h2 with h2 | h2
        · exact h h2.symm
        · exact h1 h2
      · intro h1 h2; exact h1 (Or.inr h2)

theorem indexOf?_some (b : Bytes) (t : Table) (i : Nat) (h : indexOf? b t = some i) : t[i]? = some b := by
  induction t generalizing i with
  | nil => simp [indexOf?] at h
  | cons x xs ih =>
    simp only [indexOf?] at h
    by_cases hx : x = b
    · simp only [hx, if_true, Option.some.injEq] at h
      subst h; simp [hx]
    · simp only [hx, if_false, Option.map_eq_some_iff] at h
      obtain ⟨j, hj, rfl⟩ := h
      simp [ih j hj]

theorem canon_unique (v w : Value) (hv : scalarOk v = true) (hw : scalarOk w = true) (b : Bytes)
    (h1 : packScalar v = some b) (h2 : packScalar w = some b) : canon v = canon w := by
  obtain ⟨t1, b1, a1, e1, _, _, u1, _⟩ := scalar_dec v hv b h1 []
  obtain ⟨t2, b2, a2, e2, _, _, u2, _⟩ := scalar_dec w hw b h2 []
  rw [e1] at e2
  injection e2 with ht hb
  subst ht; subst hb
  rw [u1] at u2
  injection u2 with u2
  injection u2

theorem inStep_lookup (te : Table) (td : DTable) (h : InStep te td) (b : Bytes) (i : Nat)
    (hi : indexOf? b te = some i) (v : Value) (ok : scalarOk v = true) (hb : packScalar v = some b) :
    ∃ e, td[i]? = some e ∧ e.2 = canon v := by
  have h1 := indexOf?_some b te i hi
  rw [← h.1, List.getElem?_map] at h1
  cases hte : td[i]? with
  | none => simp [hte] at h1
  | some e =>
    simp only [hte, Option.map_some, Option.some.injEq] at h1
    refine ⟨e, rfl, ?_⟩
    obtain ⟨w, hw, hpw, hc⟩ := h.2 e (List.mem_of_getElem? hte)
    rw [h1] at hpw
    rw [hc]
    exact canon_unique w v hw ok b hpw hb

/-- scalar case of the round trip: the object list tail of `_pack` against that of `_unpack` -/
theorem rt_scalar (v : Value) (ok : scalarOk v = true) (te : Table) (td : DTable) (hs : InStep te td)
    (bs : Bytes) (te' : Table) (hp : (packScalar v).map (intern · te) = some (bs, te')) :
    ∃ td', InStep te' td' ∧
      ∀ fuel rest, unpackAux (fuel + 1) (bs ++ rest) td = .ok (canon v, rest, td') := by
  cases hb : packScalar v with
  | none => simp [hb] at hp
  | some b =>
    simp only [hb, Option.map_some, Option.some.injEq] at hp
    unfold intern at hp
    cases hi : indexOf? b te with
    | none =>
      have hnot : b ∉ te := (indexOf?_none b te).mp hi
      have hraw : hasRaw b td = false := by
        cases hr : hasRaw b td with
        | false => rfl
        | true => rw [hasRaw_iff, hs.1] at hr; exact absurd hr hnot
      simp only [hi] at hp
      by_cases hl : 1 < b.length
      · simp only [hl, if_true, Prod.mk.injEq] at hp
        obtain ⟨rfl, rfl⟩ := hp
        refine ⟨td ++ [(b, canon v)], ⟨?_, ?_⟩, ?_⟩
        · simp [hs.1]
        · intro e he
          rcases List.mem_append.mp he with he | he
          · exact hs.2 e he
          · simp only [List.mem_singleton] at he
            subst he
            exact ⟨v, ok, hb, rfl⟩
        · intro fuel rest
          rw [scalar_rt v ok b hb]; simp [enter, hl, hraw]
      · simp only [hl, if_false, Prod.mk.injEq] at hp
        obtain ⟨rfl, rfl⟩ := hp
        refine ⟨td, hs, fun fuel rest => ?_⟩
        rw [scalar_rt v ok b hb]; simp [enter, hl]
    | some i =>
      simp only [hi, Prod.mk.injEq] at hp
      obtain ⟨rfl, rfl⟩ := hp
      refine ⟨td, hs, fun fuel rest => ?_⟩
      cases hptr : ptrBytes i with
      | some p =>
        obtain ⟨e, he, hc⟩ := inStep_lookup te td hs b i hi v ok hb
        simp only [Option.getD_some]
        rw [unpackAux_ptr i p hptr, he]
        simp only [hc]
      | none =>
        simp only [Option.getD_none]
        have hmem : b ∈ te := by
          have := indexOf?_none b te
          by_cases hm : b ∈ te
          · exact hm
          · rw [this.mpr hm] at hi; cases hi
        have hraw : hasRaw b td = true := by rw [hasRaw_iff, hs.1]; exact hmem
        rw [scalar_rt v ok b hb]; simp [enter, hraw]

/-! ### small facts used by the container cases -/

theorem ok_head (fuel : Nat) (bs : Bytes) (td : DTable) (x : Value × Bytes × DTable)
    (h : unpackAux fuel (bs ++ []) td = .ok x) : ∃ hd tl, bs = hd :: tl ∧ hd ≠ 0x03 := by
  rw [List.append_nil] at h
  cases fuel with
  | zero => simp [unpackAux] at h
  | succ f =>
    cases bs with
    | nil => simp [unpackAux] at h
    | cons hd tl =>
      refine ⟨hd, tl, rfl, ?_⟩
      rintro rfl
      rw [unpackAux_scalar _ _ _ _ (by decide)] at h
      have : unpackScalar (0x03 : UInt8).toNat tl = .error .type := by
        unfold unpackScalar
        have e : (0x03 : UInt8).toNat = 3 := by decide
        rw [e]
        simp (disch := omega) only [if_neg]
      rw [this] at h
      cases h

theorem pyEq_canon (a b : Value) : pyEq (canon a) (canon b) = pyEq a b := by
  cases a <;> cases b <;> simp [canon, pyEq]

theorem keyOk_scalarOk (k : Value) (h : keyOk k = true) : scalarOk k = true := by
  cases k <;> simp_all [keyOk, scalarOk]

theorem hashable_canon_key (k : Value) (h : keyOk k = true) : hashable (canon k) = true := by
  cases k <;> simp_all [keyOk, scalarOk, canon, hashable]

theorem packAux_scalar (k : Value) (h : scalarOk k = true) (te : Table) :
    packAux k te = (packScalar k).map (intern · te) := by
  cases k <;> simp_all [packAux, scalarOk]

theorem dictPut_fresh (k v : Value) (acc : List (Value × Value))
    (h : ∀ e ∈ acc, pyEq e.1 k = false) : dictPut k v acc = acc ++ [(k, v)] := by
  induction acc with
  | nil => rfl
  | cons e es ih =>
    obtain ⟨k', v'⟩ := e
    have h1 : pyEq k' k = false := h (k', v') (List.mem_cons_self)
    simp only [dictPut, h1, Bool.false_eq_true, if_false, List.cons_append]
    rw [ih (fun e he => h e (List.mem_cons_of_mem _ he))]

theorem container_hd (base n : Nat) (items : Bytes) (hb : base + 15 < 256) :
    ∃ hd, container base n items = hd :: (items ++ (if 0xF ≤ n then [0x03] else [])) ∧
      hd.toNat = base + min n 0xF := by
  refine ⟨UInt8.ofNat (base + min n 0xF), rfl, toNat_ofNat_lt (by omega)⟩


/-! ### the decoder on a container header -/

def wrapList : Except Err (List Value × Bytes × DTable) → Except Err (Value × Bytes × DTable)
  | .error e => .error e
  | .ok (vs, ptr, t) => .ok (.list vs, ptr, t)

def wrapDict : Except Err (List (Value × Value) × Bytes × DTable) → Except Err (Value × Bytes × DTable)
  | .error e => .error e
  | .ok (kvs, ptr, t) => .ok (.dict kvs, ptr, t)

theorem unpackAux_list (f : Nat) (hd : UInt8) (rest : Bytes) (td : DTable) (n : Nat)
    (h : hd.toNat = 0xD0 + n) (hn : n ≤ 15) :
    unpackAux (f + 1) (hd :: rest) td =
      wrapList (if n = 15 then untilTerm (unpackAux f) rest.length rest td
                else repeatN (unpackAux f) n rest td) := by
  rw [unpackAux]
  have e : (0xD0 + n) % 16 = n := by omega
  simp only [h, e]
  simp (disch := omega) only [if_pos]
  rfl

theorem unpackAux_dict (f : Nat) (hd : UInt8) (rest : Bytes) (td : DTable) (n : Nat)
    (h : hd.toNat = 0xE0 + n) (hn : n ≤ 15) :
    unpackAux (f + 1) (hd :: rest) td =
      wrapDict (if n = 15 then untilTermPairs (unpackAux f) rest.length [] rest td
                else repeatPairs (unpackAux f) n [] rest td) := by
  rw [unpackAux]
  have e : (0xE0 + n) % 16 = n := by omega
  simp only [h, e]
  simp (disch := omega) only [if_pos, if_neg]
  rfl

theorem untilTerm_step (f : Bytes → DTable → Except Err (Value × Bytes × DTable)) (k : Nat)
    (b rest : Bytes) (td : DTable) (hb : ∃ hd tl, b = hd :: tl ∧ hd ≠ 0x03)
    (v : Value) (p1 : Bytes) (t1 : DTable) (hf : f (b ++ rest) td = .ok (v, p1, t1)) :
    untilTerm f (k + 1) (b ++ rest) td =
      match untilTerm f k p1 t1 with
      | .error e => .error e
      | .ok (vs, p2, t2) => .ok (v :: vs, p2, t2) := by
  obtain ⟨hd, tl, rfl, hne⟩ := hb
  simp only [List.cons_append] at hf ⊢
  rw [untilTerm]
  simp only [hne, if_false, hf]
  rfl

theorem untilTermPairs_step (f : Bytes → DTable → Except Err (Value × Bytes × DTable)) (k : Nat)
    (acc acc' : List (Value × Value)) (b rest : Bytes) (td : DTable)
    (hb : ∃ hd tl, b = hd :: tl ∧ hd ≠ 0x03)
    (p1 : Bytes) (t1 : DTable) (hf : pairStep f acc (b ++ rest) td = .ok (acc', p1, t1)) :
    untilTermPairs f (k + 1) acc (b ++ rest) td = untilTermPairs f k acc' p1 t1 := by
  obtain ⟨hd, tl, rfl, hne⟩ := hb
  simp only [List.cons_append] at hf ⊢
  rw [untilTermPairs]
  simp only [hne, if_false, hf]


/-! ### the round trip, with both object lists threaded through the recursion -/

/-- conclusion for one value -/
def RtValue (v : Value) (bs : Bytes) (te' : Table) (td : DTable) (fuel : Nat) : Prop :=
  ∃ td', InStep te' td' ∧ ∀ rest, unpackAux fuel (bs ++ rest) td = .ok (canon v, rest, td')

/-- conclusion for the items of a list: counted loop and endless loop -/
def RtList (xs : List Value) (items : Bytes) (te' : Table) (td : DTable) (fuel : Nat) : Prop :=
  ∃ td', InStep te' td' ∧ xs.length ≤ items.length ∧
    (∀ rest, repeatN (unpackAux fuel) xs.length (items ++ rest) td = .ok (canonList xs, rest, td')) ∧
    (∀ rest budget, xs.length ≤ budget →
      untilTerm (unpackAux fuel) budget (items ++ 0x03 :: rest) td = .ok (canonList xs, rest, td'))

/-- conclusion for the items of a dict (accumulator = the dict built so far) -/
def RtPairs (kvs : List (Value × Value)) (items : Bytes) (te' : Table) (td : DTable) (fuel : Nat)
    (acc : List (Value × Value)) : Prop :=
  ∃ td', InStep te' td' ∧ kvs.length ≤ items.length ∧
    (∀ rest, repeatPairs (unpackAux fuel) kvs.length acc (items ++ rest) td
      = .ok (acc ++ canonPairs kvs, rest, td')) ∧
    (∀ rest budget, kvs.length ≤ budget →
      untilTermPairs (unpackAux fuel) budget acc (items ++ 0x03 :: rest) td
        = .ok (acc ++ canonPairs kvs, rest, td'))

theorem rt_value_scalar (v : Value) (ok : scalarOk v = true) (te : Table) (td : DTable)
    (hs : InStep te td) (bs : Bytes) (te' : Table) (hp : packAux v te = some (bs, te'))
    (fuel : Nat) (hf : bs.length ≤ fuel) : RtValue v bs te' td fuel := by
  rw [packAux_scalar _ ok] at hp
  obtain ⟨td', hs', hdec⟩ := rt_scalar v ok te td hs bs te' hp
  cases fuel with
  | zero =>
    obtain ⟨_, _, rfl, _⟩ := ok_head _ _ _ _ (hdec 0 [])
    simp at hf
  | succ f => exact ⟨td', hs', fun rest => hdec f rest⟩

mutual
theorem rt_value : ∀ (v : Value), packable v = true → ∀ (te : Table) (td : DTable), InStep te td →
    ∀ (bs : Bytes) (te' : Table), packAux v te = some (bs, te') →
    ∀ (fuel : Nat), bs.length ≤ fuel → RtValue v bs te' td fuel
  | .list xs, hv, te, td, hs, bs, te', hp, fuel, hf => by
    simp only [packable] at hv
    simp only [packAux] at hp
    cases hl : packList xs te with
    | none => simp [hl] at hp
    | some r =>
      obtain ⟨items, t1⟩ := r
      simp only [hl, Option.some.injEq, Prod.mk.injEq] at hp
      obtain ⟨rfl, rfl⟩ := hp
      obtain ⟨hd, hc, hdn⟩ := container_hd 0xD0 xs.length items (by decide)
      rw [hc] at hf
      cases fuel with
      | zero => simp at hf
      | succ f =>
        have hf' : items.length ≤ f := by
          simp only [List.length_cons, List.length_append] at hf; omega
        obtain ⟨td', hs', hlen, hrep, huntil⟩ := rt_list xs hv te td hs items t1 hl f hf'
        refine ⟨td', hs', fun rest => ?_⟩
        rw [hc, List.cons_append, unpackAux_list f hd _ td (min xs.length 0xF) hdn (by omega)]
        by_cases hn : 0xF ≤ xs.length
        · have hmin : min xs.length 0xF = 15 := by omega
          simp only [hmin, hn, if_true]
          rw [List.append_assoc, List.singleton_append, huntil rest _ (by
            simp only [List.length_append, List.length_cons]; omega)]
          simp [wrapList, canon]
        · have hmin : min xs.length 0xF = xs.length := by omega
          have hne : ¬ xs.length = 15 := by omega
          simp only [hmin, hn, hne, if_false, List.append_nil]
          rw [hrep rest]
          simp [wrapList, canon]
  | .dict kvs, hv, te, td, hs, bs, te', hp, fuel, hf => by
    simp only [packable, Bool.and_eq_true] at hv
    obtain ⟨hv1, hv2⟩ := hv
    simp only [packAux] at hp
    cases hl : packPairs kvs te with
    | none => simp [hl] at hp
    | some r =>
      obtain ⟨items, t1⟩ := r
      simp only [hl, Option.some.injEq, Prod.mk.injEq] at hp
      obtain ⟨rfl, rfl⟩ := hp
      obtain ⟨hd, hc, hdn⟩ := container_hd 0xE0 kvs.length items (by decide)
      rw [hc] at hf
      cases fuel with
      | zero => simp at hf
      | succ f =>
        have hf' : items.length ≤ f := by
          simp only [List.length_cons, List.length_append] at hf; omega
        obtain ⟨td', hs', hlen, hrep, huntil⟩ :=
          rt_pairs kvs hv1 hv2 te td hs items t1 hl f hf' [] (by simp)
        refine ⟨td', hs', fun rest => ?_⟩
        rw [hc, List.cons_append, unpackAux_dict f hd _ td (min kvs.length 0xF) hdn (by omega)]
        by_cases hn : 0xF ≤ kvs.length
        · have hmin : min kvs.length 0xF = 15 := by omega
          simp only [hmin, hn, if_true]
          rw [List.append_assoc, List.singleton_append, huntil rest _ (by
            simp only [List.length_append, List.length_cons]; omega)]
          simp [wrapDict, canon]
        · have hmin : min kvs.length 0xF = kvs.length := by omega
          have hne : ¬ kvs.length = 15 := by omega
          simp only [hmin, hn, hne, if_false, List.append_nil]
          rw [hrep rest]
          simp [wrapDict, canon]
  | .none, _, te, td, hs, bs, te', hp, fuel, hf => rt_value_scalar _ rfl te td hs bs te' hp fuel hf
  | .bool _, _, te, td, hs, bs, te', hp, fuel, hf => rt_value_scalar _ rfl te td hs bs te' hp fuel hf
  | .int n h, hv, te, td, hs, bs, te', hp, fuel, hf =>
    rt_value_scalar _ (by simpa [packable] using hv) te td hs bs te' hp fuel hf
  | .float _, _, te, td, hs, bs, te', hp, fuel, hf => rt_value_scalar _ rfl te td hs bs te' hp fuel hf
  | .str s, hv, te, td, hs, bs, te', hp, fuel, hf =>
    rt_value_scalar _ (by simpa [packable] using hv) te td hs bs te' hp fuel hf
  | .bytes b, hv, te, td, hs, bs, te', hp, fuel, hf =>
    rt_value_scalar _ (by simpa [packable] using hv) te td hs bs te' hp fuel hf
  | .uuid b, hv, te, td, hs, bs, te', hp, fuel, hf =>
    rt_value_scalar _ (by simpa [packable] using hv) te td hs bs te' hp fuel hf
theorem rt_list : ∀ (xs : List Value), packableList xs = true → ∀ (te : Table) (td : DTable), InStep te td →
    ∀ (items : Bytes) (te' : Table), packList xs te = some (items, te') →
    ∀ (fuel : Nat), items.length ≤ fuel → RtList xs items te' td fuel
  | [], _, te, td, hs, items, te', hp, fuel, _ => by
    simp only [packList, Option.some.injEq, Prod.mk.injEq] at hp
    obtain ⟨rfl, rfl⟩ := hp
    refine ⟨td, hs, Nat.le_refl _, fun rest => ?_, fun rest budget _ => ?_⟩
    · simp [repeatN, canonList]
    · cases budget <;> simp [untilTerm, canonList]
  | x :: xs, hv, te, td, hs, items, te', hp, fuel, hf => by
    simp only [packableList, Bool.and_eq_true] at hv
    obtain ⟨hvx, hvxs⟩ := hv
    simp only [packList] at hp
    cases hx : packAux x te with
    | none => simp [hx] at hp
    | some r1 =>
      obtain ⟨b, t1⟩ := r1
      simp only [hx] at hp
      cases hl : packList xs t1 with
      | none => simp [hl] at hp
      | some r2 =>
        obtain ⟨bs, t2⟩ := r2
        simp only [hl, Option.some.injEq, Prod.mk.injEq] at hp
        obtain ⟨rfl, rfl⟩ := hp
        simp only [List.length_append] at hf
        obtain ⟨td1, hs1, hdx⟩ := rt_value x hvx te td hs b t1 hx fuel (by omega)
        obtain ⟨td2, hs2, hlen, hrep, huntil⟩ := rt_list xs hvxs t1 td1 hs1 bs t2 hl fuel (by omega)
        have hhead := ok_head _ _ _ _ (hdx [])
        have hbne : 1 ≤ b.length := by
          obtain ⟨_, _, rfl, _⟩ := hhead; simp
        refine ⟨td2, hs2, by simp only [List.length_cons, List.length_append]; omega,
          fun rest => ?_, fun rest budget hbud => ?_⟩
        · rw [List.append_assoc]
          simp only [List.length_cons, repeatN, hdx, hrep, canonList]
        · rw [List.append_assoc]
          cases budget with
          | zero => simp at hbud
          | succ k =>
            rw [untilTerm_step _ k b _ td hhead _ _ _ (hdx _), huntil rest k (by simpa using hbud)]
            simp [canonList]
theorem rt_pairs : ∀ (kvs : List (Value × Value)), packablePairs kvs = true →
    keysDistinct (kvs.map Prod.fst) = true → ∀ (te : Table) (td : DTable), InStep te td →
    ∀ (items : Bytes) (te' : Table), packPairs kvs te = some (items, te') →
    ∀ (fuel : Nat), items.length ≤ fuel →
    ∀ (acc : List (Value × Value)), (∀ e ∈ acc, ∀ kv ∈ kvs, pyEq e.1 (canon kv.1) = false) →
    RtPairs kvs items te' td fuel acc
  | [], _, _, te, td, hs, items, te', hp, fuel, _, acc, _ => by
    simp only [packPairs, Option.some.injEq, Prod.mk.injEq] at hp
    obtain ⟨rfl, rfl⟩ := hp
    refine ⟨td, hs, Nat.le_refl _, fun rest => ?_, fun rest budget _ => ?_⟩
    · simp [repeatPairs, canonPairs]
    · cases budget <;> simp [untilTermPairs, canonPairs]
  | (k, v) :: r, hv, hk, te, td, hs, items, te', hp, fuel, hf, acc, hacc => by
    simp only [packablePairs, Bool.and_eq_true] at hv
    obtain ⟨⟨hvk, hvv⟩, hvr⟩ := hv
    simp only [List.map_cons, keysDistinct, Bool.and_eq_true, List.all_eq_true,
      Bool.not_eq_true'] at hk
    obtain ⟨hk1, hkr⟩ := hk
    simp only [packPairs] at hp
    cases hx : packAux k te with
    | none => simp [hx] at hp
    | some r1 =>
      obtain ⟨bk, t1⟩ := r1
      simp only [hx] at hp
      cases hy : packAux v t1 with
      | none => simp [hy] at hp
      | some r2 =>
        obtain ⟨bv, t2⟩ := r2
        simp only [hy] at hp
        cases hl : packPairs r t2 with
        | none => simp [hl] at hp
        | some r3 =>
          obtain ⟨bs, t3⟩ := r3
          simp only [hl, Option.some.injEq, Prod.mk.injEq] at hp
          obtain ⟨rfl, rfl⟩ := hp
          simp only [List.length_append] at hf
          obtain ⟨td1, hs1, hdk⟩ :=
            rt_value_scalar k (keyOk_scalarOk k hvk) te td hs bk t1 hx fuel (by omega)
          obtain ⟨td2, hs2, hdv⟩ := rt_value v hvv t1 td1 hs1 bv t2 hy fuel (by omega)
          have hfresh : ∀ e ∈ acc, pyEq e.1 (canon k) = false :=
            fun e he => hacc e he (k, v) List.mem_cons_self
          have hacc' : ∀ e ∈ acc ++ [(canon k, canon v)], ∀ kv ∈ r, pyEq e.1 (canon kv.1) = false := by
            intro e he kv hkv
            rcases List.mem_append.mp he with he | he
            · exact hacc e he kv (List.mem_cons_of_mem _ hkv)
            · simp only [List.mem_singleton] at he
              subst he
              rw [pyEq_canon]
              exact hk1 kv.1 (List.mem_map_of_mem hkv)
          obtain ⟨td3, hs3, hlen, hrep, huntil⟩ :=
            rt_pairs r hvr hkr t2 td2 hs2 bs t3 hl fuel (by omega) _ hacc'
          have hstep : ∀ rest', pairStep (unpackAux fuel) acc (bk ++ (bv ++ rest')) td
              = .ok (acc ++ [(canon k, canon v)], rest', td2) := by
            intro rest'
            simp only [pairStep, hdk, hdv, dictSet, hashable_canon_key k hvk, if_true,
              dictPut_fresh _ _ _ hfresh]
          have hhead := ok_head _ _ _ _ (hdk [])
          have hbne : 1 ≤ bk.length := by
            obtain ⟨_, _, rfl, _⟩ := hhead; simp
          refine ⟨td3, hs3, by simp only [List.length_cons, List.length_append]; omega,
            fun rest => ?_, fun rest budget hbud => ?_⟩
          · have e : bk ++ (bv ++ bs) ++ rest = bk ++ (bv ++ (bs ++ rest)) := by
              simp only [List.append_assoc]
            rw [e]
            simp only [List.length_cons, repeatPairs, hstep, hrep, canonPairs, List.append_assoc,
              List.singleton_append]
          · have e : bk ++ (bv ++ bs) ++ 0x03 :: rest = bk ++ (bv ++ (bs ++ 0x03 :: rest)) := by
              simp only [List.append_assoc]
            rw [e]
            cases budget with
            | zero => simp at hbud
            | succ n =>
              rw [untilTermPairs_step _ n acc _ bk _ td hhead _ _ (hstep _),
                huntil rest n (by simpa using hbud)]
              simp only [canonPairs, List.append_assoc, List.singleton_append]
end


/-! ### `pack` is total on the domain -/

theorem packInt_total (n : Int) (h : Nat) (ok : scalarOk (.int n h) = true) : (packInt n h).isSome = true := by
  simp only [scalarOk, Bool.or_eq_true, Bool.and_eq_true, beq_iff_eq, decide_eq_true_eq] at ok
  rcases ok with ⟨rfl, rfl⟩ | ⟨⟨hn0, hn64⟩, hh⟩
  · decide
  · obtain ⟨m, rfl⟩ := Int.eq_ofNat_of_zero_le hn0
    have c4' : (m : Int) ≤ 0xFFFFFFFFFFFFFFFF := by omega
    by_cases h0 : h = 0
    · subst h0
      by_cases c0 : m < 0x28
      · have c0' : (m : Int) < 0x28 := by omega
        have e2 : (0 : Int) ≤ (m : Int) + 8 := by omega
        simp [packInt, c0', e2]
      · have c0' : ¬ (m : Int) < 0x28 := by omega
        by_cases c1 : m ≤ 0xFF
        · have c1' : (m : Int) ≤ 0xFF := by omega
          simp [packInt, c0', c1', toBytes_nat 1 m (by omega)]
        · have c1' : ¬ (m : Int) ≤ 0xFF := by omega
          by_cases c2 : m ≤ 0xFFFF
          · have c2' : (m : Int) ≤ 0xFFFF := by omega
            simp [packInt, c0', c1', c2', toBytes_nat 2 m (by omega)]
          · have c2' : ¬ (m : Int) ≤ 0xFFFF := by omega
            by_cases c3 : m ≤ 0xFFFFFFFF
            · have c3' : (m : Int) ≤ 0xFFFFFFFF := by omega
              simp [packInt, c0', c1', c2', c3', toBytes_nat 4 m (by omega)]
            · have c3' : ¬ (m : Int) ≤ 0xFFFFFFFF := by omega
              simp [packInt, c0', c1', c2', c3', c4', toBytes_nat 8 m (by omega)]
    · simp only [h0, false_or] at hh
      rcases hh with ((⟨rfl, h8⟩ | ⟨rfl, h16⟩) | ⟨rfl, h32⟩) | rfl
      · simp [packInt, toBytes_nat 1 m (by omega)]
      · simp [packInt, toBytes_nat 2 m (by omega)]
      · simp [packInt, toBytes_nat 4 m (by omega)]
      · simp [packInt, c4', toBytes_nat 8 m (by omega)]

theorem packScalar_total (v : Value) (ok : scalarOk v = true) : ∃ b, packScalar v = some b := by
  cases v with
  | none => exact ⟨_, rfl⟩
  | bool x => exact ⟨_, rfl⟩
  | int n h => exact Option.isSome_iff_exists.mp (packInt_total n h ok)
  | float f => exact ⟨_, rfl⟩
  | str s =>
    simp only [scalarOk, Bool.and_eq_true, decide_eq_true_eq] at ok
    apply Option.isSome_iff_exists.mp
    simp only [packScalar, packStr]
    by_cases c0 : s.length ≤ 0x20
    · simp [c0]
    · by_cases c1 : s.length ≤ 0xFF
      · simp [c0, c1]
      · by_cases c2 : s.length ≤ 0xFFFF
        · simp [c0, c1, c2]
        · by_cases c3 : s.length ≤ 0xFFFFFF
          · simp [c0, c1, c2, c3]
          · simp [c0, c1, c2, c3, ok.2]
  | bytes s =>
    simp only [scalarOk, decide_eq_true_eq] at ok
    apply Option.isSome_iff_exists.mp
    simp only [packScalar, packData]
    by_cases c0 : s.length ≤ 0x20
    · simp [c0]
    · by_cases c1 : s.length ≤ 0xFF
      · simp [c0, c1]
      · by_cases c2 : s.length ≤ 0xFFFF
        · simp [c0, c1, c2]
        · by_cases c3 : s.length ≤ 0xFFFFFFFF
          · simp [c0, c1, c2, c3]
          · simp [c0, c1, c2, c3, ok]
  | uuid u => exact ⟨_, rfl⟩
  | list xs => simp [scalarOk] at ok
  | dict kvs => simp [scalarOk] at ok

theorem packAux_total_scalar (v : Value) (ok : scalarOk v = true) (te : Table) :
    ∃ r, packAux v te = some r := by
  obtain ⟨b, hb⟩ := packScalar_total v ok
  rw [packAux_scalar v ok, hb]
  exact ⟨_, rfl⟩

mutual
theorem packAux_total : ∀ (v : Value), packable v = true → ∀ te, ∃ r, packAux v te = some r
  | .list xs, hv, te => by
    simp only [packable] at hv
    obtain ⟨r, hr⟩ := packList_total xs hv te
    simp only [packAux, hr]; exact ⟨_, rfl⟩
  | .dict kvs, hv, te => by
    simp only [packable, Bool.and_eq_true] at hv
    obtain ⟨r, hr⟩ := packPairs_total kvs hv.1 te
    simp only [packAux, hr]; exact ⟨_, rfl⟩
  | .none, _, te => packAux_total_scalar _ rfl te
  | .bool _, _, te => packAux_total_scalar _ rfl te
  | .int n h, hv, te => packAux_total_scalar _ (by simpa [packable] using hv) te
  | .float _, _, te => packAux_total_scalar _ rfl te
  | .str s, hv, te => packAux_total_scalar _ (by simpa [packable] using hv) te
  | .bytes b, hv, te => packAux_total_scalar _ (by simpa [packable] using hv) te
  | .uuid b, hv, te => packAux_total_scalar _ (by simpa [packable] using hv) te
theorem packList_total : ∀ (xs : List Value), packableList xs = true → ∀ te, ∃ r, packList xs te = some r
  | [], _, te => ⟨_, rfl⟩
  | x :: xs, hv, te => by
    simp only [packableList, Bool.and_eq_true] at hv
    obtain ⟨r1, h1⟩ := packAux_total x hv.1 te
    obtain ⟨r2, h2⟩ := packList_total xs hv.2 r1.2
    simp only [packList, h1, h2]; exact ⟨_, rfl⟩
theorem packPairs_total : ∀ (kvs : List (Value × Value)), packablePairs kvs = true →
    ∀ te, ∃ r, packPairs kvs te = some r
  | [], _, te => ⟨_, rfl⟩
  | (k, v) :: r, hv, te => by
    simp only [packablePairs, Bool.and_eq_true] at hv
    obtain ⟨r1, h1⟩ := packAux_total_scalar k (keyOk_scalarOk k hv.1.1) te
    obtain ⟨r2, h2⟩ := packAux_total v hv.1.2 r1.2
    obtain ⟨r3, h3⟩ := packPairs_total r hv.2 r2.2
    simp only [packPairs, h1, h2, h3]; exact ⟨_, rfl⟩
end

/-! ### `canon` only decorates -/

mutual
theorem erase_canon : ∀ (v : Value), erase (canon v) = erase v
  | .list xs => by simp only [canon, erase, eraseList_canon xs]
  | .dict kvs => by simp only [canon, erase, erasePairs_canon kvs]
  | .none => rfl
  | .bool _ => rfl
  | .int _ _ => rfl
  | .float _ => rfl
  | .str _ => rfl
  | .bytes _ => rfl
  | .uuid _ => rfl
theorem eraseList_canon : ∀ (xs : List Value), eraseList (canonList xs) = eraseList xs
  | [] => rfl
  | x :: xs => by simp only [canonList, eraseList, erase_canon x, eraseList_canon xs]
theorem erasePairs_canon : ∀ (kvs : List (Value × Value)), erasePairs (canonPairs kvs) = erasePairs kvs
  | [] => rfl
  | (k, v) :: r => by simp only [canonPairs, erasePairs, erase_canon k, erase_canon v, erasePairs_canon r]
end


end PyatvModel.C04.Opack
