import PyatvModel.C04.Opack.Lemmas
/-
C04 / OPACK — the recursion budget (`fuel`) of the decoder model is a pure artefact:
every `_unpack` call consumes at least one byte and `unpack` never answers `Err.fuel`.
-/
namespace PyatvModel.C04.Opack

/-! ### the recursion budget of the model is never exhausted -/

theorem unpackScalar_spec (t : Nat) (rest : Bytes) :
    (∀ v rem add, unpackScalar t rest = .ok (v, rem, add) → rem.length ≤ rest.length) ∧
    unpackScalar t rest ≠ .error .fuel := by
  have cls : t = 1 ∨ t = 2 ∨ t = 4 ∨ t = 5 ∨ t = 6 ∨ t = 7 ∨ (8 ≤ t ∧ t ≤ 0x2F) ∨ t = 0x35 ∨ t = 0x36 ∨
      (0x30 ≤ t ∧ t ≤ 0x3F ∧ t ≠ 0x35 ∧ t ≠ 0x36) ∨ (0x40 ≤ t ∧ t ≤ 0x60) ∨ (0x61 ≤ t ∧ t ≤ 0x64) ∨
      (0x70 ≤ t ∧ t ≤ 0x90) ∨ (0x91 ≤ t ∧ t ≤ 0x94) ∨
      (t = 0 ∨ t = 3 ∨ (0x65 ≤ t ∧ t ≤ 0x6F) ∨ 0x95 ≤ t) := by omega
  unfold unpackScalar
  rcases cls with h | h | h | h | h | h | h | h | h | h | h | h | h | h | h
  all_goals simp (disch := omega) only [if_neg, if_pos]
  all_goals constructor
  all_goals first
    | (intro v rem add hh
       first
        | (injection hh with hh; injection hh with _ hh; injection hh with hh _; subst hh
           (first | exact Nat.le_refl _ | (simp only [List.length_drop]; first | exact Nat.sub_le _ _ | exact Nat.le_trans (Nat.sub_le _ _) (Nat.sub_le _ _) | omega)))
        | (split at hh
           · injection hh with hh; injection hh with _ hh; injection hh with hh _; subst hh
             (first | exact Nat.le_refl _ | (simp only [List.length_drop]; first | exact Nat.sub_le _ _ | exact Nat.le_trans (Nat.sub_le _ _) (Nat.sub_le _ _) | omega))
           · cases hh)
        | cases hh)
    | (intro hh; first | cases hh | (split at hh <;> cases hh))


abbrev Dec := Bytes → DTable → Except Err (Value × Bytes × DTable)

/-- `f` consumes at least one byte and does not run out of budget on inputs shorter than `B` -/
def Good (f : Dec) (B : Nat) : Prop :=
  ∀ d t, (∀ v r t', f d t = .ok (v, r, t') → r.length < d.length) ∧
    (d.length < B → f d t ≠ .error .fuel)

theorem repeatN_good (f : Dec) (B : Nat) (hf : Good f B) : ∀ (n : Nat) (ptr : Bytes) (t : DTable),
    (∀ vs r t', repeatN f n ptr t = .ok (vs, r, t') → r.length ≤ ptr.length) ∧
    (ptr.length < B → repeatN f n ptr t ≠ .error .fuel) := by
  intro n
  induction n with
  | zero =>
    intro ptr t
    refine ⟨fun vs r t' h => ?_, fun _ h => ?_⟩
    · simp only [repeatN, Except.ok.injEq, Prod.mk.injEq] at h
      rw [← h.2.1]; exact Nat.le_refl _
    · simp [repeatN] at h
  | succ n ih =>
    intro ptr t
    simp only [repeatN]
    cases hx : f ptr t with
    | error e =>
      refine ⟨fun vs r t' h => (by cases h), fun hb h => ?_⟩
      injection h with h; subst h
      exact (hf ptr t).2 hb hx
    | ok x =>
      obtain ⟨v, p1, t1⟩ := x
      have hlt := (hf ptr t).1 v p1 t1 hx
      cases hy : repeatN f n p1 t1 with
      | error e =>
        simp only [hy]
        refine ⟨fun vs r t' h => (by cases h), fun hb h => ?_⟩
        injection h with h; subst h
        exact (ih p1 t1).2 (by omega) hy
      | ok y =>
        simp only [hy]
        obtain ⟨vs, p2, t2⟩ := y
        refine ⟨fun vs' r t' h => ?_, fun _ h => (by cases h)⟩
        simp only [Except.ok.injEq, Prod.mk.injEq] at h
        have := (ih p1 t1).1 vs p2 t2 hy
        rw [← h.2.1]; omega

theorem untilTerm_good (f : Dec) (B : Nat) (hf : Good f B) : ∀ (budget : Nat) (ptr : Bytes) (t : DTable),
    ptr.length ≤ budget →
    (∀ vs r t', untilTerm f budget ptr t = .ok (vs, r, t') → r.length ≤ ptr.length) ∧
    (ptr.length < B → untilTerm f budget ptr t ≠ .error .fuel) := by
  intro budget
  induction budget with
  | zero =>
    intro ptr t hb
    have : ptr = [] := List.length_eq_zero_iff.mp (by omega)
    subst this
    simp [untilTerm]
  | succ k ih =>
    intro ptr t hb
    cases ptr with
    | nil => simp [untilTerm]
    | cons b rest =>
      rw [untilTerm]
      by_cases h3 : b = 0x03
      · simp only [h3, if_true]
        refine ⟨fun vs r t' h => ?_, fun _ h => (by cases h)⟩
        simp only [Except.ok.injEq, Prod.mk.injEq] at h
        rw [← h.2.1]; simp
      · simp only [h3, if_false]
        cases hx : f (b :: rest) t with
        | error e =>
          refine ⟨fun vs r t' h => (by cases h), fun hB h => ?_⟩
          injection h with h; subst h
          exact (hf _ t).2 hB hx
        | ok x =>
          obtain ⟨v, p1, t1⟩ := x
          have hlt := (hf _ t).1 v p1 t1 hx
          have hk : p1.length ≤ k := by omega
          cases hy : untilTerm f k p1 t1 with
          | error e =>
            simp only [hy]
            refine ⟨fun vs r t' h => (by cases h), fun hB h => ?_⟩
            injection h with h; subst h
            exact (ih p1 t1 hk).2 (by omega) hy
          | ok y =>
            simp only [hy]
            obtain ⟨vs, p2, t2⟩ := y
            refine ⟨fun vs' r t' h => ?_, fun _ h => (by cases h)⟩
            simp only [Except.ok.injEq, Prod.mk.injEq] at h
            have := (ih p1 t1 hk).1 vs p2 t2 hy
            rw [← h.2.1]; omega

theorem pairStep_good (f : Dec) (B : Nat) (hf : Good f B) (acc : List (Value × Value)) (ptr : Bytes)
    (t : DTable) :
    (∀ a r t', pairStep f acc ptr t = .ok (a, r, t') → r.length < ptr.length) ∧
    (ptr.length < B → pairStep f acc ptr t ≠ .error .fuel) := by
  simp only [pairStep]
  cases hx : f ptr t with
  | error e =>
    refine ⟨fun a r t' h => (by cases h), fun hB h => ?_⟩
    injection h with h; subst h
    exact (hf _ t).2 hB hx
  | ok x =>
    obtain ⟨k, p1, t1⟩ := x
    have hlt := (hf _ t).1 k p1 t1 hx
    cases hy : f p1 t1 with
    | error e =>
      simp only [hy]
      refine ⟨fun a r t' h => (by cases h), fun hB h => ?_⟩
      injection h with h; subst h
      exact (hf _ t1).2 (by omega) hy
    | ok y =>
      simp only [hy]
      obtain ⟨v, p2, t2⟩ := y
      have hlt2 := (hf _ t1).1 v p2 t2 hy
      cases dictSet acc k v with
      | none => exact ⟨fun a r t' h => (by cases h), fun _ h => (by cases h)⟩
      | some acc' =>
        refine ⟨fun a r t' h => ?_, fun _ h => (by cases h)⟩
        simp only [Except.ok.injEq, Prod.mk.injEq] at h
        rw [← h.2.1]; omega

theorem repeatPairs_good (f : Dec) (B : Nat) (hf : Good f B) : ∀ (n : Nat) (acc : List (Value × Value))
    (ptr : Bytes) (t : DTable),
    (∀ a r t', repeatPairs f n acc ptr t = .ok (a, r, t') → r.length ≤ ptr.length) ∧
    (ptr.length < B → repeatPairs f n acc ptr t ≠ .error .fuel) := by
  intro n
  induction n with
  | zero =>
    intro acc ptr t
    refine ⟨fun a r t' h => ?_, fun _ h => ?_⟩
    · simp only [repeatPairs, Except.ok.injEq, Prod.mk.injEq] at h
      rw [← h.2.1]; exact Nat.le_refl _
    · simp [repeatPairs] at h
  | succ n ih =>
    intro acc ptr t
    simp only [repeatPairs]
    have hp := pairStep_good f B hf acc ptr t
    cases hx : pairStep f acc ptr t with
    | error e =>
      refine ⟨fun a r t' h => (by cases h), fun hB h => ?_⟩
      injection h with h; subst h
      exact hp.2 hB hx
    | ok x =>
      obtain ⟨a1, p1, t1⟩ := x
      have hlt := hp.1 a1 p1 t1 hx
      refine ⟨fun a r t' h => ?_, fun hB h => ?_⟩
      · have := (ih a1 p1 t1).1 a r t' h; omega
      · exact (ih a1 p1 t1).2 (by omega) h

theorem untilTermPairs_good (f : Dec) (B : Nat) (hf : Good f B) : ∀ (budget : Nat)
    (acc : List (Value × Value)) (ptr : Bytes) (t : DTable), ptr.length ≤ budget →
    (∀ a r t', untilTermPairs f budget acc ptr t = .ok (a, r, t') → r.length ≤ ptr.length) ∧
    (ptr.length < B → untilTermPairs f budget acc ptr t ≠ .error .fuel) := by
  intro budget
  induction budget with
  | zero =>
    intro acc ptr t hb
    have : ptr = [] := List.length_eq_zero_iff.mp (by omega)
    subst this
    simp [untilTermPairs]
  | succ k ih =>
    intro acc ptr t hb
    cases ptr with
    | nil => simp [untilTermPairs]
    | cons b rest =>
      rw [untilTermPairs]
      by_cases h3 : b = 0x03
      · simp only [h3, if_true]
        refine ⟨fun a r t' h => ?_, fun _ h => (by cases h)⟩
        simp only [Except.ok.injEq, Prod.mk.injEq] at h
        rw [← h.2.1]; simp
      · simp only [h3, if_false]
        have hp := pairStep_good f B hf acc (b :: rest) t
        cases hx : pairStep f acc (b :: rest) t with
        | error e =>
          refine ⟨fun a r t' h => (by cases h), fun hB h => ?_⟩
          injection h with h; subst h
          exact hp.2 hB hx
        | ok x =>
          obtain ⟨a1, p1, t1⟩ := x
          have hlt := hp.1 a1 p1 t1 hx
          have hk : p1.length ≤ k := by omega
          refine ⟨fun a r t' h => ?_, fun hB h => ?_⟩
          · have := (ih a1 p1 t1 hk).1 a r t' h; omega
          · exact (ih a1 p1 t1 hk).2 (by omega) h


theorem unpackAux_list' (f : Nat) (hd : UInt8) (rest : Bytes) (td : DTable)
    (h : 0xD0 ≤ hd.toNat ∧ hd.toNat ≤ 0xDF) :
    unpackAux (f + 1) (hd :: rest) td =
      wrapList (if hd.toNat % 16 = 0xF then untilTerm (unpackAux f) rest.length rest td
                else repeatN (unpackAux f) (hd.toNat % 16) rest td) := by
  rw [unpackAux]
  simp (disch := omega) only [if_pos]
  rfl

theorem unpackAux_dict' (f : Nat) (hd : UInt8) (rest : Bytes) (td : DTable) (h : 0xE0 ≤ hd.toNat) :
    unpackAux (f + 1) (hd :: rest) td =
      wrapDict (if hd.toNat % 16 = 0xF then untilTermPairs (unpackAux f) rest.length [] rest td
                else repeatPairs (unpackAux f) (hd.toNat % 16) [] rest td) := by
  rw [unpackAux]
  simp (disch := omega) only [if_pos, if_neg]
  rfl

theorem unpackAux_ptr' (f : Nat) (hd : UInt8) (rest : Bytes) (td : DTable)
    (h : 0xA0 ≤ hd.toNat ∧ hd.toNat ≤ 0xC4) :
    unpackAux (f + 1) (hd :: rest) td =
      if hd.toNat ≤ 0xC0 then
        (match td[hd.toNat - 0xA0]? with
         | none => .error .index
         | some e => .ok (e.2, rest, td))
      else
        (match td[fromLE (rest.take (hd.toNat - 0xC0))]? with
         | none => .error .index
         | some e => .ok (e.2, rest.drop (hd.toNat - 0xC0), td)) := by
  rw [unpackAux]
  by_cases c : hd.toNat ≤ 0xC0
  · simp (disch := omega) only [if_pos, if_neg]; rfl
  · simp (disch := omega) only [if_pos, if_neg]; rfl

theorem unpackAux_scalar' (fuel : Nat) (tag : UInt8) (rest : Bytes) (tbl : DTable)
    (h : tag.toNat < 0xA0 ∨ (0xC5 ≤ tag.toNat ∧ tag.toNat ≤ 0xCF)) :
    unpackAux (fuel + 1) (tag :: rest) tbl =
      match unpackScalar tag.toNat rest with
      | .error e => .error e
      | .ok (v, rem, add) =>
        .ok (v, rem, if add then enter (consumed (tag :: rest) rem) v tbl else tbl) := by
  rw [unpackAux]
  simp (disch := omega) only [if_neg]
  rfl

/-- every `_unpack` call consumes at least one byte, and with a budget above the input
    length the model never answers `Err.fuel` -/
theorem unpackAux_good : ∀ fuel, Good (unpackAux fuel) fuel := by
  intro fuel
  induction fuel with
  | zero =>
    intro d t
    exact ⟨fun v r t' h => by simp [unpackAux] at h, fun h => by omega⟩
  | succ f ih =>
    intro d t
    cases d with
    | nil => exact ⟨fun v r t' h => by simp [unpackAux] at h, fun _ h => by simp [unpackAux] at h⟩
    | cons tag rest =>
      have cls : (tag.toNat < 0xA0 ∨ (0xC5 ≤ tag.toNat ∧ tag.toNat ≤ 0xCF)) ∨
          (0xA0 ≤ tag.toNat ∧ tag.toNat ≤ 0xC4) ∨ (0xD0 ≤ tag.toNat ∧ tag.toNat ≤ 0xDF) ∨
          0xE0 ≤ tag.toNat := by omega
      rcases cls with h | h | h | h
      · rw [unpackAux_scalar' f tag rest t h]
        have sp := unpackScalar_spec tag.toNat rest
        cases hx : unpackScalar tag.toNat rest with
        | error e =>
          refine ⟨fun v r t' hh => (by cases hh), fun _ hh => ?_⟩
          injection hh with hh; subst hh; exact sp.2 hx
        | ok x =>
          obtain ⟨v, rem, add⟩ := x
          have := sp.1 v rem add hx
          refine ⟨fun v' r t' hh => ?_, fun _ hh => (by cases hh)⟩
          simp only [Except.ok.injEq, Prod.mk.injEq] at hh
          rw [← hh.2.1]; simp only [List.length_cons]; omega
      · rw [unpackAux_ptr' f tag rest t h]
        by_cases c : tag.toNat ≤ 0xC0
        · simp only [c, if_true]
          cases t[tag.toNat - 0xA0]? with
          | none => exact ⟨fun v r t' hh => (by cases hh), fun _ hh => (by cases hh)⟩
          | some e =>
            refine ⟨fun v r t' hh => ?_, fun _ hh => (by cases hh)⟩
            simp only [Except.ok.injEq, Prod.mk.injEq] at hh
            rw [← hh.2.1]; simp
        · simp only [c, if_false]
          cases t[fromLE (rest.take (tag.toNat - 0xC0))]? with
          | none => exact ⟨fun v r t' hh => (by cases hh), fun _ hh => (by cases hh)⟩
          | some e =>
            refine ⟨fun v r t' hh => ?_, fun _ hh => (by cases hh)⟩
            simp only [Except.ok.injEq, Prod.mk.injEq] at hh
            rw [← hh.2.1]; simp only [List.length_drop, List.length_cons]; omega
      · rw [unpackAux_list' f tag rest t h]
        have key : ∀ r : Except Err (List Value × Bytes × DTable),
            ((∀ vs p t', r = .ok (vs, p, t') → p.length ≤ rest.length) ∧
             (rest.length < f → r ≠ .error .fuel)) →
            ((∀ v p t', wrapList r = .ok (v, p, t') → p.length < (tag :: rest).length) ∧
             ((tag :: rest).length < f + 1 → wrapList r ≠ .error .fuel)) := by
          intro r hr
          cases r with
          | error e =>
            refine ⟨fun v p t' hh => (by cases hh), fun hB hh => ?_⟩
            simp only [wrapList] at hh
            injection hh with hh; subst hh
            exact hr.2 (by simp only [List.length_cons] at hB; omega) rfl
          | ok x =>
            obtain ⟨vs, p, t2⟩ := x
            refine ⟨fun v p' t' hh => ?_, fun _ hh => (by cases hh)⟩
            simp only [wrapList, Except.ok.injEq, Prod.mk.injEq] at hh
            have := hr.1 vs p t2 rfl
            rw [← hh.2.1]; simp only [List.length_cons]; omega
        apply key
        by_cases c : tag.toNat % 16 = 0xF
        · simp only [c, if_true]
          exact untilTerm_good _ f ih rest.length rest t (Nat.le_refl _)
        · simp only [c, if_false]
          exact repeatN_good _ f ih _ rest t
      · rw [unpackAux_dict' f tag rest t h]
        have key : ∀ r : Except Err (List (Value × Value) × Bytes × DTable),
            ((∀ vs p t', r = .ok (vs, p, t') → p.length ≤ rest.length) ∧
             (rest.length < f → r ≠ .error .fuel)) →
            ((∀ v p t', wrapDict r = .ok (v, p, t') → p.length < (tag :: rest).length) ∧
             ((tag :: rest).length < f + 1 → wrapDict r ≠ .error .fuel)) := by
          intro r hr
          cases r with
          | error e =>
            refine ⟨fun v p t' hh => (by cases hh), fun hB hh => ?_⟩
            simp only [wrapDict] at hh
            injection hh with hh; subst hh
            exact hr.2 (by simp only [List.length_cons] at hB; omega) rfl
          | ok x =>
            obtain ⟨vs, p, t2⟩ := x
            refine ⟨fun v p' t' hh => ?_, fun _ hh => (by cases hh)⟩
            simp only [wrapDict, Except.ok.injEq, Prod.mk.injEq] at hh
            have := hr.1 vs p t2 rfl
            rw [← hh.2.1]; simp only [List.length_cons]; omega
        apply key
        by_cases c : tag.toNat % 16 = 0xF
        · simp only [c, if_true]
          exact untilTermPairs_good _ f ih rest.length [] rest t (Nat.le_refl _)
        · simp only [c, if_false]
          exact repeatPairs_good _ f ih _ [] rest t

/-- `unpack` never reports the model-only error `fuel` -/
theorem unpack_ne_fuel (data : Bytes) : unpack data ≠ .error .fuel := by
  unfold unpack
  have h := (unpackAux_good (data.length + 1) data []).2 (by omega)
  cases hx : unpackAux (data.length + 1) data [] with
  | error e =>
    intro hh
    injection hh with hh; subst hh
    exact h hx
  | ok x => intro hh; cases hh

end PyatvModel.C04.Opack
