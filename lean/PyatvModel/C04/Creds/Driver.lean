import PyatvModel.Base.Bytes
import PyatvModel.C04.Creds.Model
/-
Line protocol (credentials):
  `s <hex> <hex> <hex> <hex>`  → `<type> <str(c)>`  | `err:InvalidCredentialsError` (constructor)
  `p <cp,cp,…>`                → `ok <hex> <hex> <hex> <hex> <type>` | `err:<class>`
  `pn`                         → the same for `parse_credentials(None)`
strings cross as comma-separated code points (`-` = empty); error classes by Python
`__name__`: InvalidCredentialsError, Error (= binascii.Error), ValueError.
-/
namespace PyatvModel.C04.Creds

def AuthType.toStr : AuthType → String
  | .null => "Null" | .transient => "Transient" | .legacy => "Legacy" | .hap => "HAP"

def Err.toStr : Err → String
  | .invalidCredentials => "err:InvalidCredentialsError"
  | .binascii => "err:Error"
  | .valueError => "err:ValueError"

def showParsed : Except Err Creds → String
  | .error e => e.toStr
  | .ok c =>
    match authType c with
    | some t => s!"ok {toHex c.ltpk} {toHex c.ltsk} {toHex c.atvId} {toHex c.clientId} {t.toStr}"
    | none => "err:InvalidCredentialsError"

def chars? (s : String) : Option (List Char) := do
  let ns ← csvNats? s
  if ns.all (fun n => n < 0x110000 ∧ ¬ (0xD800 ≤ n ∧ n < 0xE000)) then some (ns.map Char.ofNat) else none

def handle (_ : Unit) (ws : List String) : Unit × String :=
  match ws with
  | ["s", a, b, c, d] =>
    match ofHex? a, ofHex? b, ofHex? c, ofHex? d with
    | some a, some b, some c, some d =>
      match mkCreds a b c d, authType ⟨a, b, c, d⟩ with
      | .ok cr, some t => ((), s!"{t.toStr} {String.ofList (toStr cr)}")
      | _, _ => ((), "err:InvalidCredentialsError")
    | _, _, _, _ => ((), "bad-op")
  | ["p", s] =>
    match chars? s with
    | some cs => ((), showParsed (parseCreds (some cs)))
    | none => ((), "bad-op")
  | ["pn"] => ((), showParsed (parseCreds none))
  | _ => ((), "bad-op")

end PyatvModel.C04.Creds
