import PyatvModel.Base.Bytes
/-
C04/credential strings — model of `pyatv/auth/hap_pairing.py`:
`HapCredentials.__init__/_get_auth_type` (:36-70), `__str__` (:83-92), `parse_credentials`
(:131-153).

    __str__:  ":".join([hexlify(ltpk), hexlify(ltsk), hexlify(atv_id), hexlify(client_id)])
    parse_credentials(s):
        if s is None: return NO_CREDENTIALS
        split = s.split(":")
        if len(split) == 2:  client_id = unhexlify(split[0]); ltsk = unhexlify(split[1])
                             return HapCredentials(b"", ltsk, b"", client_id)
        if len(split) == 4:  ltpk, ltsk, atv_id, client_id = map(unhexlify, split)   (in order)
                             return HapCredentials(ltpk, ltsk, atv_id, client_id)
        raise InvalidCredentialsError
    HapCredentials(...) raises InvalidCredentialsError unless `_get_auth_type` finds a type.

Strings are lists of characters.  `hexlify` is `PyatvModel.hexOfByte` per byte (lower case);
`unhexlify(str)` is: ValueError for a non-ASCII character, binascii.Error for an odd length
or a non-hex digit (both cases of letters accepted) — `PyatvModel.ofHexChars?`.
-/
namespace PyatvModel.C04.Creds

structure Creds where
  ltpk : Bytes
  ltsk : Bytes
  atvId : Bytes
  clientId : Bytes
  deriving DecidableEq, Repr

inductive AuthType | null | transient | legacy | hap
  deriving DecidableEq, Repr

inductive Err | invalidCredentials | binascii | valueError
  deriving DecidableEq, Repr

/-- b"transient" -/
def transientTag : Bytes := [0x74, 0x72, 0x61, 0x6e, 0x73, 0x69, 0x65, 0x6e, 0x74]

/-- `_get_auth_type`; `none` = raises InvalidCredentialsError("invalid credentials type") -/
def authType (c : Creds) : Option AuthType :=
  if c.ltpk = [] ∧ c.ltsk = [] ∧ c.atvId = [] ∧ c.clientId = [] then some .null
  else if c.ltpk = transientTag then some .transient
  else if c.ltpk = [] ∧ c.ltsk ≠ [] ∧ c.atvId = [] ∧ c.clientId ≠ [] then some .legacy
  else if c.ltpk ≠ [] ∧ c.ltsk ≠ [] ∧ c.atvId ≠ [] ∧ c.clientId ≠ [] then some .hap
  else none

/-- the constructor -/
def mkCreds (ltpk ltsk atvId clientId : Bytes) : Except Err Creds :=
  let c : Creds := ⟨ltpk, ltsk, atvId, clientId⟩
  match authType c with
  | some _ => .ok c
  | none => .error .invalidCredentials

/-- `binascii.hexlify(b).decode("utf-8")` -/
def hex (b : Bytes) : List Char := b.flatMap hexOfByte

/-- `binascii.unhexlify(s)` for a `str` argument -/
def unhex (s : List Char) : Except Err Bytes :=
  if s.any (fun c => c.toNat ≥ 128) then .error .valueError
  else match ofHexChars? s with
    | some b => .ok b
    | none => .error .binascii

/-- `__str__` -/
def toStr (c : Creds) : List Char :=
  hex c.ltpk ++ ':' :: (hex c.ltsk ++ ':' :: (hex c.atvId ++ ':' :: hex c.clientId))

/-- `s.split(":")` -/
def splitColon : List Char → List (List Char)
  | [] => [[]]
  | c :: cs =>
    if c = ':' then [] :: splitColon cs
    else match splitColon cs with
      | h :: t => (c :: h) :: t
      | [] => [[c]]

/-- `parse_credentials`; `none` argument = Python `None` -/
def parseCreds : Option (List Char) → Except Err Creds
  | none => .ok ⟨[], [], [], []⟩
  | some s =>
    match splitColon s with
    | [s0, s1] => do
        let clientId ← unhex s0
        let ltsk ← unhex s1
        mkCreds [] ltsk [] clientId
    | [s0, s1, s2, s3] => do
        let ltpk ← unhex s0
        let ltsk ← unhex s1
        let atvId ← unhex s2
        let clientId ← unhex s3
        mkCreds ltpk ltsk atvId clientId
    | _ => .error .invalidCredentials

end PyatvModel.C04.Creds
