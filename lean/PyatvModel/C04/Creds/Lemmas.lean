import PyatvModel.C04.Creds.Model
/-
C04/credentials — helper lemmas: hex digits are ASCII, never ':', and decode to themselves;
hex round trip for every byte string; `split(":")` of colon-free pieces joined by ':'.
-/
namespace PyatvModel.C04.Creds
open PyatvModel

theorem hexVal_hexDigit : ∀ n, n < 16 → hexVal? (hexDigit n) = some n := by decide
theorem hexDigit_ascii : ∀ n, n < 16 → (hexDigit n).toNat < 128 := by decide
theorem hexDigit_ne_colon : ∀ n, n < 16 → hexDigit n ≠ ':' := by decide

theorem byte_split (b : UInt8) : UInt8.ofNat (b.toNat / 16 * 16 + b.toNat % 16) = b := by
  have : b.toNat / 16 * 16 + b.toNat % 16 = b.toNat := by omega
  rw [this]; exact UInt8.ofNat_toNat

theorem nibbles (b : UInt8) : b.toNat / 16 < 16 ∧ b.toNat % 16 < 16 := by
  have := UInt8.toNat_lt b; omega

theorem ofHexChars_hex (b : Bytes) : ofHexChars? (hex b) = some b := by
  induction b with
  | nil => rfl
  | cons x xs ih =>
    have h1 := hexVal_hexDigit _ (nibbles x).1
    have h2 := hexVal_hexDigit _ (nibbles x).2
    simp only [hex, List.flatMap_cons, hexOfByte, List.cons_append, List.nil_append] at ih ⊢
    simp only [ofHexChars?, h1, h2, ih]
    change some (UInt8.ofNat (x.toNat / 16 * 16 + x.toNat % 16) :: xs) = some (x :: xs)
    rw [byte_split]

theorem hex_ascii (b : Bytes) : ∀ c ∈ hex b, c.toNat < 128 := by
  induction b with
  | nil => intro c hc; simp [hex] at hc
  | cons x xs ih =>
    intro c hc
    simp only [hex, List.flatMap_cons, hexOfByte, List.mem_append, List.mem_cons, List.not_mem_nil, or_false] at hc
    rcases hc with (rfl | rfl) | hc
    · exact hexDigit_ascii _ (nibbles x).1
    · exact hexDigit_ascii _ (nibbles x).2
    · exact ih c hc

theorem hex_no_colon (b : Bytes) : ':' ∉ hex b := by
  induction b with
  | nil => simp [hex]
  | cons x xs ih =>
    simp only [hex, List.flatMap_cons, hexOfByte, List.mem_append, List.mem_cons, List.not_mem_nil, or_false, not_or]
    exact ⟨⟨fun h => hexDigit_ne_colon _ (nibbles x).1 h.symm, fun h => hexDigit_ne_colon _ (nibbles x).2 h.symm⟩, ih⟩

/-- hex round trip, every byte string -/
theorem unhex_hex (b : Bytes) : unhex (hex b) = .ok b := by
  have hany : (hex b).any (fun c => decide (c.toNat ≥ 128)) = false := by
    rw [List.any_eq_false]
    intro c hc
    have := hex_ascii b c hc
    simp; omega
  simp only [unhex, hany, ofHexChars_hex]
  rfl

theorem splitColon_ne_nil (s : List Char) : splitColon s ≠ [] := by
  induction s with
  | nil => simp [splitColon]
  | cons c cs ih =>
    simp only [splitColon]
    split
    · simp
    · split <;> simp

theorem splitColon_free (a : List Char) (h : ':' ∉ a) : splitColon a = [a] := by
  induction a with
  | nil => rfl
  | cons c cs ih =>
    simp only [List.mem_cons, not_or] at h
    have hc : ¬ c = ':' := fun e => h.1 e.symm
    simp [splitColon, hc, ih h.2]

theorem splitColon_join (a b : List Char) (h : ':' ∉ a) :
    splitColon (a ++ ':' :: b) = a :: splitColon b := by
  induction a with
  | nil => simp [splitColon]
  | cons c cs ih =>
    simp only [List.mem_cons, not_or] at h
    have hc : ¬ c = ':' := fun e => h.1 e.symm
    simp [splitColon, hc, ih h.2]

end PyatvModel.C04.Creds
