import PyatvModel.Base.Bytes
import PyatvModel.C04.Datastream.Model
/-
Line protocol (data-stream messages):
  `enc <mt> <cmd> <seqno> <pad> <payload>`  → hex | `err:error`            (struct.error)
  `reply <seqno>`                           → hex | `err:error`
  `dec <hex>`    → `need` | `err:ProtocolError` | `msg <mt>:<cmd>:<seqno>:<pad>:<payload> <consumed> <rest>`
  `recv <hex>`   → `ok|raise:ProtocolError <buffer left> <payload,payload,…|none> <reply seqno,…|none>`
                   (handle_received: payloads handed on in order, a reply per `sync` message)
-/
namespace PyatvModel.C04.Datastream

def showMsg (m : Msg) : String :=
  s!"{toHex m.messageType}:{toHex m.command}:{m.seqno}:{m.padding}:{toHex m.payload}"

def isSync (m : Msg) : Bool := m.messageType.take 4 == [0x73, 0x79, 0x6e, 0x63]

def handle (_ : Unit) (ws : List String) : Unit × String :=
  match ws with
  | ["enc", mt, cmd, seqno, pad, payload] =>
    match ofHex? mt, ofHex? cmd, seqno.toNat?, pad.toNat?, ofHex? payload with
    | some mt, some cmd, some seqno, some pad, some payload =>
      match encodeMessage ⟨mt, cmd, seqno, pad, payload⟩ with
      | some bs => ((), toHex bs)
      | none => ((), "err:error")
    | _, _, _, _, _ => ((), "bad-op")
  | ["reply", seqno] =>
    match seqno.toNat? with
    | some n =>
      match encodeReply n with
      | some bs => ((), toHex bs)
      | none => ((), "err:error")
    | none => ((), "bad-op")
  | ["dec", h] =>
    match ofHex? h with
    | some bs =>
      match decodeMessage bs with
      | .need => ((), "need")
      | .protocolError => ((), "err:ProtocolError")
      | .msg m raw rest => ((), s!"msg {showMsg m} {raw.length} {toHex rest}")
    | none => ((), "bad-op")
  | ["recv", h] =>
    match ofHex? h with
    | some bs =>
      let (ms, left, e) := handleReceived bs
      let payloads := if ms.isEmpty then "none" else String.intercalate "," (ms.map (fun m => toHex m.payload))
      let syncs := ms.filter isSync
      let replies := if syncs.isEmpty then "none" else String.intercalate "," (syncs.map (fun m => toString m.seqno))
      ((), s!"{if e then "raise:ProtocolError" else "ok"} {toHex left} {payloads} {replies}")
    | none => ((), "bad-op")
  | _ => ((), "bad-op")

end PyatvModel.C04.Datastream
