import PyatvModel.C04.Datastream.Model
import PyatvModel.C04.Headers.Lemmas
/-
C04/data-stream messages — helper lemmas: the domain, one message decodes from the front of
any buffer, and the buffer loop takes a sequence of messages one by one.
-/
namespace PyatvModel.C04.Datastream
open PyatvModel.C04.Headers

/-- the domain: what `DataStreamMessage` values `encode_message` accepts without padding or
    truncating (12-byte type, 4-byte command, 64-bit seqno, 32-bit padding) and whose total
    size fits the 32-bit size field.  The payload may have ANY length, including 0. -/
def Msg.Ok (m : Msg) : Prop :=
  m.messageType.length = 12 ∧ m.command.length = 4 ∧ m.seqno < 256 ^ 8 ∧ m.padding < 256 ^ 4
    ∧ hdrLen + m.payload.length < 256 ^ 4

instance (m : Msg) : Decidable m.Ok := by unfold Msg.Ok; infer_instance

theorem width_hdr : width hdr = 32 := by decide

theorem decode_encode (m : Msg) (hok : m.Ok) :
    ∃ bs, encodeMessage m = some bs ∧ bs.length = hdrLen + m.payload.length ∧
      ∀ rest, decodeMessage (bs ++ rest) = .msg m bs rest := by
  obtain ⟨hmt, hcmd, hseq, hpad, hsize⟩ := hok
  have hfits : Fits hdr [.int (hdrLen + m.payload.length), .bytes m.messageType, .bytes m.command,
      .int m.seqno, .int m.padding] := ⟨hsize, hmt, hcmd, hseq, hpad, trivial⟩
  obtain ⟨h, he, hl, hd⟩ := enc_decFields hdr _ hfits
  have hlen : h.length = 32 := by rw [hl, width_hdr]
  refine ⟨h ++ m.payload, by simp [encodeMessage, he], by simp [hlen, hdrLen], ?_⟩
  intro rest
  have h1 : ¬ (h ++ m.payload ++ rest).length < hdrLen := by simp [hdrLen, hlen]
  have htake : (h ++ m.payload ++ rest).take 32 = h := by
    rw [List.append_assoc, ← hlen, List.take_left]
  have h2 : decExcess hdr (h ++ m.payload ++ rest)
      = some [.int (hdrLen + m.payload.length), .bytes m.messageType, .bytes m.command,
          .int m.seqno, .int m.padding] := by
    have := hd []
    rw [List.append_nil] at this
    simp [decExcess, dec, width_hdr, hlen, this]
  have h3 : ¬ (hdrLen + m.payload.length < hdrLen) := by omega
  have h4 : ¬ ((h ++ m.payload ++ rest).length < hdrLen + m.payload.length) := by
    simp [hdrLen, hlen]
  have h5 : (h ++ m.payload ++ rest).take (hdrLen + m.payload.length) = h ++ m.payload := by
    have : hdrLen + m.payload.length = (h ++ m.payload).length := by simp [hlen, hdrLen]
    rw [this, List.take_left]
  have h6 : (h ++ m.payload ++ rest).drop (hdrLen + m.payload.length) = rest := by
    have : hdrLen + m.payload.length = (h ++ m.payload).length := by simp [hlen, hdrLen]
    rw [this, List.drop_left]
  have h7 : (h ++ m.payload).drop hdrLen = m.payload := by
    have : hdrLen = h.length := by simp [hlen, hdrLen]
    rw [this, List.drop_left]
  simp only [decodeMessage, h1, if_false, h2, h3, h4, h5, h6, h7]

theorem drain_step (m : Msg) (hok : m.Ok) (bs : Bytes) (he : encodeMessage m = some bs)
    (rest : Bytes) (fuel : Nat) :
    drain (fuel + 1) (bs ++ rest) = ((m :: (drain fuel rest).1), (drain fuel rest).2.1, (drain fuel rest).2.2) := by
  obtain ⟨bs', he', hl, hd⟩ := decode_encode m hok
  rw [he] at he'; cases he'
  have h1 : ¬ (bs ++ rest).length < hdrLen := by simp [hl]; omega
  simp only [drain, h1, if_false, hd rest]

/-- a sequence of encoded messages followed by an incomplete tail -/
theorem drain_all (ms : List (Msg × Bytes)) (tail : Bytes)
    (hms : ∀ p ∈ ms, p.1.Ok ∧ encodeMessage p.1 = some p.2)
    (htail : decodeMessage tail = .need) :
    ∀ fuel, ms.length < fuel →
      drain fuel ((ms.map (·.2)).flatten ++ tail) = (ms.map (·.1), tail, false) := by
  induction ms with
  | nil =>
    intro fuel hf
    cases fuel with
    | zero => omega
    | succ f =>
      simp only [List.map_nil, List.flatten_nil, List.nil_append, drain, htail]
      split <;> rfl
  | cons p ps ih =>
    intro fuel hf
    cases fuel with
    | zero => omega
    | succ f =>
      obtain ⟨hok, he⟩ := hms p (by simp)
      have := ih (fun q hq => hms q (by simp [hq])) f (by simpa using hf)
      simp only [List.map_cons, List.flatten_cons, List.append_assoc]
      rw [drain_step p.1 hok p.2 he, this]

end PyatvModel.C04.Datastream
