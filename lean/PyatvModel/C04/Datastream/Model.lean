import PyatvModel.Base.Bytes
import PyatvModel.C04.Headers.Model
/-
C04/data-stream messages — model of the whole-message codec above the fixed data-stream
header, `pyatv/protocols/airplay/channels.py`:
`BaseDataStreamChannel.encode_message` (:133-145), `encode_reply` (:163-173),
`decode_message` (:175-203) and the buffer loop of `DataStreamChannel.handle_received`
(:258-272).

    encode_message(m) = DataHeader.encode(DataHeader.length + len(m.payload), m.message_type,
                                          m.command, m.seqno, m.padding) + m.payload
    encode_reply(seqno) = encode_message(DataStreamMessage(b"rply" + 8*b"\0", 4*b"\0", seqno, 0, b""))
    decode_message(data):
        if len(data) < DataHeader.length: return None, b"", data
        header = DataHeader.decode(data, allow_excessive=True)
        if header.size < DataHeader.length: raise ProtocolError
        if len(data) < header.size: return None, b"", data
        return (DataStreamMessage(header.message_type, header.command, header.seqno, header.padding,
                                  data[DataHeader.length : header.size]),
                data[: header.size], data[header.size :])
    handle_received:
        while len(self.buffer) >= DataHeader.length:
            message, _, self.buffer = self.decode_message(self.buffer)
            if not message: break
            … decode payload, dispatch; if message.message_type.startswith(b"sync"): send(encode_reply(seqno))

The header layout `hdr` is the regenerated `Gen.C04Headers.DataHeader` (theorem `hdr_is_gen`);
header encode/decode are `PyatvModel.C04.Headers.enc/decExcess` (struct semantics).  An
exception of `decode_message` escapes `handle_received` with the buffer unchanged.
-/
namespace PyatvModel.C04.Datastream
open PyatvModel.C04.Headers

structure Msg where
  messageType : Bytes
  command : Bytes
  seqno : Nat
  padding : Nat
  payload : Bytes
  deriving DecidableEq, Repr

/-- the data-stream header layout, `>I12s4sQI` -/
def hdr : Layout := [.uint 4, .raw 12, .raw 4, .uint 8, .uint 4]

/-- `DataHeader.length` -/
def hdrLen : Nat := 32

/-- `encode_message`; `none` = struct.error -/
def encodeMessage (m : Msg) : Option Bytes :=
  match enc hdr [.int (hdrLen + m.payload.length), .bytes m.messageType, .bytes m.command,
                 .int m.seqno, .int m.padding] with
  | some h => some (h ++ m.payload)
  | none => none

def rply : Bytes := [0x72, 0x70, 0x6c, 0x79, 0, 0, 0, 0, 0, 0, 0, 0]

/-- `encode_reply` -/
def encodeReply (seqno : Nat) : Option Bytes :=
  encodeMessage ⟨rply, [0, 0, 0, 0], seqno, 0, []⟩

inductive Res
  | need                                        -- (None, b"", data)
  | protocolError                               -- raise ProtocolError
  | msg (m : Msg) (raw : Bytes) (rest : Bytes)
  deriving DecidableEq, Repr

/-- `decode_message` -/
def decodeMessage (data : Bytes) : Res :=
  if data.length < hdrLen then .need
  else
    match decExcess hdr data with
    | some [.int size, .bytes mt, .bytes cmd, .int seqno, .int pad] =>
      if size < hdrLen then .protocolError
      else if data.length < size then .need
      else .msg ⟨mt, cmd, seqno, pad, (data.take size).drop hdrLen⟩ (data.take size) (data.drop size)
    | _ => .protocolError   -- not reachable: `hdr` always yields this shape

/-- the loop of `handle_received`: messages taken from the buffer, what stays in the buffer,
    and whether `decode_message` raised (the buffer is then left as it was) -/
def drain : Nat → Bytes → List Msg × Bytes × Bool
  | 0, buf => ([], buf, false)
  | fuel + 1, buf =>
    if buf.length < hdrLen then ([], buf, false)
    else
      match decodeMessage buf with
      | .need => ([], buf, false)
      | .protocolError => ([], buf, true)
      | .msg m _ rest =>
        let (ms, left, e) := drain fuel rest
        (m :: ms, left, e)

/-- `handle_received` on a buffer (every message consumes ≥ 32 bytes) -/
def handleReceived (buf : Bytes) : List Msg × Bytes × Bool := drain (buf.length + 1) buf

end PyatvModel.C04.Datastream
