import Mathlib.Tactic.Linarith
import Mathlib.Tactic.NormNum
import Mathlib.Tactic.FieldSimp
import Mathlib.Tactic.Positivity
import Mathlib.Tactic.Ring
import Mathlib.Algebra.Order.Field.Rat
import PyatvModel.C20.Model
/-
C20 helper lemmas: the constants the proofs depend on, the laws demanded of a rounding
function, bounds and monotonicity of the rounded linear map, the system invariants.
-/
namespace PyatvModel.C20
open PyatvModel.Gen.C20

/-! ### the extracted constants (the only place their values are used) -/

theorem dbfsMin_eq : dbfsMin = -30 := by norm_num [dbfsMin]
theorem dbfsMax_eq : dbfsMax = 0 := by norm_num [dbfsMax]
theorem pctMin_eq : pctMin = 0 := by norm_num [pctMin]
theorem pctMax_eq : pctMax = 100 := by norm_num [pctMax]
theorem muteDbfs_eq : muteDbfs = -144 := by norm_num [muteDbfs]
theorem muteLevel_eq : muteLevel = 0 := by norm_num [muteLevel]
theorem relTol_pos : 0 < iscloseRelTol := by norm_num [iscloseRelTol]
theorem relTol_lt_one : iscloseRelTol < 1 := by norm_num [iscloseRelTol]
theorem absTol_eq : iscloseAbsTol = 0 := by norm_num [iscloseAbsTol]
theorem raopInitial_eq : raopInitialVolume = 33 := by norm_num [raopInitialVolume]
theorem raopUpStep_eq : raopUpStep = 5 := by norm_num [raopUpStep]
theorem raopUpBound_eq : raopUpBound = 100 := by norm_num [raopUpBound]
theorem raopDownStep_eq : raopDownStep = 5 := by norm_num [raopDownStep]
theorem raopDownBound_eq : raopDownBound = 0 := by norm_num [raopDownBound]
theorem mrpUpStep_eq : mrpUpStep = 5 := by norm_num [mrpUpStep]
theorem mrpUpBound_eq : mrpUpBound = 100 := by norm_num [mrpUpBound]
theorem mrpDownStep_eq : mrpDownStep = 5 := by norm_num [mrpDownStep]
theorem mrpDownBound_eq : mrpDownBound = 0 := by norm_num [mrpDownBound]
theorem facadeReadLo_eq : facadeReadLo = 0 := by norm_num [facadeReadLo]
theorem facadeReadHi_eq : facadeReadHi = 100 := by norm_num [facadeReadHi]
theorem facadeSetLo_eq : facadeSetLo = 0 := by norm_num [facadeSetLo]
theorem facadeSetHi_eq : facadeSetHi = 100 := by norm_num [facadeSetHi]

/-! ### what is demanded of a rounding function -/

/-- monotone, and exact on the constants the volume path computes with (all of them are
    binary64 numbers: 0, 1, 30 = DBFS_MAX - DBFS_MIN, 100, 3000 = 30 * 100, -30) -/
structure RoundingLaws (rnd : Rat → Rat) : Prop where
  mono : ∀ a b, a ≤ b → rnd a ≤ rnd b
  fix0 : rnd 0 = 0
  fix1 : rnd 1 = 1
  fix30 : rnd 30 = 30
  fix100 : rnd 100 = 100
  fix3000 : rnd 3000 = 3000
  fixNeg30 : rnd (-30) = -30

theorem roundingLaws_id : RoundingLaws id :=
  ⟨fun _ _ h => h, rfl, rfl, rfl, rfl, rfl, rfl⟩

/-- the driver's binary64 rounding is exact on the constants (monotonicity of IEEE
    round-to-nearest is part of the trusted base, DESIGN §7) -/
theorem rne_fixes_constants :
    rne 0 = 0 ∧ rne 1 = 1 ∧ rne 30 = 30 ∧ rne 100 = 100 ∧ rne 3000 = 3000 ∧ rne (-30) = -30
      ∧ rne 5 = 5 ∧ rne 33 = 33 ∧ rne (-144) = -144 := by
  decide +kernel

theorem RoundingLaws.between {rnd : Rat → Rat} (h : RoundingLaws rnd) {lo hi x : Rat}
    (hlo : rnd lo = lo) (hhi : rnd hi = hi) (h1 : lo ≤ x) (h2 : x ≤ hi) :
    lo ≤ rnd x ∧ rnd x ≤ hi :=
  ⟨hlo ▸ h.mono _ _ h1, hhi ▸ h.mono _ _ h2⟩

/-! ### IEEE comparisons -/

@[simp] theorem le_fin_fin (a b : Rat) : FVal.le (.fin a) (.fin b) = decide (a ≤ b) := rfl
@[simp] theorem lt_fin_fin (a b : Rat) : FVal.lt (.fin a) (.fin b) = decide (a < b) := rfl

@[simp] theorem inRangeF_fin (lo hi q : Rat) : inRangeF lo hi (.fin q) = true ↔ lo ≤ q ∧ q ≤ hi := by
  simp [inRangeF]

theorem inRangeF_true {lo hi : Rat} {x : FVal} (h : inRangeF lo hi x = true) :
    ∃ q, x = .fin q ∧ lo ≤ q ∧ q ≤ hi := by
  cases x with
  | fin q => exact ⟨q, rfl, (inRangeF_fin lo hi q).mp h⟩
  | nan => simp [inRangeF, FVal.le] at h
  | ninf => simp [inRangeF, FVal.le] at h
  | pinf => simp [inRangeF, FVal.le] at h

theorem absQ_eq_abs (q : Rat) : absQ q = |q| := by
  unfold absQ
  split
  · rw [abs_of_neg ‹_›]
  · rw [abs_of_nonneg (not_lt.mp ‹_›)]

/-- `math.isclose(x, 0.0)` with default tolerances holds for `x = 0` only -/
theorem isClose_mute_iff (q : Rat) : isClose q muteLevel = true ↔ q = 0 := by
  unfold isClose
  rw [muteLevel_eq, absTol_eq]
  simp only [absQ_eq_abs, mul_zero, abs_zero, zero_sub, abs_neg, Bool.or_eq_true, decide_eq_true_eq,
    abs_nonpos_iff, abs_mul]
  constructor
  · rintro (h | (h | h) | h)
    · exact h
    · exact h
    · by_contra hq
      have hpos : 0 < |q| := abs_pos.mpr hq
      have : |iscloseRelTol| * |q| < 1 * |q| := by
        apply mul_lt_mul_of_pos_right _ hpos
        rw [abs_of_pos relTol_pos]; exact relTol_lt_one
      linarith
    · exact h
  · intro h; exact Or.inl h

/-! ### the rounded linear map -/

section
variable {rnd : Rat → Rat}

theorem mapArith_id (v a b c d : Rat) : mapArith id v a b c d = (v - a) * (d - c) / (b - a) + c := rfl

/-- percent → dBFS lands in [-30, 0] under any lawful rounding -/
theorem mapArith_p2d_bounds (h : RoundingLaws rnd) {p : Rat} (h0 : 0 ≤ p) (h1 : p ≤ 100) :
    -30 ≤ mapArith rnd p 0 100 (-30) 0 ∧ mapArith rnd p 0 100 (-30) 0 ≤ 0 := by
  unfold mapArith
  have e1 : (0 : Rat) - -30 = 30 := by norm_num
  have e2 : (100 : Rat) - 0 = 100 := by norm_num
  rw [sub_zero, e1, e2, h.fix30, h.fix100]
  obtain ⟨a0, a1⟩ := h.between h.fix0 h.fix100 h0 h1
  have b0 : (0 : Rat) ≤ rnd p * 30 := by positivity
  have b1 : rnd p * 30 ≤ 3000 := by linarith
  obtain ⟨b0', b1'⟩ := h.between h.fix0 h.fix3000 b0 b1
  have c0 : (0 : Rat) ≤ rnd (rnd p * 30) / 100 := by positivity
  have c1 : rnd (rnd p * 30) / 100 ≤ 30 := by
    rw [div_le_iff₀ (by norm_num)]; linarith
  obtain ⟨c0', c1'⟩ := h.between h.fix0 h.fix30 c0 c1
  exact h.between h.fixNeg30 h.fix0 (by linarith) (by linarith)

/-- dBFS → percent lands in [0, 100] under any lawful rounding -/
theorem mapArith_d2p_bounds (h : RoundingLaws rnd) {d : Rat} (h0 : -30 ≤ d) (h1 : d ≤ 0) :
    0 ≤ mapArith rnd d (-30) 0 0 100 ∧ mapArith rnd d (-30) 0 0 100 ≤ 100 := by
  unfold mapArith
  have e1 : (0 : Rat) - -30 = 30 := by norm_num
  have e2 : (100 : Rat) - 0 = 100 := by norm_num
  rw [e1, e2, h.fix30, h.fix100, add_zero]
  obtain ⟨a0, a1⟩ := h.between h.fix0 h.fix30 (show (0 : Rat) ≤ d - -30 by linarith) (show d - -30 ≤ 30 by linarith)
  have b0 : (0 : Rat) ≤ rnd (d - -30) * 100 := by positivity
  have b1 : rnd (d - -30) * 100 ≤ 3000 := by linarith
  obtain ⟨b0', b1'⟩ := h.between h.fix0 h.fix3000 b0 b1
  have c0 : (0 : Rat) ≤ rnd (rnd (d - -30) * 100) / 30 := by positivity
  have c1 : rnd (rnd (d - -30) * 100) / 30 ≤ 100 := by
    rw [div_le_iff₀ (by norm_num)]; linarith
  obtain ⟨c0', c1'⟩ := h.between h.fix0 h.fix100 c0 c1
  exact h.between h.fix0 h.fix100 c0' c1'

/-- the rounded map is (weakly) monotone in the value -/
theorem mapArith_mono (hm : ∀ a b, a ≤ b → rnd a ≤ rnd b) {a b c d : Rat}
    (hs : 0 ≤ rnd (d - c)) (hi : 0 < rnd (b - a)) {v w : Rat} (hvw : v ≤ w) :
    mapArith rnd v a b c d ≤ mapArith rnd w a b c d := by
  unfold mapArith
  apply hm
  have h1 : rnd (v - a) ≤ rnd (w - a) := hm _ _ (by linarith)
  have h2 : rnd (rnd (v - a) * rnd (d - c)) ≤ rnd (rnd (w - a) * rnd (d - c)) :=
    hm _ _ (mul_le_mul_of_nonneg_right h1 hs)
  have h3 : rnd (rnd (rnd (v - a) * rnd (d - c)) / rnd (b - a)) ≤ rnd (rnd (rnd (w - a) * rnd (d - c)) / rnd (b - a)) :=
    hm _ _ (div_le_div_of_nonneg_right h2 hi.le)
  linarith

/-! ### the two conversions, unfolded -/

theorem pctToDbfs_zero : pctToDbfs rnd 0 = .ok (-144) := by
  unfold pctToDbfs
  rw [if_pos ((isClose_mute_iff 0).mpr rfl), muteDbfs_eq]

theorem pctToDbfs_of_ne (h : RoundingLaws rnd) {p : Rat} (hp : p ≠ 0) :
    pctToDbfs rnd p =
      if 0 ≤ p ∧ p ≤ 100 then .ok (mapArith rnd p 0 100 (-30) 0) else .error .value := by
  unfold pctToDbfs
  have hc : ¬ isClose p muteLevel = true := fun hc => hp ((isClose_mute_iff p).mp hc)
  rw [if_neg hc]
  unfold mapRange
  rw [pctMin_eq, pctMax_eq, dbfsMin_eq, dbfsMax_eq]
  have e1 : (0 : Rat) - -30 = 30 := by norm_num
  have e2 : (100 : Rat) - 0 = 100 := by norm_num
  rw [e1, e2, h.fix30, h.fix100]
  by_cases hr : 0 ≤ p ∧ p ≤ 100
  · norm_num [hr]
  · norm_num [hr]

theorem dbfsToPct_of_lt {d : Rat} (hd : d < -30) : dbfsToPct rnd d = .ok 0 := by
  unfold dbfsToPct
  rw [dbfsMin_eq, if_pos hd, pctMin_eq]

theorem dbfsToPct_of_ge (h : RoundingLaws rnd) {d : Rat} (hd : -30 ≤ d) :
    dbfsToPct rnd d = if d ≤ 0 then .ok (mapArith rnd d (-30) 0 0 100) else .error .value := by
  unfold dbfsToPct
  rw [dbfsMin_eq, if_neg (not_lt.mpr hd)]
  unfold mapRange
  rw [pctMin_eq, pctMax_eq, dbfsMax_eq]
  have e1 : (0 : Rat) - -30 = 30 := by norm_num
  have e2 : (100 : Rat) - 0 = 100 := by norm_num
  rw [e1, e2, h.fix30, h.fix100]
  by_cases h0 : d ≤ 0
  · norm_num [hd, h0]
  · norm_num [h0]

/-! ### float-class versions agree with the finite ones -/

theorem mapRangeF_fin (q a b c d : Rat) :
    mapRangeF rnd (.fin q) a b c d = (mapRange rnd q a b c d).map .fin := by
  unfold mapRangeF mapRange
  by_cases h1 : rnd (b - a) ≤ 0
  · simp [h1, Except.map]
  · by_cases h2 : rnd (d - c) ≤ 0
    · simp [h1, h2, Except.map]
    · by_cases h3 : a ≤ q ∧ q ≤ b
      · have : inRangeF a b (.fin q) = true := (inRangeF_fin a b q).mpr h3
        simp [h1, h2, h3, this, Except.map]
      · have : inRangeF a b (.fin q) = false := by
          rw [Bool.eq_false_iff]; exact fun hh => h3 ((inRangeF_fin a b q).mp hh)
        simp [h1, h2, h3, this, Except.map]

/-- `map_range` never returns for NaN or an infinity: a result means a finite argument -/
theorem mapRangeF_ok_fin {x y : FVal} {a b c d : Rat} (hy : mapRangeF rnd x a b c d = .ok y) :
    ∃ q, x = .fin q ∧ a ≤ q ∧ q ≤ b := by
  unfold mapRangeF at hy
  split at hy
  · cases hy
  · split at hy
    · cases hy
    · split at hy
      · cases hy
      · rename_i hr
        simp only [Bool.not_eq_true', Bool.not_eq_false] at hr
        exact inRangeF_true (by simpa using hr)

/-- NaN and the infinities fail `in_min <= value <= in_max`: ValueError -/
theorem mapRangeF_not_inRange {x : FVal} {a b c d : Rat} (hx : inRangeF a b x = false) :
    mapRangeF rnd x a b c d = .error .value := by
  unfold mapRangeF
  split
  · rfl
  · split
    · rfl
    · simp [hx]

theorem pctToDbfsF_fin (q : Rat) : pctToDbfsF rnd (.fin q) = (pctToDbfs rnd q).map .fin := by
  unfold pctToDbfsF pctToDbfs isCloseF
  by_cases h : isClose q muteLevel = true
  · simp [h, Except.map]
  · simp [h, mapRangeF_fin]

theorem dbfsToPctF_fin (q : Rat) : dbfsToPctF rnd (.fin q) = (dbfsToPct rnd q).map .fin := by
  unfold dbfsToPctF dbfsToPct
  by_cases h : q < dbfsMin
  · simp [h, Except.map]
  · simp [h, mapRangeF_fin]

theorem pctToDbfsF_ok_fin {x y : FVal} (hy : pctToDbfsF rnd x = .ok y) : ∃ q, x = .fin q := by
  unfold pctToDbfsF at hy
  split at hy
  · rename_i hc
    cases x with
    | fin q => exact ⟨q, rfl⟩
    | nan => simp [isCloseF] at hc
    | ninf => simp [isCloseF] at hc
    | pinf => simp [isCloseF] at hc
  · obtain ⟨q, hq, _⟩ := mapRangeF_ok_fin hy
    exact ⟨q, hq⟩

/-! ### predicates of the system theorems -/

/-- a finite level within 0–100 -/
def InPct (x : FVal) : Prop := ∃ q, x = .fin q ∧ 0 ≤ q ∧ q ≤ 100

/-- a dBFS level AirPlay accepts: the mute sentinel or within [-30, 0] -/
def GoodDbfs (x : FVal) : Prop := ∃ q, x = .fin q ∧ (q = -144 ∨ (-30 ≤ q ∧ q ≤ 0))

/-- a normalised level within 0–1 (what MRP puts on the wire) -/
def InUnit (x : FVal) : Prop := ∃ q, x = .fin q ∧ 0 ≤ q ∧ q ≤ 1

/-- what the property allows one observable event to be (`W` = the protocol's wire range) -/
def GoodEv (W : FVal → Prop) : Ev → Prop
  | .recv x => InPct x
  | .wire x => W x
  | .disp x => InPct x
  | .ret x => InPct x
  | .tried x => W x
  | .late x => W x
  | .key _ => True
  | .raised e => e = .protocol
  | .logged _ => True

theorem pctToDbfs_good (h : RoundingLaws rnd) {p d : Rat} (hd : pctToDbfs rnd p = .ok d) :
    (0 ≤ p ∧ p ≤ 100) ∧ (d = -144 ∨ (-30 ≤ d ∧ d ≤ 0)) := by
  by_cases hp : p = 0
  · subst hp
    rw [pctToDbfs_zero] at hd
    cases hd
    exact ⟨by norm_num, Or.inl rfl⟩
  · rw [pctToDbfs_of_ne h hp] at hd
    split at hd
    · rename_i hr
      cases hd
      exact ⟨hr, Or.inr (mapArith_p2d_bounds h hr.1 hr.2)⟩
    · cases hd

theorem pctToDbfs_ok (h : RoundingLaws rnd) {p : Rat} (h0 : 0 ≤ p) (h1 : p ≤ 100) :
    ∃ d, pctToDbfs rnd p = .ok d := by
  by_cases hp : p = 0
  · subst hp; exact ⟨_, pctToDbfs_zero⟩
  · rw [pctToDbfs_of_ne h hp, if_pos ⟨h0, h1⟩]; exact ⟨_, rfl⟩

theorem dbfsToPct_good (h : RoundingLaws rnd) {d : Rat} (hd : d ≤ 0) :
    ∃ p, dbfsToPct rnd d = .ok p ∧ 0 ≤ p ∧ p ≤ 100 := by
  by_cases hlt : d < -30
  · exact ⟨0, dbfsToPct_of_lt hlt, le_refl _, by norm_num⟩
  · rw [dbfsToPct_of_ge h (not_lt.mp hlt), if_pos hd]
    exact ⟨_, rfl, mapArith_d2p_bounds h (not_lt.mp hlt) hd⟩

theorem pctToDbfsF_good (h : RoundingLaws rnd) {x d : FVal} (hd : pctToDbfsF rnd x = .ok d) :
    InPct x ∧ GoodDbfs d := by
  obtain ⟨q, rfl⟩ := pctToDbfsF_ok_fin hd
  rw [pctToDbfsF_fin] at hd
  cases hq : pctToDbfs rnd q with
  | error e => rw [hq] at hd; cases hd
  | ok r =>
    rw [hq] at hd
    cases hd
    obtain ⟨hr, hg⟩ := pctToDbfs_good h hq
    exact ⟨⟨q, rfl, hr⟩, ⟨r, rfl, hg⟩⟩

theorem pctToDbfsF_ok (h : RoundingLaws rnd) {x : FVal} (hx : InPct x) :
    ∃ d, pctToDbfsF rnd x = .ok d ∧ GoodDbfs d := by
  obtain ⟨q, rfl, h0, h1⟩ := hx
  obtain ⟨d, hd⟩ := pctToDbfs_ok h h0 h1
  have : pctToDbfsF rnd (.fin q) = .ok (.fin d) := by rw [pctToDbfsF_fin, hd]; rfl
  exact ⟨_, this, (pctToDbfsF_good h this).2⟩

theorem dbfsToPctF_good (h : RoundingLaws rnd) {d : FVal} (hd : GoodDbfs d) :
    ∃ p, dbfsToPctF rnd d = .ok p ∧ InPct p := by
  obtain ⟨q, rfl, hq⟩ := hd
  have hq0 : q ≤ 0 := by rcases hq with rfl | ⟨_, h0⟩ <;> linarith
  obtain ⟨p, hp, hr⟩ := dbfsToPct_good h hq0
  exact ⟨.fin p, by rw [dbfsToPctF_fin, hp]; rfl, p, rfl, hr⟩

/-- a stored dBFS level that reads as a percentage: at most 0 dBFS (anything below -30,
    -inf included, reads as 0 %); NaN, +inf and positive levels do not qualify -/
def CtxOk (d : FVal) : Prop := FVal.le d (.fin 0) = true

theorem goodDbfs_ctxOk {d : FVal} (hd : GoodDbfs d) : CtxOk d := by
  obtain ⟨q, rfl, hq⟩ := hd
  have hq0 : q ≤ 0 := by rcases hq with rfl | ⟨_, h0⟩ <;> linarith
  simp [CtxOk, hq0]

theorem dbfsToPctF_ctxOk (h : RoundingLaws rnd) {d : FVal} (hd : CtxOk d) :
    ∃ p, dbfsToPctF rnd d = .ok p ∧ InPct p := by
  cases d with
  | nan => simp [CtxOk, FVal.le] at hd
  | pinf => simp [CtxOk, FVal.le] at hd
  | ninf =>
    refine ⟨.fin pctMin, ?_, pctMin, rfl, by norm_num [pctMin_eq], by norm_num [pctMin_eq]⟩
    unfold dbfsToPctF
    rw [if_pos (by simp [FVal.lt])]
  | fin q =>
    have hq0 : q ≤ 0 := by simpa [CtxOk] using hd
    obtain ⟨p, hp, hr⟩ := dbfsToPct_good h hq0
    exact ⟨.fin p, by rw [dbfsToPctF_fin, hp]; rfl, p, rfl, hr⟩

/-! ### stepping -/

theorem stepUp_inPct (h : RoundingLaws rnd) {v : FVal} (hv : InPct v) :
    InPct (pyMin (addF rnd v 5) (.fin 100)) := by
  obtain ⟨q, rfl, h0, h1⟩ := hv
  unfold pyMin addF
  simp only [lt_fin_fin, decide_eq_true_eq]
  split
  · exact ⟨100, rfl, by norm_num, le_refl _⟩
  · rename_i hlt
    refine ⟨_, rfl, ?_, not_lt.mp hlt⟩
    have := h.mono 0 (q + 5) (by linarith)
    rwa [h.fix0] at this

theorem stepDown_inPct (h : RoundingLaws rnd) {v : FVal} (hv : InPct v) :
    InPct (pyMax (subF rnd v 5) (.fin 0)) := by
  obtain ⟨q, rfl, h0, h1⟩ := hv
  unfold pyMax subF
  simp only [lt_fin_fin, decide_eq_true_eq]
  split
  · exact ⟨0, rfl, le_refl _, by norm_num⟩
  · rename_i hlt
    refine ⟨_, rfl, not_lt.mp hlt, ?_⟩
    have := h.mono (q - 5) 100 (by linarith)
    rwa [h.fix100] at this

theorem facadeSet_ok {x y : FVal} (hy : facadeSet x = .ok y) : y = x ∧ InPct x := by
  unfold facadeSet at hy
  split at hy
  · rename_i hr
    cases hy
    rw [facadeSetLo_eq, facadeSetHi_eq] at hr
    exact ⟨rfl, inRangeF_true hr⟩
  · cases hy

theorem facadeSet_err {x : FVal} {e : Err} (hy : facadeSet x = .error e) : e = .protocol ∧ ¬ InPct x := by
  unfold facadeSet at hy
  split at hy
  · cases hy
  · rename_i hr
    cases hy
    refine ⟨rfl, ?_⟩
    rintro ⟨q, rfl, h0, h1⟩
    exact hr (by rw [facadeSetLo_eq, facadeSetHi_eq]; exact (inRangeF_fin _ _ _).mpr ⟨h0, h1⟩)

theorem facadeRead_ok {x y : FVal} (hy : facadeRead x = .ok y) : y = x ∧ InPct x := by
  unfold facadeRead at hy
  split at hy
  · rename_i hr
    cases hy
    rw [facadeReadLo_eq, facadeReadHi_eq] at hr
    exact ⟨rfl, inRangeF_true hr⟩
  · cases hy

theorem facadeRead_err {x : FVal} {e : Err} (hy : facadeRead x = .error e) : e = .protocol ∧ ¬ InPct x := by
  unfold facadeRead at hy
  split at hy
  · cases hy
  · rename_i hr
    cases hy
    refine ⟨rfl, ?_⟩
    rintro ⟨q, rfl, h0, h1⟩
    exact hr (by rw [facadeReadLo_eq, facadeReadHi_eq]; exact (inRangeF_fin _ _ _).mpr ⟨h0, h1⟩)

/-! ### exact-arithmetic closed forms, system invariants -/

theorem p2d_id {p : Rat} (hp : p ≠ 0) (h0 : 0 ≤ p) (h1 : p ≤ 100) :
    pctToDbfs id p = .ok (p * 30 / 100 + -30) := by
  rw [pctToDbfs_of_ne roundingLaws_id hp, if_pos ⟨h0, h1⟩, mapArith_id]
  norm_num

theorem d2p_id {d : Rat} (h0 : -30 ≤ d) (h1 : d ≤ 0) :
    dbfsToPct id d = .ok ((d + 30) * 100 / 30) := by
  rw [dbfsToPct_of_ge roundingLaws_id h0, if_pos h1, mapArith_id]
  norm_num

/-- the stored dBFS level, if any, reads as a percentage -/
def RaopInv (s : Raop) : Prop := ∀ d, s.ctx = some d → CtxOk d

theorem raopInv_init : RaopInv Raop.init := by intro d hd; cases hd

theorem raop_volume_good (h : RoundingLaws rnd) {s : Raop} (hs : RaopInv s) :
    ∃ v, Raop.volume rnd s = .ok v ∧ InPct v := by
  unfold Raop.volume
  cases hc : s.ctx with
  | none => exact ⟨_, rfl, raopInitialVolume, rfl, by norm_num [raopInitial_eq], by norm_num [raopInitial_eq]⟩
  | some d => exact dbfsToPctF_ctxOk h (hs d hc)

theorem raop_setVolume_spec (h : RoundingLaws rnd) (s : Raop) {l : FVal} (hl : InPct l) :
    ∃ d p, GoodDbfs d ∧ InPct p ∧ Raop.setVolume rnd s l = (⟨some d⟩, [.recv l, .wire d, .disp p]) := by
  obtain ⟨d, hd, hg⟩ := pctToDbfsF_ok h hl
  obtain ⟨p, hp, hpr⟩ := dbfsToPctF_good h hg
  refine ⟨d, p, hg, hpr, ?_⟩
  unfold Raop.setVolume
  rw [hd]
  simp only [Raop.volume, hp]

theorem raop_after_set (h : RoundingLaws rnd) (s : Raop) {l : FVal} (hl : InPct l) :
    RaopInv (Raop.setVolume rnd s l).1 ∧ ∀ ev ∈ (Raop.setVolume rnd s l).2, GoodEv GoodDbfs ev := by
  obtain ⟨d, p, hg, hp, he⟩ := raop_setVolume_spec h s hl
  rw [he]
  refine ⟨?_, ?_⟩
  · intro d' hd'; cases hd'; exact goodDbfs_ctxOk hg
  · intro ev hev
    simp only [List.mem_cons, List.not_mem_nil, or_false] at hev
    rcases hev with rfl | rfl | rfl
    · exact hl
    · exact hg
    · exact hp

/-- the deferred hand-over at stream start keeps the invariant and sends only valid levels -/
theorem raop_after_deferred (h : RoundingLaws rnd) {s : Raop} (hs : RaopInv s) {l : FVal} (hl : InPct l) :
    RaopInv (Raop.deferred rnd s l).1 ∧ ∀ ev ∈ (Raop.deferred rnd s l).2, GoodEv GoodDbfs ev := by
  obtain ⟨d, hd, hg⟩ := pctToDbfsF_ok h hl
  by_cases ht : truthyF l = true
  · have he : Raop.deferred rnd s l = (⟨some d⟩, [.recv l, .tried d, .late d]) := by
      simp only [Raop.deferred, hd, ht, if_true, List.cons_append, List.nil_append]
    rw [he]
    refine ⟨?_, ?_⟩
    · intro d' hd'; cases hd'; exact goodDbfs_ctxOk hg
    · intro ev hev
      simp only [List.mem_cons, List.not_mem_nil, or_false] at hev
      rcases hev with rfl | rfl | rfl
      · exact hl
      · exact hg
      · exact hg
  · have he : Raop.deferred rnd s l = (s, [.recv l, .tried d]) := by
      simp only [Raop.deferred, hd, ht]; rfl
    rw [he]
    refine ⟨hs, ?_⟩
    intro ev hev
    simp only [List.mem_cons, List.not_mem_nil, or_false] at hev
    rcases hev with rfl | rfl
    · exact hl
    · exact hg

theorem mrp_setVolume_good (h : RoundingLaws rnd) {l : FVal} (hl : InPct l) :
    ∀ ev ∈ Mrp.setVolume rnd l, GoodEv InUnit ev := by
  intro ev hev
  simp only [Mrp.setVolume, List.mem_cons, List.not_mem_nil, or_false] at hev
  rcases hev with rfl | rfl
  · exact hl
  · obtain ⟨q, rfl, h0, h1⟩ := hl
    refine ⟨rnd (q / 100), rfl, ?_⟩
    apply h.between h.fix0 h.fix1
    · positivity
    · rw [div_le_iff₀ (by norm_num)]; linarith

end

end PyatvModel.C20
