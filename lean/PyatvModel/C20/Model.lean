import PyatvModel.Base.Bytes
import PyatvModel.Gen.C20Consts
/-
C20 — executable model of the volume path (import-free: core `Rat` only).

Transcribes (repaired tree, see findings/C20.json):
* pyatv/support/__init__.py:142            map_range
* pyatv/protocols/airplay/utils.py:281     pct_to_dbfs   (math.isclose mute test, -144 sentinel)
* pyatv/protocols/airplay/utils.py:294     dbfs_to_pct   (`level < DBFS_MIN` clamp)
* pyatv/core/facade.py:464                 FacadeAudio.volume / set_volume (range guards),
                                           volume_up / volume_down (plain relay)
* pyatv/protocols/raop/__init__.py:273     RaopAudio._volume_changed, has_changed_volume, volume,
                                           set_volume, volume_up, volume_down (+-5, one-sided clamp)
* pyatv/protocols/raop/__init__.py:378     RaopStream.stream_file: user-set level vs the receiver's
                                           `initialVolume` at stream start, deferred hand-over
* pyatv/protocols/raop/stream_client.py:370 StreamClient.set_volume; :451 send_audio `if volume:`
* pyatv/protocols/mrp/__init__.py:850      MrpAudio.volume, _checked_volume, set_volume,
                                           volume_up, volume_down (absolute volume control),
                                           _volume_did_change (updates for other output devices)

Numbers are exact rationals; every floating-point operation of the source is one
application of the parameter `rnd` (the driver instantiates it with `id` = exact
arithmetic and with `rne` = IEEE-754 binary64 round-to-nearest-even).  A Python float is
an `FVal`: NaN, -inf, +inf or a finite rational; comparisons follow IEEE (every
comparison with NaN is false).
-/
namespace PyatvModel.C20
open PyatvModel.Gen.C20

/-- what a Python float can be -/
inductive FVal
  | nan | ninf | pinf
  | fin (q : Rat)
  deriving DecidableEq

/-- Python `a <= b` on floats -/
def FVal.le : FVal → FVal → Bool
  | .nan, _ => false
  | _, .nan => false
  | .ninf, _ => true
  | .fin _, .ninf => false
  | .fin a, .fin b => decide (a ≤ b)
  | .fin _, .pinf => true
  | .pinf, .pinf => true
  | .pinf, _ => false

/-- Python `a < b` on floats -/
def FVal.lt : FVal → FVal → Bool
  | .nan, _ => false
  | _, .nan => false
  | .ninf, .ninf => false
  | .ninf, _ => true
  | .fin _, .ninf => false
  | .fin a, .fin b => decide (a < b)
  | .fin _, .pinf => true
  | .pinf, _ => false

/-- Python `a == b` on floats -/
def FVal.eqPy : FVal → FVal → Bool
  | .ninf, .ninf => true
  | .pinf, .pinf => true
  | .fin a, .fin b => decide (a = b)
  | _, _ => false

/-- `LO <= x <= HI` -/
def inRangeF (lo hi : Rat) (x : FVal) : Bool := FVal.le (.fin lo) x && FVal.le x (.fin hi)

/-- Python `min(a, b)`: `b` only if `b < a` -/
def pyMin (a b : FVal) : FVal := if FVal.lt b a then b else a

/-- Python `max(a, b)`: `b` only if `b > a` -/
def pyMax (a b : FVal) : FVal := if FVal.lt a b then b else a

inductive Err
  | value      -- ValueError (map_range)
  | protocol   -- pyatv.exceptions.ProtocolError
  deriving DecidableEq

def absQ (q : Rat) : Rat := if q < 0 then -q else q

/-- `math.isclose(a, b)` with the default tolerances (CPython `math_isclose_impl`), finite
    arguments, exact arithmetic. -/
def isClose (a b : Rat) : Bool :=
  decide (a = b) ||
    (decide (absQ (b - a) ≤ absQ (iscloseRelTol * b)) || decide (absQ (b - a) ≤ absQ (iscloseRelTol * a))
      || decide (absQ (b - a) ≤ iscloseAbsTol))

/-- `math.isclose(a, b)` for a float `a` and finite `b`: NaN is close to nothing, an
    infinity only to itself. -/
def isCloseF (a : FVal) (b : Rat) : Bool :=
  match a with
  | .fin q => isClose q b
  | _ => false

section
variable (rnd : Rat → Rat)

/-- `(value - in_min) * (out_max - out_min) / (in_max - in_min) + out_min`, one rounding
    per operation -/
def mapArith (v inMin inMax outMin outMax : Rat) : Rat :=
  rnd (rnd (rnd (rnd (v - inMin) * rnd (outMax - outMin)) / rnd (inMax - inMin)) + outMin)

/-- `map_range` on a finite value -/
def mapRange (v inMin inMax outMin outMax : Rat) : Except Err Rat :=
  if rnd (inMax - inMin) ≤ 0 then .error .value
  else if rnd (outMax - outMin) ≤ 0 then .error .value
  else if ¬ (inMin ≤ v ∧ v ≤ inMax) then .error .value
  else .ok (mapArith rnd v inMin inMax outMin outMax)

def pctToDbfs (level : Rat) : Except Err Rat :=
  if isClose level muteLevel then .ok muteDbfs
  else mapRange rnd level pctMin pctMax dbfsMin dbfsMax

def dbfsToPct (level : Rat) : Except Err Rat :=
  if level < dbfsMin then .ok pctMin
  else mapRange rnd level dbfsMin dbfsMax pctMin pctMax

/-- `map_range` on any float.  The guard is `not in_min <= value <= in_max`, which NaN and
    the infinities fail; the last `match` arm is therefore not reachable
    (`Props.C20.mapRangeF_ok_fin`) — it says what the arithmetic would return. -/
def mapRangeF (v : FVal) (inMin inMax outMin outMax : Rat) : Except Err FVal :=
  if rnd (inMax - inMin) ≤ 0 then .error .value
  else if rnd (outMax - outMin) ≤ 0 then .error .value
  else if !(inRangeF inMin inMax v) then .error .value
  else match v with
    | .fin q => .ok (.fin (mapArith rnd q inMin inMax outMin outMax))
    | x => .ok x

/-- the guard of the pinned tree, `value < in_min or value > in_max` (true = raise), kept
    to state what was wrong with it (`Props.C20.pinned_map_range_guard_passes_nan`) -/
def pinnedGuardRejects (inMin inMax : Rat) (v : FVal) : Bool :=
  FVal.lt v (.fin inMin) || FVal.lt (.fin inMax) v

def pctToDbfsF (level : FVal) : Except Err FVal :=
  if isCloseF level muteLevel then .ok (.fin muteDbfs)
  else mapRangeF rnd level pctMin pctMax dbfsMin dbfsMax

def dbfsToPctF (level : FVal) : Except Err FVal :=
  if FVal.lt level (.fin dbfsMin) then .ok (.fin pctMin)
  else mapRangeF rnd level dbfsMin dbfsMax pctMin pctMax

/-- Python `a + c` / `a - c` for a float `a` and a finite literal `c` -/
def addF (a : FVal) (c : Rat) : FVal :=
  match a with
  | .fin q => .fin (rnd (q + c))
  | x => x

def subF (a : FVal) (c : Rat) : FVal :=
  match a with
  | .fin q => .fin (rnd (q - c))
  | x => x

def divF (a : FVal) (c : Rat) : FVal :=
  match a with
  | .fin q => .fin (rnd (q / c))
  | x => x

/-! ### facade guards -/

/-- `FacadeAudio.set_volume(level)`: the level handed to the protocol, or ProtocolError -/
def facadeSet (level : FVal) : Except Err FVal :=
  if inRangeF facadeSetLo facadeSetHi level then .ok level else .error .protocol

/-- `FacadeAudio.volume` given what the protocol's `volume` returned -/
def facadeRead (v : FVal) : Except Err FVal :=
  if inRangeF facadeReadLo facadeReadHi v then .ok v else .error .protocol

/-! ### observable events of one operation -/

inductive Ev
  | recv (x : FVal)     -- argument received by the protocol's `set_volume`
  | wire (x : FVal)     -- level handed on towards the device (RAOP: dBFS; MRP: level/100)
  | disp (x : FVal)     -- value dispatched as UpdatedState.Volume
  | ret (x : FVal)      -- value returned by `audio.volume`
  | tried (x : FVal)    -- dBFS level sent with SET_PARAMETER and rejected by the receiver
  | late (x : FVal)     -- dBFS level sent by StreamClient.send_audio after RECORD (deferred)
  | key (up : Bool)     -- MRP: volume-up / volume-down HID key pressed and released (no level)
  | raised (e : Err)    -- exception propagated to the caller
  | logged (e : Err)    -- exception inside a state listener (the event loop logs it)
  deriving DecidableEq

/-- operations on the device object and from the device side -/
inductive Op
  | set (x : FVal)      -- `await atv.audio.set_volume(x)`
  | up | down           -- `await atv.audio.volume_up()` / `volume_down()`
  | read                -- `atv.audio.volume`
  | report (x : FVal)   -- RAOP: some protocol dispatched UpdatedState.Volume x;
                        -- MRP: the device reported a level and `_volume` became x
  | streamStart (init : Option FVal) (accepts : Bool)
                        -- RAOP only: one `stream.stream_file(...)`; `init` = the dBFS level the
                        -- receiver advertises as `initialVolume` (a float), `none` = not advertised;
                        -- `accepts` = the receiver accepts SET_PARAMETER volume before RECORD
                        -- (false: Sonos-like, the level is deferred into send_audio)
  | setRefused (x : FVal)
                        -- RAOP only, stream active: `set_volume(x)` whose SET_PARAMETER the receiver
                        -- refuses (or that times out), possibly while other operations overlap it
  | reportOther (x : FVal)
                        -- MRP only: VolumeDidChange addressed to another output device UID

/-! ### facade over RaopAudio -/

/-- `StreamContext.volume` (dBFS), `none` until first set -/
structure Raop where
  ctx : Option FVal

def Raop.init : Raop := ⟨none⟩

/-- `RaopAudio.volume` -/
def Raop.volume (s : Raop) : Except Err FVal :=
  match s.ctx with
  | none => .ok (.fin raopInitialVolume)
  | some d => dbfsToPctF rnd d

/-- `RaopAudio.set_volume(level)`: convert, hand to the stream client / context, dispatch
    the new `self.volume` -/
def Raop.setVolume (s : Raop) (level : FVal) : Raop × List Ev :=
  match pctToDbfsF rnd level with
  | .error e => (s, [.recv level, .raised e])
  | .ok d =>
    let s' : Raop := ⟨some d⟩
    match Raop.volume rnd s' with
    | .error e => (s', [.recv level, .wire d, .raised e])
    | .ok v => (s', [.recv level, .wire d, .disp v])

/-- Python truthiness of a float (`if volume:`): everything but zero, NaN included -/
def truthyF : FVal → Bool
  | .fin q => decide (q ≠ 0)
  | _ => true

/-- stream start against a receiver that rejects SET_PARAMETER volume before RECORD:
    `RaopAudio.set_volume(v)` converts and sends, the receiver refuses (the context keeps its
    level, nothing is dispatched), `stream_file` catches that and passes
    `volume = audio.volume` (percent) to `StreamClient.send_audio`, which after RECORD does
    `if volume: await self.set_volume(pct_to_dbfs(volume))`; any exception in there leaves
    send_audio as ProtocolError -/
def Raop.deferred (s : Raop) (v : FVal) : Raop × List Ev :=
  let first : List Ev :=
    match pctToDbfsF rnd v with
    | .error _ => [.recv v]
    | .ok d => [.recv v, .tried d]
  if truthyF v then
    match pctToDbfsF rnd v with
    | .error _ => (s, first ++ [.raised .protocol])
    | .ok d => (⟨some d⟩, first ++ [.late d])
  else (s, first)

def Raop.step (s : Raop) : Op → Raop × List Ev
  | .set x =>
    match facadeSet x with
    | .error e => (s, [.raised e])
    | .ok l => Raop.setVolume rnd s l
  | .up =>
    match Raop.volume rnd s with
    | .error e => (s, [.raised e])
    | .ok v => Raop.setVolume rnd s (pyMin (addF rnd v raopUpStep) (.fin raopUpBound))
  | .down =>
    match Raop.volume rnd s with
    | .error e => (s, [.raised e])
    | .ok v => Raop.setVolume rnd s (pyMax (subF rnd v raopDownStep) (.fin raopDownBound))
  | .read =>
    match Raop.volume rnd s with
    | .error e => (s, [.raised e])
    | .ok v =>
      match facadeRead v with
      | .error e => (s, [.raised e])
      | .ok r => (s, [.ret r])
  | .report x =>
    -- RaopAudio._volume_changed: context.volume = pct_to_dbfs(volume)
    match pctToDbfsF rnd x with
    | .error e => (s, [.logged e])
    | .ok d => (⟨some d⟩, [])
  | .streamStart init accepts =>
    -- RaopStream.stream_file: `if not audio.has_changed_volume and "initialVolume" in info`
    -- adopt the receiver's level (after the range check, else ProtocolError), otherwise
    -- `await audio.set_volume(audio.volume)` now that a stream client exists
    match s.ctx, init with
    | none, some iv =>
      if FVal.le iv (.fin dbfsMax) then (⟨some iv⟩, []) else (s, [.raised .protocol])
    | _, _ =>
      match Raop.volume rnd s with
      | .error e => (s, [.raised e])
      | .ok v => if accepts then Raop.setVolume rnd s v else Raop.deferred rnd s v
  | .setRefused x =>
    -- StreamClient.set_volume stores the level only after the receiver acknowledged it:
    -- a refused request changes nothing, whatever happened while it was in flight
    match facadeSet x with
    | .error e => (s, [.raised e])
    | .ok l =>
      match pctToDbfsF rnd l with
      | .error e => (s, [.recv l, .raised e])
      | .ok d => (s, [.recv l, .tried d, .raised .protocol])
  | .reportOther _ => (s, [])      -- not a RAOP operation (the driver rejects it)

/-- run a history; one event list per operation -/
def Raop.run (s : Raop) : List Op → List (List Ev)
  | [] => []
  | op :: ops => ((Raop.step rnd s op).2) :: Raop.run (Raop.step rnd s op).1 ops

/-! ### facade over MrpAudio (absolute volume control; relative control only sends keys) -/

/-- `MrpAudio._volume`: the level last reported by the device -/
structure Mrp where
  vol : FVal

/-- `MrpAudio._checked_volume` -/
def Mrp.checked (s : Mrp) : Except Err FVal :=
  if inRangeF 0 100 s.vol then .ok s.vol else .error .protocol

/-- `MrpAudio.set_volume(level)`: sends `level / 100.0`; `_volume` changes only when the
    device reports back (a later `report`) -/
def Mrp.setVolume (level : FVal) : List Ev :=
  [.recv level, .wire (divF rnd level 100)]

def Mrp.step (s : Mrp) : Op → Mrp × List Ev
  | .set x =>
    match facadeSet x with
    | .error e => (s, [.raised e])
    | .ok l => (s, Mrp.setVolume rnd l)
  | .up =>
    if FVal.eqPy s.vol (.fin mrpUpStop) then (s, [])
    else match Mrp.checked s with
      | .error e => (s, [.raised e])
      | .ok v => (s, Mrp.setVolume rnd (pyMin (addF rnd v mrpUpStep) (.fin mrpUpBound)))
  | .down =>
    if FVal.eqPy s.vol (.fin mrpDownStop) then (s, [])
    else match Mrp.checked s with
      | .error e => (s, [.raised e])
      | .ok v => (s, Mrp.setVolume rnd (pyMax (subF rnd v mrpDownStep) (.fin mrpDownBound)))
  | .read =>
    match facadeRead s.vol with
    | .error e => (s, [.raised e])
    | .ok r => (s, [.ret r])
  | .report x => (⟨x⟩, [])
  | .reportOther _ => (s, [])      -- `if inner.outputDeviceUID == self.device_uid` is false: ignored
  | .setRefused _ => (s, [])       -- not an MRP operation (the driver rejects it)
  | .streamStart _ _ => (s, [])    -- not an MRP operation (the driver rejects it)

/-- the same for any volume capabilities of the device (`_update_volume_controls`):
    `abs` = absolute control (capabilities Absolute / Both), `rel` = relative control
    (Relative / Both).  Only volume_up / volume_down depend on them: at the end stop with
    absolute control nothing happens; with relative control a key press is sent (the device
    chooses the step); with absolute control only, the level is set; without either, nothing.
    `set_volume` sends the level whatever the capabilities (they only decide whether it waits
    for the device's confirmation, which the model leaves to the following `report`). -/
def Mrp.stepC (abs rel : Bool) (s : Mrp) : Op → Mrp × List Ev
  | .up =>
    if abs && FVal.eqPy s.vol (.fin mrpUpStop) then (s, [])
    else if rel then (s, [.key true])
    else if abs then Mrp.step rnd s .up
    else (s, [])
  | .down =>
    if abs && FVal.eqPy s.vol (.fin mrpDownStop) then (s, [])
    else if rel then (s, [.key false])
    else if abs then Mrp.step rnd s .down
    else (s, [])
  | op => Mrp.step rnd s op

def Mrp.runC (abs rel : Bool) (s : Mrp) : List Op → List (List Ev)
  | [] => []
  | op :: ops => ((Mrp.stepC rnd abs rel s op).2) :: Mrp.runC abs rel (Mrp.stepC rnd abs rel s op).1 ops

def Mrp.run (s : Mrp) : List Op → List (List Ev)
  | [] => []
  | op :: ops => ((Mrp.step rnd s op).2) :: Mrp.run (Mrp.step rnd s op).1 ops

end

/-! ### IEEE-754 binary64 round-to-nearest-even on exact rationals (driver instantiation)

Overflow to infinity is not modelled (no operation of the volume path gets near 2^1024:
every operand has passed a range guard first). -/

def pow2 (e : Int) : Rat :=
  if e ≥ 0 then ((2 ^ e.toNat : Nat) : Rat) else 1 / ((2 ^ (-e).toNat : Nat) : Rat)

/-- for `q > 0`: the `e` with `2^e ≤ q < 2^(e+1)` -/
def floorLog2 (q : Rat) : Int :=
  let e0 : Int := (Nat.log2 q.num.natAbs : Int) - (Nat.log2 q.den : Int)
  if pow2 e0 ≤ q then e0 else e0 - 1

def roundHalfEven (n : Rat) : Int :=
  let f := n.floor
  let r := n - (f : Rat)
  if r < 1 / 2 then f
  else if r > 1 / 2 then f + 1
  else if f % 2 = 0 then f else f + 1

def rne (q : Rat) : Rat :=
  if q = 0 then 0
  else
    let a := absQ q
    let e := floorLog2 a
    let e := if e < -1022 then -1022 else e
    let quantum := pow2 (e - 52)
    let k := roundHalfEven (a / quantum)
    let m : Rat := (k : Rat) * quantum
    if q < 0 then -m else m

end PyatvModel.C20
