import PyatvModel.Base.Bytes
import PyatvModel.C20.Model
/-
Line protocol (no floats on the wire: a float is `nan`, `+inf`, `-inf` or an exact
rational `n/d`, d > 0).  `<m>` selects the rounding: `x` = exact (`rnd = id`), `f` = IEEE
binary64 round-to-nearest-even (`rnd = rne`).

  map <m> <v> <inMin> <inMax> <outMin> <outMax>   → ok:<val> | err:value
  p2d <m> <v>      pct_to_dbfs                    → ok:<val> | err:value
  d2p <m> <v>      dbfs_to_pct                    → ok:<val> | err:value
  isclose <v>      math.isclose(v, 0.0)           → 1 | 0
  fset <v>         FacadeAudio.set_volume guard   → ok:<val> | err:protocol
  fread <v>        FacadeAudio.volume guard       → ok:<val> | err:protocol
  rne <v>          binary64 rounding of a rational→ <val>
  raop <m> <ctx|none> <ops>   facade over RaopAudio → per-op event lists
  mrp  <m> <a|b|r|n> <vol> <ops>  facade over MrpAudio, device volume capabilities → per-op event lists
  ops: `s:<v>` set, `u` up, `d` down, `r` read, `p:<v>` report, `t:<v|none>:<a|r>` stream start, receiver accepts / rejects volume before RECORD (raop only),
       `f:<v>` set refused by the receiver (raop only),
       `o:<v>` update for another output device (mrp only); comma separated, `-` = none
  events: recv:<v> wire:<v> disp:<v> try:<v> late:<v> ret:<v> raise:<e> log:<e>; `,` inside an op, `;` between ops
-/
namespace PyatvModel.C20

def ratStr (q : Rat) : String := s!"{q.num}/{q.den}"

def FVal.str : FVal → String
  | .nan => "nan" | .ninf => "-inf" | .pinf => "+inf"
  | .fin q => ratStr q

def rat? (s : String) : Option Rat :=
  match s.splitOn "/" with
  | [n, d] =>
    match n.toInt?, d.toNat? with
    | some n, some d => if d = 0 then none else some (mkRat n d)
    | _, _ => none
  | _ => none

def fval? (s : String) : Option FVal :=
  if s == "nan" then some .nan
  else if s == "+inf" then some .pinf
  else if s == "-inf" then some .ninf
  else (rat? s).map .fin

def rnd? (s : String) : Option (Rat → Rat) :=
  if s == "x" then some id else if s == "f" then some rne else none

def Err.str : Err → String
  | .value => "value" | .protocol => "protocol"

def resStr : Except Err FVal → String
  | .ok v => "ok:" ++ v.str
  | .error e => "err:" ++ e.str

def Ev.str : Ev → String
  | .recv x => "recv:" ++ x.str
  | .wire x => "wire:" ++ x.str
  | .disp x => "disp:" ++ x.str
  | .ret x => "ret:" ++ x.str
  | .tried x => "try:" ++ x.str
  | .late x => "late:" ++ x.str
  | .key up => if up then "key:u" else "key:d"
  | .raised e => "raise:" ++ e.str
  | .logged e => "log:" ++ e.str

/-- `raop` = true: RAOP histories (`t:` stream start allowed), false: MRP (`o:` allowed) -/
def op? (raop : Bool) (s : String) : Option Op :=
  if s == "u" then some .up
  else if s == "d" then some .down
  else if s == "r" then some .read
  else match s.splitOn ":" with
    | ["s", v] => (fval? v).map .set
    | ["p", v] => (fval? v).map .report
    | ["t", v, a] =>
      if !raop || (a != "a" && a != "r") then none
      else if v == "none" then some (.streamStart none (a == "a"))
      else (fval? v).map (fun x => .streamStart (some x) (a == "a"))
    | ["f", v] => if raop then (fval? v).map .setRefused else none
    | ["o", v] => if raop then none else (fval? v).map .reportOther
    | _ => none

def ops? (raop : Bool) (s : String) : Option (List Op) :=
  if s == "-" then some [] else (s.splitOn ",").mapM (op? raop)

def outStr (evs : List (List Ev)) : String :=
  if evs.isEmpty then "-" else String.intercalate ";" (evs.map fun l => csv (l.map Ev.str))

def handle (_ : Unit) (ws : List String) : Unit × String :=
  match ws with
  | ["map", m, v, a, b, c, d] =>
    match rnd? m, fval? v, rat? a, rat? b, rat? c, rat? d with
    | some r, some v, some a, some b, some c, some d => ((), resStr (mapRangeF r v a b c d))
    | _, _, _, _, _, _ => ((), "bad-op")
  | ["p2d", m, v] =>
    match rnd? m, fval? v with
    | some r, some v => ((), resStr (pctToDbfsF r v))
    | _, _ => ((), "bad-op")
  | ["d2p", m, v] =>
    match rnd? m, fval? v with
    | some r, some v => ((), resStr (dbfsToPctF r v))
    | _, _ => ((), "bad-op")
  | ["isclose", v] =>
    match fval? v with
    | some v => ((), if isCloseF v Gen.C20.muteLevel then "1" else "0")
    | none => ((), "bad-op")
  | ["fset", v] =>
    match fval? v with
    | some v => ((), resStr (facadeSet v))
    | none => ((), "bad-op")
  | ["fread", v] =>
    match fval? v with
    | some v => ((), resStr (facadeRead v))
    | none => ((), "bad-op")
  | ["rne", v] =>
    match rat? v with
    | some q => ((), ratStr (rne q))
    | none => ((), "bad-op")
  | ["raop", m, c, os] =>
    match rnd? m, (if c == "none" then some none else (fval? c).map some), ops? true os with
    | some r, some c, some os => ((), outStr (Raop.run r ⟨c⟩ os))
    | _, _, _ => ((), "bad-op")
  | ["mrp", m, c, v, os] =>
    -- c: volume capabilities of the device: a = Absolute, b = Both, r = Relative, n = None
    match rnd? m, (if c == "a" then some (true, false) else if c == "b" then some (true, true)
                   else if c == "r" then some (false, true) else if c == "n" then some (false, false) else none),
          fval? v, ops? false os with
    | some r, some (ab, rl), some v, some os => ((), outStr (Mrp.runC r ab rl ⟨v⟩ os))
    | _, _, _, _ => ((), "bad-op")
  | _ => ((), "bad-op")

end PyatvModel.C20
