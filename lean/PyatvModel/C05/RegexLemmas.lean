import PyatvModel.C05.Regex
namespace PyatvModel.C05

theorem run_le (p : UInt8 → Bool) : ∀ s : Bytes, run p s ≤ s.length := by
  intro s
  induction s with
  | nil => simp [run]
  | cons c t ih => simp only [run]; split <;> simp <;> omega

theorem bnd_mono {n n' : Nat} (h : n ≤ n') : ∀ k, bnd n k ≤ bnd n' k := by
  intro k
  induction k with
  | zero => simp [bnd]
  | succ k ih =>
    simp only [bnd]
    have := Nat.mul_le_mul (Nat.add_le_add_right h 1) ih
    omega

theorem natSum_map_le (B : Nat) (f : Nat → Nat) : ∀ l : List Nat, (∀ c ∈ l, f c ≤ B) →
    natSum (l.map f) ≤ l.length * B := by
  intro l
  induction l with
  | nil => intro _; simp [natSum]
  | cons x xs ih =>
    intro h
    have h1 := h x (by simp)
    have h2 := ih (fun c hc => h c (by simp [hc]))
    simp only [List.map_cons, natSum, List.length_cons, Nat.succ_mul]
    omega

/-- **the exhaustive backtracking search for a sequence of `k` class repeats takes at most
    `bnd n k` steps on a subject of length `n`** -/
theorem cost_le : ∀ (p : List Item) (s : Bytes), cost p s ≤ bnd s.length p.length := by
  intro p
  induction p with
  | nil => intro s; simp [cost, bnd]
  | cons it rest ih =>
    intro s
    simp only [cost, List.length_cons, bnd]
    have hm : Nat.min (run it.cls s) (it.max.getD s.length) ≤ s.length :=
      Nat.le_trans (Nat.min_le_left _ _) (run_le _ s)
    generalize Nat.min (run it.cls s) (it.max.getD s.length) = m at hm
    have hs := natSum_map_le (bnd s.length rest.length)
      (fun c => if it.min ≤ c then cost rest (s.drop c) else 0) (List.range (m + 1)) (by
        intro c _
        split
        · exact Nat.le_trans (ih (s.drop c)) (bnd_mono (by simp) _)
        · exact Nat.zero_le _)
    simp only [List.length_range] at hs
    have : (m + 1) * bnd s.length rest.length ≤ (s.length + 1) * bnd s.length rest.length :=
      Nat.mul_le_mul_right _ (by omega)
    omega

theorem width_mono (it : Item) {n n' : Nat} (h : n ≤ n') : it.width n ≤ it.width n' := by
  unfold Item.width
  cases it.max with
  | none => simp only [Option.getD_none, Nat.min_def]; split <;> split <;> omega
  | some b => simp only [Option.getD_some, Nat.min_def]; split <;> split <;> omega

theorem bndI_mono {n n' : Nat} (h : n ≤ n') : ∀ p : List Item, bndI n p ≤ bndI n' p := by
  intro p
  induction p with
  | nil => simp [bndI]
  | cons it rest ih =>
    simp only [bndI]
    have hw := width_mono it h
    have := Nat.mul_le_mul (Nat.add_le_add_right hw 1) ih
    omega

/-- **item-wise bound**: bounded repeats and literals cost a constant factor -/
theorem cost_le_bndI : ∀ (p : List Item) (s : Bytes), cost p s ≤ bndI s.length p := by
  intro p
  induction p with
  | nil => intro s; simp [cost, bndI]
  | cons it rest ih =>
    intro s
    simp only [cost, bndI]
    have hm : Nat.min (run it.cls s) (it.max.getD s.length) ≤ it.width s.length := by
      have := run_le it.cls s
      unfold Item.width
      simp only [Nat.min_def]
      split <;> split <;> omega
    generalize Nat.min (run it.cls s) (it.max.getD s.length) = m at hm
    have hs := natSum_map_le (bndI s.length rest)
      (fun c => if it.min ≤ c then cost rest (s.drop c) else 0) (List.range (m + 1)) (by
        intro c _
        split
        · exact Nat.le_trans (ih (s.drop c)) (bndI_mono (by simp) _)
        · exact Nat.zero_le _)
    simp only [List.length_range] at hs
    have : (m + 1) * bndI s.length rest ≤ (it.width s.length + 1) * bndI s.length rest :=
      Nat.mul_le_mul_right _ (by omega)
    omega

end PyatvModel.C05
