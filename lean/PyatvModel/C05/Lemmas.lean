import PyatvModel.C05.Model
import PyatvModel.Base.FramingLemmas
import PyatvModel.C02.Lemmas
/-
C05 — loops: the generic termination argument, the framers' instances, the loops of the AirPlay
channels / HTTP server / protobuf splitter, the pinned loops' non-termination witnesses, and
the small decoders (TLV8, varint).  DNS is in `DnsLemmas.lean`, discovery in `DiscLemmas.lean`.
-/
namespace PyatvModel.C05
open PyatvModel PyatvModel.Framing

/-! ### a consuming loop leaves within `length + 1` iterations -/

theorem loop_halts {step : LoopStep} (hc : Consumes step) :
    ∀ (n : Nat) (b : Bytes), b.length < n → loopHalts step n b = true := by
  intro n
  induction n with
  | zero => intro b h; omega
  | succ n ih =>
    intro b hn
    simp only [loopHalts]
    cases h : step b with
    | none => rfl
    | some r =>
      have := hc b r h
      exact ih r (by omega)

theorem loop_steps_le {step : LoopStep} (hc : Consumes step) :
    ∀ (n : Nat) (b : Bytes), loopSteps step n b ≤ b.length + 1 := by
  intro n
  induction n with
  | zero => intro b; simp [loopSteps]
  | succ n ih =>
    intro b
    simp only [loopSteps]
    cases h : step b with
    | none => simp
    | some r =>
      have := hc b r h
      have := ih r
      simp only
      omega

/-- a loop whose step maps `b` to itself never leaves -/
theorem loop_never_halts {step : LoopStep} {b : Bytes} (h : step b = some b) :
    ∀ n, loopHalts step n b = false := by
  intro n
  induction n with
  | zero => rfl
  | succ n ih => simp only [loopHalts, h]; exact ih

theorem extStep_consumes {M : Type} {f : Framer M} (hp : Progress f) : Consumes (extStep f) := by
  intro b r h
  simp only [extStep] at h
  split at h
  · rename_i m r' hm
    cases h
    exact hp hm
  · cases h

theorem drainHalts_eq_loop {M : Type} (f : Framer M) : ∀ (n : Nat) (b : Bytes),
    drainHalts f n b = loopHalts (extStep f) n b := by
  intro n
  induction n with
  | zero => intro b; rfl
  | succ n ih =>
    intro b
    simp only [drainHalts, loopHalts, extStep]
    cases h : f.ext b with
    | need => rfl
    | err e => rfl
    | msg m r => simp only; rw [ih r]

/-! ### the loops of this property -/

theorem eventStep_consumes : Consumes eventStep :=
  extStep_consumes (C02.http_prefixStable C02.requestParams).prog

theorem serverStep_consumes : Consumes serverStep := by
  intro b r h
  simp only [serverStep] at h
  split at h
  · cases h
  · split at h
    · cases h
    · rename_i hne
      cases h
      unfold serverNext at hne ⊢
      split
      · rename_i he
        simp [he] at hne
      · rename_i he
        simp only [he] at hne
        cases h : C02.httpServer.ext b with
        | need => simp [h] at hne
        | err e =>
          simp only
          cases b with
          | nil => simp_all
          | cons c t => simp
        | msg m r =>
          have := (C02.http_prefixStable C02.requestParams).prog h
          simpa using this

theorem readLoop_length : ∀ (bs : Bytes) (acc cnt n : Nat) (rest : Bytes),
    C04.Varint.readLoop bs acc cnt = some (n, rest) → rest.length < bs.length := by
  intro bs
  induction bs with
  | nil => intro acc cnt n rest h; simp [C04.Varint.readLoop] at h
  | cons b t ih =>
    intro acc cnt n rest h
    simp only [C04.Varint.readLoop] at h
    split at h
    · cases h; simp
    · have := ih _ _ _ _ h
      simp; omega

theorem protobufsStep_consumes : Consumes protobufsStep := by
  intro b r h
  unfold protobufsStep at h
  cases b with
  | nil => cases h
  | cons c t =>
    simp only at h
    split at h
    · cases h; simp
    · split at h
      · cases h
      · rename_i len raw hv
        split at h
        · cases h
        · split at h
          · cases h
            have := readLoop_length _ _ _ _ _ hv
            simp only [List.length_drop, List.length_cons] at this ⊢
            omega
          · cases h

/-! ### the pinned loops do not leave -/

open PyatvModel.Gen.C02 in
/-- any buffer holding a complete header whose size field is 0 is handed back unchanged -/
theorem dataStreamPinned_size0 (b : Bytes) (h1 : dataHeaderLength ≤ b.length) (h0 : C02.dsSize b = 0) :
    dataStreamPinned.ext b = .msg (b.take dataHeaderLength, []) b := by
  have a : ¬ b.length < dataHeaderLength := by omega
  simp only [C02.dsSize] at h0
  simp [dataStreamPinned, a, h0]

open PyatvModel.Gen.C02 in
theorem dataStreamPinned_never_halts (b : Bytes) (h1 : dataHeaderLength ≤ b.length) (h0 : C02.dsSize b = 0) :
    ∀ n, drainHalts dataStreamPinned n b = false := by
  intro n
  induction n with
  | zero => rfl
  | succ n ih => simp only [drainHalts, dataStreamPinned_size0 b h1 h0]; exact ih

/-- `b"garbage\r\n\r\n"` -/
def garbage : Bytes := [103, 97, 114, 98, 97, 103, 101, 13, 10, 13, 10]

theorem eventStepPinned_garbage : eventStepPinned garbage = some garbage := by decide

open PyatvModel.C04.Dns in
/-- qdcount = 1, the name at offset 12 is a pointer to offset 12 -/
def selfPointer : Bytes := [0, 0, 0, 0, 0, 1, 0, 0, 0, 0, 0, 0, 0xC0, 0x0C, 0, 1, 0, 1]

open PyatvModel.C04.Dns in
theorem parseNamePinned_selfPointer : ∀ (f : Nat) (ret : Option Nat),
    (parseNamePinnedF selfPointer f 12 [] ret).err = some .hang := by
  intro f
  induction f with
  | zero => intro ret; rfl
  | succ f ih =>
    intro ret
    have h1 : readByte selfPointer 12 = some 0xC0 := by decide
    have h2 : readByte selfPointer 13 = some 0x0C := by decide
    simp only [parseNamePinnedF, h1, h2]
    exact ih _

/-! ### TLV8 and varint -/

theorem tlvSteps_le (data : Bytes) : tlvSteps data ≤ data.length / 2 + 1 := by
  induction h : data.length using Nat.strongRecOn generalizing data with
  | _ n ih =>
    match data with
    | [] => simp [tlvSteps]
    | [_] => simp [tlvSteps]
    | a :: l :: rest =>
      rw [tlvSteps]
      have := ih (rest.drop l.toNat).length (by subst h; simp; omega) (rest.drop l.toNat) rfl
      subst h
      simp only [List.length_cons, List.length_drop] at this ⊢
      omega

theorem varSteps_le (bs : Bytes) : varSteps bs ≤ bs.length := by
  induction bs with
  | nil => simp [varSteps]
  | cons b t ih => simp only [varSteps]; split <;> simp <;> omega

/-- `read_variant` makes `varSteps` iterations exactly when it returns; the rest it hands back is
    what follows them -/
theorem readLoop_rest : ∀ (bs : Bytes) (acc cnt n : Nat) (rest : Bytes),
    C04.Varint.readLoop bs acc cnt = some (n, rest) → rest = bs.drop (varSteps bs) := by
  intro bs
  induction bs with
  | nil => intro acc cnt n rest h; simp [C04.Varint.readLoop] at h
  | cons b t ih =>
    intro acc cnt n rest h
    simp only [C04.Varint.readLoop] at h
    simp only [varSteps]
    split at h
    · rename_i hb
      cases h; simp [hb]
    · rename_i hb
      have := ih _ _ _ _ h
      simp only [hb, if_false]
      rw [this, Nat.add_comm]; rfl

/-! ### DMAP: when every declared length stays inside its parent, a frame costs 4 declared bytes -/

theorem dmapFrames_le (lk : Bytes → C04.Dmap.Kind) (utf8 : Bytes → Bool) :
    ∀ (fuel : Nat) (avail : Bytes) (n : Nat), dmapDeclOk lk fuel avail n = true →
      4 * dmapFrames lk utf8 fuel avail n ≤ n + 4 := by
  intro fuel
  induction fuel with
  | zero => intro avail n _; simp [dmapFrames]
  | succ fuel ih =>
    intro avail n hok
    simp only [dmapFrames]
    simp only [dmapDeclOk] at hok
    split
    · omega
    · rename_i hn
      rw [if_neg hn] at hok
      simp only [Bool.and_eq_true, decide_eq_true_eq] at hok
      obtain ⟨⟨hlen, hch⟩, hrest⟩ := hok
      have h2 := ih _ _ hrest
      split
      · split
        · rename_i hk
          rw [hk] at hch
          have h1 := ih _ _ hch
          split <;> omega
        · split <;> omega
      · omega

/-! ### HTTP with any integer Content-Length: the header block is always consumed -/

theorem sliceFrom_le (body : Bytes) (cl : Int) : (sliceFrom body cl).length ≤ body.length := by
  unfold sliceFrom
  split <;> simp only [List.length_drop] <;> omega

theorem httpZ_progress (P : HttpParamsZ) : Progress (httpZ P) := by
  intro b m r h
  simp only [httpZ] at h
  split at h
  · cases h
  · split at h
    · cases h
    · rename_i hdr body hs
      have hl := C02.splitSep_length b hdr body hs
      split at h
      · cases h
      · split at h
        · cases h
        · split at h
          · cases h
            have := sliceFrom_le body ‹Int›
            omega
          · cases h

theorem be_two_lt (x : Bytes) (h : x.length ≤ 2) : C02.be x < 65536 := by
  match x, h with
  | [], _ => simp [C02.be]
  | [a], _ =>
    have := a.toNat_lt
    simp [C02.be]; omega
  | [a, b], _ =>
    have := a.toNat_lt
    have := b.toNat_lt
    simp [C02.be]; omega

theorem controlRounds_le (data : Bytes) (n : Nat) (h : controlRounds data = some n) : n ≤ 65535 := by
  unfold controlRounds at h
  split at h
  · split at h
    · split at h
      · cases h
        exact Nat.le_of_lt_succ (be_two_lt _ (by rw [List.length_take]; exact Nat.min_le_left _ _))
      · cases h
    · cases h; omega
  · cases h

end PyatvModel.C05
