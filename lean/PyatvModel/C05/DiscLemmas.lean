import PyatvModel.C05.Model
import PyatvModel.C12.Lemmas
/-
C05 / discovery — every stage of the scan pipeline is *local*: per source up to
`handle_response`, per address from there on.  Removing the datagrams of some sources therefore
removes exactly the configurations at the addresses those sources announce.
-/
namespace PyatvModel.C05
open PyatvModel PyatvModel.Agg PyatvModel.C12

/-! ### list plumbing -/

section lists
variable {α β κ : Type}

theorem insertFW_filter [DecidableEq κ] (p : κ → Bool) (t : List (κ × β)) (kv : κ × β) :
    (insertFW t kv).filter (fun x => p x.1) =
      if p kv.1 then insertFW (t.filter (fun x => p x.1)) kv else t.filter (fun x => p x.1) := by
  unfold insertFW
  by_cases hp : p kv.1 = true
  · have hmem : kv.1 ∈ (t.filter (fun x => p x.1)).map Prod.fst ↔ kv.1 ∈ t.map Prod.fst := by
      simp only [List.mem_map, List.mem_filter]
      constructor
      · rintro ⟨x, ⟨hx, _⟩, hk⟩; exact ⟨x, hx, hk⟩
      · rintro ⟨x, hx, hk⟩; exact ⟨x, ⟨hx, by rw [hk]; exact hp⟩, hk⟩
    simp only [hp, if_true]
    by_cases hin : kv.1 ∈ t.map Prod.fst
    · rw [if_pos hin, if_pos (hmem.mpr hin)]
    · rw [if_neg hin, if_neg (fun h => hin (hmem.mp h))]
      simp [List.filter_append, hp]
  · have hp' : p kv.1 = false := by simpa using hp
    simp only [hp', Bool.false_eq_true, if_false]
    by_cases hin : kv.1 ∈ t.map Prod.fst
    · rw [if_pos hin]
    · rw [if_neg hin]; simp [List.filter_append, hp']

theorem aggFrom_filter [DecidableEq κ] (p : κ → Bool) (l t : List (κ × β)) :
    (aggFrom t l).filter (fun x => p x.1) =
      aggFrom (t.filter (fun x => p x.1)) (l.filter (fun x => p x.1)) := by
  induction l generalizing t with
  | nil => simp [aggFrom]
  | cons x l ih =>
    rw [aggFrom_cons, ih, insertFW_filter]
    by_cases hp : p x.1 = true
    · simp only [hp, if_true, List.filter_cons_of_pos]
      rw [aggFrom_cons]
    · have hp' : p x.1 = false := by simpa using hp
      simp [hp']

/-- dict keys in first-insertion order, restricted = restricted first -/
theorem firsts_filter [DecidableEq α] (p : α → Bool) (l : List α) :
    firsts (l.filter p) = (firsts l).filter p := by
  unfold firsts agg
  have h := aggFrom_filter (β := Unit) p (l.map fun a => (a, ())) []
  simp only [List.filter_nil] at h
  rw [List.filter_map] at h
  have e1 : (List.filter ((fun x : α × Unit => p x.1) ∘ fun a => (a, ())) l) = l.filter p := by
    congr 1
  rw [e1] at h
  rw [← h, List.filter_map]
  congr 1

/-- each item's contribution is wholly kept or wholly dropped -/
theorem flatMap_filter_sep (xs : List α) (f : α → List β) (p : β → Bool) (q : α → Bool)
    (h : ∀ x ∈ xs, ∀ y ∈ f x, p y = q x) :
    (xs.flatMap f).filter p = (xs.filter q).flatMap f := by
  induction xs with
  | nil => rfl
  | cons x xs ih =>
    have ih' := ih (fun x' hx' => h x' (List.mem_cons_of_mem _ hx'))
    have hx := h x List.mem_cons_self
    simp only [List.flatMap_cons, List.filter_append, ih']
    cases hq : q x with
    | true =>
      have : (f x).filter p = f x := List.filter_eq_self.mpr (fun y hy => by rw [hx y hy, hq])
      simp [hq, this]
    | false =>
      have : (f x).filter p = [] := List.filter_eq_nil_iff.mpr (fun y hy => by rw [hx y hy, hq]; simp)
      simp [hq, this]

theorem flatMap_congr' (xs : List α) (f g : α → List β) (h : ∀ x ∈ xs, f x = g x) :
    xs.flatMap f = xs.flatMap g := by
  induction xs with
  | nil => rfl
  | cons x xs ih =>
    simp only [List.flatMap_cons]
    rw [h x List.mem_cons_self, ih (fun x' hx' => h x' (List.mem_cons_of_mem _ hx'))]

/-- a partial map that labels its results with the key commutes with restriction -/
theorem filterMap_filter_key (ks : List α) (F G : α → Option β) (g : α → Bool) (key : β → α)
    (hkey : ∀ a c, G a = some c → key c = a) (hFG : ∀ a, g a = true → F a = G a) :
    (ks.filter g).filterMap F = (ks.filterMap G).filter (fun c => g (key c)) := by
  induction ks with
  | nil => rfl
  | cons a ks ih =>
    cases hg : g a with
    | true =>
      rw [List.filter_cons_of_pos (by simpa using hg)]
      simp only [List.filterMap_cons, hFG a hg]
      cases hG : G a with
      | none => simpa using ih
      | some c =>
        have : g (key c) = true := by rw [hkey a c hG]; exact hg
        simp [this, ih]
    | false =>
      rw [List.filter_cons_of_neg (by simp [hg])]
      simp only [List.filterMap_cons]
      cases hG : G a with
      | none => simpa using ih
      | some c =>
        have : g (key c) = false := by rw [hkey a c hG]; exact hg
        simp [this, ih]

end lists

/-! ### from `handle_response` on everything is per address -/

theorem yields_addr_filter (e : Env) (g : Nat → Bool) (hs : List Hd) :
    ((hs.filter (fun h => g h.addr)).filterMap (yields e)).map (·.1.addr) =
      ((hs.filterMap (yields e)).map (·.1.addr)).filter g := by
  induction hs with
  | nil => rfl
  | cons h hs ih =>
    cases hg : g h.addr with
    | true =>
      rw [List.filter_cons_of_pos (by simpa using hg)]
      simp only [List.filterMap_cons]
      cases hy : yields e h with
      | none => simpa using ih
      | some x =>
        have : g x.1.addr = true := by rw [yields_fst e hy]; exact hg
        simp [this, ih]
    | false =>
      rw [List.filter_cons_of_neg (by simp [hg])]
      simp only [List.filterMap_cons]
      cases hy : yields e h with
      | none => simpa using ih
      | some x =>
        have : g x.1.addr = false := by rw [yields_fst e hy]; exact hg
        simp [this, ih]

theorem foundAddrs_filter (e : Env) (g : Nat → Bool) (hs : List Hd) :
    foundAddrs e (hs.filter (fun h => g h.addr)) = (foundAddrs e hs).filter g := by
  unfold foundAddrs
  rw [yields_addr_filter, firsts_filter]

theorem rawCfg_filter (e : Env) (g : Nat → Bool) (hs : List Hd) (a : Nat) (ha : g a = true) :
    rawCfg e (hs.filter (fun h => g h.addr)) a = rawCfg e hs a := by
  have : (hs.filter (fun h => g h.addr)).filter (fun h => decide (h.addr = a)) =
      hs.filter (fun h => decide (h.addr = a)) := by
    rw [List.filter_filter]
    apply List.filter_congr
    intro h _
    by_cases hh : h.addr = a
    · simp [hh, ha]
    · simp [hh]
  simp only [rawCfg, this]

theorem rawCfg_addr (e : Env) (hs : List Hd) (a : Nat) (c : RawCfg) (h : rawCfg e hs a = some c) :
    c.addr = a := by
  simp only [rawCfg, Option.map_map] at h
  cases hh : ((hs.filter fun h => decide (h.addr = a)).filterMap (yields e)).head? with
  | none => simp [hh] at h
  | some x =>
    simp only [hh, Option.map_some, Option.some.injEq, Function.comp] at h
    rw [← h]; rfl

theorem discover_filter (e : Env) (g : Nat → Bool) (hs : List Hd) :
    discover e (hs.filter (fun h => g h.addr)) = (discover e hs).filter (fun c => g c.addr) := by
  unfold discover
  rw [foundAddrs_filter]
  exact filterMap_filter_key _ _ _ g (·.addr) (rawCfg_addr e hs) (fun a ha => rawCfg_filter e g hs a ha)

theorem results_filter (e : Env) (si : SvcInfoFn) (g : Nat → Bool) (hs : List Hd) :
    results e si (hs.filter (fun h => g h.addr)) = (results e si hs).filter (fun c => g c.addr) := by
  unfold results scanResult
  rw [discover_filter, List.filter_filter, List.filter_map, List.filter_filter]
  congr 1
  apply List.filter_congr
  intro c _
  simp [Function.comp, withInfo, Cfg.addr, Bool.and_comm]

/-! ### up to `handle_response` everything is per source -/

theorem decodeM_src (w : WDgram) : (decodeM w).src = w.src := rfl

theorem map_decodeM_filter (q : Nat → Bool) (ws : List WDgram) :
    (ws.filter (fun w => q w.src)).map decodeM = (ws.map decodeM).filter (fun d => q d.src) := by
  rw [List.filter_map]; rfl

theorem decodeU_filter (q : Nat → Bool) (ws : List WDgram) :
    decodeU (ws.filter (fun w => q w.src)) = (decodeU ws).filter (fun d => q d.src) := by
  unfold decodeU
  induction ws with
  | nil => rfl
  | cons w ws ih =>
    cases hq : q w.src with
    | true =>
      rw [List.filter_cons_of_pos (by simpa using hq)]
      simp only [List.filterMap_cons]
      cases hr : w.recs with
      | none => simpa [hr] using ih
      | some rs => simp [hr, hq, ih]
    | false =>
      rw [List.filter_cons_of_neg (by simp [hq])]
      simp only [List.filterMap_cons]
      cases hr : w.recs with
      | none => simpa [hr] using ih
      | some rs => simp [hr, hq, ih]

theorem mcastSources_filter (q : Nat → Bool) (l : List Dgram) :
    mcastSources (l.filter (fun d => q d.src)) = (mcastSources l).filter q := by
  unfold mcastSources
  rw [← firsts_filter, List.filter_map]; rfl

theorem filter_src_filter (q : Nat → Bool) (r : Dgram → Bool) (l : List Dgram) (s : Nat) (hq : q s = true) :
    (l.filter (fun d => q d.src)).filter (fun d => decide (d.src = s) && r d) =
      l.filter (fun d => decide (d.src = s) && r d) := by
  rw [List.filter_filter]
  apply List.filter_congr
  intro d _
  by_cases hd : d.src = s
  · simp [hd, hq]
  · simp [hd]

theorem mcastResp_filter (e : Env) (q : Nat → Bool) (l : List Dgram) (s : Nat) (hq : q s = true) :
    mcastResp e (l.filter (fun d => q d.src)) s = mcastResp e l s := by
  simp only [mcastResp, filter_src_filter q (accepted e) l s hq]

theorem ucastResp_filter (e : Env) (nq : Nat) (q : Nat → Bool) (l : List Dgram) (h : Nat) (hq : q h = true) :
    ucastResp e nq (l.filter (fun d => q d.src)) h = ucastResp e nq l h := by
  have := filter_src_filter q (fun _ => true) l h hq
  simp only [Bool.and_true] at this
  unfold ucastResp ucastSeen
  rw [this]

/-- multicast: the services handled for the remaining sources are the handled services at the
    remaining addresses -/
theorem handledM_filter (e : Env) (bad goodAddr : Nat → Bool) (ws : List WDgram)
    (hsep : SeparatedM e bad goodAddr ws) :
    handled e (mcastResponses e ((ws.filter (fun w => !bad w.src)).map decodeM)) =
      (handled e (mcastResponses e (ws.map decodeM))).filter (fun h => goodAddr h.addr) := by
  rw [map_decodeM_filter (fun s => !bad s)]
  unfold mcastResponses
  rw [handled_map, handled_map, mcastSources_filter (fun s => !bad s)]
  rw [flatMap_congr' _ _ (fun s => hdOf e (mcastResp e (ws.map decodeM) s))
    (fun s hs => by
      have : (!bad s) = true := (List.mem_filter.mp hs).2
      simp only [mcastResp_filter e (fun s => !bad s) _ s this])]
  exact (flatMap_filter_sep _ _ _ _ (fun s hs y hy => hsep s hs y hy)).symm

theorem handledU_filter (e : Env) (nq : Nat) (bad goodAddr : Nat → Bool) (hosts : List Nat) (ws : List WDgram)
    (hsep : SeparatedU e nq bad goodAddr hosts ws) :
    handled e (ucastResponses e nq (hosts.filter (fun h => !bad h)) (decodeU (ws.filter (fun w => !bad w.src)))) =
      (handled e (ucastResponses e nq hosts (decodeU ws))).filter (fun h => goodAddr h.addr) := by
  rw [decodeU_filter (fun s => !bad s)]
  unfold ucastResponses
  rw [handled_map, handled_map]
  rw [flatMap_congr' _ _ (fun s => hdOf e (ucastResp e nq (decodeU ws) s))
    (fun s hs => by
      have : (!bad s) = true := (List.mem_filter.mp hs).2
      simp only [ucastResp_filter e nq (fun s => !bad s) _ s this])]
  exact (flatMap_filter_sep _ _ _ _ (fun s hs y hy => hsep s hs y hy)).symm

end PyatvModel.C05
