import PyatvModel.C05.Model
/-
C05 / DNS — ranking functions for the loops of pyatv/support/dns.py as repaired:

* name loop: `seg·(n+1) + (n − pos) + 1` (a jump lowers `seg`, a label raises `pos`),
  at most `(n+1)²` for a call of `parse_domain_name`;
* TXT loop: `(n − pos) + 1`;
* record loops: a record that parses ends after where it began and a record at end of input
  fails, so at most `(n − pos) + 2` calls whatever the header counts say.
-/
namespace PyatvModel.C05
open PyatvModel PyatvModel.C04.Dns

theorem readByte_lt {msg : Bytes} {pos : Nat} {b : UInt8} (h : readByte msg pos = some b) :
    pos < msg.length := by
  unfold readByte at h
  by_cases hp : pos < msg.length
  · exact hp
  · rw [List.drop_eq_nil_of_le (by omega)] at h; cases h

theorem readByte_eof {msg : Bytes} {pos : Nat} (h : msg.length ≤ pos) : readByte msg pos = none := by
  unfold readByte
  rw [List.drop_eq_nil_of_le h]; rfl

theorem label_end_le (msg : Bytes) (pos k : Nat) (h : pos < msg.length) :
    pos + 1 + ((msg.drop (pos + 1)).take k).length ≤ msg.length := by
  simp only [List.length_take, List.length_drop]; omega

/-! ### the name loop -/

theorem nameSteps_le (msg : Bytes) : ∀ (f pos seg : Nat), pos ≤ msg.length → seg ≤ msg.length →
    nameSteps msg f pos seg ≤ seg * (msg.length + 1) + (msg.length - pos) + 1 := by
  intro f
  induction f with
  | zero => intro pos seg _ _; simp [nameSteps]
  | succ f ih =>
    intro pos seg hp hs
    simp only [nameSteps]
    split
    · omega
    · rename_i b hb
      have hlt := readByte_lt hb
      split
      · omega
      · split
        · split
          · omega
          · rename_i lo hlo
            split
            · omega
            · rename_i hseg
              generalize b.toNat % 64 * 256 + lo.toNat = t at *
              have ht : t < seg := by omega
              have h0 := ih t t (by omega) (by omega)
              have h1 : (t + 1) * (msg.length + 1) ≤ seg * (msg.length + 1) :=
                Nat.mul_le_mul_right _ (by omega)
              rw [Nat.succ_mul] at h1
              omega
        · split
          · split
            · omega
            · split
              · have hl := label_end_le msg pos b.toNat hlt
                have h0 := ih _ seg hl hs
                omega
              · omega
          · omega

theorem nameFuel_eq (msg : Bytes) :
    nameFuel msg = msg.length * (msg.length + 1) + msg.length + 1 := by
  unfold nameFuel
  rw [Nat.succ_mul]; omega

theorem measure_le_fuel (msg : Bytes) (pos : Nat) (h : pos < msg.length) :
    pos * (msg.length + 1) + (msg.length - pos) + 1 ≤ nameFuel msg := by
  rw [nameFuel_eq]
  have h1 : (pos + 1) * (msg.length + 1) ≤ msg.length * (msg.length + 1) :=
    Nat.mul_le_mul_right _ (by omega)
  rw [Nat.succ_mul] at h1
  omega

theorem nameStepsAt_le (msg : Bytes) (pos : Nat) : nameStepsAt msg pos ≤ nameBound msg.length := by
  unfold nameStepsAt
  by_cases hp : pos < msg.length
  · have := nameSteps_le msg (nameFuel msg) pos pos (by omega) (by omega)
    have := measure_le_fuel msg pos hp
    unfold nameBound; unfold nameFuel at *; omega
  · rw [nameFuel_eq]
    simp only [nameSteps, readByte_eof (Nat.le_of_not_lt hp)]
    unfold nameBound
    have : 1 ≤ (msg.length + 1) * (msg.length + 1) := Nat.mul_pos (by omega) (by omega)
    omega

/-- with fuel at least the measure the model loop leaves through one of its own exits -/
theorem parseNameF_no_hang (msg : Bytes) : ∀ (f pos seg : Nat) (acc : List Bytes) (ret : Option Nat),
    pos ≤ msg.length → seg ≤ msg.length →
    seg * (msg.length + 1) + (msg.length - pos) + 1 ≤ f →
    (parseNameF msg f pos seg acc ret).err ≠ some .hang := by
  intro f
  induction f with
  | zero => intro pos seg acc ret _ _ h; omega
  | succ f ih =>
    intro pos seg acc ret hp hs hf
    simp only [parseNameF]
    split
    · simp
    · rename_i b hb
      have hlt := readByte_lt hb
      split
      · simp
      · split
        · split
          · simp
          · rename_i lo hlo
            split
            · simp
            · rename_i hseg
              generalize b.toNat % 64 * 256 + lo.toNat = t at *
              have ht : t < seg := by omega
              have h1 : (t + 1) * (msg.length + 1) ≤ seg * (msg.length + 1) :=
                Nat.mul_le_mul_right _ (by omega)
              rw [Nat.succ_mul] at h1
              exact ih t t _ _ (by omega) (by omega) (by omega)
        · split
          · split
            · simp
            · split
              · have hl := label_end_le msg pos b.toNat hlt
                exact ih _ seg _ _ hl hs (by omega)
              · simp
          · simp

theorem parseName_eof {msg : Bytes} {pos : Nat} (h : msg.length ≤ pos) :
    (parseName msg pos).err = some .struct := by
  unfold parseName
  rw [nameFuel_eq]
  simp only [parseNameF, readByte_eof h]

theorem parseName_no_hang (msg : Bytes) (pos : Nat) : (parseName msg pos).err ≠ some .hang := by
  by_cases hp : pos < msg.length
  · exact parseNameF_no_hang msg _ pos pos [] none (by omega) (by omega) (measure_le_fuel msg pos hp)
  · rw [parseName_eof (Nat.le_of_not_lt hp)]; simp

/-- after the first jump the stream goes back to where that pointer ended -/
theorem parseNameF_next_some (msg : Bytes) : ∀ (f pos seg : Nat) (acc : List Bytes) (r : Nat),
    (parseNameF msg f pos seg acc (some r)).err = none →
    (parseNameF msg f pos seg acc (some r)).next = r := by
  intro f
  induction f with
  | zero => intro pos seg acc r h; simp [parseNameF] at h
  | succ f ih =>
    intro pos seg acc r
    simp only [parseNameF]
    split
    · simp
    · split
      · simp
      · split
        · split
          · simp
          · split
            · simp
            · intro h; exact ih _ _ _ _ h
        · split
          · split
            · simp
            · split
              · intro h; exact ih _ _ _ _ h
              · simp
          · simp

/-- a name that parses leaves the stream after where it began -/
theorem parseNameF_next_gt (msg : Bytes) : ∀ (f pos seg : Nat) (acc : List Bytes),
    (parseNameF msg f pos seg acc none).err = none →
    pos < (parseNameF msg f pos seg acc none).next := by
  intro f
  induction f with
  | zero => intro pos seg acc h; simp [parseNameF] at h
  | succ f ih =>
    intro pos seg acc
    simp only [parseNameF]
    split
    · simp
    · split
      · simp
      · split
        · split
          · simp
          · split
            · simp
            · intro h
              simp only [Option.getD_none] at h ⊢
              rw [parseNameF_next_some msg _ _ _ _ _ h]; omega
        · split
          · split
            · simp
            · split
              · intro h
                have := ih _ _ _ h
                omega
              · simp
          · simp

theorem parseName_next_gt {msg : Bytes} {pos : Nat} (h : (parseName msg pos).err = none) :
    pos < (parseName msg pos).next :=
  parseNameF_next_gt msg _ pos pos [] h

/-! ### the TXT loop -/

theorem txtChunk_err (chunk : Bytes) (d : List (Bytes × Bytes)) (e : Err)
    (h : txtChunk chunk d = .error e) : e = .unicode := by
  unfold txtChunk at h
  split at h
  · split at h
    · cases h
    · cases h; rfl
  · split at h
    · cases h
    · split at h <;> cases h

theorem parseTxtF_no_hang (msg : Bytes) (stop : Nat) : ∀ (f pos : Nat) (d : List (Bytes × Bytes)),
    (msg.length - pos) + 1 ≤ f → ∀ v nx, parseTxtF msg stop f pos d ≠ .err .hang ∧
      (parseTxtF msg stop f pos d = .ok v nx → pos ≤ nx) := by
  intro f
  induction f with
  | zero => intro pos d h; omega
  | succ f ih =>
    intro pos d hf v nx
    simp only [parseTxtF]
    split
    · split
      · refine ⟨by simp, by simp⟩
      · rename_i b hb
        have hlt := readByte_lt hb
        split
        · rename_i e he
          have := txtChunk_err _ _ _ he
          subst this
          refine ⟨by simp, by simp⟩
        · rename_i d' hd
          have := ih (pos + 1 + ((msg.drop (pos + 1)).take b.toNat).length) d' (by omega) v nx
          refine ⟨this.1, fun h => ?_⟩
          have := this.2 h
          omega
    · refine ⟨by simp, fun h => ?_⟩
      cases h; omega

theorem txtSteps_le (msg : Bytes) (stop : Nat) : ∀ (f pos : Nat) (d : List (Bytes × Bytes)),
    txtSteps msg stop f pos d ≤ (msg.length - pos) + 2 := by
  intro f
  induction f with
  | zero => intro pos d; simp [txtSteps]
  | succ f ih =>
    intro pos d
    simp only [txtSteps]
    split
    · split
      · omega
      · rename_i b hb
        have hlt := readByte_lt hb
        split
        · omega
        · rename_i d' hd
          have := ih (pos + 1 + ((msg.drop (pos + 1)).take b.toNat).length) d'
          omega
    · omega

/-! ### records -/

theorem unpackQuestion_next {msg : Bytes} {pos nx : Nat} {q : Question}
    (h : unpackQuestion msg pos = .ok q nx) : pos < nx := by
  unfold unpackQuestion at h
  split at h
  · cases h
  · rename_i ls p1 hn
    have hgt := parseName_next_gt (msg := msg) (pos := pos) (by rw [hn])
    rw [hn] at hgt
    split at h
    · cases h; simp only at hgt; omega
    · cases h

theorem unpackQuestion_eof {msg : Bytes} {pos : Nat} (hp : msg.length ≤ pos) :
    ∃ e, unpackQuestion msg pos = .err e := by
  unfold unpackQuestion
  have := parseName_eof hp
  split
  · exact ⟨_, rfl⟩
  · rename_i ls p1 hn
    rw [hn] at this; cases this

theorem unpackResource_next {msg : Bytes} {pos nx : Nat} {r : Resource}
    (h : unpackResource msg pos = .ok r nx) : pos < nx := by
  unfold unpackResource at h
  split at h
  · cases h
  · rename_i ls p1 hn
    have hgt := parseName_next_gt (msg := msg) (pos := pos) (by rw [hn])
    rw [hn] at hgt
    simp only at hgt
    split at h
    · simp only at h
      split at h
      · cases h
      · split at h
        · rename_i heq
          cases h; omega
        · cases h
    · cases h

theorem unpackResource_eof {msg : Bytes} {pos : Nat} (hp : msg.length ≤ pos) :
    ∃ e, unpackResource msg pos = .err e := by
  unfold unpackResource
  have := parseName_eof hp
  split
  · exact ⟨_, rfl⟩
  · rename_i ls p1 hn
    rw [hn] at this; cases this

theorem rdataCost_le (msg : Bytes) (qtype pos len : Nat) :
    rdataCost msg qtype pos len ≤ nameBound msg.length + msg.length + 2 := by
  unfold rdataCost
  split
  · have := nameStepsAt_le msg pos; omega
  · split
    · have := txtSteps_le msg (pos + len) (msg.length + 1) pos []; omega
    · split
      · split
        · have := nameStepsAt_le msg (pos + 6); omega
        · omega
      · omega

theorem questionCost_le (msg : Bytes) (pos : Nat) : questionCost msg pos ≤ recBound msg.length := by
  unfold questionCost recBound
  have := nameStepsAt_le msg pos; omega

theorem resourceCost_le (msg : Bytes) (pos : Nat) : resourceCost msg pos ≤ recBound msg.length := by
  unfold resourceCost recBound
  have := nameStepsAt_le msg pos
  split
  · rename_i ls p1 _
    split
    · rename_i _ _ _ _ t c ttl len _ _ _ _
      have := rdataCost_le msg t (p1 + 10) len
      omega
    · omega
  · omega

/-- whatever count the header announces, the calls made are limited by the input: a call that
    succeeds ends after where it began, a call at end of input fails -/
theorem manyCost_le {α : Type} (f : Bytes → Nat → Res α) (c : Bytes → Nat → Nat) (msg : Bytes) (C : Nat)
    (hc : ∀ pos, c msg pos ≤ C)
    (hnext : ∀ pos x nx, f msg pos = .ok x nx → pos < nx)
    (heof : ∀ pos, msg.length ≤ pos → ∃ e, f msg pos = .err e) :
    ∀ (k pos : Nat), manyCost f c msg k pos ≤ ((msg.length - pos) + 2) * C := by
  intro k
  induction k with
  | zero => intro pos; simp [manyCost]
  | succ k ih =>
    intro pos
    simp only [manyCost]
    have h1 := hc pos
    cases hf : f msg pos with
    | err e =>
      simp only
      have : C ≤ ((msg.length - pos) + 2) * C := Nat.le_mul_of_pos_left _ (by omega)
      omega
    | ok x nx =>
      simp only
      have hlt := hnext pos x nx hf
      have hpos : pos < msg.length := by
        by_cases hp : pos < msg.length
        · exact hp
        · obtain ⟨e, he⟩ := heof pos (Nat.le_of_not_lt hp)
          rw [he] at hf; cases hf
      have h2 := ih nx
      have h3 : ((msg.length - nx) + 2) * C ≤ ((msg.length - pos) + 1) * C :=
        Nat.mul_le_mul_right _ (by omega)
      have h4 : ((msg.length - pos) + 2) * C = ((msg.length - pos) + 1) * C + C := Nat.succ_mul _ _
      omega

theorem manyCost_le' {α : Type} (f : Bytes → Nat → Res α) (c : Bytes → Nat → Nat) (msg : Bytes) (C : Nat)
    (hc : ∀ pos, c msg pos ≤ C)
    (hnext : ∀ pos x nx, f msg pos = .ok x nx → pos < nx)
    (heof : ∀ pos, msg.length ≤ pos → ∃ e, f msg pos = .err e) (k pos : Nat) :
    manyCost f c msg k pos ≤ (msg.length + 2) * C :=
  Nat.le_trans (manyCost_le f c msg C hc hnext heof k pos) (Nat.mul_le_mul_right _ (by omega))

theorem questionsCost_le (msg : Bytes) (k pos : Nat) :
    manyCost unpackQuestion questionCost msg k pos ≤ (msg.length + 2) * recBound msg.length :=
  manyCost_le' _ _ msg _ (questionCost_le msg) (fun _ _ _ h => unpackQuestion_next h)
    (fun _ h => unpackQuestion_eof h) k pos

theorem resourcesCost_le (msg : Bytes) (k pos : Nat) :
    manyCost unpackResource resourceCost msg k pos ≤ (msg.length + 2) * recBound msg.length :=
  manyCost_le' _ _ msg _ (resourceCost_le msg) (fun _ _ _ h => unpackResource_next h)
    (fun _ h => unpackResource_eof h) k pos

theorem unpackCost_le (msg : Bytes) : unpackCost msg ≤ dnsBound msg.length := by
  unfold unpackCost dnsBound
  generalize hX : (msg.length + 2) * recBound msg.length = X
  split
  · rename_i qd an ns ar _ _ _ _ _ _
    have h1 := questionsCost_le msg qd 12
    rw [hX] at h1
    split
    · exact Nat.le_trans (Nat.add_le_add h1 (Nat.le_refl 0)) (by omega)
    · rename_i p1 _
      have h2 := resourcesCost_le msg an p1
      rw [hX] at h2
      split
      · exact Nat.le_trans (Nat.add_le_add h1 (Nat.add_le_add h2 (Nat.le_refl 0))) (by omega)
      · rename_i p2 _
        have h3 := resourcesCost_le msg ns p2
        rw [hX] at h3
        split
        · exact Nat.le_trans (Nat.add_le_add h1 (Nat.add_le_add h2 (Nat.add_le_add h3 (Nat.le_refl 0)))) (by omega)
        · rename_i p3 _
          have h4 := resourcesCost_le msg ar p3
          rw [hX] at h4
          exact Nat.le_trans (Nat.add_le_add h1 (Nat.add_le_add h2 (Nat.add_le_add h3 h4))) (by omega)
  · omega

/-! ### no loop of `DnsMessage.unpack` runs out of fuel -/

theorem parseRData_no_hang (msg : Bytes) (qtype pos len : Nat) : parseRData msg qtype pos len ≠ .err .hang := by
  unfold parseRData
  split
  · split
    · simp
    · simp only []
      split <;> simp
  · split
    · have := parseName_no_hang msg pos
      split
      · simp
      · rename_i e _ _ hn
        rw [hn] at this
        intro h; cases h; exact this rfl
    · split
      · have := fun v nx => (parseTxtF_no_hang msg (pos + len) (msg.length + 1) pos [] (by omega) v nx).1
        split
        · simp
        · rename_i e he
          intro h; cases h
          exact this [] 0 he
      · split
        · split
          · have := parseName_no_hang msg (pos + 6)
            split
            · simp
            · rename_i e _ _ hn
              rw [hn] at this
              intro h; cases h; exact this rfl
          · simp
        · simp

theorem unpackQuestion_no_hang (msg : Bytes) (pos : Nat) : unpackQuestion msg pos ≠ .err .hang := by
  unfold unpackQuestion
  have := parseName_no_hang msg pos
  split
  · rename_i e _ _ hn
    rw [hn] at this
    intro h; cases h; exact this rfl
  · split <;> simp

theorem unpackResource_no_hang (msg : Bytes) (pos : Nat) : unpackResource msg pos ≠ .err .hang := by
  unfold unpackResource
  have := parseName_no_hang msg pos
  split
  · rename_i e _ _ hn
    rw [hn] at this
    intro h; cases h; exact this rfl
  · rename_i ls p1 _
    split
    · rename_i _ _ _ _ t c ttl len _ _ _ _
      have := parseRData_no_hang msg t (p1 + 10) len
      simp only []
      split
      · rename_i e he
        intro h; cases h; exact this he
      · split <;> simp
    · simp

theorem unpackMany_no_hang {α : Type} (f : Bytes → Nat → Res α) (msg : Bytes)
    (hf : ∀ pos, f msg pos ≠ .err .hang) : ∀ (k pos : Nat), unpackMany f msg k pos ≠ .err .hang := by
  intro k
  induction k with
  | zero => intro pos; simp [unpackMany]
  | succ k ih =>
    intro pos
    simp only [unpackMany]
    split
    · rename_i e he
      intro h; cases h; exact hf pos he
    · rename_i x p1 _
      split
      · rename_i e he
        intro h; cases h; exact ih p1 he
      · simp

theorem unpack_no_hang (msg : Bytes) : unpack msg ≠ .err .hang := by
  unfold unpack
  have hq := unpackMany_no_hang unpackQuestion msg (unpackQuestion_no_hang msg)
  have hr := unpackMany_no_hang unpackResource msg (unpackResource_no_hang msg)
  split
  · split
    · rename_i e he
      intro h; cases h; exact hq _ _ he
    · split
      · rename_i e he
        intro h; cases h; exact hr _ _ he
      · split
        · rename_i e he
          intro h; cases h; exact hr _ _ he
        · split
          · rename_i e he
            intro h; cases h; exact hr _ _ he
          · simp
  · simp

end PyatvModel.C05
