import PyatvModel.Base.Bytes
/-
C05 — regular expressions applied to network strings (`re.match(pattern, txt_value)` …).

`Re` is the shape of a pattern as `tools/gen/c05.py` extracts it from the modules under test
(`Gen/C05Regex.lean`): character classes are abstract, anchors dropped, groups flattened.
Python's `re` is a backtracking matcher; its work on a pattern with a repeat *inside* a repeat
(`(\d+,?)+`) or an alternation inside a repeat is exponential in the subject.  `Re.flat` is the
syntactic criterion that rules this out: everything that is repeated more than once is a single
character class.  A flat pattern is a finite choice (`expand`) of sequences of class repeats
`c₁{a₁,b₁} c₂{a₂,b₂} …`; `cost` counts the steps of an exhaustive backtracking search for such a
sequence in the worst case (every attempt fails, so every feasible count of every item is
tried), `bnd` is the polynomial that bounds it (`RegexLemmas.cost_le`).
-/
namespace PyatvModel.C05

inductive Re where
  | cls
  | seq (l : List Re)
  | alt (l : List Re)
  | rep (min : Nat) (max : Option Nat) (r : Re)
  deriving Repr

/-- at most one iteration (`?`, `{0,1}`, `{1}`) -/
def atMostOnce : Option Nat → Bool
  | some n => n ≤ 1
  | none => false

def Re.isCls : Re → Bool
  | .cls => true
  | _ => false

mutual
/-- no repeat and no alternation under a repeat -/
def Re.flat : Re → Bool
  | .cls => true
  | .seq l => Re.flatList l
  | .alt l => Re.flatList l
  | .rep _ max r => if atMostOnce max then Re.flat r else r.isCls
def Re.flatList : List Re → Bool
  | [] => true
  | r :: rs => Re.flat r && Re.flatList rs
end

/-- one class repeat `c{min,max}` -/
structure Item where
  cls : UInt8 → Bool
  min : Nat
  max : Option Nat

/-- length of the longest prefix inside the class -/
def run (p : UInt8 → Bool) : Bytes → Nat
  | [] => 0
  | c :: t => if p c then 1 + run p t else 0

def natSum : List Nat → Nat
  | [] => 0
  | x :: xs => x + natSum xs

/-- steps of the exhaustive backtracking search for the sequence at the front of `s`: scan the
    run of the first item, then for every count it may take (greedy first, down to `min`) search
    for the rest — all of them, as happens when the overall match fails -/
def cost : List Item → Bytes → Nat
  | [], _ => 1
  | it :: rest, s =>
    let m := Nat.min (run it.cls s) (it.max.getD s.length)
    1 + m + natSum ((List.range (m + 1)).map fun c => if it.min ≤ c then cost rest (s.drop c) else 0)

/-- `bnd n k`: bound for `k` items on a subject of length `n` — a polynomial of degree `k` in `n` -/
def bnd (n : Nat) : Nat → Nat
  | 0 => 1
  | k + 1 => 1 + n + (n + 1) * bnd n k

/-- how many counts one item can take on a subject of length `n` (minus one) -/
def Item.width (it : Item) (n : Nat) : Nat := Nat.min n (it.max.getD n)

/-- the same bound, item by item: a bounded repeat `c{a,b}` (a literal is `c{1,1}`) contributes the
    constant factor `b + 1`, only an unbounded one the factor `n + 1` — so the degree of the
    polynomial is the number of unbounded repeats (`unbounded`) -/
def bndI (n : Nat) : List Item → Nat
  | [] => 1
  | it :: rest => 1 + it.width n + (it.width n + 1) * bndI n rest

def unbounded (p : List Item) : Nat := (p.filter fun it => it.max.isNone).length

def cross (a b : List (List Item)) : List (List Item) := a.flatMap fun x => b.map fun y => x ++ y

mutual
/-- the class-repeat sequences a flat pattern stands for (optional parts taken or not, one branch
    of every alternation); `[]` for a part that is not flat -/
def Re.expand (p : UInt8 → Bool) : Re → List (List Item)
  | .cls => [[⟨p, 1, some 1⟩]]
  | .seq l => Re.expandSeq p l
  | .alt l => Re.expandAlt p l
  | .rep lo hi r =>
    if atMostOnce hi then (if lo = 0 then [[]] else []) ++ (if hi = some 0 then [] else Re.expand p r)
    else if r.isCls then [[⟨p, lo, hi⟩]] else []
def Re.expandSeq (p : UInt8 → Bool) : List Re → List (List Item)
  | [] => [[]]
  | r :: rs => cross (Re.expand p r) (Re.expandSeq p rs)
def Re.expandAlt (p : UInt8 → Bool) : List Re → List (List Item)
  | [] => []
  | r :: rs => Re.expand p r ++ Re.expandAlt p rs
end

/-- number of items of the longest sequence: the degree of the bound -/
def Re.degree (r : Re) : Nat := ((Re.expand (fun _ => true) r).map List.length).foldl Nat.max 0

end PyatvModel.C05
