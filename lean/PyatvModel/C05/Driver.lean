import PyatvModel.Base.Bytes
import PyatvModel.C05.Model
import PyatvModel.C04.Dmap.Driver
import PyatvModel.C12.Driver
/-
Line protocol (C05).  Bytes as lower-case hex (`-` = empty).  State: the DMAP tag table.

  name <hex> <pos>        → ok <next> <iters> | err:<class> <iters>      parse_domain_name at pos
  dns <hex>               → ok <cost> | err:<class> <cost>               DnsMessage().unpack
  drain <framer> <hex>    → <msgs> <rest-len> <err|-> <attempts>         framer ∈ mrp companion hap data http
  loop <event|server|pb> <hex>  → <iters> <halted 0|1> <rest-len|->      (rest: event, server)
  pinned <data|event|name> <hex> <fuel>  → running | left               the loops before the repairs
  control <hex>           → ok <rounds> | err 0                           RAOP ControlClient.datagram_received
  tlv <hex>               → ok <frames> | err:IndexError <frames>
  var <hex>               → ok <value> <rest-len> <iters> | err <iters>
  dmaptable <default> <namehex>=<kind> …  → ok
  dmap <hex> <fuel>       → ok|err:<class> <frames> <declok 0|1>
  flags <hex>             → ok <-|+><n> | err
  scan …                  → the C12 driver's answer (datagrams that do not decode are sent as
                            `D,src,tag` without records: `C05.decodeM`)
-/
namespace PyatvModel.C05
open PyatvModel PyatvModel.Framing

def errStr : Option ErrClass → String
  | none => "-"
  | some e => e.toStr

def showDrain {M : Type} (f : Framer M) (b : Bytes) : String :=
  let o := drainAll f b
  s!"{o.msgs.length} {o.rest.length} {errStr o.err} {drainSteps f (b.length + 1) b}"

def showB (b : Bool) : String := if b then "1" else "0"

def showLoop (step : LoopStep) (fin : Option (Bytes → Bytes)) (b : Bytes) : String :=
  let n := b.length + 1
  let rest := match fin with
    | some f => (match loopRest step f n b with | some r => toString r.length | none => "?")
    | none => "-"
  s!"{loopSteps step n b} {showB (loopHalts step n b)} {rest}"

def dnsErr (e : C04.Dns.Err) : String := "err:" ++ e.toStr

def handle (tb : C04.Dmap.Table) (ws : List String) : C04.Dmap.Table × String :=
  match ws with
  | ["name", h, p] =>
    match ofHex? h, p.toNat? with
    | some msg, some pos =>
      let r := C04.Dns.parseName msg pos
      let it := nameStepsAt msg pos
      match r.err with
      | none => (tb, s!"ok {r.next} {it}")
      | some e => (tb, s!"{dnsErr e} {it}")
    | _, _ => (tb, "bad-op")
  | ["dns", h] =>
    match ofHex? h with
    | some msg =>
      match C04.Dns.unpack msg with
      | .ok _ _ => (tb, s!"ok {unpackCost msg}")
      | .err e => (tb, s!"{dnsErr e} {unpackCost msg}")
    | none => (tb, "bad-op")
  | ["drain", f, h] =>
    match ofHex? h with
    | some b =>
      match f with
      | "mrp" => (tb, showDrain C02.mrp b)
      | "companion" => (tb, showDrain C02.companion b)
      | "hap" => (tb, showDrain C02.hap b)
      | "data" => (tb, showDrain C02.dataStream b)
      | "http" => (tb, showDrain C02.httpClient b)
      | _ => (tb, "bad-op")
    | none => (tb, "bad-op")
  | ["loop", l, h] =>
    match ofHex? h with
    | some b =>
      match l with
      | "event" => (tb, showLoop eventStep (some eventFin) b)
      | "server" => (tb, showLoop serverStep (some id) b)
      | "pb" => (tb, showLoop protobufsStep none b)
      | _ => (tb, "bad-op")
    | none => (tb, "bad-op")
  | ["pinned", l, h, f] =>
    match ofHex? h, f.toNat? with
    | some b, some fuel =>
      let r (x : Bool) := if x then "left" else "running"
      match l with
      | "data" => (tb, r (drainHalts dataStreamPinned fuel b))
      | "event" => (tb, r (loopHalts eventStepPinned fuel b))
      | "name" => (tb, r ((parseNamePinnedF b fuel 12 [] none).err != some .hang))
      | _ => (tb, "bad-op")
    | _, _ => (tb, "bad-op")
  | ["control", h] =>
    match ofHex? h with
    | some b =>
      match controlRounds b with
      | some n => (tb, s!"ok {n}")
      | none => (tb, "err 0")
    | none => (tb, "bad-op")
  | ["tlv", h] =>
    match ofHex? h with
    | some b =>
      match C04.Tlv8.readTlv b with
      | .ok _ => (tb, s!"ok {tlvSteps b}")
      | .error .indexError => (tb, s!"err:IndexError {tlvSteps b}")
    | none => (tb, "bad-op")
  | ["var", h] =>
    match ofHex? h with
    | some b =>
      match C04.Varint.readVar b with
      | some (n, rest) => (tb, s!"ok {n} {rest.length} {varSteps b}")
      | none => (tb, s!"err {varSteps b}")
    | none => (tb, "bad-op")
  | "dmaptable" :: d :: es =>
    match C04.Dmap.kind? d, es.mapM C04.Dmap.entry? with
    | some d, some es => (⟨d, es⟩, "ok")
    | _, _ => (tb, "bad-op")
  | ["dmap", h, f] =>
    match ofHex? h, f.toNat? with
    | some b, some fuel =>
      let frames := dmapFrames tb.lookup C04.Dmap.utf8Valid fuel b b.length
      let ok := showB (dmapDeclOk tb.lookup fuel b b.length)
      match C04.Dmap.parseTop tb.lookup C04.Dmap.utf8Valid fuel b with
      | .ok _ => (tb, s!"ok {frames} {ok}")
      | .error .unicode => (tb, s!"err:UnicodeDecodeError {frames} {ok}")
      | .error .fuel => (tb, s!"err:RecursionError {frames} {ok}")
    | _, _ => (tb, "bad-op")
  | ["flags", h] =>
    match ofHex? h with
    | some b =>
      match hexFlags b with
      | some (neg, n) => (tb, s!"ok {if neg && n != 0 then "-" else "+"}{n}")
      | none => (tb, "err")
    | none => (tb, "bad-op")
  | "scan" :: _ => (tb, (C12.handle () ws).2)
  | _ => (tb, "bad-op")

def init : C04.Dmap.Table := ⟨.raw, []⟩

end PyatvModel.C05
