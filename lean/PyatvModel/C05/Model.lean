import PyatvModel.Base.Bytes
import PyatvModel.Base.Framing
import PyatvModel.C02.Model
import PyatvModel.C04.Dns.Model
import PyatvModel.C04.Tlv8.Model
import PyatvModel.C04.Varint.Model
import PyatvModel.C04.Dmap.Model
import PyatvModel.C12.Model
/-
C05 — hostile or malformed network input is contained (DESIGN.md §5 C05, §6 D2 D3a D3b D7).

This file adds to the decoders already modelled for C02 / C04 / C12 what C05 needs:

1. the *loops as pinned*, before the `fix:` commits of this property (their non-termination
   witnesses are `Props/C05.*_counterexample`):
     * `parseNamePinnedF`   pyatv/support/dns.py:149 `parse_domain_name` as pinned (no check on the
                            pointer target — D2)
     * `dataStreamPinned`   pyatv/protocols/airplay/channels.py:166 `decode_message` + :241
                            `DataStreamChannel.handle_received` as pinned (any `size` accepted — D3a)
     * `eventStepPinned`    channels.py:61 `EventChannel.handle_received` as pinned (parse
                            exception swallowed inside the `while`, buffer untouched — D3b)
     * `discoverPinned`     pyatv/core/scan.py:147 `BaseScanner.discover` as pinned (`service_info`
                            and the `device_info` extractors called outside any barrier — D7)
2. the loops as *repaired* that no other property models:
     * `eventStep`          `EventChannel.handle_received` after `fix: event channel drops data that
                            cannot be parsed as a request`
     * `serverStep`         pyatv/support/http.py:552 `BasicHttpServer.data_received` +
                            `_parse_and_send_next` (explicit no-progress test `rest == buffer`)
     * `protobufsStep`      channels.py:199 `BaseDataStreamChannel.decode_protobufs`
     * `hexFlags`           pyatv/protocols/airplay/utils.py:44 `_get_flags`,
                            pyatv/protocols/companion/__init__.py:633 `service_info`: `int(s, 16)`
3. *step counters* for the loops of the C04 decoders (same control flow as the C04 model function
   named in each doc comment; the count is what the harness compares with the number of loop
   iterations the real code makes, and what `Props/C05*` bound by an explicit polynomial):
     `nameSteps` (`C04.Dns.parseNameF`), `txtSteps` (`parseTxtF`), `unpackCost`
     (`C04.Dns.unpack`: every name/TXT loop iteration + one per record), `tlvSteps`
     (`C04.Tlv8.parse`), `varSteps` (`C04.Varint.readLoop`), `dmapFrames` (`C04.Dmap.parse`).
4. discovery with the exception barriers of pyatv/core/mdns.py (:301 `ReceiveDelegate.
   datagram_received`, :417 `MulticastDnsSdClientProtocol.datagram_received`) and
   pyatv/core/scan.py (:183 `handle_response` per service; `discover` per `service_info` call and
   per extractor after `fix: discover() keeps going …`), on top of the C12 model: `decodeM`,
   `Cfg`, `scanM`, `scanU`.
-/
namespace PyatvModel.C05
open PyatvModel PyatvModel.Framing

/-! ## 1. a `while` loop over a byte buffer -/

/-- one iteration: `none` — the loop is left (exit test, `break`, `return`, an exception that
    leaves it); `some r` — the loop goes round again with buffer `r`. -/
abbrev LoopStep := Bytes → Option Bytes

/-- does the loop leave within `n` iterations? -/
def loopHalts (step : LoopStep) : Nat → Bytes → Bool
  | 0, _ => false
  | n + 1, b =>
    match step b with
    | none => true
    | some r => loopHalts step n r

/-- iterations made (the one that leaves included), for any amount of fuel -/
def loopSteps (step : LoopStep) : Nat → Bytes → Nat
  | 0, _ => 0
  | n + 1, b =>
    match step b with
    | none => 1
    | some r => 1 + loopSteps step n r

/-- buffer left behind when the loop leaves (`none`: fuel exhausted) -/
def loopRest (step : LoopStep) (fin : Bytes → Bytes) : Nat → Bytes → Option Bytes
  | 0, _ => none
  | n + 1, b =>
    match step b with
    | none => some (fin b)
    | some r => loopRest step fin n r

/-- every iteration that goes round again has consumed something -/
def Consumes (step : LoopStep) : Prop := ∀ b r, step b = some r → r.length < b.length

/-- the loop of a framer (`Framing.drain`) as a `LoopStep` -/
def extStep {M : Type} (f : Framer M) : LoopStep := fun b =>
  match f.ext b with
  | .msg _ r => some r
  | _ => none

/-! ## 2. the loops as pinned -/

open PyatvModel.C04.Dns in
/-- `parse_domain_name` as pinned: a pointer is followed wherever it points -/
def parseNamePinnedF (msg : Bytes) : Nat → Nat → List Bytes → Option Nat → NameRes
  | 0, pos, acc, _ => ⟨some .hang, acc, pos⟩
  | f + 1, pos, acc, ret =>
    match readByte msg pos with
    | none => ⟨some .struct, acc, pos⟩
    | some b =>
      let n := b.toNat
      if n = 0 then ⟨none, acc, ret.getD (pos + 1)⟩
      else if n / 64 = 3 then
        match readByte msg (pos + 1) with
        | none => ⟨some .struct, acc, pos + 1⟩
        | some lo =>
          parseNamePinnedF msg f ((n % 64) * 256 + lo.toNat) acc (some (ret.getD (pos + 2)))
      else if n / 64 = 0 then
        let label := (msg.drop (pos + 1)).take n
        if isAce label then ⟨some .idna, acc, pos + 1 + label.length⟩
        else if utf8Valid label then parseNamePinnedF msg f (pos + 1 + label.length) (acc ++ [label]) ret
        else ⟨some .unicode, acc, pos + 1 + label.length⟩
      else ⟨some .assert, acc, pos + 1⟩

open PyatvModel.C02 PyatvModel.Gen.C02 in
/-- `decode_message` as pinned: whatever `size` says is cut off the front (`size = 0`: a message
    with an empty payload and the buffer unchanged) -/
def dataStreamPinned : Framer (Bytes × Bytes) := ⟨fun b =>
  if b.length < dataHeaderLength then .need
  else
    let size := be ((b.drop dataSizeOffset).take dataSizeWidth)
    if b.length < size then .need
    else .msg (b.take dataHeaderLength, (b.take size).drop dataHeaderLength) (b.drop size)⟩

/-- `EventChannel.handle_received` as pinned: `while self.buffer: try: … except Exception: log` —
    a request that does not parse leaves the buffer as it is and the loop goes round again -/
def eventStepPinned : LoopStep := fun b =>
  if b.isEmpty then none
  else match C02.httpServer.ext b with
    | .need => none              -- `if request is None: break`
    | .msg _ r => some r
    | .err _ => some b           -- exception swallowed, `self.buffer` not assigned

/-! ## 3. the loops as repaired -/

/-- `parse_request` on a complete message whose first line is empty: `if not first_line: return
    None, rest` — "no request", yet `rest` is what follows the message (`parse_response` tests
    `is None` and raises instead).  `some rest` in exactly that case. -/
def emptyFirst (b : Bytes) : Option Bytes :=
  match C02.splitSep b with
  | none => none
  | some (hdr, body) =>
    match C02.stdClen hdr with
    | none => none
    | some n =>
      if body.length < n then none
      else if (C02.firstLine hdr).isEmpty then some (body.drop n) else none

/-- `EventChannel.handle_received` as repaired: a request that does not parse empties the buffer
    and leaves the loop (`C02.httpServer.ext` answers `err` also for the empty first line, where
    the code leaves through `if request is None: break`; the buffer differs: `eventFin`) -/
def eventStep : LoopStep := extStep C02.httpServer

/-- buffer after `EventChannel.handle_received` left through iteration on `b` -/
def eventFin (b : Bytes) : Bytes :=
  match emptyFirst b with
  | some r => r                  -- `request, _, self.buffer = …` assigned `rest`, then `break`
  | none =>
    match C02.httpServer.ext b with
    | .err _ => []               -- `self.buffer = b""`
    | _ => b

/-- `BasicHttpServer.data_received`: `rest = _parse_and_send_next(buf); if rest == buf: break`.
    `_parse_and_send_next` returns `data` when there is no request (incomplete, or empty first
    line), `b""` when anything raised (500 response), the rest otherwise. -/
def serverNext (b : Bytes) : Bytes :=
  if (emptyFirst b).isSome then b
  else match C02.httpServer.ext b with
    | .need => b
    | .msg _ r => r
    | .err _ => []

def serverStep : LoopStep := fun b =>
  if b.isEmpty then none                      -- `while self._request_buffer:`
  else if serverNext b = b then none          -- no progress: `break`
  else some (serverNext b)

/-- `decode_protobufs`: `while data:` … everything inside one `try`, so any exception leaves the
    loop.  A first byte 0x08 takes the whole rest as one message; a length-prefixed message must
    start with 0x08 (`assert message[0] == 0x8`: IndexError / AssertionError inside the `try`).
    `ParseFromString` is not modelled (the correspondence run stubs it; a parse error is one
    more way to leave the loop). -/
def protobufsStep : LoopStep := fun b =>
  match b with
  | [] => none
  | c :: _ =>
    if c = 8 then some []
    else match C04.Varint.readVar b with
      | none => none                                   -- ValueError inside the `try`
      | some (len, raw) =>
        if raw.length < len then none                  -- `break`
        else if (raw.take len).head? = some 8 then some (raw.drop len)
        else none

/-! ### HTTP with a signed Content-Length (`int()` accepts "-5"; slices then count from the end) -/

structure HttpParamsZ where
  /-- `int(msg_headers.get("Content-Length", 0))`; `none` = building the header dict or `int()` raised -/
  clen : Bytes → Option Int
  lineOk : Bytes → Bool

/-- `body[cl:]` as Python slices it: a negative `cl` counts from the end and is clamped to the start -/
def sliceFrom (body : Bytes) (cl : Int) : Bytes :=
  if 0 ≤ cl then body.drop cl.toNat else body.drop (body.length - Nat.min cl.natAbs body.length)

/-- `body[0:cl]` -/
def sliceTo (body : Bytes) (cl : Int) : Bytes :=
  if 0 ≤ cl then body.take cl.toNat else body.take (body.length - Nat.min cl.natAbs body.length)

/-- one iteration of an HTTP receive loop (`_parse_http_message` + first-line check) for ANY integer the
    Content-Length header may hold: the header block and its separator are always consumed -/
def httpZ (P : HttpParamsZ) : Framer (Bytes × Bytes) := ⟨fun b =>
  if b.isEmpty then .need
  else match C02.splitSep b with
    | none => .need
    | some (hdr, body) =>
      match P.clen hdr with
      | none => .err .malformed
      | some cl =>
        if (body.length : Int) < cl then .need                       -- `if len(body) < content_length`
        else if P.lineOk hdr then .msg (hdr, sliceTo body cl) (sliceFrom body cl)
        else .err .malformed⟩

/-! ### RAOP control port: `ControlClient.datagram_received` -/

/-- rounds of the loop in `_retransmit_lost_packets` for one datagram: `none` = the handler raises
    (`data[1]` IndexError, `struct.error` for a retransmit request that is not 8 bytes long);
    other packet types are ignored -/
def controlRounds (data : Bytes) : Option Nat :=
  match data with
  | _ :: t :: _ =>
    if t.toNat &&& 0x7F = 0x55 then
      (if data.length = 8 then some (C02.be ((data.drop 6).take 2)) else none)
    else some 0
  | _ => none

/-- the sequence numbers looked up: `(lost_seqno + i) % 2**16` for `i in range(lost_packets)` -/
def retransmitSeqs (lostSeqno lostPackets : Nat) : List Nat :=
  (List.range lostPackets).map fun i => (lostSeqno + i) % 65536

/-! ### `int(s, 16)` on a TXT value (ASCII input; the harness keeps to ASCII) -/

def hexDigitVal (c : UInt8) : Option Nat :=
  let n := c.toNat
  if 48 ≤ n ∧ n ≤ 57 then some (n - 48)
  else if 97 ≤ n ∧ n ≤ 102 then some (n - 87)
  else if 65 ≤ n ∧ n ≤ 70 then some (n - 55)
  else none

/-- ASCII white space as `str.strip()` sees it: TAB LF VT FF CR, FS GS RS US, SPACE -/
def isSpace (c : UInt8) : Bool :=
  let n := c.toNat
  (9 ≤ n && n ≤ 13) || (28 ≤ n && n ≤ 32)

/-- digits with single underscores between them; `prev` = the previous character was a digit -/
def hexDigits : Bytes → Bool → Nat → Option Nat
  | [], prev, acc => if prev then some acc else none
  | c :: t, prev, acc =>
    if c = 95 then (if prev then (match t with | [] => none | _ => hexDigits t false acc) else none)
    else match hexDigitVal c with
      | some d => hexDigits t true (acc * 16 + d)
      | none => none

/-- after the sign: optional `0x`/`0X` prefix (which may be followed by one underscore) -/
def hexBody (b : Bytes) : Option Nat :=
  match b with
  | 48 :: x :: t =>
    if x = 120 ∨ x = 88 then
      match t with
      | 95 :: t' => hexDigits t' false 0
      | _ => hexDigits t false 0
    else hexDigits b false 0
  | _ => hexDigits b false 0

def stripSpace (b : Bytes) : Bytes := ((b.dropWhile isSpace).reverse.dropWhile isSpace).reverse

/-- `int(s, 16)`: `none` = `ValueError`; the sign is returned separately -/
def hexFlags (s : Bytes) : Option (Bool × Nat) :=
  match stripSpace s with
  | 45 :: t => (hexBody t).map (fun n => (true, n))
  | 43 :: t => (hexBody t).map (fun n => (false, n))
  | t => (hexBody t).map (fun n => (false, n))

/-! ## 4. step counters for the C04 decoders -/

section dns
open PyatvModel.C04.Dns

/-- iterations of the `while buffer:` loop of `parse_domain_name` (control flow of `parseNameF`) -/
def nameSteps (msg : Bytes) : Nat → Nat → Nat → Nat
  | 0, _, _ => 0
  | f + 1, pos, seg =>
    match readByte msg pos with
    | none => 1
    | some b =>
      let n := b.toNat
      if n = 0 then 1
      else if n / 64 = 3 then
        match readByte msg (pos + 1) with
        | none => 1
        | some lo =>
          let target := (n % 64) * 256 + lo.toNat
          if seg ≤ target then 1 else 1 + nameSteps msg f target target
      else if n / 64 = 0 then
        let label := (msg.drop (pos + 1)).take n
        if isAce label then 1
        else if utf8Valid label then 1 + nameSteps msg f (pos + 1 + label.length) seg
        else 1
      else 1

/-- iterations of `parse_domain_name(buffer)` with the stream at `pos` -/
def nameStepsAt (msg : Bytes) (pos : Nat) : Nat := nameSteps msg (nameFuel msg) pos pos

/-- iterations of the `while buffer.tell() < stop_position` loop (control flow of `parseTxtF`),
    the final failing test included -/
def txtSteps (msg : Bytes) (stop : Nat) : Nat → Nat → List (Bytes × Bytes) → Nat
  | 0, _, _ => 0
  | f + 1, pos, d =>
    if pos < stop then
      match readByte msg pos with
      | none => 1
      | some b =>
        let chunk := (msg.drop (pos + 1)).take b.toNat
        match txtChunk chunk d with
        | .error _ => 1
        | .ok d' => 1 + txtSteps msg stop f (pos + 1 + chunk.length) d'
    else 1

/-- loop iterations inside `QueryType.parse_rdata` -/
def rdataCost (msg : Bytes) (qtype pos len : Nat) : Nat :=
  if qtype = 12 then nameStepsAt msg pos
  else if qtype = 16 then txtSteps msg (pos + len) (msg.length + 1) pos []
  else if qtype = 33 then
    match readU16 msg pos, readU16 msg (pos + 2), readU16 msg (pos + 4) with
    | some _, some _, some _ => nameStepsAt msg (pos + 6)
    | _, _, _ => 0
  else 0

/-- `DnsQuestion.unpack_read`: one call + its name loop -/
def questionCost (msg : Bytes) (pos : Nat) : Nat := 1 + nameStepsAt msg pos

/-- `DnsResource.unpack_read`: one call + its name loop + the loops of its rdata -/
def resourceCost (msg : Bytes) (pos : Nat) : Nat :=
  1 + nameStepsAt msg pos +
    match parseName msg pos with
    | ⟨none, _, p1⟩ =>
      match readU16 msg p1, readU16 msg (p1 + 2), readU32 msg (p1 + 4), readU16 msg (p1 + 8) with
      | some t, some _, some _, some len => rdataCost msg t (p1 + 10) len
      | _, _, _, _ => 0
    | ⟨some _, _, _⟩ => 0

/-- cost of `[f(buffer) for _ in range(n)]` (control flow of `unpackMany`) -/
def manyCost {α : Type} (f : Bytes → Nat → C04.Dns.Res α) (c : Bytes → Nat → Nat) (msg : Bytes) : Nat → Nat → Nat
  | 0, _ => 0
  | k + 1, pos =>
    c msg pos +
      match f msg pos with
      | .err _ => 0
      | .ok _ p1 => manyCost f c msg k p1

/-- where `unpackMany` leaves the stream (`none`: it failed) -/
def manyEnd {α : Type} (f : Bytes → Nat → C04.Dns.Res α) (msg : Bytes) (k pos : Nat) : Option Nat :=
  match unpackMany f msg k pos with
  | .ok _ p => some p
  | .err _ => none

/-- all loop iterations of `DnsMessage.unpack` (control flow of `C04.Dns.unpack`) -/
def unpackCost (msg : Bytes) : Nat :=
  match readU16 msg 0, readU16 msg 2, readU16 msg 4, readU16 msg 6, readU16 msg 8, readU16 msg 10 with
  | some _, some _, some qd, some an, some ns, some ar =>
    manyCost unpackQuestion questionCost msg qd 12 +
      match manyEnd unpackQuestion msg qd 12 with
      | none => 0
      | some p1 =>
        manyCost unpackResource resourceCost msg an p1 +
          match manyEnd unpackResource msg an p1 with
          | none => 0
          | some p2 =>
            manyCost unpackResource resourceCost msg ns p2 +
              match manyEnd unpackResource msg ns p2 with
              | none => 0
              | some p3 => manyCost unpackResource resourceCost msg ar p3
  | _, _, _, _, _, _ => 0

/-- bound on one name loop: `(n + 1)²` -/
def nameBound (n : Nat) : Nat := (n + 1) * (n + 1)

/-- bound on one record: the call, its name, and a name or a TXT loop in its rdata -/
def recBound (n : Nat) : Nat := 2 * nameBound n + n + 3

/-- bound on a whole message: at most `n + 2` calls in each of the four sections -/
def dnsBound (n : Nat) : Nat := 4 * ((n + 2) * recBound n)

end dns

/-- `_parse` frames of `read_tlv` (control flow of `C04.Tlv8.parse`) -/
def tlvSteps (data : Bytes) : Nat :=
  match data with
  | [] => 1
  | [_] => 1
  | _ :: l :: rest => 1 + tlvSteps (rest.drop l.toNat)
termination_by data.length
decreasing_by simp; omega

/-- iterations of the `for data in variant` loop of `read_variant` (`C04.Varint.readLoop`) -/
def varSteps : Bytes → Nat
  | [] => 0
  | b :: rest => if b.toNat &&& 0x80 = 0 then 1 else 1 + varSteps rest

/-- `_parse` frames of the DMAP parser (control flow of `C04.Dmap.parse`); the frame that runs out
    of fuel (RecursionError) is not counted -/
def dmapFrames (lk : Bytes → C04.Dmap.Kind) (utf8 : Bytes → Bool) : Nat → Bytes → Nat → Nat
  | 0, _, _ => 0
  | fuel + 1, avail, n =>
    if n = 0 then 1
    else
      let name := avail.take 4
      if utf8 name then
        let flen := C04.Headers.beDec ((avail.drop 4).take 4)
        let body := avail.drop 8
        match lk name with
        | .container =>
          1 + dmapFrames lk utf8 fuel body flen +
            (match C04.Dmap.parse lk utf8 fuel body flen with
             | .error _ => 0
             | .ok _ => dmapFrames lk utf8 fuel (body.drop flen) (n - 8 - flen))
        | k =>
          match C04.Dmap.decodeLeaf utf8 k (body.take flen) with
          | .error _ => 1
          | .ok _ => 1 + dmapFrames lk utf8 fuel (body.drop flen) (n - 8 - flen)
      else 1

/-- every declared length stays inside what its parent declared (the region `_parse` was given) -/
def dmapDeclOk (lk : Bytes → C04.Dmap.Kind) : Nat → Bytes → Nat → Bool
  | 0, _, _ => true
  | fuel + 1, avail, n =>
    if n = 0 then true
    else
      let flen := C04.Headers.beDec ((avail.drop 4).take 4)
      let body := avail.drop 8
      decide (8 + flen ≤ n) &&
        (match lk (avail.take 4) with
         | .container => dmapDeclOk lk fuel body flen
         | _ => true) &&
        dmapDeclOk lk fuel (body.drop flen) (n - 8 - flen)

/-! ## 5. discovery with its exception barriers -/

section discovery
open PyatvModel.C12

/-- a datagram as it arrives: `recs = none` — bytes on which `DnsMessage().unpack` (or
    `ServiceParser.parse`) raises -/
structure WDgram where
  src : Nat
  tag : Nat
  recs : Option (List Rec)
  deriving DecidableEq, Repr

/-- Multicast, behind `ReceiveDelegate.datagram_received`'s `try/except`: the protocol has done
    `query_responses.setdefault(addr[0], …)` before it decodes, so a datagram that raises leaves
    exactly the trace of a datagram without records. -/
def decodeM (w : WDgram) : Dgram := ⟨w.src, w.tag, w.recs.getD []⟩

/-- Unicast (`UnicastDnsSdClientProtocol.datagram_received` has no barrier of its own; the
    exception goes to the event loop): a datagram that raises is not counted as a response. -/
def decodeU (ws : List WDgram) : List Dgram :=
  ws.filterMap fun w => w.recs.map fun rs => ⟨w.src, w.tag, rs⟩

/-- what `service_info` does to a service: `none` — it raised -/
abbrev SvcInfoFn := RawCfg → RawSvc → Option Nat

/-- a returned configuration: the C12 view plus, per service, the pairing requirement set by
    `service_info` (`none`: `service_info` raised, the default stays) -/
structure Cfg where
  raw : RawCfg
  pairing : List (Nat × Option Nat)
  deriving DecidableEq, Repr

def Cfg.addr (c : Cfg) : Nat := c.raw.addr

/-- the loop body of `discover()` for one device, as repaired: a raising `service_info` is logged
    and skipped (raising extractors: `Env.devModel … = none`) -/
def withInfo (si : SvcInfoFn) (c : RawCfg) : Cfg := ⟨c, c.svcs.map fun s => (s.proto, si c s)⟩

/-- `BaseScanner.discover()` followed by `_should_include` -/
def results (e : Env) (si : SvcInfoFn) (hs : List Hd) : List Cfg := (scanResult e hs).map (withInfo si)

/-- the same as pinned: the first raising `service_info` leaves `discover()` — nothing is returned -/
def resultsPinned (e : Env) (si : SvcInfoFn) (hs : List Hd) : Option (List Cfg) :=
  if (discover e hs).all (fun c => c.svcs.all fun s => (si c s).isSome) then some (results e si hs) else none

def scanM (e : Env) (si : SvcInfoFn) (ws : List WDgram) : List Cfg :=
  results e si (handled e (mcastResponses e (ws.map decodeM)))

def scanU (e : Env) (si : SvcInfoFn) (nq : Nat) (hosts : List Nat) (ws : List WDgram) : List Cfg :=
  results e si (handled e (ucastResponses e nq hosts (decodeU ws)))

/-- The unicast path has NO barrier between a host's records and the caller of the scan:
    `UnicastDnsSdClientProtocol.get_response` calls `self.parser.parse()` after the last answer,
    `UnicastMdnsScanner._get_services` catches `asyncio.TimeoutError` only, and `process` joins the
    hosts with `asyncio.gather(...)` without `return_exceptions` — so if `ServiceParser.parse` raised
    on the records some host sent (`raises h`), `discover()` / `pyatv.scan(hosts=…)` would raise and
    no host would be returned.  (Multicast: every datagram is parsed once on its own inside
    `datagram_received`, behind `ReceiveDelegate`'s barrier, before it is kept.)  `scanU` is this
    function under the fact that the pinned `parse` raises on no record content
    (`except ValueError: continue` around `split_name`, dict/first-element reads only behind
    membership tests); the harness feeds ~150 hostile record contents through the real path. -/
def scanUGather (e : Env) (si : SvcInfoFn) (nq : Nat) (hosts : List Nat) (ws : List WDgram)
    (raises : Nat → Bool) : Option (List Cfg) :=
  if hosts.any raises then none else some (scanU e si nq hosts ws)

/-- The multicast path assembles its answer AFTER all per-datagram handling:
    `MulticastDnsSdClientProtocol.get_response` ends with
    `[_to_response(r) for r in self.query_responses.values()]`, and `_to_response` calls
    `parser.parse()` and `_get_model(services)` — outside `ReceiveDelegate`'s barrier.  If that step
    raised for one source (`raises s`: e.g. `_get_model` indexing a `_device-info` TXT record that has
    no `model`), `mdns.multicast` / `pyatv.scan()` would raise and no source's devices would be
    returned.  `scanM` is this function under the fact that the pinned `_to_response` raises on no
    record content (`properties.get("model")`, total `parse`); the harness drops / empties every key
    the consumers of every service type read, on the real `pyatv.scan`. -/
def scanMAssemble (e : Env) (si : SvcInfoFn) (ws : List WDgram) (raises : Nat → Bool) : Option (List Cfg) :=
  if (mcastSources (ws.map decodeM)).any raises then none else some (scanM e si ws)

/-- handled services of one multicast source / one unicast host -/
def hdM (e : Env) (ws : List WDgram) (s : Nat) : List Hd := hdOf e (mcastResp e (ws.map decodeM) s)
def hdU (e : Env) (nq : Nat) (ws : List WDgram) (h : Nat) : List Hd := hdOf e (ucastResp e nq (decodeU ws) h)

/-- The hosts of the network fall into well-behaved ones and others (`bad`), and no host claims an
    address of the other kind: every service a good host announces resolves to a good address
    (`goodAddr`), every service derived from a bad host's datagrams to another one.  (mDNS is
    unauthenticated: a host that announces services *at a good device's address* can change that
    device's entry by design; that is spoofing, not malformed input.) -/
def SeparatedM (e : Env) (bad goodAddr : Nat → Bool) (ws : List WDgram) : Prop :=
  ∀ s ∈ mcastSources (ws.map decodeM), ∀ h ∈ hdM e ws s, goodAddr h.addr = !bad s

def SeparatedU (e : Env) (nq : Nat) (bad goodAddr : Nat → Bool) (hosts : List Nat) (ws : List WDgram) : Prop :=
  ∀ s ∈ hosts, ∀ h ∈ hdU e nq ws s, goodAddr h.addr = !bad s

instance (e : Env) (bad goodAddr : Nat → Bool) (ws : List WDgram) : Decidable (SeparatedM e bad goodAddr ws) := by
  unfold SeparatedM; infer_instance
instance (e : Env) (nq : Nat) (bad goodAddr : Nat → Bool) (hosts : List Nat) (ws : List WDgram) :
    Decidable (SeparatedU e nq bad goodAddr hosts ws) := by
  unfold SeparatedU; infer_instance

end discovery

end PyatvModel.C05
