import PyatvModel.Base.Bytes
import PyatvModel.C03.Model
/-
Line protocol (one script per line, stateless):

  keyed <removeOnTimeout 0|1> <dispatchUnmatched 0|1> <typed 0|1> <base> <script>
  fifo <script>
  rtsp <script>

script = comma separated events:  s | b | r<key|n>:<payload> | e<key|n>:<payload> (event) |
         o<key|n>:<payload> (other non-response) | t<request>      ("-" = empty)
answer = per event the outputs `snt:r:k dlv:r:k:v dsp:k:v drp:k:v tmo:r flt:r` joined by ","
         ("-" = none), events joined by ";"   ("=" for the empty script)
-/
namespace PyatvModel.C03

def parseMsg (rest : List Char) (mk : Option Nat → Nat → Ev) : Option Ev :=
  match (String.ofList rest).splitOn ":" with
  | [k, v] =>
      match v.toNat? with
      | some v =>
          if k == "n" then some (mk none v)
          else k.toNat?.map fun k => mk (some k) v
      | none => none
  | _ => none

def parseEv (tok : String) : Option Ev :=
  match tok.toList with
  | ['s'] => some .send
  | ['b'] => some .burn
  | 't' :: rest => (String.ofList rest).toNat?.map Ev.timeout
  | 'r' :: rest => parseMsg rest Ev.recv
  | 'e' :: rest => parseMsg rest (Ev.msg .event)
  | 'o' :: rest => parseMsg rest (Ev.msg .other)
  | _ => none

def parseScript (s : String) : Option (List Ev) :=
  if s == "-" then some [] else (s.splitOn ",").mapM parseEv

def showTrace (t : Trace) : String :=
  if t.isEmpty then "=" else String.intercalate ";" (t.map fun x => csv (x.2.map Out.toStr))

def bool? : String → Option Bool
  | "0" => some false
  | "1" => some true
  | _ => none

def handle (_ : Unit) (ws : List String) : Unit × String :=
  match ws with
  | ["keyed", rm, dp, ty, base, script] =>
      match bool? rm, bool? dp, bool? ty, base.toNat?, parseScript script with
      | some rm, some dp, some ty, some b, some evs =>
          ((), showTrace (runT (kstep ⟨rm, dp, ty⟩) (kinit b) evs))
      | _, _, _, _, _ => ((), "bad-op")
  | ["fifo", script] =>
      match parseScript script with
      | some evs => ((), showTrace (runT fstep finit evs))
      | none => ((), "bad-op")
  | ["rtsp", script] =>
      match parseScript script with
      | some evs => ((), showTrace (runT rstep rinit evs))
      | none => ((), "bad-op")
  | _ => ((), "bad-op")

end PyatvModel.C03
