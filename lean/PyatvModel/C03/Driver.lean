import PyatvModel.Base.Bytes
import PyatvModel.C03.Model
import PyatvModel.C03.Dispatcher
/-
Line protocol (one script per line, stateless):

  keyed <removeOnTimeout 0|1> <dispatchUnmatched 0|1> <typed 0|1> <base> <script>
  fifo <script>
  rtsp <script>
  disp <subs> <msgs>     subs = `type.callable.filter` joined by "," (filter `a` = all, `m<d>r<r>` =
                         payload % d == r; "-" = none), msgs = `type.payload` joined by ","
                         → per message the calls `subscription.callable` joined by "," ("-" = none), ";" between

script = comma separated events:  s | b | F (a send that raises) | r<key|n>:<payload> | e<key|n>:<payload> (event) |
         o<key|n>:<payload> (other non-response) | t<request>      ("-" = empty)
answer = per event the outputs `snt:r:k dlv:r:k:v dsp:k:v drp:k:v tmo:r flt:r` joined by ","
         ("-" = none), events joined by ";"   ("=" for the empty script)
-/
namespace PyatvModel.C03

def parseMsg (rest : List Char) (mk : Option Nat → Nat → Ev) : Option Ev :=
  match (String.ofList rest).splitOn ":" with
  | [k, v] =>
      match v.toNat? with
      | some v =>
          if k == "n" then some (mk none v)
          else k.toNat?.map fun k => mk (some k) v
      | none => none
  | _ => none

def parseEv (tok : String) : Option Ev :=
  match tok.toList with
  | ['s'] => some .send
  | ['b'] => some .burn
  | ['F'] => some .sendFail
  | 't' :: rest => (String.ofList rest).toNat?.map Ev.timeout
  | 'r' :: rest => parseMsg rest Ev.recv
  | 'e' :: rest => parseMsg rest (Ev.msg .event)
  | 'o' :: rest => parseMsg rest (Ev.msg .other)
  | _ => none

def parseScript (s : String) : Option (List Ev) :=
  if s == "-" then some [] else (s.splitOn ",").mapM parseEv

def showTrace (t : Trace) : String :=
  if t.isEmpty then "=" else String.intercalate ";" (t.map fun x => csv (x.2.map Out.toStr))

def bool? : String → Option Bool
  | "0" => some false
  | "1" => some true
  | _ => none

def parseFilt (f : String) : Option (Nat → Bool) :=
  if f == "a" then some fun _ => true
  else match f.toList with
    | 'm' :: rest =>
        match (String.ofList rest).splitOn "r" with
        | [d, r] =>
            match d.toNat?, r.toNat? with
            | some d, some r => some fun v => v % d == r
            | _, _ => none
        | _ => none
    | _ => none

def parseSub (t : String) : Option Sub :=
  match t.splitOn "." with
  | [ty, l, f] =>
      match ty.toNat?, l.toNat?, parseFilt f with
      | some ty, some l, some f => some ⟨ty, l, f⟩
      | _, _, _ => none
  | _ => none

def parseMsgD (t : String) : Option (Nat × Nat) :=
  match t.splitOn "." with
  | [ty, v] =>
      match ty.toNat?, v.toNat? with
      | some ty, some v => some (ty, v)
      | _, _ => none
  | _ => none

def handle (_ : Unit) (ws : List String) : Unit × String :=
  match ws with
  | ["keyed", rm, dp, ty, base, script] =>
      match bool? rm, bool? dp, bool? ty, base.toNat?, parseScript script with
      | some rm, some dp, some ty, some b, some evs =>
          ((), showTrace (runT (kstep ⟨rm, dp, ty⟩) (kinit b) evs))
      | _, _, _, _, _ => ((), "bad-op")
  | ["fifo", script] =>
      match parseScript script with
      | some evs => ((), showTrace (runT fstep finit evs))
      | none => ((), "bad-op")
  | ["rtsp", script] =>
      match parseScript script with
      | some evs => ((), showTrace (runT rstep rinit evs))
      | none => ((), "bad-op")
  | ["disp", subs, msgs] =>
      match (if subs == "-" then some [] else (subs.splitOn ",").mapM parseSub),
            (msgs.splitOn ",").mapM parseMsgD with
      | some subs, some msgs =>
          let d := drun subs
          ((), String.intercalate ";" (msgs.map fun m =>
            csv ((ddispatch d m.1 m.2).map fun c => s!"{c.1}.{c.2}")))
      | _, _ => ((), "bad-op")
  | _ => ((), "bad-op")

end PyatvModel.C03
