import PyatvModel.C03.Lemmas
/-
C03 — RTSP (CSeq re-matching layered on the FIFO HTTP connection): safety invariant.
The receive step is decomposed as in the code: pop + store (`rtsp.py:303-309`), own wait
(`:313-321`), wake-up of the exchange whose event was set.
-/
namespace PyatvModel.C03

/-- Specification of one RTSP step in terms of what was observable before. -/
def RLocal (p : Trace) (e : Ev) (o : List Out) : Prop :=
  match e with
  | .send => ∃ r c, o = [.sent r c] ∧ outcomes r (outs p) = 0 ∧
      ∀ r' k', Out.sent r' k' ∈ outs p → r' ≠ r ∧ k' ≠ c
  | .burn => o = []
  | .sendFail => o = [.sendErr]
  | .msg _ _ _ => o = []
  | .recv k v => ∀ x, x ∈ o → x = .drop k v ∨
      ∃ r c w, x = .deliver r (some c) w ∧ Out.sent r c ∈ outs p ∧ outcomes r (outs p) = 0 ∧
        (Ev.recv (some c) w ∈ p.map Prod.fst ∨ (k = some c ∧ w = v))
  | .timeout r => o = [] ∨
      (o = [.timeoutErr r] ∧ (∃ c, Out.sent r c ∈ outs p) ∧ outcomes r (outs p) = 0)

/-- state invariant relative to the outputs `os` and the events `rc` seen so far -/
structure RCore (s : RState) (os : List Out) (rc : List Ev) : Prop where
  ent : ∀ c e, s.tbl c = some e → Out.sent e.req c ∈ os ∧
          (e.st ≠ .dead → outcomes e.req os = 0) ∧
          (∀ w, e.resp = some w → Ev.recv (some c) w ∈ rc)
  snt : ∀ r c, Out.sent r c ∈ os → r < s.http.nreq ∧ c < s.cseq ∧ s.kof r = c
  inq : ∀ r, r ∈ s.http.queue → ∃ e, s.tbl (s.kof r) = some e ∧ e.req = r ∧ e.st = .p1
  nodup : s.http.queue.Nodup
  uniq : ∀ r r' c, Out.sent r c ∈ os → Out.sent r' c ∈ os → r = r'
  fresh : ∀ r, s.http.nreq ≤ r → outcomes r os = 0
  once : ∀ r, outcomes r os ≤ 1
  nofault : ∀ r, Out.fault r ∉ os

theorem rcore_init : RCore rinit [] [] := by
  refine ⟨?_, ?_, ?_, ?_, ?_, ?_, ?_, ?_⟩ <;> simp [rinit, finit]

/-! ### micro step 1: the oldest pending HTTP request is popped, the response is stored -/

theorem store_some_inv (t : Nat → Option REntry) (k : Option Nat) (v : Nat) (i : Nat) (e' : REntry)
    (h : store t k v i = some e') :
    ∃ e, t i = some e ∧ e'.req = e.req ∧ e'.st = e.st ∧
      (e'.resp = e.resp ∨ (k = some i ∧ e'.resp = some v)) := by
  unfold store at h
  cases k with
  | none => exact ⟨e', h, rfl, rfl, Or.inl rfl⟩
  | some c =>
    simp only at h
    cases hc : t c with
    | none => rw [hc] at h; exact ⟨e', h, rfl, rfl, Or.inl rfl⟩
    | some ec =>
      rw [hc] at h
      simp only [upd] at h
      split at h
      · rename_i hi; subst hi
        cases h
        exact ⟨ec, hc, rfl, rfl, Or.inr ⟨rfl, rfl⟩⟩
      · exact ⟨e', h, rfl, rfl, Or.inl rfl⟩

theorem store_some_fwd (t : Nat → Option REntry) (k : Option Nat) (v : Nat) (i : Nat) (e : REntry)
    (h : t i = some e) : ∃ e', store t k v i = some e' ∧ e'.req = e.req ∧ e'.st = e.st := by
  unfold store
  cases k with
  | none => exact ⟨e, h, rfl, rfl⟩
  | some c =>
    simp only
    cases hc : t c with
    | none => exact ⟨e, h, rfl, rfl⟩
    | some ec =>
      simp only [upd]
      split
      · rename_i hi; subst hi
        rw [hc] at h; cases h
        exact ⟨_, rfl, rfl, rfl⟩
      · exact ⟨e, h, rfl, rfl⟩

theorem rcore_pop_store (s : RState) (os : List Out) (rc : List Ev) (a : Nat) (q : List Nat)
    (k : Option Nat) (v : Nat) (h : RCore s os rc) (hq : s.http.queue = a :: q) :
    RCore { s with http := ⟨s.http.nreq, q⟩, tbl := store s.tbl k v } os (rc ++ [.recv k v]) := by
  obtain ⟨hent, hsnt, hinq, hnd, huniq, hfresh, honce, hnf⟩ := h
  rw [hq] at hinq hnd
  refine ⟨?_, hsnt, ?_, (List.nodup_cons.mp hnd).2, huniq, hfresh, honce, hnf⟩
  · intro c e' hc
    obtain ⟨e, he, hr, hs, hresp⟩ := store_some_inv _ _ _ _ _ hc
    obtain ⟨h1, h2, h3⟩ := hent c e he
    refine ⟨by rw [hr]; exact h1, by rw [hr, hs]; exact h2, ?_⟩
    intro w hw
    rcases hresp with hresp | ⟨hk, hresp⟩
    · rw [hresp] at hw
      exact List.mem_append_left _ (h3 w hw)
    · rw [hresp] at hw; cases hw; subst hk
      simp
  · intro r hr
    obtain ⟨e, he, h1, h2⟩ := hinq r (List.mem_cons_of_mem _ hr)
    obtain ⟨e', he', h1', h2'⟩ := store_some_fwd s.tbl k v _ e he
    exact ⟨e', he', by rw [h1', h1], by rw [h2', h2]⟩

/-! ### micro step 2: the popped request waits for its own CSeq -/

theorem rcore_own (s : RState) (os : List Out) (rc : List Ev) (a : Nat) (e1 : REntry)
    (h : RCore s os rc) (ha : a ∉ s.http.queue) (he : s.tbl (s.kof a) = some e1) (hreq : e1.req = a)
    (hst : e1.st = .p1) :
    RCore { s with tbl := (ownWait s.tbl a (s.kof a)).1 } (os ++ (ownWait s.tbl a (s.kof a)).2) rc ∧
    (∀ x, x ∈ (ownWait s.tbl a (s.kof a)).2 → ∃ w, x = .deliver a (some (s.kof a)) w ∧
        e1.resp = some w) := by
  obtain ⟨hent, hsnt, hinq, hnd, huniq, hfresh, honce, hnf⟩ := h
  obtain ⟨hs1, ho1, hr1⟩ := hent _ e1 he
  rw [hreq] at hs1 ho1
  have ho0 : outcomes a os = 0 := ho1 (by rw [hst]; decide)
  have hother : ∀ c e, c ≠ s.kof a → s.tbl c = some e → e.req ≠ a := by
    intro c e hc hce heq
    have := (hsnt _ _ (hent c e hce).1).2.2
    rw [heq] at this; exact hc this.symm
  have hkq : ∀ r, r ∈ s.http.queue → s.kof r ≠ s.kof a := by
    intro r hr heq
    obtain ⟨e, he', hr', _⟩ := hinq r hr
    have h1 := (hent _ e he').1
    rw [hr', heq] at h1
    have := huniq _ _ _ h1 hs1
    subst this; exact ha hr
  cases hresp : e1.resp with
  | some w =>
    have hown : ownWait s.tbl a (s.kof a) = (upd s.tbl (s.kof a) none, [.deliver a (some (s.kof a)) w]) := by
      simp [ownWait, he, hreq, hresp]
    rw [hown]
    refine ⟨⟨?_, ?_, ?_, hnd, ?_, ?_, ?_, ?_⟩, ?_⟩
    · intro c e hc
      simp only [upd] at hc
      split at hc
      · cases hc
      · rename_i hck
        obtain ⟨h1, h2, h3⟩ := hent c e hc
        have hne : ¬ a = e.req := fun h => hother c e hck hc h.symm
        refine ⟨List.mem_append_left _ h1, ?_, h3⟩
        intro hd; simp [hne, h2 hd]
    · intro r c hm
      simp only [List.mem_append, List.mem_singleton] at hm
      rcases hm with hm | hm
      · exact hsnt r c hm
      · cases hm
    · intro r hr
      obtain ⟨e, he', h1, h2⟩ := hinq r hr
      refine ⟨e, ?_, h1, h2⟩
      simp only [upd, hkq r hr, if_false]; exact he'
    · intro r r' c h1 h2
      simp only [List.mem_append, List.mem_singleton] at h1 h2
      rcases h1 with h1 | h1 <;> rcases h2 with h2 | h2
      · exact huniq r r' c h1 h2
      · cases h2
      · cases h1
      · cases h1
    · intro r hr
      have : a ≠ r := by have := (hsnt _ _ hs1).1; simp only [] at hr; omega
      simp [this, hfresh r hr]
    · intro r
      by_cases hr : a = r
      · subst hr; simp [ho0]
      · simp [hr, honce r]
    · intro r hm
      simp only [List.mem_append, List.mem_singleton] at hm
      rcases hm with hm | hm
      · exact hnf r hm
      · cases hm
    · intro x hx
      simp only [List.mem_singleton] at hx
      exact ⟨w, hx, rfl⟩
  | none =>
    have hown : ownWait s.tbl a (s.kof a) =
        (upd s.tbl (s.kof a) (some { e1 with st := .p2 }), []) := by
      simp [ownWait, he, hreq, hresp]
    rw [hown]
    refine ⟨⟨?_, ?_, ?_, hnd, ?_, ?_, ?_, ?_⟩, ?_⟩
    · intro c e hc
      simp only [upd] at hc
      simp only [List.append_nil]
      split at hc
      · rename_i hck; cases hc; subst hck
        refine ⟨by simpa [hreq] using hs1, fun _ => by simpa [hreq] using ho0, ?_⟩
        intro w hw; simp [hresp] at hw
      · exact hent c e hc
    · simpa using hsnt
    · intro r hr
      obtain ⟨e, he', h1, h2⟩ := hinq r hr
      refine ⟨e, ?_, h1, h2⟩
      simp only [upd, hkq r hr, if_false]; exact he'
    · simpa using huniq
    · simpa using hfresh
    · simpa using honce
    · simpa using hnf
    · intro x hx; cases hx

/-! ### micro step 3: the exchange whose event was set wakes up -/

theorem rcore_wake (s : RState) (os : List Out) (rc : List Ev) (cr : Nat) (k : Option Nat) (v : Nat)
    (h : RCore s os rc) :
    RCore { s with tbl := (wakeOther s.tbl cr k v).1 } (os ++ (wakeOther s.tbl cr k v).2) rc ∧
    (∀ x, x ∈ (wakeOther s.tbl cr k v).2 → x = .drop k v ∨
      ∃ r c, x = .deliver r (some c) v ∧ k = some c ∧ Out.sent r c ∈ os ∧ outcomes r os = 0) := by
  have hdrop : RCore s (os ++ [.drop k v]) rc := by
    obtain ⟨hent, hsnt, hinq, hnd, huniq, hfresh, honce, hnf⟩ := h
    refine ⟨?_, ?_, hinq, hnd, ?_, ?_, ?_, ?_⟩
    · intro c e hc; simpa using hent c e hc
    · intro r c hm; simp at hm; exact hsnt r c hm
    · intro r r' c h1 h2; simp at h1 h2; exact huniq r r' c h1 h2
    · intro r hr; simpa using hfresh r hr
    · intro r; simpa using honce r
    · intro r hm; simp at hm; exact hnf r hm
  have hsame : RCore s (os ++ []) rc := by simpa using h
  cases k with
  | none =>
    have : wakeOther s.tbl cr none v = (s.tbl, [.drop none v]) := rfl
    rw [this]
    exact ⟨hdrop, fun x hx => Or.inl (by simpa using hx)⟩
  | some c =>
    by_cases hc : c = cr
    · have : wakeOther s.tbl cr (some c) v = (s.tbl, []) := by simp [wakeOther, hc]
      rw [this]
      exact ⟨hsame, fun x hx => by cases hx⟩
    · cases hce : s.tbl c with
      | none =>
        have : wakeOther s.tbl cr (some c) v = (s.tbl, [.drop (some c) v]) := by
          simp [wakeOther, hc, hce]
        rw [this]
        exact ⟨hdrop, fun x hx => Or.inl (by simpa using hx)⟩
      | some ec =>
        cases hst : ec.st with
        | p1 =>
          have : wakeOther s.tbl cr (some c) v = (s.tbl, []) := by simp [wakeOther, hc, hce, hst]
          rw [this]
          exact ⟨hsame, fun x hx => by cases hx⟩
        | dead =>
          have : wakeOther s.tbl cr (some c) v = (s.tbl, [.drop (some c) v]) := by
            simp [wakeOther, hc, hce, hst]
          rw [this]
          exact ⟨hdrop, fun x hx => Or.inl (by simpa using hx)⟩
        | p2 =>
          have hw : wakeOther s.tbl cr (some c) v =
              (upd s.tbl c none, [.deliver ec.req (some c) v]) := by
            simp [wakeOther, hc, hce, hst]
          rw [hw]
          obtain ⟨hent, hsnt, hinq, hnd, huniq, hfresh, honce, hnf⟩ := h
          obtain ⟨hs1, ho1, _⟩ := hent c ec hce
          have ho0 : outcomes ec.req os = 0 := ho1 (by rw [hst]; decide)
          have hother : ∀ c' e, c' ≠ c → s.tbl c' = some e → e.req ≠ ec.req := by
            intro c' e hc' hce' heq
            have h1 := (hsnt _ _ (hent c' e hce').1).2.2
            have h2 := (hsnt _ _ hs1).2.2
            rw [heq] at h1; omega
          refine ⟨⟨?_, ?_, ?_, hnd, ?_, ?_, ?_, ?_⟩, ?_⟩
          · intro c' e hc'
            simp only [upd] at hc'
            split at hc'
            · cases hc'
            · rename_i hck
              obtain ⟨h1, h2, h3⟩ := hent c' e hc'
              have hne : ¬ ec.req = e.req := fun h => hother c' e hck hc' h.symm
              refine ⟨List.mem_append_left _ h1, ?_, h3⟩
              intro hd; simp [hne, h2 hd]
          · intro r c' hm
            simp only [List.mem_append, List.mem_singleton] at hm
            rcases hm with hm | hm
            · exact hsnt r c' hm
            · cases hm
          · intro r hr
            obtain ⟨e, he', h1, h2⟩ := hinq r hr
            have hk : s.kof r ≠ c := by
              intro heq; rw [heq, hce] at he'; cases he'; rw [hst] at h2; cases h2
            refine ⟨e, ?_, h1, h2⟩
            simp only [upd, hk, if_false]; exact he'
          · intro r r' c' h1 h2
            simp only [List.mem_append, List.mem_singleton] at h1 h2
            rcases h1 with h1 | h1 <;> rcases h2 with h2 | h2
            · exact huniq r r' c' h1 h2
            · cases h2
            · cases h1
            · cases h1
          · intro r hr
            have : ec.req ≠ r := by have := (hsnt _ _ hs1).1; simp only [] at hr; omega
            simp [this, hfresh r hr]
          · intro r
            by_cases hr : ec.req = r
            · subst hr; simp [ho0]
            · simp [hr, honce r]
          · intro r hm
            simp only [List.mem_append, List.mem_singleton] at hm
            rcases hm with hm | hm
            · exact hnf r hm
            · cases hm
          · intro x hx
            simp only [List.mem_singleton] at hx
            exact Or.inr ⟨ec.req, c, hx, rfl, hs1, ho0⟩

/-! ### the whole step -/

structure RInv (s : RState) (past : Trace) : Prop where
  core : RCore s (outs past) (past.map Prod.fst)
  good : Good RLocal past

theorem rinv_init : RInv rinit [] := ⟨by simpa using rcore_init, good_nil _⟩

theorem rstep_recv_nil (s : RState) (k : Option Nat) (v : Nat) (hq : s.http.queue = []) :
    rstep s (.recv k v) = (s, [.drop k v]) := by
  simp [rstep, fstep, hq]

theorem rstep_recv_cons (s : RState) (k : Option Nat) (v : Nat) (a : Nat) (q : List Nat)
    (hq : s.http.queue = a :: q) :
    rstep s (.recv k v) =
      ({ s with http := ⟨s.http.nreq, q⟩,
                tbl := (wakeOther (ownWait (store s.tbl k v) a (s.kof a)).1 (s.kof a) k v).1 },
       (ownWait (store s.tbl k v) a (s.kof a)).2 ++
         (wakeOther (ownWait (store s.tbl k v) a (s.kof a)).1 (s.kof a) k v).2) := by
  simp [rstep, fstep, hq]

theorem rinv_step (s : RState) (past : Trace) (e : Ev) (h : RInv s past) :
    RInv (rstep s e).1 (past ++ [(e, (rstep s e).2)]) := by
  obtain ⟨hcore, hgood⟩ := h
  cases e with
  | send =>
    obtain ⟨hent, hsnt, hinq, hnd, huniq, hfresh, honce, hnf⟩ := hcore
    have hst : rstep s .send =
        ({ http := ⟨s.http.nreq + 1, s.http.queue ++ [s.http.nreq]⟩, cseq := s.cseq + 1,
           tbl := upd s.tbl s.cseq (some ⟨s.http.nreq, none, .p1⟩),
           kof := fun x => if x = s.http.nreq then s.cseq else s.kof x },
         [.sent s.http.nreq s.cseq]) := by
      simp [rstep, fstep]
    rw [hst]
    have hqlt : ∀ r, r ∈ s.http.queue → r < s.http.nreq := by
      intro r hr
      obtain ⟨e, he, h1, _⟩ := hinq r hr
      have := (hsnt _ _ (hent _ e he).1).1
      rw [h1] at this; exact this
    refine ⟨⟨?_, ?_, ?_, ?_, ?_, ?_, ?_, ?_⟩, good_snoc hgood ?_⟩
    · intro c e hc
      simp only [upd] at hc
      simp only [outs_snoc, List.mem_append, List.mem_singleton, outcomes_append, outcomes_sent,
        Nat.add_zero, List.map_append, List.map_cons, List.map_nil]
      split at hc
      · cases hc; subst_vars
        refine ⟨Or.inr rfl, fun _ => hfresh _ (Nat.le_refl _), ?_⟩
        intro w hw; cases hw
      · obtain ⟨h1, h2, h3⟩ := hent c e hc
        exact ⟨Or.inl h1, h2, fun w hw => Or.inl (h3 w hw)⟩
    · intro r c hm
      simp only [outs_snoc, List.mem_append, List.mem_singleton] at hm
      rcases hm with hm | hm
      · obtain ⟨h1, h2, h3⟩ := hsnt r c hm
        refine ⟨by simp only []; omega, by simp only []; omega, ?_⟩
        have : r ≠ s.http.nreq := by omega
        simp [this, h3]
      · cases hm
        exact ⟨by simp only []; omega, by simp only []; omega, by simp⟩
    · intro r hr
      simp only [List.mem_append, List.mem_singleton] at hr
      rcases hr with hr | hr
      · obtain ⟨e, he, h1, h2⟩ := hinq r hr
        have hrl := hqlt r hr
        have hne : r ≠ s.http.nreq := by omega
        have hk : s.kof r ≠ s.cseq := by
          have := (hsnt _ _ (hent _ e he).1).2.1; omega
        refine ⟨e, ?_, h1, h2⟩
        simp only [hne, if_false, upd, hk]; exact he
      · subst hr
        exact ⟨⟨s.http.nreq, none, .p1⟩, by simp [upd], rfl, rfl⟩
    · simp only []
      rw [List.nodup_append]
      refine ⟨hnd, by simp, ?_⟩
      intro a ha b hb
      simp only [List.mem_singleton] at hb; subst hb
      have := hqlt a ha; omega
    · intro r r' c h1 h2
      simp only [outs_snoc, List.mem_append, List.mem_singleton] at h1 h2
      rcases h1 with h1 | h1 <;> rcases h2 with h2 | h2
      · exact huniq r r' c h1 h2
      · cases h2; have := (hsnt r _ h1).2.1; omega
      · cases h1; have := (hsnt r' _ h2).2.1; omega
      · cases h1; cases h2; rfl
    · intro r hr
      simp only [outs_snoc, outcomes_append, outcomes_sent, Nat.add_zero] at hr ⊢
      exact hfresh r (by omega)
    · intro r; simpa using honce r
    · intro r hm
      simp only [outs_snoc, List.mem_append, List.mem_singleton] at hm
      rcases hm with hm | hm
      · exact hnf r hm
      · cases hm
    · refine ⟨s.http.nreq, s.cseq, rfl, hfresh _ (Nat.le_refl _), ?_⟩
      intro r' k' hm
      have := hsnt r' k' hm
      omega
  | burn =>
    have hst : rstep s .burn = (s, []) := rfl
    rw [hst]
    obtain ⟨hent, hsnt, hinq, hnd, huniq, hfresh, honce, hnf⟩ := hcore
    refine ⟨⟨?_, by simpa using hsnt, hinq, hnd, by simpa using huniq, by simpa using hfresh,
      by simpa using honce, by simpa using hnf⟩, good_snoc hgood rfl⟩
    intro c e hc
    obtain ⟨h1, h2, h3⟩ := hent c e hc
    refine ⟨by simpa using h1, by simpa using h2, ?_⟩
    intro w hw; simp only [List.map_append]; exact List.mem_append_left _ (h3 w hw)
  | sendFail =>
    have hst : rstep s .sendFail = ({ s with cseq := s.cseq + 1 }, [.sendErr]) := by
      simp [rstep, fstep]
    rw [hst]
    obtain ⟨hent, hsnt, hinq, hnd, huniq, hfresh, honce, hnf⟩ := hcore
    refine ⟨⟨?_, ?_, hinq, hnd, by simpa using huniq, by simpa using hfresh,
      by simpa using honce, by simpa using hnf⟩, good_snoc hgood rfl⟩
    · intro c e hc
      obtain ⟨h1, h2, h3⟩ := hent c e hc
      refine ⟨by simpa using h1, by simpa using h2, ?_⟩
      intro w hw; simp only [List.map_append]; exact List.mem_append_left _ (h3 w hw)
    · intro r c hm
      simp only [outs_snoc, List.mem_append, List.mem_singleton, reduceCtorEq, or_false] at hm
      have := hsnt r c hm
      exact ⟨this.1, by simp only []; omega, this.2.2⟩
  | msg kd k v =>
    have hst : rstep s (.msg kd k v) = (s, []) := rfl
    rw [hst]
    obtain ⟨hent, hsnt, hinq, hnd, huniq, hfresh, honce, hnf⟩ := hcore
    refine ⟨⟨?_, by simpa using hsnt, hinq, hnd, by simpa using huniq, by simpa using hfresh,
      by simpa using honce, by simpa using hnf⟩, good_snoc hgood rfl⟩
    intro c e hc
    obtain ⟨h1, h2, h3⟩ := hent c e hc
    refine ⟨by simpa using h1, by simpa using h2, ?_⟩
    intro w hw; simp only [List.map_append]; exact List.mem_append_left _ (h3 w hw)
  | recv k v =>
    cases hq : s.http.queue with
    | nil =>
      rw [rstep_recv_nil s k v hq]
      obtain ⟨hent, hsnt, hinq, hnd, huniq, hfresh, honce, hnf⟩ := hcore
      refine ⟨⟨?_, ?_, hinq, hnd, ?_, ?_, ?_, ?_⟩, good_snoc hgood ?_⟩
      · intro c e hc
        obtain ⟨h1, h2, h3⟩ := hent c e hc
        refine ⟨by simpa using h1, by simpa using h2, ?_⟩
        intro w hw; simp only [List.map_append]; exact List.mem_append_left _ (h3 w hw)
      · intro r c hm; simp at hm; exact hsnt r c hm
      · intro r r' c h1 h2; simp at h1 h2; exact huniq r r' c h1 h2
      · intro r hr; simpa using hfresh r hr
      · intro r; simpa using honce r
      · intro r hm; simp at hm; exact hnf r hm
      · intro x hx; exact Or.inl (by simpa using hx)
    | cons a q =>
      rw [rstep_recv_cons s k v a q hq]
      -- micro step 1
      have c1 := rcore_pop_store s _ _ a q k v hcore hq
      have hanq : a ∉ q := by
        have := hcore.nodup; rw [hq] at this; exact (List.nodup_cons.mp this).1
      obtain ⟨ea, hea, hra, hsa⟩ := hcore.inq a (by rw [hq]; simp)
      obtain ⟨e1, he1, hr1, hs1⟩ := store_some_fwd s.tbl k v _ ea hea
      -- micro step 2
      have c2 := rcore_own { s with http := ⟨s.http.nreq, q⟩, tbl := store s.tbl k v } _ _ a e1 c1
        hanq he1 (by rw [hr1, hra]) (by rw [hs1, hsa])
      obtain ⟨c2, o2⟩ := c2
      -- micro step 3
      have c3 := rcore_wake _ _ _ (s.kof a) k v c2
      obtain ⟨c3, o3⟩ := c3
      have hsent_a := (hcore.ent _ ea hea).1
      have hout_a := (hcore.ent _ ea hea).2.1 (by rw [hsa]; decide)
      rw [hra] at hsent_a hout_a
      refine ⟨?_, good_snoc hgood ?_⟩
      · simpa [List.append_assoc] using c3
      · intro x hx
        rcases List.mem_append.mp hx with hx | hx
        · obtain ⟨w, hxw, hresp⟩ := o2 x hx
          refine Or.inr ⟨a, s.kof a, w, hxw, hsent_a, hout_a, ?_⟩
          obtain ⟨e0, he0, _, _, hr0⟩ := store_some_inv _ _ _ _ _ he1
          rw [hea] at he0; cases he0
          rcases hr0 with hr0 | ⟨hk, hr0⟩
          · rw [hr0] at hresp
            exact Or.inl ((hcore.ent _ ea hea).2.2 w hresp)
          · rw [hr0] at hresp; cases hresp
            exact Or.inr ⟨hk, rfl⟩
        · rcases o3 x hx with hd | ⟨r, c, hxr, hk, hs, ho⟩
          · exact Or.inl hd
          · refine Or.inr ⟨r, c, v, hxr, ?_, ?_, Or.inr ⟨hk, rfl⟩⟩
            · simp only [List.mem_append] at hs
              rcases hs with hs | hs
              · exact hs
              · obtain ⟨w, hw, _⟩ := o2 _ hs; cases hw
            · simp only [outcomes_append] at ho; omega
  | timeout r =>
    obtain ⟨hent, hsnt, hinq, hnd, huniq, hfresh, honce, hnf⟩ := hcore
    have frame : ∀ (s' : RState) (o : List Out),
        (∀ x, x ∈ o → x = .timeoutErr r) →
        RCore s' (outs past ++ o) (past.map Prod.fst) →
        RCore s' (outs (past ++ [(.timeout r, o)])) ((past ++ [(Ev.timeout r, o)]).map Prod.fst) := by
      intro s' o _ hc
      obtain ⟨a1, a2, a3, a4, a5, a6, a7, a8⟩ := hc
      refine ⟨?_, by simpa using a2, a3, a4, by simpa using a5, by simpa using a6, by simpa using a7,
        by simpa using a8⟩
      intro c e hc
      obtain ⟨h1, h2, h3⟩ := a1 c e hc
      refine ⟨by simpa using h1, by simpa using h2, ?_⟩
      intro w hw; simp only [List.map_append]; exact List.mem_append_left _ (h3 w hw)
    by_cases hrq : r ∈ s.http.queue
    · -- phase 1: the HTTP-level timeout; requests[cseq] is left behind (dead)
      obtain ⟨e, he, hreq, hst⟩ := hinq r hrq
      obtain ⟨hs1, ho1, hr1⟩ := hent _ e he
      rw [hreq] at hs1 ho1
      have ho0 : outcomes r (outs past) = 0 := ho1 (by rw [hst]; decide)
      have hstep : rstep s (.timeout r) =
          ({ s with http := ⟨s.http.nreq, s.http.queue.erase r⟩,
                    tbl := upd s.tbl (s.kof r) (some { e with st := .dead }) },
           [.timeoutErr r]) := by
        simp [rstep, fstep, hrq, he, hreq]
      rw [hstep]
      have hother : ∀ c e', c ≠ s.kof r → s.tbl c = some e' → e'.req ≠ r := by
        intro c e' hc hce heq
        have := (hsnt _ _ (hent c e' hce).1).2.2
        rw [heq] at this; exact hc this.symm
      refine ⟨frame _ _ (by simp) ⟨?_, ?_, ?_, ?_, ?_, ?_, ?_, ?_⟩, good_snoc hgood ?_⟩
      · intro c e' hc
        simp only [upd] at hc
        split at hc
        · rename_i hck; cases hc; subst hck
          refine ⟨List.mem_append_left _ (by simpa [hreq] using hs1), fun hd => by simp at hd, ?_⟩
          intro w hw; exact hr1 w hw
        · rename_i hck
          obtain ⟨h1, h2, h3⟩ := hent c e' hc
          have hne : ¬ r = e'.req := fun h => hother c e' hck hc h.symm
          refine ⟨List.mem_append_left _ h1, ?_, h3⟩
          intro hd; simp [hne, h2 hd]
      · intro r' c hm
        simp only [List.mem_append, List.mem_singleton] at hm
        rcases hm with hm | hm
        · exact hsnt r' c hm
        · cases hm
      · intro r' hr'
        have hr'' := (hnd.mem_erase_iff.mp hr')
        obtain ⟨e', he', h1, h2⟩ := hinq r' hr''.2
        have hk : s.kof r' ≠ s.kof r := by
          intro heq
          have h1' := (hent _ e' he').1
          rw [h1, heq] at h1'
          exact hr''.1 (huniq _ _ _ h1' hs1)
        refine ⟨e', ?_, h1, h2⟩
        simp only [upd, hk, if_false]; exact he'
      · exact hnd.sublist (List.erase_sublist)
      · intro r1 r2 c h1 h2
        simp only [List.mem_append, List.mem_singleton] at h1 h2
        rcases h1 with h1 | h1 <;> rcases h2 with h2 | h2
        · exact huniq r1 r2 c h1 h2
        · cases h2
        · cases h1
        · cases h1
      · intro r' hr'
        have : r ≠ r' := by have := (hsnt _ _ hs1).1; simp only [] at hr'; omega
        simp [this, hfresh r' hr']
      · intro r'
        by_cases hr : r = r'
        · subst hr; simp [ho0]
        · simp [hr, honce r']
      · intro r' hm
        simp only [List.mem_append, List.mem_singleton] at hm
        rcases hm with hm | hm
        · exact hnf r' hm
        · cases hm
      · exact Or.inr ⟨rfl, ⟨_, hs1⟩, ho0⟩
    · by_cases hcase : ∃ e, s.tbl (s.kof r) = some e ∧ e.req = r ∧ e.st = .p2
      · -- phase 2: waiting for the own CSeq timed out; entry deleted
        obtain ⟨e, he, hreq, hst⟩ := hcase
        obtain ⟨hs1, ho1, hr1⟩ := hent _ e he
        rw [hreq] at hs1 ho1
        have ho0 : outcomes r (outs past) = 0 := ho1 (by rw [hst]; decide)
        have hstep : rstep s (.timeout r) =
            ({ s with tbl := upd s.tbl (s.kof r) none }, [.timeoutErr r]) := by
          simp [rstep, hrq, he, hreq, hst]
        rw [hstep]
        have hother : ∀ c e', c ≠ s.kof r → s.tbl c = some e' → e'.req ≠ r := by
          intro c e' hc hce heq
          have := (hsnt _ _ (hent c e' hce).1).2.2
          rw [heq] at this; exact hc this.symm
        refine ⟨frame _ _ (by simp) ⟨?_, ?_, ?_, hnd, ?_, ?_, ?_, ?_⟩, good_snoc hgood ?_⟩
        · intro c e' hc
          simp only [upd] at hc
          split at hc
          · cases hc
          · rename_i hck
            obtain ⟨h1, h2, h3⟩ := hent c e' hc
            have hne : ¬ r = e'.req := fun h => hother c e' hck hc h.symm
            refine ⟨List.mem_append_left _ h1, ?_, h3⟩
            intro hd; simp [hne, h2 hd]
        · intro r' c hm
          simp only [List.mem_append, List.mem_singleton] at hm
          rcases hm with hm | hm
          · exact hsnt r' c hm
          · cases hm
        · intro r' hr'
          obtain ⟨e', he', h1, h2⟩ := hinq r' hr'
          have hk : s.kof r' ≠ s.kof r := by
            intro heq; rw [heq, he] at he'; cases he'; rw [hst] at h2; cases h2
          refine ⟨e', ?_, h1, h2⟩
          simp only [upd, hk, if_false]; exact he'
        · intro r1 r2 c h1 h2
          simp only [List.mem_append, List.mem_singleton] at h1 h2
          rcases h1 with h1 | h1 <;> rcases h2 with h2 | h2
          · exact huniq r1 r2 c h1 h2
          · cases h2
          · cases h1
          · cases h1
        · intro r' hr'
          have : r ≠ r' := by have := (hsnt _ _ hs1).1; simp only [] at hr'; omega
          simp [this, hfresh r' hr']
        · intro r'
          by_cases hr : r = r'
          · subst hr; simp [ho0]
          · simp [hr, honce r']
        · intro r' hm
          simp only [List.mem_append, List.mem_singleton] at hm
          rcases hm with hm | hm
          · exact hnf r' hm
          · cases hm
        · exact Or.inr ⟨rfl, ⟨_, hs1⟩, ho0⟩
      · have hstep : rstep s (.timeout r) = (s, []) := by
          simp only [rstep, hrq, if_false]
          split
          · rename_i e he
            split
            · rename_i hc; exact absurd ⟨e, he, hc.1, hc.2⟩ hcase
            · rfl
          · rfl
        rw [hstep]
        refine ⟨frame _ _ (by simp) ?_, good_snoc hgood (Or.inl rfl)⟩
        simpa using (⟨hent, hsnt, hinq, hnd, huniq, hfresh, honce, hnf⟩ : RCore s (outs past) _)

theorem rinv_run (evs : List Ev) : RInv (finalS rstep rinit evs) (runT rstep rinit evs) :=
  inv_run rstep RInv rinit rinv_init rinv_step evs

end PyatvModel.C03
