import PyatvModel.C03.Lemmas
/-
C03 — RTSP (CSeq re-matching layered on the FIFO HTTP connection): safety invariant.
The receive step is decomposed as in the code: pop + store (`rtsp.py:303-309`), own wait
(`:313-321`), wake-up of the exchange whose event was set.
-/
namespace PyatvModel.C03

/-- Specification of one RTSP step in terms of what was observable before. -/
def RLocal (p : Trace) (e : Ev) (o : List Out) : Prop :=
  match e with
  | .send => ∃ r c, o = [.sent r c] ∧ outcomes r (outs p) = 0 ∧
      ∀ r' k', Out.sent r' k' ∈ outs p → r' ≠ r ∧ k' ≠ c
  | .burn => o = []
  | .recv k v => ∀ x, x ∈ o → x = .drop k v ∨
      ∃ r c w, x = .deliver r (some c) w ∧ Out.sent r c ∈ outs p ∧ outcomes r (outs p) = 0 ∧
        (Ev.recv (some c) w ∈ p.map Prod.fst ∨ (k = some c ∧ w = v))
  | .timeout r => o = [] ∨
      (o = [.timeoutErr r] ∧ (∃ c, Out.sent r c ∈ outs p) ∧ outcomes r (outs p) = 0)

/-- state invariant relative to the outputs `os` and the events `rc` seen so far -/
structure RCore (s : RState) (os : List Out) (rc : List Ev) : Prop where
  ent : ∀ c e, s.tbl c = some e → Out.sent e.req c ∈ os ∧
          (e.st ≠ .dead → outcomes e.req os = 0) ∧
          (∀ w, e.resp = some w → Ev.recv (some c) w ∈ rc)
  snt : ∀ r c, Out.sent r c ∈ os → r < s.http.nreq ∧ c < s.cseq ∧ s.kof r = c
  inq : ∀ r, r ∈ s.http.queue → ∃ e, s.tbl (s.kof r) = some e ∧ e.req = r ∧ e.st = .p1
  nodup : s.http.queue.Nodup
  uniq : ∀ r r' c, Out.sent r c ∈ os → Out.sent r' c ∈ os → r = r'
  fresh : ∀ r, s.http.nreq ≤ r → outcomes r os = 0
  once : ∀ r, outcomes r os ≤ 1
  nofault : ∀ r, Out.fault r ∉ os

theorem rcore_init : RCore rinit [] [] := by
  refine ⟨?_, ?_, ?_, ?_, ?_, ?_, ?_, ?_⟩ <;> simp [rinit, finit]

/-! ### micro step 1: the oldest pending HTTP request is popped, the response is stored -/

theorem store_some_inv (t : Nat → Option REntry) (k : Option Nat) (v : Nat) (i : Nat) (e' : REntry)
    (h : store t k v i = some e') :
    ∃ e, t i = some e ∧ e'.req = e.req ∧ e'.st = e.st ∧
      (e'.resp = e.resp ∨ (k = some i ∧ e'.resp = some v)) := by
  unfold store at h
  cases k with
  | none => exact ⟨e', h, rfl, rfl, Or.inl rfl⟩
  | some c =>
    simp only at h
    cases hc : t c with
    | none => rw [hc] at h; exact ⟨e', h, rfl, rfl, Or.inl rfl⟩
    | some ec =>
      rw [hc] at h
      simp only [upd] at h
      split at h
      · rename_i hi; subst hi
        cases h
        exact ⟨ec, hc, rfl, rfl, Or.inr ⟨rfl, rfl⟩⟩
      · exact ⟨e', h, rfl, rfl, Or.inl rfl⟩

theorem store_some_fwd (t : Nat → Option REntry) (k : Option Nat) (v : Nat) (i : Nat) (e : REntry)
    (h : t i = some e) : ∃ e', store t k v i = some e' ∧ e'.req = e.req ∧ e'.st = e.st := by
  unfold store
  cases k with
  | none => exact ⟨e, h, rfl, rfl⟩
  | some c =>
    simp only
    cases hc : t c with
    | none => exact ⟨e, h, rfl, rfl⟩
    | some ec =>
      simp only [upd]
      split
      · rename_i hi; subst hi
        rw [hc] at h; cases h
        exact ⟨_, rfl, rfl, rfl⟩
      · exact ⟨e, h, rfl, rfl⟩

theorem rcore_pop_store (s : RState) (os : List Out) (rc : List Ev) (a : Nat) (q : List Nat)
    (k : Option Nat) (v : Nat) (h : RCore s os rc) (hq : s.http.queue = a :: q) :
    RCore { s with http := ⟨s.http.nreq, q⟩, tbl := store s.tbl k v } os (rc ++ [.recv k v]) := by
  obtain ⟨hent, hsnt, hinq, hnd, huniq, hfresh, honce, hnf⟩ := h
  rw [hq] at hinq hnd
  refine ⟨?_, hsnt, ?_, (List.nodup_cons.mp hnd).2, huniq, hfresh, honce, hnf⟩
  · intro c e' hc
    obtain ⟨e, he, hr, hs, hresp⟩ := store_some_inv _ _ _ _ _ hc
    obtain ⟨h1, h2, h3⟩ := hent c e he
    refine ⟨by rw [hr]; exact h1, by rw [hr, hs]; exact h2, ?_⟩
    intro w hw
    rcases hresp with hresp | ⟨hk, hresp⟩
    · rw [hresp] at hw
      exact List.mem_append_left _ (h3 w hw)
    · rw [hresp] at hw; cases hw; subst hk
      simp
  · intro r hr
    obtain ⟨e, he, h1, h2⟩ := hinq r (List.mem_cons_of_mem _ hr)
    obtain ⟨e', he', h1', h2'⟩ := store_some_fwd s.tbl k v _ e he
    exact ⟨e', he', by rw [h1', h1], by rw [h2', h2]⟩

/-! ### micro step 2: the popped request waits for its own CSeq -/

theorem rcore_own (s : RState) (os : List Out) (rc : List Ev) (a : Nat) (e1 : REntry)
    (h : RCore s os rc) (ha : a ∉ s.http.queue) (he : s.tbl (s.kof a) = some e1) (hreq : e1.req = a)
    (hst : e1.st = .p1) :
    RCore { s with tbl := (ownWait s.tbl a (s.kof a)).1 } (os ++ (ownWait s.tbl a (s.kof a)).2) rc ∧
    (∀ x, x ∈ (ownWait s.tbl a (s.kof a)).2 → ∃ w, x = .deliver a (some (s.kof a)) w ∧
        e1.resp = some w) := by
  obtain ⟨hent, hsnt, hinq, hnd, huniq, hfresh, honce, hnf⟩ := h
  obtain ⟨hs1, ho1, hr1⟩ := hent _ e1 he
  rw [hreq] at hs1 ho1
  have ho0 : outcomes a os = 0 := ho1 (by rw [hst]; decide)
  have hother : ∀ c e, c ≠ s.kof a → s.tbl c = some e → e.req ≠ a := by
    intro c e hc hce heq
    have := (hsnt _ _ (hent c e hce).1).2.2
    rw [heq] at this; exact hc this.symm
  have hkq : ∀ r, r ∈ s.http.queue → s.kof r ≠ s.kof a := by
    intro r hr heq
    obtain ⟨e, he', hr', _⟩ := hinq r hr
    have h1 := (hent _ e he').1
    rw [hr', heq] at h1
    have := huniq _ _ _ h1 hs1
    subst this; exact ha hr
  cases hresp : e1.resp with
  | some w =>
    have hown : ownWait s.tbl a (s.kof a) = (upd s.tbl (s.kof a) none, [.deliver a (some (s.kof a)) w]) := by
      simp [ownWait, he, hreq, hresp]
    rw [hown]
    refine ⟨⟨?_, ?_, ?_, hnd, ?_, ?_, ?_, ?_⟩, ?_⟩
    · intro c e hc
      simp only [upd] at hc
      split at hc
      · cases hc
      · rename_i hck
        obtain ⟨h1, h2, h3⟩ := hent c e hc
        have hne : ¬ a = e.req := fun h => hother c e hck hc h.symm
        refine ⟨List.mem_append_left _ h1, ?_, h3⟩
        intro hd; simp [hne, h2 hd]
    · intro r c hm
      simp only [List.mem_append, List.mem_singleton] at hm
      rcases hm with hm | hm
      · exact hsnt r c hm
      · cases hm
    · intro r hr
      obtain ⟨e, he', h1, h2⟩ := hinq r hr
      refine ⟨e, ?_, h1, h2⟩
      simp only [upd, hkq r hr, if_false]; exact he'
    · intro r r' c h1 h2
      simp only [List.mem_append, List.mem_singleton] at h1 h2
      rcases h1 with h1 | h1 <;> rcases h2 with h2 | h2
      · exact huniq r r' c h1 h2
      · cases h2
      · cases h1
      · cases h1
    · intro r hr
      have : a ≠ r := by have := (hsnt _ _ hs1).1; simp only [] at hr; omega
      simp [this, hfresh r hr]
    · intro r
      by_cases hr : a = r
      · subst hr; simp [ho0]
      · simp [hr, honce r]
    · intro r hm
      simp only [List.mem_append, List.mem_singleton] at hm
      rcases hm with hm | hm
      · exact hnf r hm
      · cases hm
    · intro x hx
      simp only [List.mem_singleton] at hx
      exact ⟨w, hx, rfl⟩
  | none =>
    have hown : ownWait s.tbl a (s.kof a) =
        (upd s.tbl (s.kof a) (some { e1 with st := .p2 }), []) := by
      simp [ownWait, he, hreq, hresp]
    rw [hown]
    refine ⟨⟨?_, ?_, ?_, hnd, ?_, ?_, ?_, ?_⟩, ?_⟩
    · intro c e hc
      simp only [upd] at hc
      simp only [List.append_nil]
      split at hc
      · rename_i hck; cases hc; subst hck
        refine ⟨by simpa [hreq] using hs1, fun _ => by simpa [hreq] using ho0, ?_⟩
        intro w hw; simp [hresp] at hw
      · exact hent c e hc
    · simpa using hsnt
    · intro r hr
      obtain ⟨e, he', h1, h2⟩ := hinq r hr
      refine ⟨e, ?_, h1, h2⟩
      simp only [upd, hkq r hr, if_false]; exact he'
    · simpa using huniq
    · simpa using hfresh
    · simpa using honce
    · simpa using hnf
    · intro x hx; cases hx

/-! ### micro step 3: the exchange whose event was set wakes up -/

theorem rcore_wake (s : RState) (os : List Out) (rc : List Ev) (cr : Nat) (k : Option Nat) (v : Nat)
    (h : RCore s os rc) :
    RCore { s with tbl := (wakeOther s.tbl cr k v).1 } (os ++ (wakeOther s.tbl cr k v).2) rc ∧
    (∀ x, x ∈ (wakeOther s.tbl cr k v).2 → x = .drop k v ∨
      ∃ r c, x = .deliver r (some c) v ∧ k = some c ∧ Out.sent r c ∈ os ∧ outcomes r os = 0) := by
  have hdrop : RCore s (os ++ [.drop k v]) rc := by
    obtain ⟨hent, hsnt, hinq, hnd, huniq, hfresh, honce, hnf⟩ := h
    refine ⟨?_, ?_, hinq, hnd, ?_, ?_, ?_, ?_⟩
    · intro c e hc; simpa using hent c e hc
    · intro r c hm; simp at hm; exact hsnt r c hm
    · intro r r' c h1 h2; simp at h1 h2; exact huniq r r' c h1 h2
    · intro r hr; simpa using hfresh r hr
    · intro r; simpa using honce r
    · intro r hm; simp at hm; exact hnf r hm
  have hsame : RCore s (os ++ []) rc := by simpa using h
  cases k with
  | none =>
    have : wakeOther s.tbl cr none v = (s.tbl, [.drop none v]) := rfl
    rw [this]
    exact ⟨hdrop, fun x hx => Or.inl (by simpa using hx)⟩
  | some c =>
    by_cases hc : c = cr
    · have : wakeOther s.tbl cr (some c) v = (s.tbl, []) := by simp [wakeOther, hc]
      rw [this]
      exact ⟨hsame, fun x hx => by cases hx⟩
    · cases hce : s.tbl c with
      | none =>
        have : wakeOther s.tbl cr (some c) v = (s.tbl, [.drop (some c) v]) := by
          simp [wakeOther, hc, hce]
        rw [this]
        exact ⟨hdrop, fun x hx => Or.inl (by simpa using hx)⟩
      | some ec =>
        cases hst : ec.st with
        | p1 =>
          have : wakeOther s.tbl cr (some c) v = (s.tbl, []) := by simp [wakeOther, hc, hce, hst]
          rw [this]
          exact ⟨hsame, fun x hx => by cases hx⟩
        | dead =>
          have : wakeOther s.tbl cr (some c) v = (s.tbl, [.drop (some c) v]) := by
            simp [wakeOther, hc, hce, hst]
          rw [this]
          exact ⟨hdrop, fun x hx => Or.inl (by simpa using hx)⟩
        | p2 =>
          have hw : wakeOther s.tbl cr (some c) v =
              (upd s.tbl c none, [.deliver ec.req (some c) v]) := by
            simp [wakeOther, hc, hce, hst]
          rw [hw]
          obtain ⟨hent, hsnt, hinq, hnd, huniq, hfresh, honce, hnf⟩ := h
          obtain ⟨hs1, ho1, _⟩ := hent c ec hce
          have ho0 : outcomes ec.req os = 0 := ho1 (by rw [hst]; decide)
          have hother : ∀ c' e, c' ≠ c → s.tbl c' = some e → e.req ≠ ec.req := by
            intro c' e hc' hce' heq
            have h1 := (hsnt _ _ (hent c' e hce').1).2.2
            have h2 := (hsnt _ _ hs1).2.2
            rw [heq] at h1; omega
          refine ⟨⟨?_, ?_, ?_, hnd, ?_, ?_, ?_, ?_⟩, ?_⟩
          · intro c' e hc'
            simp only [upd] at hc'
            split at hc'
            · cases hc'
            · rename_i hck
              obtain ⟨h1, h2, h3⟩ := hent c' e hc'
              have hne : ¬ ec.req = e.req := fun h => hother c' e hck hc' h.symm
              refine ⟨List.mem_append_left _ h1, ?_, h3⟩
              intro hd; simp [hne, h2 hd]
          · intro r c' hm
            simp only [List.mem_append, List.mem_singleton] at hm
            rcases hm with hm | hm
            · exact hsnt r c' hm
            · cases hm
          · intro r hr
            obtain ⟨e, he', h1, h2⟩ := hinq r hr
            have hk : s.kof r ≠ c := by
              intro heq; rw [heq, hce] at he'; cases he'; rw [hst] at h2; cases h2
            refine ⟨e, ?_, h1, h2⟩
            simp only [upd, hk, if_false]; exact he'
          · intro r r' c' h1 h2
            simp only [List.mem_append, List.mem_singleton] at h1 h2
            rcases h1 with h1 | h1 <;> rcases h2 with h2 | h2
            · exact huniq r r' c' h1 h2
            · cases h2
            · cases h1
            · cases h1
          · intro r hr
            have : ec.req ≠ r := by have := (hsnt _ _ hs1).1; simp only [] at hr; omega
            simp [this, hfresh r hr]
          · intro r
            by_cases hr : ec.req = r
            · subst hr; simp [ho0]
            · simp [hr, honce r]
          · intro r hm
            simp only [List.mem_append, List.mem_singleton] at hm
            rcases hm with hm | hm
            · exact hnf r hm
            · cases hm
          · intro x hx
            simp only [List.mem_singleton] at hx
            exact Or.inr ⟨ec.req, c, hx, rfl, hs1, ho0⟩

end PyatvModel.C03
