/-
C03 — model of `pyatv.core.protocol.MessageDispatcher` (pyatv/core/protocol.py:79-126), the
subscription side of "messages that answer no outstanding request reach the subscribed
listeners exactly once".

    listen_to(type, func, filter):  self.__listeners.setdefault(type, []).append((filter, func))
    dispatch(type, message):        for every (filter, func) of `type`, in subscription order,
                                    with filter(message): coroutine function → ensure_future,
                                    plain callable → loop.call_soon(func, message)

A subscription is (type, callable, filter); the same callable may be subscribed any number of
times.  `lid` names the callable, `sid` the subscription (its position among all listen_to
calls).  The dict `type → list` is a function `Nat → List _`.  Import-free.
-/
namespace PyatvModel.C03

structure Sub where
  ty : Nat
  lid : Nat
  flt : Nat → Bool

structure DEntry where
  sid : Nat
  sub : Sub

structure DState where
  n : Nat
  tbl : Nat → List DEntry

def dinit : DState := ⟨0, fun _ => []⟩

def dlisten (d : DState) (s : Sub) : DState :=
  ⟨d.n + 1, fun t => if t = s.ty then d.tbl t ++ [⟨d.n, s⟩] else d.tbl t⟩

/-- the calls made for one dispatched message: (subscription, callable), in order -/
def ddispatch (d : DState) (ty v : Nat) : List (Nat × Nat) :=
  ((d.tbl ty).filter fun e => e.sub.flt v).map fun e => (e.sid, e.sub.lid)

/-- what the calls of one dispatch do: every selected subscription is invoked from its own loop
    callback (`call_soon(func, message)`: an exception ends in the loop's exception handler) or
    its own task (`_call_listener` catches), so whether a call raises (`raises sid v`) has no
    influence on which other calls are made -/
def dcalls (raises : Nat → Nat → Bool) (d : DState) (ty v : Nat) : List (Nat × Nat × Bool) :=
  (ddispatch d ty v).map fun c => (c.1, c.2, raises c.1 v)

def drun (subs : List Sub) : DState := subs.foldl dlisten dinit

end PyatvModel.C03
