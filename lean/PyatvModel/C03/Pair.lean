import PyatvModel.C03.Model
/-
C03 — several protocol / connection objects of one transport alive at once.  In pyatv every
matcher keeps its table in the instance (`self._outstanding`, `self._queues`, `self.requests`,
`self._requests`, `self.__listeners`): two objects are two states, an event of one object is a
step of that object's state only.  `pstep` is that composition; events are tagged with the
object (`false` / `true`) they belong to.  Import-free.
-/
namespace PyatvModel.C03

def pstep {σ : Type} (step : σ → Ev → σ × List Out) (s : σ × σ) (e : Bool × Ev) : (σ × σ) × List Out :=
  if e.1 then ((s.1, (step s.2 e.2).1), (step s.2 e.2).2)
  else (((step s.1 e.2).1, s.2), (step s.1 e.2).2)

def runP {σ : Type} (step : σ → Ev → σ × List Out) : σ × σ → List (Bool × Ev) → List ((Bool × Ev) × List Out)
  | _, [] => []
  | s, e :: es => (e, (pstep step s e).2) :: runP step (pstep step s e).1 es

/-- what object `b` did and observed -/
def projT (b : Bool) (t : List ((Bool × Ev) × List Out)) : Trace :=
  (t.filter fun x => x.1.1 == b).map fun x => (x.1.2, x.2)

def projE (b : Bool) (evs : List (Bool × Ev)) : List Ev :=
  (evs.filter fun e => e.1 == b).map fun e => e.2

end PyatvModel.C03
