import PyatvModel.C03.LemmasRtsp
/-
C03 — RTSP liveness under reordering: n concurrent exchanges, the device answers in any
order; every exchange returns the response carrying its own CSeq.
-/
namespace PyatvModel.C03

/-- state after `n` exchanges were started on a fresh session -/
structure SentN (n : Nat) (s : RState) : Prop where
  nreq : s.http.nreq = n
  queue : s.http.queue = List.range n
  cseq : s.cseq = n
  tbl : ∀ c, s.tbl c = if c < n then some ⟨c, none, .p1⟩ else none
  kof : ∀ r, r < n → s.kof r = r

theorem sentN (n : Nat) : SentN n (finalS rstep rinit (List.replicate n .send)) := by
  induction n with
  | zero => exact ⟨rfl, rfl, rfl, fun c => by simp [finalS, rinit], fun r hr => by omega⟩
  | succ n ih =>
    rw [List.replicate_succ', finalS_append]
    generalize finalS rstep rinit (List.replicate n Ev.send) = s at ih
    obtain ⟨h1, h2, h3, h4, h5⟩ := ih
    simp only [finalS, rstep, fstep]
    refine ⟨by simp [h1], by simp [h1, h2, List.range_succ], by simp [h3], ?_, ?_⟩
    · intro c
      simp only [upd, h3, h1, h4]
      by_cases hc : c = n
      · subst hc; simp
      · by_cases hlt : c < n
        · have : c < n + 1 := by omega
          simp [hc, hlt, this]
        · have : ¬ c < n + 1 := by omega
          simp [hc, hlt, this]
    · intro r hr
      simp only [h1, h3]
      by_cases hrn : r = n
      · simp [hrn]
      · simp [hrn]; exact h5 r (by omega)

/-- state after the responses with CSeqs `K` (distinct, all `< n`) arrived, `j = K.length` -/
structure PB (n : Nat) (f : Nat → Nat) (K : List Nat) (s : RState) : Prop where
  queue : s.http.queue = List.range' K.length (n - K.length)
  kof : ∀ r, r < n → s.kof r = r
  tbl : ∀ c, c < n → s.tbl c =
    if c < K.length then (if c ∈ K then none else some ⟨c, none, .p2⟩)
    else some ⟨c, if c ∈ K then some (f c) else none, .p1⟩

theorem pb_step (n : Nat) (f : Nat → Nat) (K : List Nat) (s : RState) (c0 : Nat)
    (h : PB n f K s) (hc0 : c0 < n) (hnk : c0 ∉ K) (hj : K.length < n) :
    PB n f (K ++ [c0]) (rstep s (.recv (some c0) (f c0))).1 ∧
    (∀ c, c < K.length + 1 → c ∈ K ++ [c0] → ¬ (c < K.length ∧ c ∈ K) →
      Out.deliver c (some c) (f c) ∈ (rstep s (.recv (some c0) (f c0))).2) := by
  obtain ⟨hq, hkof, htbl⟩ := h
  have hq' : s.http.queue = K.length :: List.range' (K.length + 1) (n - (K.length + 1)) := by
    rw [hq]
    have : n - K.length = (n - (K.length + 1)) + 1 := by omega
    rw [this, List.range'_succ]
  rw [rstep_recv_cons s (some c0) (f c0) _ _ hq']
  have hkj : s.kof K.length = K.length := hkof _ hj
  rw [hkj]
  have htj := htbl K.length hj
  simp only [Nat.lt_irrefl, if_false] at htj
  have ht0 := htbl c0 hc0
  simp only [hnk, if_false] at ht0
  -- the three positions of c0 relative to j
  rcases Nat.lt_trichotomy c0 K.length with hlt | heq | hgt
  · -- c0 < j : its exchange already waits for its own CSeq (p2)
    simp only [hlt, if_true] at ht0
    have hne : K.length ≠ c0 := by omega
    have hne' : c0 ≠ K.length := by omega
    have hst : store s.tbl (some c0) (f c0) = upd s.tbl c0 (some ⟨c0, some (f c0), .p2⟩) := by
      simp [store, ht0]
    rw [hst]
    by_cases hjk : K.length ∈ K
    · simp only [hjk, if_true] at htj
      have hown : ownWait (upd s.tbl c0 (some ⟨c0, some (f c0), .p2⟩)) K.length K.length =
          (upd (upd s.tbl c0 (some ⟨c0, some (f c0), .p2⟩)) K.length none,
           [.deliver K.length (some K.length) (f K.length)]) := by
        simp [ownWait, upd, hne, htj]
      rw [hown]
      have hwake : wakeOther (upd (upd s.tbl c0 (some ⟨c0, some (f c0), .p2⟩)) K.length none)
          K.length (some c0) (f c0) =
          (upd (upd (upd s.tbl c0 (some ⟨c0, some (f c0), .p2⟩)) K.length none) c0 none,
           [.deliver c0 (some c0) (f c0)]) := by
        simp [wakeOther, upd, hne']
      rw [hwake]
      refine ⟨⟨by simp, hkof, ?_⟩, ?_⟩
      · intro c hc
        have := htbl c hc
        simp only [upd, List.length_append, List.length_singleton, List.mem_append, List.mem_singleton]
        by_cases h1 : c = c0
        · subst h1; simp [show c < K.length + 1 by omega]
        · by_cases h2 : c = K.length
          · subst h2; simp [h1, hjk]
          · rw [this]
            by_cases h3 : c < K.length
            · simp [h1, h2, h3, show c < K.length + 1 by omega]
            · simp [h1, h2, h3, show ¬ c < K.length + 1 by omega]
      · intro c hc hm hn
        simp only [List.mem_append, List.mem_singleton] at hm
        rcases hm with hm | hm
        · have : c = K.length := by
            by_cases hlt' : c < K.length
            · exact absurd ⟨hlt', hm⟩ hn
            · omega
          subst this; simp
        · subst hm; simp
    · simp only [hjk, if_false] at htj
      have hown : ownWait (upd s.tbl c0 (some ⟨c0, some (f c0), .p2⟩)) K.length K.length =
          (upd (upd s.tbl c0 (some ⟨c0, some (f c0), .p2⟩)) K.length (some ⟨K.length, none, .p2⟩), []) := by
        simp [ownWait, upd, hne, htj]
      rw [hown]
      have hwake : wakeOther (upd (upd s.tbl c0 (some ⟨c0, some (f c0), .p2⟩)) K.length
            (some ⟨K.length, none, .p2⟩)) K.length (some c0) (f c0) =
          (upd (upd (upd s.tbl c0 (some ⟨c0, some (f c0), .p2⟩)) K.length
            (some ⟨K.length, none, .p2⟩)) c0 none,
           [.deliver c0 (some c0) (f c0)]) := by
        simp [wakeOther, upd, hne']
      rw [hwake]
      refine ⟨⟨by simp, hkof, ?_⟩, ?_⟩
      · intro c hc
        have := htbl c hc
        simp only [upd, List.length_append, List.length_singleton, List.mem_append, List.mem_singleton]
        by_cases h1 : c = c0
        · subst h1; simp [show c < K.length + 1 by omega]
        · by_cases h2 : c = K.length
          · subst h2; simp [h1, hjk]
          · rw [this]
            by_cases h3 : c < K.length
            · simp [h1, h2, h3, show c < K.length + 1 by omega]
            · simp [h1, h2, h3, show ¬ c < K.length + 1 by omega]
      · intro c hc hm hn
        simp only [List.mem_append, List.mem_singleton] at hm
        rcases hm with hm | hm
        · have : c = K.length := by
            by_cases hlt' : c < K.length
            · exact absurd ⟨hlt', hm⟩ hn
            · omega
          subst this; exact absurd hm hjk
        · subst hm; simp
  · -- c0 = j : the response is handed positionally to the exchange it answers
    subst heq
    simp only [Nat.lt_irrefl, if_false] at ht0
    have hst : store s.tbl (some K.length) (f K.length) =
        upd s.tbl K.length (some ⟨K.length, some (f K.length), .p1⟩) := by
      simp [store, ht0]
    rw [hst]
    have hown : ownWait (upd s.tbl K.length (some ⟨K.length, some (f K.length), .p1⟩)) K.length K.length =
        (upd (upd s.tbl K.length (some ⟨K.length, some (f K.length), .p1⟩)) K.length none,
         [.deliver K.length (some K.length) (f K.length)]) := by
      simp [ownWait, upd]
    rw [hown]
    have hwake : wakeOther (upd (upd s.tbl K.length (some ⟨K.length, some (f K.length), .p1⟩)) K.length none)
        K.length (some K.length) (f K.length) =
        (upd (upd s.tbl K.length (some ⟨K.length, some (f K.length), .p1⟩)) K.length none, []) := by
      simp [wakeOther]
    rw [hwake]
    refine ⟨⟨by simp, hkof, ?_⟩, ?_⟩
    · intro c hc
      have := htbl c hc
      simp only [upd, List.length_append, List.length_singleton, List.mem_append, List.mem_singleton]
      by_cases h2 : c = K.length
      · subst h2; simp
      · rw [this]
        by_cases h3 : c < K.length
        · simp [h2, h3, show c < K.length + 1 by omega]
        · simp [h2, h3, show ¬ c < K.length + 1 by omega]
    · intro c hc hm hn
      simp only [List.mem_append, List.mem_singleton] at hm
      rcases hm with hm | hm
      · have : c = K.length := by
          by_cases hlt' : c < K.length
          · exact absurd ⟨hlt', hm⟩ hn
          · omega
        subst this; simp
      · subst hm; simp
  · -- c0 > j : its exchange is still waiting at HTTP level (p1); the response is stored for it
    have hnlt : ¬ c0 < K.length := by omega
    simp only [hnlt, if_false] at ht0
    have hne : K.length ≠ c0 := by omega
    have hne' : c0 ≠ K.length := by omega
    have hst : store s.tbl (some c0) (f c0) = upd s.tbl c0 (some ⟨c0, some (f c0), .p1⟩) := by
      simp [store, ht0]
    rw [hst]
    by_cases hjk : K.length ∈ K
    · simp only [hjk, if_true] at htj
      have hown : ownWait (upd s.tbl c0 (some ⟨c0, some (f c0), .p1⟩)) K.length K.length =
          (upd (upd s.tbl c0 (some ⟨c0, some (f c0), .p1⟩)) K.length none,
           [.deliver K.length (some K.length) (f K.length)]) := by
        simp [ownWait, upd, hne, htj]
      rw [hown]
      have hwake : wakeOther (upd (upd s.tbl c0 (some ⟨c0, some (f c0), .p1⟩)) K.length none)
          K.length (some c0) (f c0) =
          (upd (upd s.tbl c0 (some ⟨c0, some (f c0), .p1⟩)) K.length none, []) := by
        simp [wakeOther, upd, hne']
      rw [hwake]
      refine ⟨⟨by simp, hkof, ?_⟩, ?_⟩
      · intro c hc
        have := htbl c hc
        simp only [upd, List.length_append, List.length_singleton, List.mem_append, List.mem_singleton]
        by_cases h1 : c = c0
        · subst h1; simp [hne', show ¬ c < K.length + 1 by omega]
        · by_cases h2 : c = K.length
          · subst h2; simp [hjk]
          · rw [this]
            by_cases h3 : c < K.length
            · simp [h1, h2, h3, show c < K.length + 1 by omega]
            · simp [h1, h2, h3, show ¬ c < K.length + 1 by omega]
      · intro c hc hm hn
        simp only [List.mem_append, List.mem_singleton] at hm
        rcases hm with hm | hm
        · have : c = K.length := by
            by_cases hlt' : c < K.length
            · exact absurd ⟨hlt', hm⟩ hn
            · omega
          subst this; simp
        · omega
    · simp only [hjk, if_false] at htj
      have hown : ownWait (upd s.tbl c0 (some ⟨c0, some (f c0), .p1⟩)) K.length K.length =
          (upd (upd s.tbl c0 (some ⟨c0, some (f c0), .p1⟩)) K.length (some ⟨K.length, none, .p2⟩), []) := by
        simp [ownWait, upd, hne, htj]
      rw [hown]
      have hwake : wakeOther (upd (upd s.tbl c0 (some ⟨c0, some (f c0), .p1⟩)) K.length
            (some ⟨K.length, none, .p2⟩)) K.length (some c0) (f c0) =
          (upd (upd s.tbl c0 (some ⟨c0, some (f c0), .p1⟩)) K.length (some ⟨K.length, none, .p2⟩), []) := by
        simp [wakeOther, upd, hne']
      rw [hwake]
      refine ⟨⟨by simp, hkof, ?_⟩, ?_⟩
      · intro c hc
        have := htbl c hc
        simp only [upd, List.length_append, List.length_singleton, List.mem_append, List.mem_singleton]
        by_cases h1 : c = c0
        · subst h1; simp [hne', show ¬ c < K.length + 1 by omega]
        · by_cases h2 : c = K.length
          · subst h2; simp [hjk, h1]
          · rw [this]
            by_cases h3 : c < K.length
            · simp [h1, h2, h3, show c < K.length + 1 by omega]
            · simp [h1, h2, h3, show ¬ c < K.length + 1 by omega]
      · intro c hc hm hn
        simp only [List.mem_append, List.mem_singleton] at hm
        rcases hm with hm | hm
        · have : c = K.length := by
            by_cases hlt' : c < K.length
            · exact absurd ⟨hlt', hm⟩ hn
            · omega
          subst this; exact absurd hm hjk
        · omega

/-- the responses `ks` arrive after the responses `K` -/
theorem pb_run (n : Nat) (f : Nat → Nat) : ∀ (ks K : List Nat) (s : RState),
    PB n f K s → (K ++ ks).Nodup → (∀ c, c ∈ K ++ ks → c < n) → (K ++ ks).length ≤ n →
    ∀ c, c ∈ K ++ ks → c < (K ++ ks).length → ¬ (c < K.length ∧ c ∈ K) →
      Out.deliver c (some c) (f c) ∈ outs (runT rstep s (ks.map fun c => .recv (some c) (f c))) := by
  intro ks
  induction ks with
  | nil =>
    intro K s _ _ _ _ c hm hl hn
    simp only [List.append_nil] at hm hl
    exact absurd ⟨hl, hm⟩ hn
  | cons c0 ks ih =>
    intro K s hpb hnd hlt hlen c hm hl hn
    have hc0 : c0 < n := hlt c0 (by simp)
    have hnk : c0 ∉ K := by
      intro h
      have := (List.nodup_append.mp hnd).2.2 c0 h c0 (by simp)
      exact this rfl
    have hj : K.length < n := by simp at hlen; omega
    obtain ⟨hpb', hdel⟩ := pb_step n f K s c0 hpb hc0 hnk hj
    have hassoc : K ++ c0 :: ks = (K ++ [c0]) ++ ks := by simp
    simp only [List.map_cons, runT, outs_cons, List.mem_append]
    by_cases hnow : c < K.length + 1 ∧ c ∈ K ++ [c0]
    · exact Or.inl (hdel c hnow.1 hnow.2 hn)
    · refine Or.inr (ih (K ++ [c0]) _ hpb' (by rw [← hassoc]; exact hnd)
        (by rw [← hassoc]; exact hlt) (by rw [← hassoc]; exact hlen) c (by rw [← hassoc]; exact hm)
        (by rw [← hassoc]; exact hl) ?_)
      simpa using hnow

end PyatvModel.C03
