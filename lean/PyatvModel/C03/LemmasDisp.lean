import PyatvModel.C03.Dispatcher
namespace PyatvModel.C03

structure DInv (d : DState) (subs : List Sub) : Prop where
  len : d.n = subs.length
  sorted : ∀ t, (d.tbl t).Pairwise fun a b => a.sid < b.sid
  sound : ∀ t e, e ∈ d.tbl t → subs[e.sid]? = some e.sub ∧ e.sub.ty = t
  complete : ∀ i s, subs[i]? = some s → ∃ e, e ∈ d.tbl s.ty ∧ e.sid = i ∧ e.sub = s

theorem dinv_init : DInv dinit [] := by
  refine ⟨rfl, ?_, ?_, ?_⟩ <;> simp [dinit]

theorem dinv_step (d : DState) (subs : List Sub) (s : Sub) (h : DInv d subs) :
    DInv (dlisten d s) (subs ++ [s]) := by
  obtain ⟨hlen, hsorted, hsound, hcomplete⟩ := h
  have hlt : ∀ t e, e ∈ d.tbl t → e.sid < subs.length := by
    intro t e he
    have := (hsound t e he).1
    exact (List.getElem?_eq_some_iff.mp this).1
  refine ⟨by simp [dlisten, hlen], ?_, ?_, ?_⟩
  · intro t
    simp only [dlisten]
    split
    · rw [List.pairwise_append]
      refine ⟨hsorted t, by simp, ?_⟩
      intro a ha b hb
      simp only [List.mem_singleton] at hb; subst hb
      have := hlt t a ha
      simp only []; omega
    · exact hsorted t
  · intro t e he
    simp only [dlisten] at he
    split at he
    · rename_i hts
      rcases List.mem_append.mp he with he | he
      · have := hsound t e he
        have hl := hlt t e he
        exact ⟨by rw [List.getElem?_append_left hl]; exact this.1, this.2⟩
      · simp only [List.mem_singleton] at he; subst he
        exact ⟨by simp [hlen], hts.symm⟩
    · have := hsound t e he
      have hl := hlt t e he
      exact ⟨by rw [List.getElem?_append_left hl]; exact this.1, this.2⟩
  · intro i s' hi
    by_cases hil : i < subs.length
    · rw [List.getElem?_append_left hil] at hi
      obtain ⟨e, he, h1, h2⟩ := hcomplete i s' hi
      refine ⟨e, ?_, h1, h2⟩
      simp only [dlisten]
      split
      · exact List.mem_append_left _ he
      · exact he
    · have hlen2 := (List.getElem?_eq_some_iff.mp hi).1
      simp only [List.length_append, List.length_singleton] at hlen2
      have hieq : i = subs.length := by omega
      subst hieq
      simp at hi
      subst hi
      exact ⟨⟨d.n, s⟩, by simp [dlisten], hlen, rfl⟩

theorem dinv_run_gen : ∀ (more : List Sub) (d : DState) (subs : List Sub), DInv d subs →
    DInv (more.foldl dlisten d) (subs ++ more) := by
  intro more
  induction more with
  | nil => intro d subs h; simpa using h
  | cons s ms ih =>
    intro d subs h
    have := ih _ _ (dinv_step d subs s h)
    simpa [List.foldl, List.append_assoc] using this

theorem dinv_run (subs : List Sub) : DInv (drun subs) subs := by
  simpa [drun] using dinv_run_gen subs dinit [] dinv_init

end PyatvModel.C03
