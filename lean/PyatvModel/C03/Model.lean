/-
C03 — models of the four request/response matchers of pyatv.

Transcribed source (pinned tree):

* `Keyed` (cfg = `mrp`)   pyatv/protocols/mrp/protocol.py
      send_and_receive :235-262  identifier = uuid4 (abstracted: fresh counter `nkey`),
                                  `connection.send(message)` (the key is on the wire: `sent r k`)
      _receive         :264-283  `_outstanding[identifier] = …`; on any exception (timeout)
                                  `del _outstanding[identifier]`                (removeOnTimeout)
      message_received :285-297  identifier outstanding → waiter, else `dispatch(type, msg)`
                                                                              (dispatchUnmatched)
* `Keyed` (cfg = `companion`)  pyatv/protocols/companion/protocol.py
      exchange_opack :143-153  `_x` = `_xid`, `_xid += 1`;  send_opack :176-184 consumes an XID
                               without a waiter (`burn`)
      _exchange_generic_opack :155-174  `_queues[identifier] = SharedData()`; `wait(timeout)`;
                               a timeout does NOT remove the entry (abandoned SharedData stays)
      _handle_opack :217-236   classified by `_t` FIRST: `_t` = Event → listener.event_received whatever
                               `_x` it carries (`msg .event k v`), `_t` = Response (`recv k v`):
                               `_queues.pop(xid).set(data)` or log only (`drop`), any other `_t`
                               (device-originated request, missing) → warning only (`msg .other k v`)
      MRP matches on the identifier alone, whatever the message type (`typed = false`): a
      ProtocolMessage of any type carrying an outstanding identifier IS the answer.
      pyatv/support/collections.py SharedData :138-156
* `Fifo`   pyatv/support/http.py  HttpConnection
      send_and_receive :437-487  `_requests.appendleft(pending)`; on timeout the pending entry is
                                  removed from the deque (finally-clause)
      data_received    :386-405  complete response → `_requests.pop()` (oldest) or warning (`drop`)
* `Rtsp`   pyatv/support/rtsp.py  RtspSession.exchange :255-331, layered on `Fifo` literally:
      cseq = self.cseq++ ; requests[cseq] = (Event, None) ; resp = await http.send_and_receive
      (a timeout THERE propagates and leaves requests[cseq] behind: phase `dead`);
      resp_cseq in requests → store + event.set() ; wait own event (timeout 4 → del + TimeoutError)

Granularity: one event = one call into the protocol object followed by the loop running
until idle (below that asyncio is trusted).  Python dicts are modelled as functions
`Nat → Option _` (set = `upd`, del = `upd … none`), the local variable holding a
coroutine's own identifier as `kof`.  Only 2xx RTSP responses are modelled.  Import-free.
-/
namespace PyatvModel.C03

/-- what the type field of a message that is not a response says (Companion `_t`) -/
inductive Kind | event | other
  deriving DecidableEq, Repr

/-- what the environment does -/
inductive Ev
  | send                            -- a caller starts a request (request number and key allocated here)
  | burn                            -- a key is consumed without a waiter (Companion send_opack)
  | sendFail                        -- a caller starts a request whose transmission raises
                                    -- (connection.send / transport.write / send processor):
                                    -- MRP protocol.py:258 before `_receive` registers anything,
                                    -- Companion protocol.py:164 before `_queues[id] = …` (the XID
                                    -- is consumed), HTTP http.py:458 before `appendleft`, RTSP:
                                    -- the CSeq is consumed (the leaked `requests[cseq]` entry can
                                    -- never be observed: a response with that CSeq is dropped
                                    -- with or without it)
  | recv (k : Option Nat) (v : Nat) -- a message arrives: identifier (if it carries one), payload id
  | msg (kd : Kind) (k : Option Nat) (v : Nat) -- a message whose type field says "not a response"
                                    -- arrives; it may still carry an identifier-valued field
  | timeout (r : Nat)               -- the timer of request r fires
  deriving DecidableEq, Repr

/-- what can be observed -/
inductive Out
  | sent (r k : Nat)                         -- request r went on the wire carrying key k
  | deliver (r : Nat) (k : Option Nat) (v : Nat)  -- caller r returns message (k, v)
  | dispatch (k : Option Nat) (v : Nat)      -- message handed to the subscribed listeners
  | drop (k : Option Nat) (v : Nat)          -- message discarded (log only)
  | timeoutErr (r : Nat)                     -- caller r gets a timeout error
  | fault (r : Nat)                          -- caller r gets another error (KeyError); proved unreachable
  | sendErr                                  -- the caller of a failed send gets that exception
  deriving DecidableEq, Repr

abbrev Trace := List (Ev × List Out)

def upd {α : Type} (f : Nat → Option α) (k : Nat) (x : Option α) : Nat → Option α :=
  fun i => if i = k then x else f i

/-! ## generic runner -/

def runT {σ : Type} (step : σ → Ev → σ × List Out) : σ → List Ev → Trace
  | _, [] => []
  | s, e :: es => (e, (step s e).2) :: runT step (step s e).1 es

def finalS {σ : Type} (step : σ → Ev → σ × List Out) : σ → List Ev → σ
  | s, [] => s
  | s, e :: es => finalS step (step s e).1 es

/-- all outputs of a trace, in order -/
def outs (t : Trace) : List Out := t.flatMap (·.2)

/-- is `o` the final outcome (response or timeout error or fault) of caller `r`? -/
def Out.isOutcome (r : Nat) : Out → Bool
  | .deliver r' _ _ => r' = r
  | .timeoutErr r' => r' = r
  | .fault r' => r' = r
  | _ => false

def outcomes (r : Nat) (o : List Out) : Nat := o.countP (Out.isOutcome r)

/-! ## Keyed matcher (MRP identifier, Companion XID) -/

structure KEntry where
  req : Nat
  alive : Bool      -- false: the waiter gave up but the entry is still in the dict (Companion)
  deriving DecidableEq, Repr

structure Cfg where
  removeOnTimeout : Bool     -- MRP: `del self._outstanding[identifier]`; Companion: entry stays
  dispatchUnmatched : Bool   -- MRP: `self.dispatch(message.type, message)`; Companion: log only
  typed : Bool               -- Companion: `_t` is looked at before `_x`; MRP: the type is not looked at
  deriving DecidableEq, Repr

def Cfg.mrp : Cfg := ⟨true, true, false⟩
def Cfg.companion : Cfg := ⟨false, false, true⟩

/-- what a message that matches no waiting request turns into -/
def unmatched (cfg : Cfg) (k : Option Nat) (v : Nat) : Out :=
  if cfg.dispatchUnmatched then .dispatch k v else .drop k v

structure KState where
  nreq : Nat
  nkey : Nat
  tbl : Nat → Option KEntry
  kof : Nat → Nat

def kinit (base : Nat) : KState := ⟨0, base, fun _ => none, fun _ => 0⟩

/-- matching of a message by the identifier it carries -/
def krecv (cfg : Cfg) (s : KState) (k : Option Nat) (v : Nat) : KState × List Out :=
  match k with
  | none => (s, [unmatched cfg none v])
  | some k =>
      match s.tbl k with
      | some e =>
          ({ s with tbl := upd s.tbl k none },
           [if e.alive then .deliver e.req (some k) v else .drop (some k) v])
      | none => (s, [unmatched cfg (some k) v])

def kstep (cfg : Cfg) (s : KState) : Ev → KState × List Out
  | .send =>
      ({ nreq := s.nreq + 1, nkey := s.nkey + 1,
         tbl := upd s.tbl s.nkey (some ⟨s.nreq, true⟩),
         kof := fun r => if r = s.nreq then s.nkey else s.kof r },
       [.sent s.nreq s.nkey])
  | .burn => ({ s with nkey := s.nkey + 1 }, [])
  | .sendFail => ({ s with nkey := s.nkey + 1 }, [.sendErr])
  | .recv k v => krecv cfg s k v
  | .msg kd k v =>
      if cfg.typed then
        match kd with
        | .event => (s, [.dispatch k v])   -- the identifier-valued field is not looked at
        | .other => (s, [.drop k v])
      else krecv cfg s k v
  | .timeout r =>
      match s.tbl (s.kof r) with
      | some e =>
          if e.req = r ∧ e.alive = true then
            ({ s with tbl := upd s.tbl (s.kof r)
                        (if cfg.removeOnTimeout then none else some ⟨r, false⟩) },
             [.timeoutErr r])
          else (s, [])
      | none => (s, [])

/-! ## FIFO matcher (plain HTTP) -/

structure FState where
  nreq : Nat
  queue : List Nat      -- pending requests, oldest first (deque: appendleft / pop)

def finit : FState := ⟨0, []⟩

def fstep (s : FState) : Ev → FState × List Out
  | .send => (⟨s.nreq + 1, s.queue ++ [s.nreq]⟩, [.sent s.nreq s.nreq])
  | .burn => (s, [])
  | .sendFail => (s, [.sendErr])   -- write / send processor raise BEFORE the entry is queued
  | .msg _ _ _ => (s, [])     -- HTTP carries responses only
  | .recv k v =>
      match s.queue with
      | [] => (s, [.drop k v])
      | r :: q => (⟨s.nreq, q⟩, [.deliver r k v])
  | .timeout r =>
      if r ∈ s.queue then (⟨s.nreq, s.queue.erase r⟩, [.timeoutErr r]) else (s, [])

/-! ## RTSP: CSeq re-matching layered on the FIFO connection -/

inductive Phase | p1 | p2 | dead
  deriving DecidableEq, Repr

structure REntry where
  req : Nat
  resp : Option Nat
  st : Phase
  deriving DecidableEq, Repr

structure RState where
  http : FState
  cseq : Nat
  tbl : Nat → Option REntry
  kof : Nat → Nat

def rinit : RState := ⟨finit, 0, fun _ => none, fun _ => 0⟩

/-- `if resp_cseq in self.requests: self.requests[resp_cseq] = (event, resp); event.set()` -/
def store (tbl : Nat → Option REntry) (k : Option Nat) (v : Nat) : Nat → Option REntry :=
  match k with
  | some c =>
      match tbl c with
      | some e => upd tbl c (some { e with resp := some v })
      | none => tbl
  | none => tbl

/-- request `r` (own CSeq `cr`) continues after `send_and_receive` returned: wait own event -/
def ownWait (t1 : Nat → Option REntry) (r cr : Nat) : (Nat → Option REntry) × List Out :=
  match t1 cr with
  | some e =>
      if e.req = r then
        match e.resp with
        | some w => (upd t1 cr none, [.deliver r (some cr) w])
        | none => (upd t1 cr (some { e with st := .p2 }), [])
      else (t1, [.fault r])
  | none => (t1, [.fault r])

/-- the event that was set may belong to another exchange already waiting on it (phase 2);
    `t2` is the table after the popped request went on (its own entry is never the one woken:
    `c = cr` is handled by `ownWait`) -/
def wakeOther (t2 : Nat → Option REntry) (cr : Nat) (k : Option Nat) (v : Nat) :
    (Nat → Option REntry) × List Out :=
  match k with
  | some c =>
      if c = cr then (t2, [])
      else
        match t2 c with
        | some e =>
            match e.st with
            | .p2 => (upd t2 c none, [.deliver e.req (some c) v])
            | .dead => (t2, [.drop k v])
            | .p1 => (t2, [])
        | none => (t2, [.drop k v])
  | none => (t2, [.drop k v])

def rstep (s : RState) : Ev → RState × List Out
  | .send =>
      let r := s.http.nreq
      ({ http := (fstep s.http .send).1, cseq := s.cseq + 1,
         tbl := upd s.tbl s.cseq (some ⟨r, none, .p1⟩),
         kof := fun x => if x = r then s.cseq else s.kof x },
       [.sent r s.cseq])
  | .burn => (s, [])
  | .sendFail => ({ s with http := (fstep s.http .sendFail).1, cseq := s.cseq + 1 }, [.sendErr])
  | .msg _ _ _ => (s, [])
  | .recv k v =>
      match fstep s.http (.recv k v) with
      | (h', [.deliver r _ _]) =>
          let t1 := store s.tbl k v
          let own := ownWait t1 r (s.kof r)
          let oth := wakeOther own.1 (s.kof r) k v
          ({ s with http := h', tbl := oth.1 }, own.2 ++ oth.2)
      | (h', o) => ({ s with http := h' }, o)
  | .timeout r =>
      if r ∈ s.http.queue then
        -- HTTP-level timeout: TimeoutError propagates, requests[cseq] is left behind
        ({ s with http := (fstep s.http (.timeout r)).1,
                  tbl := match s.tbl (s.kof r) with
                         | some e => if e.req = r then upd s.tbl (s.kof r) (some { e with st := .dead })
                                     else s.tbl
                         | none => s.tbl },
         (fstep s.http (.timeout r)).2)
      else
        match s.tbl (s.kof r) with
        | some e =>
            if e.req = r ∧ e.st = .p2 then
              ({ s with tbl := upd s.tbl (s.kof r) none }, [.timeoutErr r])
            else (s, [])
        | none => (s, [])

/-! ## history-only tracker used to state the HTTP (FIFO) hypothesis -/

/-- `n` requests sent, `m` responses received, `ab` = requests whose timer fired while their
    response had not arrived (abandoned, response still owed by the device). -/
structure Tracker where
  n : Nat
  m : Nat
  ab : List Nat

def tinit : Tracker := ⟨0, 0, []⟩

def tstep (t : Tracker) : Ev → Tracker
  | .send => { t with n := t.n + 1 }
  | .burn => t
  | .sendFail => t
  | .msg _ _ _ => t
  | .recv _ _ => { t with m := t.m + 1 }
  | .timeout r => if t.m ≤ r ∧ r < t.n ∧ r ∉ t.ab then { t with ab := r :: t.ab } else t

/-- among the requests still owed a response (`m ≤ i < n`) no abandoned one precedes a
    request that is still waiting: "no abandoned request is still unanswered while a later
    request is outstanding". -/
def Tracker.quiet (t : Tracker) : Bool :=
  (List.range t.n).all fun i => (List.range t.n).all fun j =>
    !(decide (t.m ≤ i) && decide (i < j) && decide (i ∈ t.ab)) || decide (j ∈ t.ab)

/-- the hypothesis of `C03_http_partial`: `quiet` holds after every event of the history,
    and the device never sends more responses than there were requests. -/
def QuietFrom : Tracker → List Ev → Bool
  | _, [] => true
  | t, e :: es =>
      (tstep t e).quiet && decide ((tstep t e).m ≤ (tstep t e).n) && QuietFrom (tstep t e) es

/-- number of responses received in a history prefix -/
def numRecv : List Ev → Nat
  | [] => 0
  | .recv _ _ :: es => numRecv es + 1
  | _ :: es => numRecv es

/-! ## wire format of the driver -/

def optStr : Option Nat → String
  | none => "n"
  | some k => toString k

def Out.toStr : Out → String
  | .sent r k => s!"snt:{r}:{k}"
  | .deliver r k v => s!"dlv:{r}:{optStr k}:{v}"
  | .dispatch k v => s!"dsp:{optStr k}:{v}"
  | .drop k v => s!"drp:{optStr k}:{v}"
  | .timeoutErr r => s!"tmo:{r}"
  | .fault r => s!"flt:{r}"
  | .sendErr => "ser"

end PyatvModel.C03
