import PyatvModel.C03.Model
/-
C03 — generic trace machinery and the invariant of the keyed matcher.
-/
namespace PyatvModel.C03

/-! ## runs and traces -/

theorem runT_append {σ : Type} (step : σ → Ev → σ × List Out) (s : σ) (a b : List Ev) :
    runT step s (a ++ b) = runT step s a ++ runT step (finalS step s a) b := by
  induction a generalizing s with
  | nil => rfl
  | cons e es ih => simp [runT, finalS, ih]

theorem finalS_append {σ : Type} (step : σ → Ev → σ × List Out) (s : σ) (a b : List Ev) :
    finalS step s (a ++ b) = finalS step (finalS step s a) b := by
  induction a generalizing s with
  | nil => rfl
  | cons e es ih => simp [finalS, ih]

/-- an invariant of (state, trace so far) that every step preserves holds along every run -/
theorem inv_run_gen {σ : Type} (step : σ → Ev → σ × List Out) (Inv : σ → Trace → Prop)
    (hstep : ∀ s past e, Inv s past → Inv (step s e).1 (past ++ [(e, (step s e).2)])) :
    ∀ evs s past, Inv s past → Inv (finalS step s evs) (past ++ runT step s evs) := by
  intro evs
  induction evs with
  | nil => intro s past h; simpa [runT, finalS] using h
  | cons e es ih =>
    intro s past h
    have := ih _ _ (hstep s past e h)
    simpa [runT, finalS, List.append_assoc] using this

theorem inv_run {σ : Type} (step : σ → Ev → σ × List Out) (Inv : σ → Trace → Prop) (s0 : σ)
    (h0 : Inv s0 [])
    (hstep : ∀ s past e, Inv s past → Inv (step s e).1 (past ++ [(e, (step s e).2)])) :
    ∀ evs, Inv (finalS step s0 evs) (runT step s0 evs) := by
  intro evs
  simpa using inv_run_gen step Inv hstep evs s0 [] h0

/-- every step of the trace satisfies `L` relative to the trace before it -/
def Good (L : Trace → Ev → List Out → Prop) (t : Trace) : Prop :=
  ∀ p e o q, t = p ++ (e, o) :: q → L p e o

theorem good_nil (L : Trace → Ev → List Out → Prop) : Good L [] := by
  intro p e o q h
  simp at h

theorem good_snoc {L : Trace → Ev → List Out → Prop} {t : Trace} {e : Ev} {o : List Out}
    (hg : Good L t) (hl : L t e o) : Good L (t ++ [(e, o)]) := by
  intro p e' o' q h
  rcases List.eq_nil_or_concat q with rfl | ⟨q', b, rfl⟩
  · have := List.append_inj' h (by simp)
    obtain ⟨h1, h2⟩ := this
    simp at h2
    obtain ⟨rfl, rfl⟩ := h2
    subst h1
    exact hl
  · have h' : t ++ [(e, o)] = (p ++ (e', o') :: q') ++ [b] := by
      rw [h]; simp
    have := List.append_inj' h' (by simp)
    exact hg p e' o' q' this.1

/-! ## outputs, outcomes -/

@[simp] theorem outs_nil : outs [] = [] := rfl

@[simp] theorem outs_snoc (p : Trace) (e : Ev) (o : List Out) : outs (p ++ [(e, o)]) = outs p ++ o := by
  simp [outs]

@[simp] theorem outs_append (p q : Trace) : outs (p ++ q) = outs p ++ outs q := by
  simp [outs]

@[simp] theorem outs_cons (e : Ev) (o : List Out) (q : Trace) : outs ((e, o) :: q) = o ++ outs q := by
  simp [outs]

@[simp] theorem outcomes_nil (r : Nat) : outcomes r [] = 0 := rfl

@[simp] theorem outcomes_append (r : Nat) (a b : List Out) :
    outcomes r (a ++ b) = outcomes r a + outcomes r b := by
  simp [outcomes]

@[simp] theorem outcomes_sent (r r' k : Nat) : outcomes r [.sent r' k] = 0 := by
  simp [outcomes, Out.isOutcome]

@[simp] theorem outcomes_dispatch (r : Nat) (k : Option Nat) (v : Nat) : outcomes r [.dispatch k v] = 0 := by
  simp [outcomes, Out.isOutcome]

@[simp] theorem outcomes_drop (r : Nat) (k : Option Nat) (v : Nat) : outcomes r [.drop k v] = 0 := by
  simp [outcomes, Out.isOutcome]

@[simp] theorem outcomes_sendErr (r : Nat) : outcomes r [.sendErr] = 0 := by
  simp [outcomes, Out.isOutcome]

@[simp] theorem outcomes_deliver (r r' : Nat) (k : Option Nat) (v : Nat) :
    outcomes r [.deliver r' k v] = if r' = r then 1 else 0 := by
  by_cases h : r' = r <;> simp [outcomes, Out.isOutcome, h]

@[simp] theorem outcomes_timeoutErr (r r' : Nat) :
    outcomes r [.timeoutErr r'] = if r' = r then 1 else 0 := by
  by_cases h : r' = r <;> simp [outcomes, Out.isOutcome, h]

theorem outcomes_pos_of_mem_deliver {r : Nat} {k : Option Nat} {v : Nat} {o : List Out}
    (h : Out.deliver r k v ∈ o) : 0 < outcomes r o := by
  unfold outcomes
  rw [List.countP_pos_iff]
  exact ⟨_, h, by simp [Out.isOutcome]⟩

theorem outcomes_pos_of_mem_timeoutErr {r : Nat} {o : List Out}
    (h : Out.timeoutErr r ∈ o) : 0 < outcomes r o := by
  unfold outcomes
  rw [List.countP_pos_iff]
  exact ⟨_, h, by simp [Out.isOutcome]⟩

@[simp] theorem upd_same {α : Type} (f : Nat → Option α) (k : Nat) (x : Option α) : upd f k x k = x := by
  simp [upd]

theorem upd_other {α : Type} (f : Nat → Option α) (k : Nat) (x : Option α) (i : Nat) (h : i ≠ k) :
    upd f k x i = f i := by
  simp [upd, h]

/-- every non-empty predicate on ℕ has a least element -/
theorem exists_least (P : Nat → Prop) : ∀ n, P n → ∃ m, P m ∧ ∀ k, P k → m ≤ k := by
  intro n
  induction n using Nat.strongRecOn with
  | _ n ih =>
    intro hn
    by_cases h : ∃ k, k < n ∧ P k
    · obtain ⟨k, hk, hpk⟩ := h; exact ih k hk hpk
    · exact ⟨n, hn, fun k hk => Nat.le_of_not_lt (fun hlt => h ⟨k, hlt, hk⟩)⟩

end PyatvModel.C03
