import PyatvModel.C03.Lemmas
/-
C03 — the FIFO matcher (plain HTTP): unconditional facts and the tracker refinement used
by `C03_http_partial`.
-/
namespace PyatvModel.C03

/-- request `r` was sent and has no outcome yet -/
def Waiting (o : List Out) (r : Nat) : Prop := Out.sent r r ∈ o ∧ outcomes r o = 0

/-- Specification of one step of the FIFO matcher in terms of what was observable before:
    a response goes to the oldest waiting request (smallest request number = sent first). -/
def FLocal (p : Trace) (e : Ev) (o : List Out) : Prop :=
  match e with
  | .send => ∃ r, o = [.sent r r] ∧ outcomes r (outs p) = 0 ∧ ∀ r' k', Out.sent r' k' ∈ outs p → r' < r
  | .burn => o = []
  | .sendFail => o = [.sendErr]
  | .msg _ _ _ => o = []
  | .recv k v =>
      (∀ r, Waiting (outs p) r → (∀ r', Waiting (outs p) r' → r ≤ r') → o = [.deliver r k v]) ∧
      ((∀ r, ¬ Waiting (outs p) r) → o = [.drop k v])
  | .timeout r =>
      (Waiting (outs p) r → o = [.timeoutErr r]) ∧ (¬ Waiting (outs p) r → o = [])

structure FInv (s : FState) (past : Trace) : Prop where
  sorted : s.queue.Pairwise (· < ·)
  mem : ∀ r, r ∈ s.queue ↔ Waiting (outs past) r
  snt : ∀ r k, Out.sent r k ∈ outs past → r < s.nreq ∧ k = r
  fresh : ∀ r, s.nreq ≤ r → outcomes r (outs past) = 0
  once : ∀ r, outcomes r (outs past) ≤ 1
  good : Good FLocal past

theorem finv_init : FInv finit [] := by
  refine ⟨?_, ?_, ?_, ?_, ?_, good_nil _⟩ <;> simp [finit, Waiting]

theorem nodup_of_sorted {l : List Nat} (h : l.Pairwise (· < ·)) : l.Nodup := by
  unfold List.Nodup
  exact h.imp (fun hab => Nat.ne_of_lt hab)

theorem finv_step (s : FState) (past : Trace) (e : Ev) (h : FInv s past) :
    FInv (fstep s e).1 (past ++ [(e, (fstep s e).2)]) := by
  obtain ⟨hsorted, hmem, hsnt, hfresh, honce, hgood⟩ := h
  cases e with
  | send =>
    refine ⟨?_, ?_, ?_, ?_, ?_, good_snoc hgood ?_⟩
    · simp only [fstep]
      rw [List.pairwise_append]
      refine ⟨hsorted, by simp, ?_⟩
      intro a ha b hb
      simp only [List.mem_singleton] at hb; subst hb
      exact (hsnt a a ((hmem a).mp ha).1).1
    · intro r
      simp only [fstep, List.mem_append, List.mem_singleton, Waiting, outs_snoc, outcomes_append,
        outcomes_sent, Nat.add_zero, Out.sent.injEq]
      constructor
      · rintro (h | h)
        · exact ⟨Or.inl ((hmem r).mp h).1, ((hmem r).mp h).2⟩
        · subst h; exact ⟨Or.inr ⟨rfl, rfl⟩, hfresh _ (Nat.le_refl _)⟩
      · rintro ⟨h1 | h1, h2⟩
        · exact Or.inl ((hmem r).mpr ⟨h1, h2⟩)
        · exact Or.inr h1.1
    · intro r k hm
      simp only [fstep, outs_snoc, List.mem_append, List.mem_singleton, Out.sent.injEq] at hm ⊢
      rcases hm with hm | ⟨rfl, rfl⟩
      · have := hsnt r k hm; exact ⟨by omega, this.2⟩
      · exact ⟨by omega, rfl⟩
    · intro r hr
      simp only [fstep, outs_snoc, outcomes_append, outcomes_sent, Nat.add_zero] at hr ⊢
      exact hfresh r (by omega)
    · intro r; simpa [fstep] using honce r
    · refine ⟨s.nreq, rfl, hfresh _ (Nat.le_refl _), ?_⟩
      intro r' k' hm; exact (hsnt r' k' hm).1
  | burn =>
    refine ⟨?_, ?_, ?_, ?_, ?_, good_snoc hgood ?_⟩
    · simpa [fstep] using hsorted
    · simpa [fstep] using hmem
    · simpa [fstep] using hsnt
    · simpa [fstep] using hfresh
    · simpa [fstep] using honce
    · simp [FLocal, fstep]
  | sendFail =>
    refine ⟨?_, ?_, ?_, ?_, ?_, good_snoc hgood ?_⟩
    · simpa [fstep] using hsorted
    · simpa [fstep, Waiting] using hmem
    · simpa [fstep] using hsnt
    · simpa [fstep] using hfresh
    · simpa [fstep] using honce
    · simp [FLocal, fstep]
  | msg kd k v =>
    refine ⟨?_, ?_, ?_, ?_, ?_, good_snoc hgood ?_⟩
    · simpa [fstep] using hsorted
    · simpa [fstep] using hmem
    · simpa [fstep] using hsnt
    · simpa [fstep] using hfresh
    · simpa [fstep] using honce
    · simp [FLocal, fstep]
  | recv k v =>
    cases hq : s.queue with
    | nil =>
      have hst : fstep s (.recv k v) = (s, [.drop k v]) := by simp [fstep, hq]
      rw [hst]
      have hnw : ∀ r, ¬ Waiting (outs past) r := by
        intro r hw; have := (hmem r).mpr hw; rw [hq] at this; cases this
      refine ⟨hsorted, ?_, ?_, ?_, ?_, good_snoc hgood ?_⟩
      · intro r; simpa [Waiting] using hmem r
      · simpa using hsnt
      · simpa using hfresh
      · simpa using honce
      · exact ⟨fun r hw _ => absurd hw (hnw r), fun _ => rfl⟩
    | cons a q =>
      have hst : fstep s (.recv k v) = (⟨s.nreq, q⟩, [.deliver a k v]) := by simp [fstep, hq]
      rw [hst]
      rw [hq] at hsorted hmem
      have hwa : Waiting (outs past) a := (hmem a).mp (by simp)
      have hmin : ∀ r, Waiting (outs past) r → a ≤ r := by
        intro r hw
        have := (hmem r).mpr hw
        rcases List.mem_cons.mp this with rfl | hr
        · exact Nat.le_refl _
        · exact Nat.le_of_lt ((List.pairwise_cons.mp hsorted).1 r hr)
      have hanq : a ∉ q := by
        intro ha; have := (List.pairwise_cons.mp hsorted).1 a ha; omega
      refine ⟨(List.pairwise_cons.mp hsorted).2, ?_, ?_, ?_, ?_, good_snoc hgood ?_⟩
      · intro r
        simp only [Waiting, outs_snoc, List.mem_append, List.mem_singleton, outcomes_append, outcomes_deliver]
        constructor
        · intro hr
          have hw := (hmem r).mp (List.mem_cons_of_mem _ hr)
          have hne : a ≠ r := by intro h; subst h; exact hanq hr
          exact ⟨Or.inl hw.1, by simp [hne, hw.2]⟩
        · rintro ⟨h1 | h1, h2⟩
          · have hne : a ≠ r := by intro h; simp [h] at h2
            simp only [hne, if_false, Nat.add_zero] at h2
            have := (hmem r).mpr ⟨h1, h2⟩
            rcases List.mem_cons.mp this with rfl | hr
            · exact absurd rfl hne
            · exact hr
          · cases h1
      · intro r k' hm
        simp only [outs_snoc, List.mem_append, List.mem_singleton] at hm
        rcases hm with hm | hm
        · exact hsnt r k' hm
        · cases hm
      · intro r hr
        simp only [outs_snoc, outcomes_append, outcomes_deliver]
        have : a ≠ r := by have := (hsnt _ _ hwa.1).1; simp only [] at hr; omega
        simp [this, hfresh r hr]
      · intro r
        simp only [outs_snoc, outcomes_append, outcomes_deliver]
        by_cases hr : a = r
        · subst hr; simp [hwa.2]
        · simp [hr, honce r]
      · refine ⟨?_, fun hn => absurd hwa (hn a)⟩
        intro r hw hle
        have h1 := hmin r hw
        have h2 := hle a hwa
        have : r = a := by omega
        subst this; rfl
  | timeout r =>
    by_cases hr : r ∈ s.queue
    · have hst : fstep s (.timeout r) = (⟨s.nreq, s.queue.erase r⟩, [.timeoutErr r]) := by
        simp [fstep, hr]
      rw [hst]
      have hw : Waiting (outs past) r := (hmem r).mp hr
      have hnd := nodup_of_sorted hsorted
      refine ⟨hsorted.sublist (List.erase_sublist), ?_, ?_, ?_, ?_, good_snoc hgood ?_⟩
      · intro r'
        simp only [Waiting, outs_snoc, List.mem_append, List.mem_singleton, outcomes_append,
          outcomes_timeoutErr]
        rw [hnd.mem_erase_iff]
        constructor
        · rintro ⟨hne, hm⟩
          have := (hmem r').mp hm
          have hne' : r ≠ r' := fun h => hne h.symm
          exact ⟨Or.inl this.1, by simp [hne', this.2]⟩
        · rintro ⟨h1 | h1, h2⟩
          · have hne : r ≠ r' := by intro h; simp [h] at h2
            simp only [hne, if_false, Nat.add_zero] at h2
            exact ⟨fun h => hne h.symm, (hmem r').mpr ⟨h1, h2⟩⟩
          · cases h1
      · intro r' k' hm
        simp only [outs_snoc, List.mem_append, List.mem_singleton] at hm
        rcases hm with hm | hm
        · exact hsnt r' k' hm
        · cases hm
      · intro r' hr'
        simp only [outs_snoc, outcomes_append, outcomes_timeoutErr]
        have : r ≠ r' := by have := (hsnt _ _ hw.1).1; simp only [] at hr'; omega
        simp [this, hfresh r' hr']
      · intro r'
        simp only [outs_snoc, outcomes_append, outcomes_timeoutErr]
        by_cases h : r = r'
        · subst h; simp [hw.2]
        · simp [h, honce r']
      · exact ⟨fun _ => rfl, fun hn => absurd hw hn⟩
    · have hst : fstep s (.timeout r) = (s, []) := by simp [fstep, hr]
      rw [hst]
      refine ⟨hsorted, ?_, ?_, ?_, ?_, good_snoc hgood ?_⟩
      · simpa using hmem
      · simpa using hsnt
      · simpa using hfresh
      · simpa using honce
      · exact ⟨fun hw => absurd ((hmem r).mpr hw) hr, fun _ => rfl⟩

theorem finv_run (evs : List Ev) : FInv (finalS fstep finit evs) (runT fstep finit evs) :=
  inv_run fstep FInv finit finv_init finv_step evs

/-! ## refinement with the history-only tracker (hypothesis of the partial HTTP theorem) -/

theorem quiet_iff (t : Tracker) : t.quiet = true ↔
    ∀ i, i < t.n → ∀ j, j < t.n → t.m ≤ i → i < j → i ∈ t.ab → j ∈ t.ab := by
  simp only [Tracker.quiet, List.all_eq_true, List.mem_range]
  constructor
  · intro h i hi j hj hmi hij hab
    have := h i hi j hj
    simpa [hmi, hij, hab] using this
  · intro h i hi j hj
    by_cases hc : t.m ≤ i ∧ i < j ∧ i ∈ t.ab
    · have := h i hi j hj hc.1 hc.2.1 hc.2.2
      simp [this]
    · by_cases h1 : t.m ≤ i <;> by_cases h2 : i < j <;> by_cases h3 : i ∈ t.ab <;> simp [h1, h2, h3]
      exact absurd ⟨h1, h2, h3⟩ hc

/-- a response is only ever returned to the request whose turn it is: the j-th response of the
    device to request j -/
def HLocal (p : Trace) (_e : Ev) (o : List Out) : Prop :=
  ∀ r k v, Out.deliver r k v ∈ o → r = numRecv (p.map Prod.fst)

structure HInv (s : FState) (t : Tracker) (past : Trace) : Prop where
  n_eq : s.nreq = t.n
  m_eq : t.m = numRecv (past.map Prod.fst)
  m_le : t.m ≤ t.n
  ab_lt : ∀ r, r ∈ t.ab → r < t.n
  sorted : s.queue.Pairwise (· < ·)
  mem : ∀ r, r ∈ s.queue ↔ (t.m ≤ r ∧ r < t.n ∧ r ∉ t.ab)
  quiet : t.quiet = true
  good : Good HLocal past

theorem hinv_init : HInv finit tinit [] := by
  refine ⟨rfl, rfl, Nat.le_refl _, ?_, ?_, ?_, by decide, good_nil _⟩ <;> simp [finit, tinit]

theorem numRecv_snoc (l : List Ev) (e : Ev) :
    numRecv (l ++ [e]) = numRecv l + (match e with | .recv _ _ => 1 | _ => 0) := by
  induction l with
  | nil => cases e <;> simp [numRecv]
  | cons a l ih => cases a <;> simp [numRecv, ih] <;> omega

theorem hinv_step (s : FState) (t : Tracker) (past : Trace) (e : Ev) (h : HInv s t past)
    (hq : (tstep t e).quiet = true) (hle : (tstep t e).m ≤ (tstep t e).n) :
    HInv (fstep s e).1 (tstep t e) (past ++ [(e, (fstep s e).2)]) := by
  obtain ⟨hn, hm, hmn, hab, hsorted, hmem, hquiet, hgood⟩ := h
  cases e with
  | send =>
    refine ⟨by simp [fstep, tstep, hn], ?_, hle, ?_, ?_, ?_, hq, good_snoc hgood ?_⟩
    · simp [tstep, numRecv_snoc, hm]
    · intro r hr; have := hab r hr; simp only [tstep]; omega
    · simp only [fstep]
      rw [List.pairwise_append]
      refine ⟨hsorted, by simp, ?_⟩
      intro a ha b hb
      simp only [List.mem_singleton] at hb; subst hb
      have := (hmem a).mp ha; omega
    · intro r
      simp only [fstep, tstep, List.mem_append, List.mem_singleton, hmem r]
      constructor
      · rintro (h | h)
        · exact ⟨h.1, by omega, h.2.2⟩
        · subst h
          refine ⟨by omega, by omega, ?_⟩
          intro hr; have := hab _ hr; omega
      · rintro ⟨h1, h2, h3⟩
        by_cases hr : r = s.nreq
        · exact Or.inr hr
        · exact Or.inl ⟨h1, by omega, h3⟩
    · intro r k v hd; simp [fstep] at hd
  | burn =>
    refine ⟨by simpa [fstep, tstep] using hn, ?_, hmn, hab, by simpa [fstep] using hsorted, ?_, hquiet,
      good_snoc hgood ?_⟩
    · simp [tstep, numRecv_snoc, hm]
    · simpa [fstep, tstep] using hmem
    · intro r k v hd; simp [fstep] at hd
  | sendFail =>
    refine ⟨by simpa [fstep, tstep] using hn, ?_, hmn, hab, by simpa [fstep] using hsorted, ?_, hquiet,
      good_snoc hgood ?_⟩
    · simp [tstep, numRecv_snoc, hm]
    · simpa [fstep, tstep] using hmem
    · intro r k v hd; simp [fstep] at hd
  | msg kd k' v' =>
    refine ⟨by simpa [fstep, tstep] using hn, ?_, hmn, hab, by simpa [fstep] using hsorted, ?_, hquiet,
      good_snoc hgood ?_⟩
    · simp [tstep, numRecv_snoc, hm]
    · simpa [fstep, tstep] using hmem
    · intro r k v hd; simp [fstep] at hd
  | recv k v =>
    have hq0 := (quiet_iff t).mp hquiet
    simp only [tstep] at hle
    cases hqu : s.queue with
    | nil =>
      have hst : fstep s (.recv k v) = (s, [.drop k v]) := by simp [fstep, hqu]
      rw [hst]
      refine ⟨hn, ?_, hle, hab, hsorted, ?_, hq, good_snoc hgood ?_⟩
      · simp [tstep, numRecv_snoc, hm]
      · intro r
        simp only [tstep]
        rw [hqu] at hmem ⊢
        constructor
        · intro h; cases h
        · rintro ⟨h1, h2, h3⟩
          exact (hmem r).mpr ⟨by omega, h2, h3⟩
      · intro r k' v' hd; simp at hd
    | cons a q =>
      have hst : fstep s (.recv k v) = (⟨s.nreq, q⟩, [.deliver a k v]) := by simp [fstep, hqu]
      rw [hst]
      rw [hqu] at hsorted hmem
      have ha := (hmem a).mp (by simp)
      have ham : a = t.m := by
        by_cases hlt : t.m < a
        · exfalso
          by_cases hmab : t.m ∈ t.ab
          · exact ha.2.2 (hq0 t.m (by omega) a ha.2.1 (Nat.le_refl _) hlt hmab)
          · have := (hmem t.m).mpr ⟨Nat.le_refl _, by omega, hmab⟩
            rcases List.mem_cons.mp this with h | h
            · omega
            · have := (List.pairwise_cons.mp hsorted).1 _ h; omega
        · omega
      refine ⟨hn, ?_, hle, hab, (List.pairwise_cons.mp hsorted).2, ?_, hq, good_snoc hgood ?_⟩
      · simp [tstep, numRecv_snoc, hm]
      · intro r
        simp only [tstep]
        constructor
        · intro hr
          have h1 := (hmem r).mp (List.mem_cons_of_mem _ hr)
          have h2 := (List.pairwise_cons.mp hsorted).1 r hr
          exact ⟨by omega, h1.2.1, h1.2.2⟩
        · rintro ⟨h1, h2, h3⟩
          have := (hmem r).mpr ⟨by omega, h2, h3⟩
          rcases List.mem_cons.mp this with h | h
          · omega
          · exact h
      · intro r k' v' hd
        simp only [List.mem_singleton, Out.deliver.injEq] at hd
        rw [← hm, hd.1, ham]
  | timeout r =>
    have hnd := nodup_of_sorted hsorted
    by_cases hr : r ∈ s.queue
    · have hc := (hmem r).mp hr
      have hst : fstep s (.timeout r) = (⟨s.nreq, s.queue.erase r⟩, [.timeoutErr r]) := by
        simp [fstep, hr]
      have hts : tstep t (.timeout r) = { t with ab := r :: t.ab } := by
        simp [tstep, hc.1, hc.2.1, hc.2.2]
      rw [hst]; rw [hts] at hq ⊢
      refine ⟨hn, ?_, hmn, ?_, hsorted.sublist (List.erase_sublist), ?_, hq, good_snoc hgood ?_⟩
      · simp [numRecv_snoc, hm]
      · intro r' hr'
        rcases List.mem_cons.mp hr' with rfl | h
        · exact hc.2.1
        · exact hab r' h
      · intro r'
        simp only [List.mem_cons, not_or]
        rw [hnd.mem_erase_iff, hmem r']
        constructor
        · rintro ⟨h0, h1, h2, h3⟩; exact ⟨h1, h2, h0, h3⟩
        · rintro ⟨h1, h2, h0, h3⟩; exact ⟨h0, h1, h2, h3⟩
      · intro r' k v hd; simp at hd
    · have hst : fstep s (.timeout r) = (s, []) := by simp [fstep, hr]
      have hts : tstep t (.timeout r) = t := by
        simp only [tstep]
        split
        · rename_i hc; exact absurd ((hmem r).mpr hc) hr
        · rfl
      rw [hst, hts]
      refine ⟨hn, ?_, hmn, hab, hsorted, hmem, hquiet, good_snoc hgood ?_⟩
      · simp [numRecv_snoc, hm]
      · intro r' k v hd; simp at hd

/-- along every history that satisfies `QuietFrom`, the refinement holds -/
theorem hinv_run_gen : ∀ (evs : List Ev) (s : FState) (t : Tracker) (past : Trace),
    HInv s t past → QuietFrom t evs = true → Good HLocal (past ++ runT fstep s evs) := by
  intro evs
  induction evs with
  | nil => intro s t past h _; simpa [runT] using h.good
  | cons e es ih =>
    intro s t past h hq
    simp only [QuietFrom, Bool.and_eq_true, decide_eq_true_eq] at hq
    have := ih _ _ _ (hinv_step s t past e h hq.1.1 hq.1.2) hq.2
    simpa [runT, List.append_assoc] using this

end PyatvModel.C03
