import PyatvModel.C03.Lemmas
/-
C03 — the keyed matcher is a function of the observable history (`KLocal`), for all histories.
-/
namespace PyatvModel.C03

/-- the two configurations that exist in pyatv satisfy this (MRP removes abandoned entries,
    Companion neither removes nor dispatches) -/
def Cfg.real (cfg : Cfg) : Prop := cfg.removeOnTimeout = true ∨ cfg.dispatchUnmatched = false

/-- Specification of the matching of a message by its identifier, in terms of what was
    observable before. -/
def KRecvSpec (cfg : Cfg) (p : Trace) (k : Option Nat) (v : Nat) (o : List Out) : Prop :=
  match k with
  | none => o = [unmatched cfg none v]
  | some c =>
      (∀ r, Out.sent r c ∈ outs p → outcomes r (outs p) = 0 → o = [.deliver r (some c) v]) ∧
      ((∀ r, Out.sent r c ∈ outs p → outcomes r (outs p) ≠ 0) →
        (o = [.dispatch (some c) v] ∨ o = [.drop (some c) v]) ∧ (cfg.real → o = [unmatched cfg (some c) v]))

/-- Specification of one step of the keyed matcher in terms of what was observable before. -/
def KLocal (cfg : Cfg) (p : Trace) (e : Ev) (o : List Out) : Prop :=
  match e with
  | .send => ∃ r k, o = [.sent r k] ∧ outcomes r (outs p) = 0 ∧
      ∀ r' k', Out.sent r' k' ∈ outs p → r' ≠ r ∧ k' ≠ k
  | .burn => o = []
  | .sendFail => o = [.sendErr]
  | .recv k v => KRecvSpec cfg p k v o
  | .msg kd k v =>
      if cfg.typed then o = [match kd with | .event => .dispatch k v | .other => .drop k v]
      else KRecvSpec cfg p k v o
  | .timeout r =>
      ((∃ k, Out.sent r k ∈ outs p) → outcomes r (outs p) = 0 → o = [.timeoutErr r]) ∧
      (¬ ((∃ k, Out.sent r k ∈ outs p) ∧ outcomes r (outs p) = 0) → o = [])

structure KInv (cfg : Cfg) (s : KState) (past : Trace) : Prop where
  ent : ∀ c e, s.tbl c = some e → Out.sent e.req c ∈ outs past ∧
          (e.alive = true ↔ outcomes e.req (outs past) = 0)
  snt : ∀ r c, Out.sent r c ∈ outs past → r < s.nreq ∧ c < s.nkey ∧ s.kof r = c
  wait : ∀ r c, Out.sent r c ∈ outs past → outcomes r (outs past) = 0 → s.tbl c = some ⟨r, true⟩
  uniq : ∀ r r' c, Out.sent r c ∈ outs past → Out.sent r' c ∈ outs past → r = r'
  fresh : ∀ r, s.nreq ≤ r → outcomes r (outs past) = 0
  once : ∀ r, outcomes r (outs past) ≤ 1
  live : cfg.removeOnTimeout = true → ∀ c e, s.tbl c = some e → e.alive = true
  good : Good (KLocal cfg) past

theorem kinv_init (cfg : Cfg) (b : Nat) : KInv cfg (kinit b) [] := by
  refine ⟨?_, ?_, ?_, ?_, ?_, ?_, ?_, good_nil _⟩ <;> simp [kinit]

/-- a step that leaves the state alone and emits one output that is neither a `sent` nor an
    outcome of anybody -/
theorem kinv_inert (cfg : Cfg) (s : KState) (past : Trace) (e : Ev) (x : Out) (h : KInv cfg s past)
    (hno : ∀ r, outcomes r [x] = 0) (hns : ∀ r c, x ≠ Out.sent r c) (hl : KLocal cfg past e [x]) :
    KInv cfg s (past ++ [(e, [x])]) := by
  obtain ⟨hent, hsnt, hwait, huniq, hfresh, honce, hlive, hgood⟩ := h
  have hns' : ∀ r c, Out.sent r c ∈ outs past ++ [x] ↔ Out.sent r c ∈ outs past := by
    intro r c
    simp only [List.mem_append, List.mem_singleton]
    constructor
    · rintro (h | h)
      · exact h
      · exact absurd h.symm (hns r c)
    · exact Or.inl
  refine ⟨?_, ?_, ?_, ?_, ?_, ?_, hlive, good_snoc hgood hl⟩
  · intro c e' hc; simpa [hns', hno] using hent c e' hc
  · intro r c hm; simp only [outs_snoc, hns'] at hm; exact hsnt r c hm
  · intro r c hm ho; simp only [outs_snoc, hns', outcomes_append, hno, Nat.add_zero] at hm ho
    exact hwait r c hm ho
  · intro r r' c h1 h2; simp only [outs_snoc, hns'] at h1 h2; exact huniq r r' c h1 h2
  · intro r hr; simp only [outs_snoc, outcomes_append, hno, Nat.add_zero]; exact hfresh r hr
  · intro r; simp only [outs_snoc, outcomes_append, hno, Nat.add_zero]; exact honce r

theorem kinv_step_aux (cfg : Cfg) (s : KState) (past : Trace) (e : Ev) (h : KInv cfg s past)
    (hne : ∀ kd k v, e ≠ .msg kd k v) :
    KInv cfg (kstep cfg s e).1 (past ++ [(e, (kstep cfg s e).2)]) := by
  obtain ⟨hent, hsnt, hwait, huniq, hfresh, honce, hlive, hgood⟩ := h
  cases e with
  | msg kd k v => exact absurd rfl (hne kd k v)
  | send =>
    refine ⟨?_, ?_, ?_, ?_, ?_, ?_, ?_, good_snoc hgood ?_⟩
    · intro c e hc
      simp only [kstep, upd] at hc
      simp only [kstep, outs_snoc, List.mem_append, List.mem_singleton, outcomes_append, outcomes_sent,
        Nat.add_zero]
      split at hc
      · cases hc; subst_vars
        exact ⟨Or.inr rfl, by simp [hfresh s.nreq (Nat.le_refl _)]⟩
      · exact ⟨Or.inl (hent c e hc).1, (hent c e hc).2⟩
    · intro r c hm
      simp only [kstep, outs_snoc, List.mem_append, List.mem_singleton] at hm ⊢
      rcases hm with hm | hm
      · obtain ⟨h1, h2, h3⟩ := hsnt r c hm
        refine ⟨by omega, by omega, ?_⟩
        have : r ≠ s.nreq := by omega
        simp [this, h3]
      · cases hm
        exact ⟨by omega, by omega, by simp⟩
    · intro r c hm ho
      simp only [kstep, outs_snoc, List.mem_append, List.mem_singleton, outcomes_append, outcomes_sent,
        Nat.add_zero] at hm ho ⊢
      rcases hm with hm | hm
      · have hc : c ≠ s.nkey := by have := (hsnt r c hm).2.1; omega
        simp only [upd, hc, if_false]
        exact hwait r c hm ho
      · cases hm; simp [upd]
    · intro r r' c h1 h2
      simp only [kstep, outs_snoc, List.mem_append, List.mem_singleton] at h1 h2
      rcases h1 with h1 | h1 <;> rcases h2 with h2 | h2
      · exact huniq r r' c h1 h2
      · cases h2; have := (hsnt r _ h1).2.1; omega
      · cases h1; have := (hsnt r' _ h2).2.1; omega
      · cases h1; cases h2; rfl
    · intro r hr
      simp only [kstep, outs_snoc, outcomes_append, outcomes_sent, Nat.add_zero] at hr ⊢
      exact hfresh r (by omega)
    · intro r
      simp only [kstep, outs_snoc, outcomes_append, outcomes_sent, Nat.add_zero]
      exact honce r
    · intro hrm c e hc
      simp only [kstep, upd] at hc
      split at hc
      · cases hc; rfl
      · exact hlive hrm c e hc
    · refine ⟨s.nreq, s.nkey, rfl, hfresh _ (Nat.le_refl _), ?_⟩
      intro r' k' hm
      have := hsnt r' k' hm
      omega
  | burn =>
    refine ⟨?_, ?_, ?_, ?_, ?_, ?_, ?_, good_snoc hgood ?_⟩
    · simpa [kstep] using hent
    · intro r c hm
      simp only [kstep, outs_snoc, List.append_nil] at hm ⊢
      have := hsnt r c hm
      exact ⟨this.1, by omega, this.2.2⟩
    · simpa [kstep] using hwait
    · simpa [kstep] using huniq
    · simpa [kstep] using hfresh
    · simpa [kstep] using honce
    · simpa [kstep] using hlive
    · simp [KLocal, kstep]
  | sendFail =>
    refine ⟨?_, ?_, ?_, ?_, ?_, ?_, ?_, good_snoc hgood ?_⟩
    · simpa [kstep] using hent
    · intro r c hm
      simp only [kstep, outs_snoc, List.mem_append, List.mem_singleton, reduceCtorEq, or_false] at hm ⊢
      have := hsnt r c hm
      exact ⟨this.1, by omega, this.2.2⟩
    · simpa [kstep] using hwait
    · simpa [kstep] using huniq
    · simpa [kstep] using hfresh
    · simpa [kstep] using honce
    · simpa [kstep] using hlive
    · simp [KLocal, kstep]
  | recv k v =>
    cases k with
    | none =>
      have hst : kstep cfg s (.recv none v) = (s, [unmatched cfg none v]) := by simp [kstep, krecv]
      rw [hst]
      have hno : ∀ r, outcomes r [unmatched cfg none v] = 0 := by
        intro r; unfold unmatched; split <;> simp
      have hns : ∀ r c, Out.sent r c ∈ outs past ++ [unmatched cfg none v] ↔ Out.sent r c ∈ outs past := by
        intro r c; unfold unmatched; split <;> simp
      refine ⟨?_, ?_, ?_, ?_, ?_, ?_, hlive, good_snoc hgood ?_⟩
      · intro c e hc; simpa [hns, hno] using hent c e hc
      · intro r c hm; simp only [outs_snoc, hns] at hm; exact hsnt r c hm
      · intro r c hm ho; simp only [outs_snoc, hns, outcomes_append, hno, Nat.add_zero] at hm ho
        exact hwait r c hm ho
      · intro r r' c h1 h2; simp only [outs_snoc, hns] at h1 h2; exact huniq r r' c h1 h2
      · intro r hr; simp only [outs_snoc, outcomes_append, hno, Nat.add_zero]; exact hfresh r hr
      · intro r; simp only [outs_snoc, outcomes_append, hno, Nat.add_zero]; exact honce r
      · rfl
    | some k =>
      cases htk : s.tbl k with
      | none =>
        have hst : kstep cfg s (.recv (some k) v) = (s, [unmatched cfg (some k) v]) := by
          simp [kstep, krecv, htk]
        rw [hst]
        have hno : ∀ r, outcomes r [unmatched cfg (some k) v] = 0 := by
          intro r; unfold unmatched; split <;> simp
        have hns : ∀ r c, Out.sent r c ∈ outs past ++ [unmatched cfg (some k) v] ↔ Out.sent r c ∈ outs past := by
          intro r c; unfold unmatched; split <;> simp
        refine ⟨?_, ?_, ?_, ?_, ?_, ?_, hlive, good_snoc hgood ?_⟩
        · intro c e hc; simpa [hns, hno] using hent c e hc
        · intro r c hm; simp only [outs_snoc, hns] at hm; exact hsnt r c hm
        · intro r c hm ho; simp only [outs_snoc, hns, outcomes_append, hno, Nat.add_zero] at hm ho
          exact hwait r c hm ho
        · intro r r' c h1 h2; simp only [outs_snoc, hns] at h1 h2; exact huniq r r' c h1 h2
        · intro r hr; simp only [outs_snoc, outcomes_append, hno, Nat.add_zero]; exact hfresh r hr
        · intro r; simp only [outs_snoc, outcomes_append, hno, Nat.add_zero]; exact honce r
        · refine ⟨?_, ?_⟩
          · intro r hm ho
            have := hwait r k hm ho
            rw [htk] at this; cases this
          · intro _
            refine ⟨?_, fun _ => rfl⟩
            unfold unmatched; split <;> simp
      | some e =>
        obtain ⟨hes, hea⟩ := hent k e htk
        cases hal : e.alive with
        | true =>
          have ho0 : outcomes e.req (outs past) = 0 := hea.mp hal
          have hst : kstep cfg s (.recv (some k) v) =
              ({ s with tbl := upd s.tbl k none }, [.deliver e.req (some k) v]) := by
            simp [kstep, krecv, htk, hal]
          rw [hst]
          have hother : ∀ c e', c ≠ k → s.tbl c = some e' → e'.req ≠ e.req := by
            intro c e' hck hc heq
            have h1 := (hsnt _ _ (hent c e' hc).1).2.2
            have h2 := (hsnt _ _ hes).2.2
            rw [heq] at h1; omega
          refine ⟨?_, ?_, ?_, ?_, ?_, ?_, ?_, good_snoc hgood ?_⟩
          · intro c e' hc
            simp only [upd] at hc
            split at hc
            · cases hc
            · rename_i hck
              have hne := hother c e' hck hc
              have := hent c e' hc
              simp only [outs_snoc, List.mem_append, List.mem_singleton, outcomes_append, outcomes_deliver]
              refine ⟨Or.inl this.1, ?_⟩
              have hne' : ¬ e.req = e'.req := fun h => hne h.symm
              simp [hne', this.2]
          · intro r c hm
            simp only [outs_snoc, List.mem_append, List.mem_singleton] at hm
            rcases hm with hm | hm
            · exact hsnt r c hm
            · cases hm
          · intro r c hm ho
            simp only [outs_snoc, List.mem_append, List.mem_singleton, outcomes_append, outcomes_deliver] at hm ho
            rcases hm with hm | hm
            · have hr : e.req ≠ r := by intro h; simp [h] at ho
              simp only [hr, if_false, Nat.add_zero] at ho
              have hck : c ≠ k := by
                intro h; subst h; exact hr (huniq _ _ _ hes hm)
              simp only [upd, hck, if_false]
              exact hwait r c hm ho
            · cases hm
          · intro r r' c h1 h2
            simp only [outs_snoc, List.mem_append, List.mem_singleton] at h1 h2
            rcases h1 with h1 | h1 <;> rcases h2 with h2 | h2
            · exact huniq r r' c h1 h2
            · cases h2
            · cases h1
            · cases h1
          · intro r hr
            simp only [outs_snoc, outcomes_append, outcomes_deliver]
            have : e.req ≠ r := by have := (hsnt _ _ hes).1; show e.req ≠ r; intro h; simp only [] at hr; omega
            simp [this, hfresh r hr]
          · intro r
            simp only [outs_snoc, outcomes_append, outcomes_deliver]
            by_cases hr : e.req = r
            · subst hr; simp [ho0]
            · simp [hr, honce r]
          · intro hrm c e' hc
            simp only [upd] at hc
            split at hc
            · cases hc
            · exact hlive hrm c e' hc
          · refine ⟨?_, ?_⟩
            · intro r hm _
              have := huniq _ _ _ hes hm
              subst this; rfl
            · intro hall
              exact absurd ho0 (hall _ hes)
        | false =>
          have ho0 : outcomes e.req (outs past) ≠ 0 := by
            intro h; have := hea.mpr h; rw [hal] at this; cases this
          have hst : kstep cfg s (.recv (some k) v) =
              ({ s with tbl := upd s.tbl k none }, [.drop (some k) v]) := by
            simp [kstep, krecv, htk, hal]
          rw [hst]
          refine ⟨?_, ?_, ?_, ?_, ?_, ?_, ?_, good_snoc hgood ?_⟩
          · intro c e' hc
            simp only [upd] at hc
            split at hc
            · cases hc
            · simpa using hent c e' hc
          · intro r c hm
            simp only [outs_snoc, List.mem_append, List.mem_singleton] at hm
            rcases hm with hm | hm
            · exact hsnt r c hm
            · cases hm
          · intro r c hm ho
            simp only [outs_snoc, List.mem_append, List.mem_singleton, outcomes_append, outcomes_drop,
              Nat.add_zero] at hm ho
            rcases hm with hm | hm
            · have := hwait r c hm ho
              have hck : c ≠ k := by
                intro h; subst h; rw [htk] at this; cases this; simp at hal
              simp only [upd, hck, if_false]; exact this
            · cases hm
          · intro r r' c h1 h2
            simp only [outs_snoc, List.mem_append, List.mem_singleton] at h1 h2
            rcases h1 with h1 | h1 <;> rcases h2 with h2 | h2
            · exact huniq r r' c h1 h2
            · cases h2
            · cases h1
            · cases h1
          · intro r hr; simpa using hfresh r hr
          · intro r; simpa using honce r
          · intro hrm c e' hc
            simp only [upd] at hc
            split at hc
            · cases hc
            · exact hlive hrm c e' hc
          · refine ⟨?_, ?_⟩
            · intro r hm ho
              have := huniq _ _ _ hes hm
              subst this; exact absurd ho ho0
            · intro _
              refine ⟨Or.inr rfl, ?_⟩
              intro hreal
              rcases hreal with hrm | hd
              · have := hlive hrm k e htk; rw [hal] at this; cases this
              · simp [unmatched, hd]
  | timeout r =>
    by_cases hcase : ∃ e, s.tbl (s.kof r) = some e ∧ e.req = r ∧ e.alive = true
    · obtain ⟨e, htk, her, hal⟩ := hcase
      obtain ⟨hes, hea⟩ := hent _ e htk
      have ho0 : outcomes r (outs past) = 0 := by rw [← her]; exact hea.mp hal
      have hst : kstep cfg s (.timeout r) =
          ({ s with tbl := upd s.tbl (s.kof r) (if cfg.removeOnTimeout then none else some ⟨r, false⟩) },
           [.timeoutErr r]) := by
        simp [kstep, htk, her, hal]
      rw [hst]
      rw [her] at hes
      have hother : ∀ c e', c ≠ s.kof r → s.tbl c = some e' → e'.req ≠ r := by
        intro c e' hck hc heq
        have h1 := (hsnt _ _ (hent c e' hc).1).2.2
        rw [heq] at h1; omega
      refine ⟨?_, ?_, ?_, ?_, ?_, ?_, ?_, good_snoc hgood ?_⟩
      · intro c e' hc
        simp only [upd] at hc
        simp only [outs_snoc, List.mem_append, List.mem_singleton, outcomes_append, outcomes_timeoutErr]
        split at hc
        · rename_i hck
          split at hc
          · cases hc
          · cases hc; subst hck
            exact ⟨Or.inl hes, by simp⟩
        · rename_i hck
          have hne := hother c e' hck hc
          have := hent c e' hc
          have hne' : ¬ r = e'.req := fun h => hne h.symm
          exact ⟨Or.inl this.1, by simp [hne', this.2]⟩
      · intro r' c hm
        simp only [outs_snoc, List.mem_append, List.mem_singleton] at hm
        rcases hm with hm | hm
        · exact hsnt r' c hm
        · cases hm
      · intro r' c hm ho
        simp only [outs_snoc, List.mem_append, List.mem_singleton, outcomes_append, outcomes_timeoutErr] at hm ho
        rcases hm with hm | hm
        · have hr : r ≠ r' := by intro h; simp [h] at ho
          simp only [hr, if_false, Nat.add_zero] at ho
          have hw := hwait r' c hm ho
          have hck : c ≠ s.kof r := by
            intro h; subst h; rw [htk] at hw; cases hw; exact hr her.symm
          simp only [upd, hck, if_false]; exact hw
        · cases hm
      · intro r1 r2 c h1 h2
        simp only [outs_snoc, List.mem_append, List.mem_singleton] at h1 h2
        rcases h1 with h1 | h1 <;> rcases h2 with h2 | h2
        · exact huniq r1 r2 c h1 h2
        · cases h2
        · cases h1
        · cases h1
      · intro r' hr
        simp only [outs_snoc, outcomes_append, outcomes_timeoutErr]
        have : r ≠ r' := by have := (hsnt _ _ hes).1; simp only [] at hr; omega
        simp [this, hfresh r' hr]
      · intro r'
        simp only [outs_snoc, outcomes_append, outcomes_timeoutErr]
        by_cases hr : r = r'
        · subst hr; simp [ho0]
        · simp [hr, honce r']
      · intro hrm c e' hc
        simp only [upd, hrm, if_true] at hc
        split at hc
        · cases hc
        · exact hlive hrm c e' hc
      · exact ⟨fun _ _ => rfl, fun hn => absurd ⟨⟨_, hes⟩, ho0⟩ hn⟩
    · have hst : kstep cfg s (.timeout r) = (s, []) := by
        simp only [kstep]
        split
        · rename_i e he
          split
          · rename_i hc; exact absurd ⟨e, he, hc.1, hc.2⟩ hcase
          · rfl
        · rfl
      rw [hst]
      refine ⟨?_, ?_, ?_, ?_, ?_, ?_, hlive, good_snoc hgood ?_⟩
      · simpa using hent
      · simpa using hsnt
      · simpa using hwait
      · simpa using huniq
      · simpa using hfresh
      · simpa using honce
      · refine ⟨?_, fun _ => rfl⟩
        rintro ⟨k, hk⟩ ho
        have hw := hwait r k hk ho
        have hk' := (hsnt r k hk).2.2
        exact absurd ⟨⟨r, true⟩, by rw [hk']; exact hw, rfl, rfl⟩ hcase

theorem kinv_step (cfg : Cfg) (s : KState) (past : Trace) (e : Ev) (h : KInv cfg s past) :
    KInv cfg (kstep cfg s e).1 (past ++ [(e, (kstep cfg s e).2)]) := by
  cases e with
  | msg kd k v =>
    by_cases hty : cfg.typed = true
    · cases kd with
      | event =>
        have hst : kstep cfg s (.msg .event k v) = (s, [.dispatch k v]) := by simp [kstep, hty]
        rw [hst]
        exact kinv_inert cfg s past _ _ h (by simp) (by simp) (by simp [KLocal, hty])
      | other =>
        have hst : kstep cfg s (.msg .other k v) = (s, [.drop k v]) := by simp [kstep, hty]
        rw [hst]
        exact kinv_inert cfg s past _ _ h (by simp) (by simp) (by simp [KLocal, hty])
    · -- the type is not looked at: exactly the behaviour of `recv`
      have hst : kstep cfg s (.msg kd k v) = kstep cfg s (.recv k v) := by simp [kstep, hty]
      rw [hst]
      have hr := kinv_step_aux cfg s past (.recv k v) h (by intro _ _ _ hh; cases hh)
      obtain ⟨a1, a2, a3, a4, a5, a6, a7, a8⟩ := hr
      have hl : KLocal cfg past (.recv k v) (kstep cfg s (.recv k v)).2 := a8 past _ _ [] rfl
      refine ⟨by simpa using a1, by simpa using a2, by simpa using a3, by simpa using a4,
        by simpa using a5, by simpa using a6, a7, good_snoc h.good ?_⟩
      simpa [KLocal, hty] using hl
  | send => exact kinv_step_aux cfg s past _ h (by intro _ _ _ hh; cases hh)
  | burn => exact kinv_step_aux cfg s past _ h (by intro _ _ _ hh; cases hh)
  | sendFail => exact kinv_step_aux cfg s past _ h (by intro _ _ _ hh; cases hh)
  | recv k v => exact kinv_step_aux cfg s past _ h (by intro _ _ _ hh; cases hh)
  | timeout r => exact kinv_step_aux cfg s past _ h (by intro _ _ _ hh; cases hh)

theorem kinv_run (cfg : Cfg) (b : Nat) (evs : List Ev) :
    KInv cfg (finalS (kstep cfg) (kinit b) evs) (runT (kstep cfg) (kinit b) evs) :=
  inv_run (kstep cfg) (KInv cfg) (kinit b) (kinv_init cfg b) (kinv_step cfg) evs

end PyatvModel.C03
