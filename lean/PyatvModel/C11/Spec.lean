import PyatvModel.C11.Model
/-
C11 — SPECIFICATION of the MRP now-playing rules, written from the property text
(properties.jsonl C11), not from player_state.py.  No objects, no pointers, no handles:

  * the device has named clients (apps); a client has named players; for every
    (client, player) we remember *the most recent state* sent for it (a player nobody has
    told us anything about — or that was removed — has the empty state);
  * at most one client is the active client ("set now playing client"); each client has at
    most one explicitly chosen active player ("set now playing player");
  * removing a client forgets everything about it, and un-sets the active client if it was
    the one; removing a player forgets its state, and un-sets the client's active player if
    it was the one;
  * what is reported is derived from the state of the active player of the active client;
    a client with no explicitly chosen active player is represented by its default player
    (`DEFAULT_PLAYER_ID`); no active client ⇒ idle, nothing else.

The only things shared with the model are the message type, the per-player update
functions (`handleSetState` = "most recent state wins field by field",
`handleContentItemUpdate` = merge into the items with the same identifier) and the pure
derivation `buildPlaying` (state of *one* player ↦ reported fields).  Which player's state
is looked at — the content of the property — is defined here independently.

Two details of MRP that the spec has to fix to be executable: a client's display name is
whatever the first message that mentions the client carried (later only "update client"
changes it), and a remove-player message that names no player (empty identifier) is ignored.
-/
namespace PyatvModel.C11.Spec
open PyatvModel.C11

@[ext] structure SClient where
  known : Bool
  name : Option Nat
  cmds : List Cmd
  activePlayer : Option Nat
  info : Nat → PlayerInfo

/-- a client we know nothing about -/
def SClient.unknown : SClient :=
  { known := false, name := none, cmds := [], activePlayer := none, info := fun _ => .empty }

@[ext] structure SState where
  activeClient : Option Nat
  client : Nat → SClient

def SState.init : SState := { activeClient := none, client := fun _ => .unknown }

/-- a message mentions client `b` (carrying display name `n`): it becomes known. -/
def SClient.touch (c : SClient) (n : Option Nat) : SClient :=
  if c.known then c else { c with known := true, name := n }

def SState.modClient (st : SState) (b : Nat) (f : SClient → SClient) : SState :=
  { st with client := upd st.client b (f (st.client b)) }

def SClient.modInfo (c : SClient) (p : Nat) (f : PlayerInfo → PlayerInfo) : SClient :=
  { c with info := upd c.info p (f (c.info p)) }

def specStep (st : SState) : Msg → SState
  | .setState p ps cmds q =>
    st.modClient p.bundle fun c => (c.touch p.cname).modInfo p.player (·.handleSetState ps cmds q)
  | .contentItemUpdate p us =>
    st.modClient p.bundle fun c => (c.touch p.cname).modInfo p.player (·.handleContentItemUpdate us)
  | .setNowPlayingClient b n =>
    { st.modClient b (·.touch n) with activeClient := some b }
  | .setNowPlayingPlayer p =>
    st.modClient p.bundle fun c => { c.touch p.cname with activePlayer := some p.player }
  | .updateClient b n =>
    st.modClient b fun c =>
      let c := c.touch n
      { c with name := pyOr n c.name }
  | .removeClient b _ =>
    { activeClient := if st.activeClient = some b then none else st.activeClient
      client := upd st.client b .unknown }
  | .removePlayer p =>
    st.modClient p.bundle fun c =>
      let c := c.touch p.cname
      if p.player = 0 then c
      else
        { c with
          info := upd c.info p.player .empty
          activePlayer := if c.activePlayer = some p.player then none else c.activePlayer }
  | .setDefaultSupportedCommands p cmds =>
    st.modClient p.bundle fun c => { c.touch p.cname with cmds := cmds }

def specReach (msgs : List Msg) : SState := msgs.foldl specStep SState.init

/-- (active client, player whose state is being reported), if any client is active -/
def serving (st : SState) : Option (Nat × Nat) :=
  st.activeClient.map fun b => (b, ((st.client b).activePlayer).getD defaultPlayer)

/-- nothing is playing and no app is active -/
def idleReport (now : Int) : Report := buildPlaying now ⟨0, .empty, []⟩ none

def specReport (now : Int) (st : SState) : Report :=
  match serving st with
  | none => idleReport now
  | some (b, p) =>
    let c := st.client b
    buildPlaying now ⟨p, c.info p, c.cmds⟩ (some (c.name, b))

end PyatvModel.C11.Spec
