import PyatvModel.C11.Model
import PyatvModel.C11.Spec
/-
C11 — abstraction function from the pointer/handle model to the specification state, the
invariant "every pointer is live", and the simulation lemmas used by Props/C11.lean.
-/
namespace PyatvModel.C11
open Spec

/-- what the spec knows about a client, read off a `Client` object (or its absence) -/
def absClient : Option Client → SClient
  | none => .unknown
  | some c =>
    { known := true, name := c.name, cmds := c.cmds, activePlayer := c.active.map (·.1)
      info := fun i => match c.players i with | some p => p.info | none => .empty }

def abs (s : Mgr) : SState :=
  { activeClient := s.active.map (·.1), client := fun b => absClient (s.clients b) }

/-- `_active_player` is live -/
def ClientOk (c : Client) : Prop :=
  ∀ i h, c.active = some (i, h) → ∃ p, c.players i = some p ∧ p.h = h

/-- every pointer is live -/
def Inv (s : Mgr) : Prop :=
  (∀ b h, s.active = some (b, h) → ∃ c, s.clients b = some c ∧ c.h = h) ∧
  (∀ b c, s.clients b = some c → ClientOk c)

theorem upd_same {α : Type} (f : Nat → α) (k : Nat) (v : α) : upd f k v k = v := by simp [upd]
theorem upd_other {α : Type} (f : Nat → α) (k x : Nat) (v : α) (h : x ≠ k) : upd f k v x = f x := by
  simp [upd, h]
theorem upd_upd {α : Type} (f : Nat → α) (k : Nat) (v w : α) : upd (upd f k v) k w = upd f k w := by
  funext x; simp only [upd]; split <;> rfl

theorem inv_init : Inv Mgr.init := by
  constructor
  · intro b h hh; simp [Mgr.init] at hh
  · intro b c hc; simp [Mgr.init] at hc

theorem abs_init : abs Mgr.init = SState.init := by
  simp [abs, Mgr.init, SState.init, absClient]

theorem abs_setClient (s : Mgr) (b : Nat) (c : Client) :
    abs (s.setClient b c) = { abs s with client := upd (abs s).client b (absClient (some c)) } := by
  simp only [abs, Mgr.setClient]
  congr 1
  funext x
  simp only [upd]; split <;> rfl

theorem inv_setClient (s : Mgr) (b : Nat) (c c' : Client) (hi : Inv s) (hc : s.clients b = some c)
    (hh : c'.h = c.h) (hok : ClientOk c') : Inv (s.setClient b c') := by
  obtain ⟨h1, h2⟩ := hi
  constructor
  · intro b' h' ha
    simp only [Mgr.setClient] at ha ⊢
    obtain ⟨c0, hc0, hh0⟩ := h1 b' h' ha
    by_cases hb : b' = b
    · subst hb; rw [hc] at hc0; cases hc0
      exact ⟨c', by simp [upd], by omega⟩
    · exact ⟨c0, by simp [upd, hb, hc0], hh0⟩
  · intro b' c0 hc0
    simp only [Mgr.setClient, upd] at hc0
    split at hc0
    · cases hc0; exact hok
    · exact h2 b' c0 hc0

/-- `get_client`: afterwards the client exists (and is the returned object), nothing else
    changed, and on the spec side the client has been "touched". -/
theorem getClient_spec (s : Mgr) (b : Nat) (n : Option Nat) :
    (getClient s b n).1.clients b = some (getClient s b n).2 ∧
    (getClient s b n).1.active = s.active ∧
    abs (getClient s b n).1 = (abs s).modClient b (·.touch n) ∧
    (Inv s → Inv (getClient s b n).1) := by
  unfold getClient
  cases hc : s.clients b with
  | some c =>
    refine ⟨by simp [hc], rfl, ?_, fun h => h⟩
    simp only [abs, SState.modClient]
    congr 1
    funext x
    simp only [upd]
    split
    · next hx => subst hx; simp [hc, absClient, SClient.touch]
    · rfl
  | none =>
    refine ⟨by simp [upd], rfl, ?_, ?_⟩
    · simp only [abs, SState.modClient]
      congr 1
      funext x
      simp only [upd]
      split
      · next hx => subst hx; simp [hc, absClient, SClient.touch, SClient.unknown]
      · rfl
    · rintro ⟨h1, h2⟩
      constructor
      · intro b' h' ha
        obtain ⟨c0, hc0, hh0⟩ := h1 b' h' ha
        have hb : b' ≠ b := by intro hb; subst hb; rw [hc] at hc0; cases hc0
        exact ⟨c0, by simp [upd, hb, hc0], hh0⟩
      · intro b' c0 hc0
        simp only [upd] at hc0
        split at hc0
        · cases hc0; intro i h hh; simp at hh
        · exact h2 b' c0 hc0

theorem absClient_addEmpty (c : Client) (i h : Nat) (hp : c.players i = none) :
    absClient (some { c with players := upd c.players i (some ⟨h, .empty⟩) }) = absClient (some c) := by
  simp only [absClient]
  congr 1
  funext x
  by_cases hx : x = i
  · subst hx; simp [upd, hp]
  · simp [upd, hx]

theorem abs_congr (s s' : Mgr) (ha : s'.active = s.active)
    (hc : ∀ b, absClient (s'.clients b) = absClient (s.clients b)) : abs s' = abs s := by
  simp only [abs, ha]
  congr 1
  funext b
  exact hc b

theorem clientOk_addPlayer (c : Client) (i : Nat) (pl : Player) (hp : c.players i = none)
    (hok : ClientOk c) : ClientOk { c with players := upd c.players i (some pl) } := by
  intro j h hj
  obtain ⟨q, hq, hh⟩ := hok j h hj
  have : j ≠ i := by intro e; subst e; rw [hp] at hq; cases hq
  exact ⟨q, by simp [upd, this, hq], hh⟩

/-- `get_player`: client and player exist afterwards; on the spec side only "touched". -/
theorem getPlayer_spec (s : Mgr) (p : Path) :
    (getPlayer s p).1.clients p.bundle = some (getPlayer s p).2.1 ∧
    (getPlayer s p).2.1.players p.player = some (getPlayer s p).2.2 ∧
    (getPlayer s p).1.active = s.active ∧
    abs (getPlayer s p).1 = (abs s).modClient p.bundle (·.touch p.cname) ∧
    (Inv s → Inv (getPlayer s p).1) := by
  obtain ⟨g1, g2, g3, g4⟩ := getClient_spec s p.bundle p.cname
  unfold getPlayer
  generalize getClient s p.bundle p.cname = r0 at g1 g2 g3 g4
  obtain ⟨s1, c⟩ := r0
  simp only at g1 g2 g3 g4 ⊢
  cases hp : c.players p.player with
  | some pl => exact ⟨g1, hp, g2, g3, g4⟩
  | none =>
    refine ⟨by simp [upd], by simp [upd], g2, ?_, ?_⟩
    · rw [← g3]
      simp only
      apply abs_congr _ _ (by rfl)
      intro b
      by_cases hb : b = p.bundle
      · subst hb; simp only [upd_same, g1]; exact absClient_addEmpty c _ _ hp
      · simp [upd, hb]
    · intro hi
      have h1 := g4 hi
      have := inv_setClient s1 p.bundle c { c with players := upd c.players p.player (some ⟨s1.next, .empty⟩) }
        h1 g1 rfl (clientOk_addPlayer c _ _ hp (h1.2 _ _ g1))
      obtain ⟨a1, a2⟩ := this
      exact ⟨a1, a2⟩

/-- the pattern of six handlers: fetch (creating) the client, mutate it, store it. -/
theorem abs_mod (s1 : Mgr) (st : SState) (b : Nat) (n : Option Nat) (c c' : Client)
    (f : SClient → SClient)
    (g3 : abs s1 = st.modClient b (·.touch n)) (g1 : s1.clients b = some c)
    (hf : absClient (some c') = f (absClient (some c))) :
    abs (s1.setClient b c') = st.modClient b (fun x => f (x.touch n)) := by
  have hb : (st.client b).touch n = absClient (some c) := by
    have := congrArg (fun z => z.client b) g3
    simp only [abs, SState.modClient, upd_same, g1] at this
    exact this.symm
  rw [abs_setClient, g3]
  simp only [SState.modClient, upd_upd, hf, hb]

theorem absClient_modPlayer (c : Client) (i : Nat) (pl : Player) (f : PlayerInfo → PlayerInfo)
    (hp : c.players i = some pl) :
    absClient (some { c with players := upd c.players i (some { pl with info := f pl.info }) })
      = (absClient (some c)).modInfo i f := by
  simp only [absClient, SClient.modInfo]
  congr 1
  funext x
  by_cases hx : x = i
  · subst hx; simp [upd, hp]
  · simp [upd, hx]

theorem clientOk_modPlayer (c : Client) (i : Nat) (pl pl' : Player) (hp : c.players i = some pl)
    (hh : pl'.h = pl.h) (hok : ClientOk c) :
    ClientOk { c with players := upd c.players i (some pl') } := by
  intro j h hj
  obtain ⟨q, hq, hqh⟩ := hok j h hj
  by_cases e : j = i
  · subst e; rw [hp] at hq; cases hq
    exact ⟨pl', by simp [upd], by omega⟩
  · exact ⟨q, by simp [upd, e, hq], hqh⟩

/-- spec-side effect of "remove player" on one client -/
def specRemove (i : Nat) (x : SClient) : SClient :=
  { x with info := upd x.info i .empty
           activePlayer := if x.activePlayer = some i then none else x.activePlayer }

theorem activeIdent_true (cc c : Client) (i : Nat) (hcc : cc.active = c.active)
    (h : (cc.activeIdent == i) = true) : c.active.map (·.1) = some i ∨ c.active = none := by
  cases hca : c.active with
  | none => right; rfl
  | some ih =>
    left
    obtain ⟨j, hh⟩ := ih
    simp only [Client.activeIdent, hcc, hca, beq_iff_eq] at h
    simp [h]

theorem activeIdent_false (cc c : Client) (i : Nat) (hcc : cc.active = c.active)
    (h : ¬ (cc.activeIdent == i) = true) : c.active.map (·.1) ≠ some i := by
  cases hca : c.active with
  | none => simp
  | some ih =>
    obtain ⟨j, hh⟩ := ih
    simp only [Client.activeIdent, hcc, hca, beq_iff_eq] at h
    simpa using h

theorem rp_true (s s1 : Mgr) (b i : Nat) (n : Option Nat) (c : Client) (hi : Inv s1)
    (g4 : abs s1 = (abs s).modClient b (·.touch n)) (g1 : s1.clients b = some c)
    (hcase : c.active.map (·.1) = some i ∨ c.active = none) :
    abs (s1.setClient b { c with players := upd c.players i none, active := none })
      = (abs s).modClient b (fun x => specRemove i (x.touch n)) ∧
    Inv (s1.setClient b { c with players := upd c.players i none, active := none }) := by
  refine ⟨abs_mod s1 (abs s) _ _ c _ (specRemove i) g4 g1 ?_, inv_setClient s1 _ c _ hi g1 rfl ?_⟩
  · have : (if Option.map (fun x => x.fst) c.active = some i then none
        else Option.map (fun x => x.fst) c.active) = none := by
      rcases hcase with h | h <;> simp [h]
    apply SClient.ext
    · rfl
    · rfl
    · rfl
    · simp only [absClient, specRemove, Option.map_none]; exact this.symm
    · simp only [absClient, specRemove]
      funext x
      by_cases hx : x = i
      · subst hx; simp [upd]
      · simp [upd, hx]
  · intro j h hj; simp at hj

theorem rp_false (s s1 : Mgr) (b i : Nat) (n : Option Nat) (c : Client) (hi : Inv s1)
    (g4 : abs s1 = (abs s).modClient b (·.touch n)) (g1 : s1.clients b = some c)
    (hcase : c.active.map (·.1) ≠ some i) :
    abs (s1.setClient b { c with players := upd c.players i none })
      = (abs s).modClient b (fun x => specRemove i (x.touch n)) ∧
    Inv (s1.setClient b { c with players := upd c.players i none }) := by
  refine ⟨abs_mod s1 (abs s) _ _ c _ (specRemove i) g4 g1 ?_, inv_setClient s1 _ c _ hi g1 rfl ?_⟩
  · apply SClient.ext
    · rfl
    · rfl
    · rfl
    · simp only [absClient, specRemove, hcase, if_false]
    · simp only [absClient, specRemove]
      funext x
      by_cases hx : x = i
      · subst hx; simp [upd]
      · simp [upd, hx]
  · intro j h hj
    simp only at hj
    obtain ⟨q, hq, hqh⟩ := hi.2 _ _ g1 j h hj
    have : j ≠ i := by
      intro e; subst e; apply hcase; simp [hj]
    exact ⟨q, by simp [upd, this, hq], hqh⟩

/-- state part of one step: simulation of the spec, and the invariant is kept.  Holds for
    the pinned and the repaired `_handle_remove_player` alike (they differ in the wake-up
    only). -/
theorem step_sim (fixed : Bool) (s : Mgr) (m : Msg) (hi : Inv s) :
    abs (stepG fixed s m).1 = specStep (abs s) m ∧ Inv (stepG fixed s m).1 := by
  cases m with
  | setState p ps cmds q =>
    obtain ⟨g1, g2, _, g4, g5⟩ := getPlayer_spec s p
    simp only [stepG, specStep]
    generalize getPlayer s p = r at g1 g2 g4 g5
    obtain ⟨s1, c, pl⟩ := r
    simp only at g1 g2 g4 g5 ⊢
    exact ⟨abs_mod s1 (abs s) _ _ c _ (·.modInfo p.player (·.handleSetState ps cmds q)) g4 g1
        (absClient_modPlayer c _ pl (·.handleSetState ps cmds q) g2),
      inv_setClient s1 _ c _ (g5 hi) g1 rfl
        (clientOk_modPlayer c _ pl _ g2 rfl ((g5 hi).2 _ _ g1))⟩
  | contentItemUpdate p us =>
    obtain ⟨g1, g2, _, g4, g5⟩ := getPlayer_spec s p
    simp only [stepG, specStep]
    generalize getPlayer s p = r at g1 g2 g4 g5
    obtain ⟨s1, c, pl⟩ := r
    simp only at g1 g2 g4 g5 ⊢
    exact ⟨abs_mod s1 (abs s) _ _ c _ (·.modInfo p.player (·.handleContentItemUpdate us)) g4 g1
        (absClient_modPlayer c _ pl (·.handleContentItemUpdate us) g2),
      inv_setClient s1 _ c _ (g5 hi) g1 rfl
        (clientOk_modPlayer c _ pl _ g2 rfl ((g5 hi).2 _ _ g1))⟩
  | setNowPlayingClient b n =>
    obtain ⟨g1, g2, g3, g4⟩ := getClient_spec s b n
    simp only [stepG, specStep]
    generalize getClient s b n = r at g1 g2 g3 g4
    obtain ⟨s1, c⟩ := r
    simp only at g1 g2 g3 g4 ⊢
    constructor
    · rw [← g3]; simp [abs]
    · obtain ⟨h1, h2⟩ := g4 hi
      refine ⟨?_, h2⟩
      intro b' h' ha
      simp only [Option.some.injEq, Prod.mk.injEq] at ha
      obtain ⟨rfl, rfl⟩ := ha
      exact ⟨c, g1, rfl⟩
  | setNowPlayingPlayer p =>
    obtain ⟨g1, g2, _, g4, g5⟩ := getPlayer_spec s p
    simp only [stepG, specStep]
    generalize getPlayer s p = r at g1 g2 g4 g5
    obtain ⟨s1, c, pl⟩ := r
    simp only at g1 g2 g4 g5 ⊢
    refine ⟨abs_mod s1 (abs s) _ _ c _ (fun x => { x with activePlayer := some p.player }) g4 g1
        (by simp [absClient]), inv_setClient s1 _ c _ (g5 hi) g1 rfl ?_⟩
    intro j h hj
    simp only [Option.some.injEq, Prod.mk.injEq] at hj
    obtain ⟨rfl, rfl⟩ := hj
    exact ⟨pl, g2, rfl⟩
  | updateClient b n =>
    obtain ⟨g1, g2, g3, g4⟩ := getClient_spec s b n
    simp only [stepG, specStep]
    generalize getClient s b n = r at g1 g2 g3 g4
    obtain ⟨s1, c⟩ := r
    simp only at g1 g2 g3 g4 ⊢
    refine ⟨abs_mod s1 (abs s) _ _ c { c with name := pyOr n c.name }
        (fun x => { x with name := pyOr n x.name }) g3 g1
        (by simp [absClient]), inv_setClient s1 _ c _ (g4 hi) g1 rfl ?_⟩
    exact fun j h hj => (g4 hi).2 _ _ g1 j h hj
  | removeClient b n =>
    obtain ⟨h1, h2⟩ := hi
    simp only [stepG, specStep]
    cases hc : s.clients b with
    | none =>
      simp only
      refine ⟨?_, h1, h2⟩
      have hne : (abs s).activeClient ≠ some b := by
        intro e
        simp only [abs, Option.map_eq_some_iff] at e
        obtain ⟨⟨b', h'⟩, ha, rfl⟩ := e
        obtain ⟨c0, hc0, _⟩ := h1 _ _ ha
        rw [hc] at hc0; cases hc0
      apply SState.ext
      · show (abs s).activeClient = if (abs s).activeClient = some b then none else (abs s).activeClient
        simp only [hne, if_false]
      · show (abs s).client = upd (abs s).client b .unknown
        funext x
        by_cases hx : x = b
        · subst hx; simp [upd, abs, hc, absClient]
        · simp [upd, hx]
    | some c =>
      simp only
      by_cases ha : s.active = some (b, c.h)
      · simp only [ha, beq_self_eq_true, if_true]
        constructor
        · apply SState.ext
          · simp [abs, ha]
          · funext x
            by_cases hx : x = b
            · subst hx; simp [upd, abs, absClient]
            · simp [upd, abs, hx]
        · constructor
          · intro b' h' hh; simp at hh
          · intro b' c0 hc0
            simp only [upd] at hc0
            split at hc0
            · cases hc0
            · exact h2 _ _ hc0
      · have hbeq : (s.active == some (b, c.h)) = false := by simpa using ha
        simp only [hbeq, Bool.false_eq_true, if_false]
        have hne : ∀ h', s.active ≠ some (b, h') := by
          intro h' e
          obtain ⟨c0, hc0, hh0⟩ := h1 _ _ e
          rw [hc] at hc0; cases hc0
          exact ha (by rw [e, hh0])
        constructor
        · apply SState.ext
          · have : (abs s).activeClient ≠ some b := by
              intro e
              simp only [abs, Option.map_eq_some_iff] at e
              obtain ⟨⟨b', h'⟩, ha', rfl⟩ := e
              exact hne h' ha'
            show (abs s).activeClient = if (abs s).activeClient = some b then none else (abs s).activeClient
            simp only [this, if_false]
          · show _ = upd (abs s).client b .unknown
            funext x
            by_cases hx : x = b
            · subst hx; simp [upd, abs, absClient]
            · simp [upd, abs, hx]
        · constructor
          · intro b' h' hh
            obtain ⟨c0, hc0, hh0⟩ := h1 _ _ hh
            have : b' ≠ b := by intro e; subst e; exact hne h' hh
            exact ⟨c0, by simp [upd, this, hc0], hh0⟩
          · intro b' c0 hc0
            by_cases hb : b' = b
            · simp [upd, hb] at hc0
            · simp only [if_false, upd, hb] at hc0
              exact h2 _ _ hc0
  | removePlayer p =>
    obtain ⟨g1, g2, _, g4, g5⟩ := getPlayer_spec s p
    simp only [stepG, specStep, removePlayer]
    generalize getPlayer s p = r at g1 g2 g4 g5
    obtain ⟨s1, c, pl⟩ := r
    simp only at g1 g2 g4 g5 ⊢
    have hok := (g5 hi).2 _ _ g1
    by_cases h0 : p.player = 0
    · simp only [h0, ne_eq, not_true_eq_false, if_false, if_true]
      refine ⟨?_, g5 hi⟩
      rw [g4]
    · simp only [h0, ne_eq, not_false_eq_true, if_true, if_false]
      have hspec : (fun x : SClient => specRemove p.player (x.touch p.cname)) =
          (fun c : SClient =>
            { c.touch p.cname with
              info := upd (c.touch p.cname).info p.player .empty
              activePlayer := if (c.touch p.cname).activePlayer = some p.player then none
                else (c.touch p.cname).activePlayer }) := rfl
      rw [← hspec]
      cases fixed
      · simp only [Bool.false_eq_true, if_false]
        by_cases hw : (({ c with players := upd c.players p.player none } : Client).activeIdent
            == p.player) = true
        · simp only [hw, if_true]
          exact rp_true s s1 _ _ _ c (g5 hi) g4 g1
            (activeIdent_true { c with players := upd c.players p.player none } c _ rfl hw)
        · simp only [hw]
          exact rp_false s s1 _ _ _ c (g5 hi) g4 g1
            (activeIdent_false { c with players := upd c.players p.player none } c _ rfl hw)
      · simp only [if_true]
        by_cases hw : (c.activeIdent == p.player) = true
        · simp only [hw, if_true]
          exact rp_true s s1 _ _ _ c (g5 hi) g4 g1 (activeIdent_true _ c _ rfl hw)
        · simp only [hw]
          exact rp_false s s1 _ _ _ c (g5 hi) g4 g1 (activeIdent_false _ c _ rfl hw)
  | setDefaultSupportedCommands p cmds =>
    obtain ⟨g1, g2, g3, g4⟩ := getClient_spec s p.bundle p.cname
    simp only [stepG, specStep]
    generalize getClient s p.bundle p.cname = r at g1 g2 g3 g4
    obtain ⟨s1, c⟩ := r
    simp only at g1 g2 g3 g4 ⊢
    refine ⟨abs_mod s1 (abs s) _ _ c { c with cmds := cmds } (fun x => { x with cmds := cmds }) g3 g1
        (by simp [absClient]), inv_setClient s1 _ c _ (g4 hi) g1 rfl ?_⟩
    exact fun j h hj => (g4 hi).2 _ _ g1 j h hj

theorem buildPlaying_ident (now : Int) (i j : Nat) (info : PlayerInfo) (cmds : List Cmd)
    (app : Option (Option Nat × Nat)) :
    buildPlaying now ⟨i, info, cmds⟩ app = buildPlaying now ⟨j, info, cmds⟩ app := rfl

/-- on a state whose pointers are live, the report is the spec's report of the abstraction -/
theorem report_abs (now : Int) (s : Mgr) (hi : Inv s) :
    report now s = some (specReport now (abs s)) := by
  obtain ⟨h1, h2⟩ := hi
  unfold report Mgr.playing Mgr.activeClient specReport serving
  cases ha : s.active with
  | none => simp [abs, ha, idleReport]
  | some bh =>
    obtain ⟨b, h⟩ := bh
    obtain ⟨c, hc, hh⟩ := h1 b h ha
    have hok := h2 b c hc
    simp only [hc, hh, if_true, abs, ha, Option.map_some, absClient]
    unfold Client.activePlayer
    cases hca : c.active with
    | none =>
      simp only [Option.map_none, Option.getD_none]
      cases hd : c.players defaultPlayer with
      | none => simp only [Option.map_some]; rw [buildPlaying_ident now 0 defaultPlayer]
      | some pl => simp
    | some ih =>
      obtain ⟨i, h'⟩ := ih
      obtain ⟨pl, hp, hph⟩ := hok i h' hca
      simp [hp, hph]

theorem reachG_sim (fixed : Bool) (msgs : List Msg) :
    abs (msgs.foldl (fun s m => (stepG fixed s m).1) Mgr.init) = specReach msgs ∧
    Inv (msgs.foldl (fun s m => (stepG fixed s m).1) Mgr.init) := by
  unfold specReach
  suffices h : ∀ (s : Mgr) (st : SState), abs s = st → Inv s →
      abs (msgs.foldl (fun s m => (stepG fixed s m).1) s) = msgs.foldl specStep st ∧
      Inv (msgs.foldl (fun s m => (stepG fixed s m).1) s) from h _ _ abs_init inv_init
  induction msgs with
  | nil => intro s st h hi; exact ⟨h, hi⟩
  | cons m ms ih =>
    intro s st h hi
    obtain ⟨a, b⟩ := step_sim fixed s m hi
    simp only [List.foldl_cons]
    exact ih _ _ (by rw [← h]; exact a) b

theorem reach_sim (msgs : List Msg) :
    abs (reach msgs) = specReach msgs ∧ Inv (reach msgs) := reachG_sim true msgs

theorem reachPinned_sim (msgs : List Msg) :
    abs (reachPinned msgs) = specReach msgs ∧ Inv (reachPinned msgs) := reachG_sim false msgs

/-! ## spec-level facts: which messages cannot change the report -/

/-- the active client is a known client -/
def SInv (st : SState) : Prop := ∀ a, st.activeClient = some a → (st.client a).known = true

theorem sinv_abs (s : Mgr) (hi : Inv s) : SInv (abs s) := by
  intro a ha
  simp only [abs, Option.map_eq_some_iff] at ha
  obtain ⟨⟨b, h⟩, hb, rfl⟩ := ha
  obtain ⟨c, hc, _⟩ := hi.1 b h hb
  simp [abs, hc, absClient]

theorem touch_known (c : SClient) (n : Option Nat) (h : c.known = true) : c.touch n = c := by
  simp [SClient.touch, h]

/-- a message addressed to a client that is not the active one does not change the report -/
theorem spec_other_client (now : Int) (st : SState) (m : Msg) (b : Nat)
    (hm : m.client = some b) (hne : st.activeClient ≠ some b) :
    specReport now (specStep st m) = specReport now st := by
  have key : ∀ f : SClient → SClient,
      specReport now (st.modClient b f) = specReport now st := by
    intro f
    unfold specReport serving SState.modClient
    cases ha : st.activeClient with
    | none => rfl
    | some a =>
      have : a ≠ b := by intro e; subst e; exact hne ha
      simp [upd, this]
  cases m with
  | setNowPlayingClient b' n => simp [Msg.client] at hm
  | removeClient b' n =>
    simp only [Msg.client, Option.some.injEq] at hm
    subst hm
    unfold specStep specReport serving
    simp only [hne, if_false]
    cases ha : st.activeClient with
    | none => rfl
    | some a =>
      have : a ≠ b' := by intro e; subst e; exact hne ha
      simp [upd, this]
  | setState p ps cmds q =>
    simp only [Msg.client, Option.some.injEq] at hm; subst hm; exact key _
  | contentItemUpdate p us =>
    simp only [Msg.client, Option.some.injEq] at hm; subst hm; exact key _
  | setNowPlayingPlayer p =>
    simp only [Msg.client, Option.some.injEq] at hm; subst hm; exact key _
  | updateClient b' n =>
    simp only [Msg.client, Option.some.injEq] at hm; subst hm; exact key _
  | removePlayer p =>
    simp only [Msg.client, Option.some.injEq] at hm; subst hm; exact key _
  | setDefaultSupportedCommands p cmds =>
    simp only [Msg.client, Option.some.injEq] at hm; subst hm; exact key _

/-- changing the active client in a way that keeps its chosen player, name, default commands
    and the state of the player being reported does not change the report -/
theorem spec_mod_active (now : Int) (st : SState) (b : Nat) (g : SClient → SClient)
    (hact : st.activeClient = some b)
    (h1 : (g (st.client b)).activePlayer = (st.client b).activePlayer)
    (h2 : (g (st.client b)).name = (st.client b).name)
    (h3 : (g (st.client b)).cmds = (st.client b).cmds)
    (h4 : (g (st.client b)).info (((st.client b).activePlayer).getD defaultPlayer)
        = (st.client b).info (((st.client b).activePlayer).getD defaultPlayer)) :
    specReport now (st.modClient b g) = specReport now st := by
  unfold specReport serving SState.modClient
  simp only [hact, Option.map_some, upd_same, h1, h2, h3, h4]

/-- a message about the state of a player that is not the one being reported does not
    change the report -/
theorem spec_other_player (now : Int) (st : SState) (m : Msg) (b p : Nat) (hs : SInv st)
    (hm : m.about = some (b, p)) (hne : serving st ≠ some (b, p)) :
    specReport now (specStep st m) = specReport now st := by
  by_cases hact : st.activeClient = some b
  · have hk := hs b hact
    have hq : ((st.client b).activePlayer).getD defaultPlayer ≠ p := by
      intro e; apply hne; simp [serving, hact, e]
    have hch : (st.client b).activePlayer ≠ some p := by
      intro e; apply hq; simp [e]
    cases m with
    | setState p' ps cmds q =>
      simp only [Msg.about, Option.some.injEq, Prod.mk.injEq] at hm
      obtain ⟨rfl, rfl⟩ := hm
      exact spec_mod_active now st _ _ hact (by simp [touch_known _ _ hk, SClient.modInfo])
        (by simp [touch_known _ _ hk, SClient.modInfo]) (by simp [touch_known _ _ hk, SClient.modInfo])
        (by simp [touch_known _ _ hk, SClient.modInfo, upd, hq])
    | contentItemUpdate p' us =>
      simp only [Msg.about, Option.some.injEq, Prod.mk.injEq] at hm
      obtain ⟨rfl, rfl⟩ := hm
      exact spec_mod_active now st _ _ hact (by simp [touch_known _ _ hk, SClient.modInfo])
        (by simp [touch_known _ _ hk, SClient.modInfo]) (by simp [touch_known _ _ hk, SClient.modInfo])
        (by simp [touch_known _ _ hk, SClient.modInfo, upd, hq])
    | removePlayer p' =>
      simp only [Msg.about, Option.some.injEq, Prod.mk.injEq] at hm
      obtain ⟨rfl, rfl⟩ := hm
      refine spec_mod_active now st _ _ hact ?_ ?_ ?_ ?_ <;>
        (simp only [touch_known _ _ hk]; split <;> simp [upd, hq, hch])
    | setNowPlayingClient _ _ => simp [Msg.about] at hm
    | setNowPlayingPlayer _ => simp [Msg.about] at hm
    | updateClient _ _ => simp [Msg.about] at hm
    | removeClient _ _ => simp [Msg.about] at hm
    | setDefaultSupportedCommands _ _ => simp [Msg.about] at hm
  · have hc : m.client = some b := by
      cases m <;> simp_all [Msg.about, Msg.client]
    exact spec_other_client now st m b hc hact

/-- a remove-player message that names no player does not change the report -/
theorem spec_remove_unnamed (now : Int) (st : SState) (p : Path) (hs : SInv st) (h0 : p.player = 0) :
    specReport now (specStep st (.removePlayer p)) = specReport now st := by
  by_cases hact : st.activeClient = some p.bundle
  · have hk := hs _ hact
    refine spec_mod_active now st _ _ hact ?_ ?_ ?_ ?_ <;> simp [touch_known _ _ hk, h0]
  · exact spec_other_client now st _ p.bundle rfl hact

/-! ## the wake-up test, read on live states -/

theorem playing_ident (s : Mgr) (hi : Inv s) (b h : Nat) (c : Client)
    (ha : s.active = some (b, h)) (hc : s.clients b = some c) :
    s.playing.map (·.ident) = some c.activeIdent := by
  obtain ⟨c0, hc0, hh0⟩ := hi.1 b h ha
  rw [hc] at hc0; cases hc0
  have hok := hi.2 b c hc
  unfold Mgr.playing Mgr.activeClient Client.activePlayer Client.activeIdent
  simp only [ha, hc, hh0, if_true]
  cases hca : c.active with
  | none =>
    cases hd : c.players defaultPlayer <;> simp
  | some ih =>
    obtain ⟨i, h'⟩ := ih
    obtain ⟨pl, hp, hph⟩ := hok i h' hca
    simp [hp, hph]

/-- if (b, i) is the player being reported and player i exists, a message about (b, i)
    passes `_state_updated`'s `player == self.playing` test -/
theorem notified_of_serving (s : Mgr) (hi : Inv s) (b i : Nat) (c : Client) (cl : Option (Nat × Nat))
    (hs : serving (abs s) = some (b, i)) (hc : s.clients b = some c)
    (hp : (c.players i).isSome = true) : stateUpdated s cl (some i) = true := by
  simp only [serving, abs, Option.map_eq_some_iff] at hs
  obtain ⟨b', ⟨⟨b'', h⟩, ha, rfl⟩, hb⟩ := hs
  simp only [Prod.mk.injEq] at hb
  obtain ⟨rfl, hq⟩ := hb
  simp only [hc, absClient] at hq
  have := playing_ident s hi _ h c ha hc
  have hid : c.activeIdent = i := by
    unfold Client.activeIdent
    cases hca : c.active with
    | none =>
      simp only [hca, Option.map_none, Option.getD_none] at hq
      subst hq; simp [hp]
    | some ih =>
      obtain ⟨j, h'⟩ := ih
      simpa [hca] using hq
  simp [stateUpdated, this, hid]

/-- if the `client == self.client` test fails for the live object of client b, then b is
    not the active client -/
theorem not_active_of_test (s : Mgr) (hi : Inv s) (b : Nat) (c : Client)
    (hc : s.clients b = some c) (ht : ¬ s.active = some (b, c.h)) :
    (abs s).activeClient ≠ some b := by
  intro e
  simp only [abs, Option.map_eq_some_iff] at e
  obtain ⟨⟨b', h⟩, ha, rfl⟩ := e
  obtain ⟨c0, hc0, hh0⟩ := hi.1 _ h ha
  rw [hc] at hc0; cases hc0
  exact ht (by rw [ha, hh0])

theorem spec_serving_modInfo (st : SState) (hs : SInv st) (b p : Nat) (n : Option Nat)
    (f : PlayerInfo → PlayerInfo) :
    serving (st.modClient b fun c => (c.touch n).modInfo p f) = serving st := by
  unfold serving SState.modClient
  cases ha : st.activeClient with
  | none => rfl
  | some a =>
    by_cases e : a = b
    · subst e
      simp [upd, touch_known _ _ (hs a ha), SClient.modInfo]
    · simp [upd, e]

/-- **no wake-up ⇒ no change**: when `_state_updated`'s test fails for a message, the spec's
    report is unchanged by it.  For the repaired tree without exception; for the pinned tree
    with the one exception that is defect D8 (a remove-player message naming the default
    player). -/
theorem quiet_inert_G (fixed : Bool) (now : Int) (s : Mgr) (m : Msg) (hi : Inv s)
    (hn : (stepG fixed s m).2 = false)
    (hex : fixed = false → ∀ p, m = .removePlayer p → p.player ≠ defaultPlayer) :
    specReport now (specStep (abs s) m) = specReport now (abs s) := by
  have hs := sinv_abs s hi
  obtain ⟨hsim, hinv⟩ := step_sim fixed s m hi
  cases m with
  | setState p ps cmds q =>
    apply spec_other_player now (abs s) _ p.bundle p.player hs rfl
    intro hserv
    have hserv2 : serving (abs (stepG fixed s (.setState p ps cmds q)).1) = some (p.bundle, p.player) := by
      rw [hsim]; simp only [specStep]; rw [spec_serving_modInfo _ hs]; exact hserv
    obtain ⟨g1, g2, _, _, _⟩ := getPlayer_spec s p
    simp only [stepG] at hn hserv2 hinv
    generalize getPlayer s p = r at g1 g2 hn hserv2 hinv
    obtain ⟨s1, c, pl⟩ := r
    simp only at g1 g2 hn hserv2 hinv
    have := notified_of_serving _ hinv _ _ _ none hserv2 (by simp [Mgr.setClient, upd]; rfl) (by simp [upd])
    rw [this] at hn; cases hn
  | contentItemUpdate p us =>
    apply spec_other_player now (abs s) _ p.bundle p.player hs rfl
    intro hserv
    have hserv2 : serving (abs (stepG fixed s (.contentItemUpdate p us)).1) = some (p.bundle, p.player) := by
      rw [hsim]; simp only [specStep]; rw [spec_serving_modInfo _ hs]; exact hserv
    obtain ⟨g1, g2, _, _, _⟩ := getPlayer_spec s p
    simp only [stepG] at hn hserv2 hinv
    generalize getPlayer s p = r at g1 g2 hn hserv2 hinv
    obtain ⟨s1, c, pl⟩ := r
    simp only at g1 g2 hn hserv2 hinv
    have := notified_of_serving _ hinv _ _ _ none hserv2 (by simp [Mgr.setClient, upd]; rfl) (by simp [upd])
    rw [this] at hn; cases hn
  | setNowPlayingClient b n =>
    simp [stepG, stateUpdated] at hn
  | setDefaultSupportedCommands p cmds =>
    simp [stepG, stateUpdated] at hn
  | setNowPlayingPlayer p =>
    obtain ⟨g1, g2, g3, _, _⟩ := getPlayer_spec s p
    simp only [stepG] at hn hinv
    generalize getPlayer s p = r at g1 g2 g3 hn hinv
    obtain ⟨s1, c, pl⟩ := r
    simp only at g1 g2 g3 hn hinv
    have ht : ¬ s1.active = some (p.bundle, c.h) := by
      intro e; simp [stateUpdated, Mgr.setClient, e] at hn
    have := not_active_of_test _ hinv p.bundle { c with active := some (p.player, pl.h) }
      (by simp [Mgr.setClient, upd]) (by simpa [Mgr.setClient] using ht)
    apply spec_other_client now (abs s) _ p.bundle rfl
    simpa [abs, Mgr.setClient, g3] using this
  | updateClient b n =>
    obtain ⟨g1, g2, _, _⟩ := getClient_spec s b n
    simp only [stepG] at hn hinv
    generalize getClient s b n = r at g1 g2 hn hinv
    obtain ⟨s1, c⟩ := r
    simp only at g1 g2 hn hinv
    have ht : ¬ s1.active = some (b, c.h) := by
      intro e; simp [stateUpdated, Mgr.setClient, e] at hn
    have := not_active_of_test _ hinv b { c with name := pyOr n c.name }
      (by simp [Mgr.setClient, upd]) (by simpa [Mgr.setClient] using ht)
    apply spec_other_client now (abs s) _ b rfl
    simpa [abs, Mgr.setClient, g2] using this
  | removeClient b n =>
    apply spec_other_client now (abs s) _ b rfl
    simp only [stepG] at hn
    cases hc : s.clients b with
    | none =>
      intro e
      have := hs b e
      simp [abs, hc, absClient, SClient.unknown] at this
    | some c =>
      simp only [hc] at hn
      by_cases ha : s.active = some (b, c.h)
      · simp [ha, stateUpdated] at hn
      · exact not_active_of_test s hi b c hc ha
  | removePlayer p =>
    by_cases h0 : p.player = 0
    · exact spec_remove_unnamed now (abs s) p hs h0
    · obtain ⟨g1, g2, g3, g4, _⟩ := getPlayer_spec s p
      simp only [stepG, removePlayer] at hn hinv
      generalize getPlayer s p = r at g1 g2 g3 g4 hn hinv
      obtain ⟨s1, c, pl⟩ := r
      simp only [h0, ne_eq, not_false_eq_true, if_true] at g1 g2 g3 g4 hn hinv
      -- facts about the client object after get_player, used when the test says "not active"
      have hchosen : serving (abs s) = some (p.bundle, p.player) →
          (c.active.map (·.1)).getD defaultPlayer = p.player := by
        intro hserv
        have hact : (abs s).activeClient = some p.bundle := by
          simp only [serving, Option.map_eq_some_iff] at hserv
          obtain ⟨a, ha, hb⟩ := hserv
          simp only [Prod.mk.injEq] at hb
          rw [ha, hb.1]
        have hcl : absClient (some c) = (abs s).client p.bundle := by
          have := congrArg (fun z => z.client p.bundle) g4
          simp only [abs, SState.modClient, upd_same, g1] at this
          rw [this]
          exact touch_known _ _ (hs _ hact)
        simp only [serving, hact, Option.map_some, Option.some.injEq, Prod.mk.injEq, true_and] at hserv
        rw [← hcl] at hserv
        simpa [absClient] using hserv
      have quiet_when_inactive : ∀ c2 : Client, c2.h = c.h →
          stateUpdated (s1.setClient p.bundle c2) (some (p.bundle, c.h)) none = false →
          Inv (s1.setClient p.bundle c2) →
          specReport now (specStep (abs s) (.removePlayer p)) = specReport now (abs s) := by
        intro c2 hh hn' hinv'
        have ht : ¬ s1.active = some (p.bundle, c.h) := by
          intro e; simp [stateUpdated, Mgr.setClient, e] at hn'
        have := not_active_of_test _ hinv' p.bundle c2
          (by simp [Mgr.setClient, upd]) (by rw [hh]; simpa [Mgr.setClient] using ht)
        apply spec_other_client now (abs s) _ p.bundle rfl
        simpa [abs, Mgr.setClient, g3] using this
      cases fixed
      · -- pinned: the test is evaluated after the deletion
        simp only [Bool.false_eq_true, if_false] at hn hinv
        by_cases hw : (({ c with players := upd c.players p.player none } : Client).activeIdent
            == p.player) = true
        · simp only [hw, if_true] at hn hinv
          exact quiet_when_inactive
            { c with players := upd c.players p.player none, active := none } rfl hn hinv
        · apply spec_other_player now (abs s) _ p.bundle p.player hs rfl
          intro hserv
          apply hw
          have hq := hchosen hserv
          unfold Client.activeIdent
          cases hca : c.active with
          | none =>
            simp only [hca, Option.map_none, Option.getD_none] at hq
            exact absurd hq.symm (hex rfl p rfl)
          | some ih =>
            obtain ⟨j, h'⟩ := ih
            simpa [hca] using hq
      · simp only [if_true] at hn hinv
        by_cases hw : (c.activeIdent == p.player) = true
        · simp only [hw, if_true] at hn hinv
          exact quiet_when_inactive
            { c with players := upd c.players p.player none, active := none } rfl hn hinv
        · apply spec_other_player now (abs s) _ p.bundle p.player hs rfl
          intro hserv
          apply hw
          have hq := hchosen hserv
          unfold Client.activeIdent
          cases hca : c.active with
          | none =>
            simp only [hca, Option.map_none, Option.getD_none] at hq
            rw [← hq] at g2
            simp [g2, ← hq]
          | some ih =>
            obtain ⟨j, h'⟩ := ih
            simpa [hca] using hq

/-- repaired tree: no exception -/
theorem quiet_inert (now : Int) (s : Mgr) (m : Msg) (hi : Inv s) (hn : (step s m).2 = false) :
    specReport now (specStep (abs s) m) = specReport now (abs s) :=
  quiet_inert_G true now s m hi hn (by intro h; cases h)

/-- the handlers with the observation point (`stepW`, what the driver runs and the harness
    compares with the real listener) project to `stepG`: the listener is woken iff the test
    passes, and what it sees when woken is the state after the message. -/
theorem stepW_eq (fixed : Bool) (s : Mgr) (m : Msg) :
    stepW fixed s m =
      ((stepG fixed s m).1, if (stepG fixed s m).2 then some (stepG fixed s m).1 else none) := by
  cases m with
  | removeClient b n =>
    simp only [stepW, stepG, wakeAt]
    cases s.clients b with
    | none => simp
    | some c => simp only []; split <;> simp
  | removePlayer p =>
    simp only [stepW, stepG, removePlayerW, removePlayer, wakeAt]
    split
    · split
      · split <;> rfl
      · split <;> rfl
    · rfl
  | setState p ps cmds q => simp only [stepW, stepG, wakeAt]; rfl
  | contentItemUpdate p us => simp only [stepW, stepG, wakeAt]; rfl
  | setNowPlayingClient b n => simp only [stepW, stepG, wakeAt]; rfl
  | setNowPlayingPlayer p => simp only [stepW, stepG, wakeAt]; rfl
  | updateClient b n => simp only [stepW, stepG, wakeAt]; rfl
  | setDefaultSupportedCommands p cmds => simp only [stepW, stepG, wakeAt]; rfl

theorem serving_abs (s : Mgr) (hi : Inv s) : serving (abs s) = s.serving := by
  unfold serving Mgr.serving
  cases ha : s.active with
  | none => simp [abs, ha]
  | some bh =>
    obtain ⟨b, h⟩ := bh
    obtain ⟨c, hc, _⟩ := hi.1 b h ha
    simp only [abs, ha, Option.map_some, hc, absClient]
    cases hca : c.active with
    | none => simp
    | some ih => obtain ⟨i, h'⟩ := ih; simp

theorem reach_snoc (msgs : List Msg) (m : Msg) : reach (msgs ++ [m]) = (step (reach msgs) m).1 := by
  simp [reach, List.foldl_append]

/-- the report after one more message, through the spec -/
theorem report_step (now : Int) (s : Mgr) (m : Msg) (hi : Inv s) :
    report now (step s m).1 = some (specReport now (specStep (abs s) m)) := by
  obtain ⟨a, b⟩ := step_sim true s m hi
  unfold step
  rw [report_abs now _ b, a]

end PyatvModel.C11
