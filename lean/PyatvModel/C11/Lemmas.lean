import PyatvModel.C11.Model
import PyatvModel.C11.Spec
/-
C11 — abstraction function from the pointer/handle model to the specification state, the
invariant "every pointer is live", and the simulation lemmas used by Props/C11.lean.
-/
namespace PyatvModel.C11
open Spec

/-- what the spec knows about a client, read off a `Client` object (or its absence) -/
def absClient : Option Client → SClient
  | none => .unknown
  | some c =>
    { known := true, name := c.name, cmds := c.cmds, activePlayer := c.active.map (·.1)
      info := fun i => match c.players i with | some p => p.info | none => .empty }

def abs (s : Mgr) : SState :=
  { activeClient := s.active.map (·.1), client := fun b => absClient (s.clients b) }

/-- `_active_player` is live -/
def ClientOk (c : Client) : Prop :=
  ∀ i h, c.active = some (i, h) → ∃ p, c.players i = some p ∧ p.h = h

/-- every pointer is live -/
def Inv (s : Mgr) : Prop :=
  (∀ b h, s.active = some (b, h) → ∃ c, s.clients b = some c ∧ c.h = h) ∧
  (∀ b c, s.clients b = some c → ClientOk c)

theorem upd_same {α : Type} (f : Nat → α) (k : Nat) (v : α) : upd f k v k = v := by simp [upd]
theorem upd_other {α : Type} (f : Nat → α) (k x : Nat) (v : α) (h : x ≠ k) : upd f k v x = f x := by
  simp [upd, h]
theorem upd_upd {α : Type} (f : Nat → α) (k : Nat) (v w : α) : upd (upd f k v) k w = upd f k w := by
  funext x; simp only [upd]; split <;> rfl

theorem inv_init : Inv Mgr.init := by
  constructor
  · intro b h hh; simp [Mgr.init] at hh
  · intro b c hc; simp [Mgr.init] at hc

theorem abs_init : abs Mgr.init = SState.init := by
  simp [abs, Mgr.init, SState.init, absClient]

theorem abs_setClient (s : Mgr) (b : Nat) (c : Client) :
    abs (s.setClient b c) = { abs s with client := upd (abs s).client b (absClient (some c)) } := by
  simp only [abs, Mgr.setClient]
  congr 1
  funext x
  simp only [upd]; split <;> rfl

theorem inv_setClient (s : Mgr) (b : Nat) (c c' : Client) (hi : Inv s) (hc : s.clients b = some c)
    (hh : c'.h = c.h) (hok : ClientOk c') : Inv (s.setClient b c') := by
  obtain ⟨h1, h2⟩ := hi
  constructor
  · intro b' h' ha
    simp only [Mgr.setClient] at ha ⊢
    obtain ⟨c0, hc0, hh0⟩ := h1 b' h' ha
    by_cases hb : b' = b
    · subst hb; rw [hc] at hc0; cases hc0
      exact ⟨c', by simp [upd], by omega⟩
    · exact ⟨c0, by simp [upd, hb, hc0], hh0⟩
  · intro b' c0 hc0
    simp only [Mgr.setClient, upd] at hc0
    split at hc0
    · cases hc0; exact hok
    · exact h2 b' c0 hc0

/-- `get_client`: afterwards the client exists (and is the returned object), nothing else
    changed, and on the spec side the client has been "touched". -/
theorem getClient_spec (s : Mgr) (b : Nat) (n : Option Nat) :
    (getClient s b n).1.clients b = some (getClient s b n).2 ∧
    (getClient s b n).1.active = s.active ∧
    abs (getClient s b n).1 = (abs s).modClient b (·.touch n) ∧
    (Inv s → Inv (getClient s b n).1) := by
  unfold getClient
  cases hc : s.clients b with
  | some c =>
    refine ⟨by simp [hc], rfl, ?_, fun h => h⟩
    simp only [abs, SState.modClient]
    congr 1
    funext x
    simp only [upd]
    split
    · next hx => subst hx; simp [hc, absClient, SClient.touch]
    · rfl
  | none =>
    refine ⟨by simp [upd], rfl, ?_, ?_⟩
    · simp only [abs, SState.modClient]
      congr 1
      funext x
      simp only [upd]
      split
      · next hx => subst hx; simp [hc, absClient, SClient.touch, SClient.unknown]
      · rfl
    · rintro ⟨h1, h2⟩
      constructor
      · intro b' h' ha
        obtain ⟨c0, hc0, hh0⟩ := h1 b' h' ha
        have hb : b' ≠ b := by intro hb; subst hb; rw [hc] at hc0; cases hc0
        exact ⟨c0, by simp [upd, hb, hc0], hh0⟩
      · intro b' c0 hc0
        simp only [upd] at hc0
        split at hc0
        · cases hc0; intro i h hh; simp at hh
        · exact h2 b' c0 hc0

theorem absClient_addEmpty (c : Client) (i h : Nat) (hp : c.players i = none) :
    absClient (some { c with players := upd c.players i (some ⟨h, .empty⟩) }) = absClient (some c) := by
  simp only [absClient]
  congr 1
  funext x
  by_cases hx : x = i
  · subst hx; simp [upd, hp]
  · simp [upd, hx]

theorem abs_congr (s s' : Mgr) (ha : s'.active = s.active)
    (hc : ∀ b, absClient (s'.clients b) = absClient (s.clients b)) : abs s' = abs s := by
  simp only [abs, ha]
  congr 1
  funext b
  exact hc b

theorem clientOk_addPlayer (c : Client) (i : Nat) (pl : Player) (hp : c.players i = none)
    (hok : ClientOk c) : ClientOk { c with players := upd c.players i (some pl) } := by
  intro j h hj
  obtain ⟨q, hq, hh⟩ := hok j h hj
  have : j ≠ i := by intro e; subst e; rw [hp] at hq; cases hq
  exact ⟨q, by simp [upd, this, hq], hh⟩

/-- `get_player`: client and player exist afterwards; on the spec side only "touched". -/
theorem getPlayer_spec (s : Mgr) (p : Path) :
    (getPlayer s p).1.clients p.bundle = some (getPlayer s p).2.1 ∧
    (getPlayer s p).2.1.players p.player = some (getPlayer s p).2.2 ∧
    (getPlayer s p).1.active = s.active ∧
    abs (getPlayer s p).1 = (abs s).modClient p.bundle (·.touch p.cname) ∧
    (Inv s → Inv (getPlayer s p).1) := by
  obtain ⟨g1, g2, g3, g4⟩ := getClient_spec s p.bundle p.cname
  unfold getPlayer
  generalize getClient s p.bundle p.cname = r0 at g1 g2 g3 g4
  obtain ⟨s1, c⟩ := r0
  simp only at g1 g2 g3 g4 ⊢
  cases hp : c.players p.player with
  | some pl => exact ⟨g1, hp, g2, g3, g4⟩
  | none =>
    refine ⟨by simp [upd], by simp [upd], g2, ?_, ?_⟩
    · rw [← g3]
      simp only
      apply abs_congr _ _ (by rfl)
      intro b
      by_cases hb : b = p.bundle
      · subst hb; simp only [upd_same, g1]; exact absClient_addEmpty c _ _ hp
      · simp [upd, hb]
    · intro hi
      have h1 := g4 hi
      have := inv_setClient s1 p.bundle c { c with players := upd c.players p.player (some ⟨s1.next, .empty⟩) }
        h1 g1 rfl (clientOk_addPlayer c _ _ hp (h1.2 _ _ g1))
      obtain ⟨a1, a2⟩ := this
      exact ⟨a1, a2⟩

/-- the pattern of six handlers: fetch (creating) the client, mutate it, store it. -/
theorem abs_mod (s1 : Mgr) (st : SState) (b : Nat) (n : Option Nat) (c c' : Client)
    (f : SClient → SClient)
    (g3 : abs s1 = st.modClient b (·.touch n)) (g1 : s1.clients b = some c)
    (hf : absClient (some c') = f (absClient (some c))) :
    abs (s1.setClient b c') = st.modClient b (fun x => f (x.touch n)) := by
  have hb : (st.client b).touch n = absClient (some c) := by
    have := congrArg (fun z => z.client b) g3
    simp only [abs, SState.modClient, upd_same, g1] at this
    exact this.symm
  rw [abs_setClient, g3]
  simp only [SState.modClient, upd_upd, upd_same, hf, hb]

theorem absClient_modPlayer (c : Client) (i : Nat) (pl : Player) (f : PlayerInfo → PlayerInfo)
    (hp : c.players i = some pl) :
    absClient (some { c with players := upd c.players i (some { pl with info := f pl.info }) })
      = (absClient (some c)).modInfo i f := by
  simp only [absClient, SClient.modInfo]
  congr 1
  funext x
  by_cases hx : x = i
  · subst hx; simp [upd, hp]
  · simp [upd, hx]

theorem clientOk_modPlayer (c : Client) (i : Nat) (pl pl' : Player) (hp : c.players i = some pl)
    (hh : pl'.h = pl.h) (hok : ClientOk c) :
    ClientOk { c with players := upd c.players i (some pl') } := by
  intro j h hj
  obtain ⟨q, hq, hqh⟩ := hok j h hj
  by_cases e : j = i
  · subst e; rw [hp] at hq; cases hq
    exact ⟨pl', by simp [upd], by omega⟩
  · exact ⟨q, by simp [upd, e, hq], hqh⟩

/-- spec-side effect of "remove player" on one client -/
def specRemove (i : Nat) (x : SClient) : SClient :=
  { x with info := upd x.info i .empty
           activePlayer := if x.activePlayer = some i then none else x.activePlayer }

theorem activeIdent_true (cc c : Client) (i : Nat) (hcc : cc.active = c.active)
    (h : (cc.activeIdent == i) = true) : c.active.map (·.1) = some i ∨ c.active = none := by
  cases hca : c.active with
  | none => right; rfl
  | some ih =>
    left
    obtain ⟨j, hh⟩ := ih
    simp only [Client.activeIdent, hcc, hca, beq_iff_eq] at h
    simp [h]

theorem activeIdent_false (cc c : Client) (i : Nat) (hcc : cc.active = c.active)
    (h : ¬ (cc.activeIdent == i) = true) : c.active.map (·.1) ≠ some i := by
  cases hca : c.active with
  | none => simp
  | some ih =>
    obtain ⟨j, hh⟩ := ih
    simp only [Client.activeIdent, hcc, hca, beq_iff_eq] at h
    simpa using h

theorem rp_true (s s1 : Mgr) (b i : Nat) (n : Option Nat) (c : Client) (hi : Inv s1)
    (g4 : abs s1 = (abs s).modClient b (·.touch n)) (g1 : s1.clients b = some c)
    (hcase : c.active.map (·.1) = some i ∨ c.active = none) :
    abs (s1.setClient b { c with players := upd c.players i none, active := none })
      = (abs s).modClient b (fun x => specRemove i (x.touch n)) ∧
    Inv (s1.setClient b { c with players := upd c.players i none, active := none }) := by
  refine ⟨abs_mod s1 (abs s) _ _ c _ (specRemove i) g4 g1 ?_, inv_setClient s1 _ c _ hi g1 rfl ?_⟩
  · have : (if Option.map (fun x => x.fst) c.active = some i then none
        else Option.map (fun x => x.fst) c.active) = none := by
      rcases hcase with h | h <;> simp [h]
    apply SClient.ext
    · rfl
    · rfl
    · rfl
    · simp only [absClient, specRemove, Option.map_none]; exact this.symm
    · simp only [absClient, specRemove]
      funext x
      by_cases hx : x = i
      · subst hx; simp [upd]
      · simp [upd, hx]
  · intro j h hj; simp at hj

theorem rp_false (s s1 : Mgr) (b i : Nat) (n : Option Nat) (c : Client) (hi : Inv s1)
    (g4 : abs s1 = (abs s).modClient b (·.touch n)) (g1 : s1.clients b = some c)
    (hcase : c.active.map (·.1) ≠ some i) :
    abs (s1.setClient b { c with players := upd c.players i none })
      = (abs s).modClient b (fun x => specRemove i (x.touch n)) ∧
    Inv (s1.setClient b { c with players := upd c.players i none }) := by
  refine ⟨abs_mod s1 (abs s) _ _ c _ (specRemove i) g4 g1 ?_, inv_setClient s1 _ c _ hi g1 rfl ?_⟩
  · apply SClient.ext
    · rfl
    · rfl
    · rfl
    · simp only [absClient, specRemove, hcase, if_false]
    · simp only [absClient, specRemove]
      funext x
      by_cases hx : x = i
      · subst hx; simp [upd]
      · simp [upd, hx]
  · intro j h hj
    simp only at hj
    obtain ⟨q, hq, hqh⟩ := hi.2 _ _ g1 j h hj
    have : j ≠ i := by
      intro e; subst e; apply hcase; simp [hj]
    exact ⟨q, by simp [upd, this, hq], hqh⟩

/-- state part of one step: simulation of the spec, and the invariant is kept.  Holds for
    the pinned and the repaired `_handle_remove_player` alike (they differ in the wake-up
    only). -/
theorem step_sim (fixed : Bool) (s : Mgr) (m : Msg) (hi : Inv s) :
    abs (stepG fixed s m).1 = specStep (abs s) m ∧ Inv (stepG fixed s m).1 := by
  cases m with
  | setState p ps cmds q =>
    obtain ⟨g1, g2, _, g4, g5⟩ := getPlayer_spec s p
    simp only [stepG, specStep]
    generalize getPlayer s p = r at g1 g2 g4 g5
    obtain ⟨s1, c, pl⟩ := r
    simp only at g1 g2 g4 g5 ⊢
    exact ⟨abs_mod s1 (abs s) _ _ c _ (·.modInfo p.player (·.handleSetState ps cmds q)) g4 g1
        (absClient_modPlayer c _ pl (·.handleSetState ps cmds q) g2),
      inv_setClient s1 _ c _ (g5 hi) g1 rfl
        (clientOk_modPlayer c _ pl _ g2 rfl ((g5 hi).2 _ _ g1))⟩
  | contentItemUpdate p us =>
    obtain ⟨g1, g2, _, g4, g5⟩ := getPlayer_spec s p
    simp only [stepG, specStep]
    generalize getPlayer s p = r at g1 g2 g4 g5
    obtain ⟨s1, c, pl⟩ := r
    simp only at g1 g2 g4 g5 ⊢
    exact ⟨abs_mod s1 (abs s) _ _ c _ (·.modInfo p.player (·.handleContentItemUpdate us)) g4 g1
        (absClient_modPlayer c _ pl (·.handleContentItemUpdate us) g2),
      inv_setClient s1 _ c _ (g5 hi) g1 rfl
        (clientOk_modPlayer c _ pl _ g2 rfl ((g5 hi).2 _ _ g1))⟩
  | setNowPlayingClient b n =>
    obtain ⟨g1, g2, g3, g4⟩ := getClient_spec s b n
    simp only [stepG, specStep]
    generalize getClient s b n = r at g1 g2 g3 g4
    obtain ⟨s1, c⟩ := r
    simp only at g1 g2 g3 g4 ⊢
    constructor
    · rw [← g3]; simp [abs]
    · obtain ⟨h1, h2⟩ := g4 hi
      refine ⟨?_, h2⟩
      intro b' h' ha
      simp only [Option.some.injEq, Prod.mk.injEq] at ha
      obtain ⟨rfl, rfl⟩ := ha
      exact ⟨c, g1, rfl⟩
  | setNowPlayingPlayer p =>
    obtain ⟨g1, g2, _, g4, g5⟩ := getPlayer_spec s p
    simp only [stepG, specStep]
    generalize getPlayer s p = r at g1 g2 g4 g5
    obtain ⟨s1, c, pl⟩ := r
    simp only at g1 g2 g4 g5 ⊢
    refine ⟨abs_mod s1 (abs s) _ _ c _ (fun x => { x with activePlayer := some p.player }) g4 g1
        (by simp [absClient]), inv_setClient s1 _ c _ (g5 hi) g1 rfl ?_⟩
    intro j h hj
    simp only [Option.some.injEq, Prod.mk.injEq] at hj
    obtain ⟨rfl, rfl⟩ := hj
    exact ⟨pl, g2, rfl⟩
  | updateClient b n =>
    obtain ⟨g1, g2, g3, g4⟩ := getClient_spec s b n
    simp only [stepG, specStep]
    generalize getClient s b n = r at g1 g2 g3 g4
    obtain ⟨s1, c⟩ := r
    simp only at g1 g2 g3 g4 ⊢
    refine ⟨abs_mod s1 (abs s) _ _ c { c with name := pyOr n c.name }
        (fun x => { x with name := pyOr n x.name }) g3 g1
        (by simp [absClient]), inv_setClient s1 _ c _ (g4 hi) g1 rfl ?_⟩
    exact fun j h hj => (g4 hi).2 _ _ g1 j h hj
  | removeClient b n =>
    obtain ⟨h1, h2⟩ := hi
    simp only [stepG, specStep]
    cases hc : s.clients b with
    | none =>
      simp only
      refine ⟨?_, h1, h2⟩
      have hne : (abs s).activeClient ≠ some b := by
        intro e
        simp only [abs, Option.map_eq_some_iff] at e
        obtain ⟨⟨b', h'⟩, ha, rfl⟩ := e
        obtain ⟨c0, hc0, _⟩ := h1 _ _ ha
        rw [hc] at hc0; cases hc0
      apply SState.ext
      · show (abs s).activeClient = if (abs s).activeClient = some b then none else (abs s).activeClient
        simp only [hne, if_false]
      · show (abs s).client = upd (abs s).client b .unknown
        funext x
        by_cases hx : x = b
        · subst hx; simp [upd, abs, hc, absClient]
        · simp [upd, hx]
    | some c =>
      simp only
      by_cases ha : s.active = some (b, c.h)
      · simp only [ha, beq_self_eq_true, if_true]
        constructor
        · apply SState.ext
          · simp [abs, ha]
          · funext x
            by_cases hx : x = b
            · subst hx; simp [upd, abs, absClient]
            · simp [upd, abs, hx]
        · constructor
          · intro b' h' hh; simp at hh
          · intro b' c0 hc0
            simp only [upd] at hc0
            split at hc0
            · cases hc0
            · exact h2 _ _ hc0
      · have hbeq : (s.active == some (b, c.h)) = false := by simpa using ha
        simp only [hbeq, Bool.false_eq_true, if_false]
        have hne : ∀ h', s.active ≠ some (b, h') := by
          intro h' e
          obtain ⟨c0, hc0, hh0⟩ := h1 _ _ e
          rw [hc] at hc0; cases hc0
          exact ha (by rw [e, hh0])
        constructor
        · apply SState.ext
          · have : (abs s).activeClient ≠ some b := by
              intro e
              simp only [abs, Option.map_eq_some_iff] at e
              obtain ⟨⟨b', h'⟩, ha', rfl⟩ := e
              exact hne h' ha'
            show (abs s).activeClient = if (abs s).activeClient = some b then none else (abs s).activeClient
            simp only [this, if_false]
          · show _ = upd (abs s).client b .unknown
            funext x
            by_cases hx : x = b
            · subst hx; simp [upd, abs, absClient]
            · simp [upd, abs, hx]
        · constructor
          · intro b' h' hh
            obtain ⟨c0, hc0, hh0⟩ := h1 _ _ hh
            have : b' ≠ b := by intro e; subst e; exact hne h' hh
            exact ⟨c0, by simp [upd, this, hc0], hh0⟩
          · intro b' c0 hc0
            by_cases hb : b' = b
            · simp [upd, hb] at hc0
            · simp only [Bool.false_eq_true, if_false, upd, hb] at hc0
              exact h2 _ _ hc0
  | removePlayer p =>
    obtain ⟨g1, g2, _, g4, g5⟩ := getPlayer_spec s p
    simp only [stepG, specStep, removePlayer]
    generalize getPlayer s p = r at g1 g2 g4 g5
    obtain ⟨s1, c, pl⟩ := r
    simp only at g1 g2 g4 g5 ⊢
    have hok := (g5 hi).2 _ _ g1
    by_cases h0 : p.player = 0
    · simp only [h0, ne_eq, not_true_eq_false, if_false, if_true]
      refine ⟨?_, g5 hi⟩
      rw [g4]
    · simp only [h0, ne_eq, not_false_eq_true, if_true, if_false]
      have hspec : (fun x : SClient => specRemove p.player (x.touch p.cname)) =
          (fun c : SClient =>
            { c.touch p.cname with
              info := upd (c.touch p.cname).info p.player .empty
              activePlayer := if (c.touch p.cname).activePlayer = some p.player then none
                else (c.touch p.cname).activePlayer }) := rfl
      rw [← hspec]
      cases fixed
      · simp only [Bool.false_eq_true, if_false]
        by_cases hw : (({ c with players := upd c.players p.player none } : Client).activeIdent
            == p.player) = true
        · simp only [hw, if_true]
          exact rp_true s s1 _ _ _ c (g5 hi) g4 g1
            (activeIdent_true { c with players := upd c.players p.player none } c _ rfl hw)
        · simp only [hw, if_false]
          exact rp_false s s1 _ _ _ c (g5 hi) g4 g1
            (activeIdent_false { c with players := upd c.players p.player none } c _ rfl hw)
      · simp only [if_true]
        by_cases hw : (c.activeIdent == p.player) = true
        · simp only [hw, if_true]
          exact rp_true s s1 _ _ _ c (g5 hi) g4 g1 (activeIdent_true _ c _ rfl hw)
        · simp only [hw, if_false]
          exact rp_false s s1 _ _ _ c (g5 hi) g4 g1 (activeIdent_false _ c _ rfl hw)
  | setDefaultSupportedCommands p cmds =>
    obtain ⟨g1, g2, g3, g4⟩ := getClient_spec s p.bundle p.cname
    simp only [stepG, specStep]
    generalize getClient s p.bundle p.cname = r at g1 g2 g3 g4
    obtain ⟨s1, c⟩ := r
    simp only at g1 g2 g3 g4 ⊢
    refine ⟨abs_mod s1 (abs s) _ _ c { c with cmds := cmds } (fun x => { x with cmds := cmds }) g3 g1
        (by simp [absClient]), inv_setClient s1 _ c _ (g4 hi) g1 rfl ?_⟩
    exact fun j h hj => (g4 hi).2 _ _ g1 j h hj

end PyatvModel.C11
