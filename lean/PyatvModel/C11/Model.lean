import PyatvModel.Gen.C11Consts
/-
C11 — model of the MRP now-playing state manager and of what the metadata interface
reports from it.  Import-free except the generated constants.

Transcribed source (repaired tree, i.e. with the `fix:` commit for D8 applied):

  pyatv/protocols/mrp/player_state.py
    :17  PlayerState            (__init__, is_valid, playback_state :42, metadata :75,
                                 item_identifier :82, metadata_field :89, command_info :96,
                                 handle_set_state :103, handle_content_item_update :116,
                                 __eq__ :130 — identifier only)
    :135 Client                 (__init__, active_player getter/setter :145 with the
                                 default-player fallback, get_player :162,
                                 handle_set_default_supported_commands, handle_set_now_playing_player,
                                 update)
    :190 PlayerStateManager     (get_client :219, get_player :226, client, playing :253,
                                 the eight `_handle_*` coroutines :260-331, `_state_updated` :333)
  pyatv/protocols/mrp/__init__.py
    :157 build_playing_instance (device_state, title, total_time, position :207, shuffle,
                                 repeat, item_hash), :607 MrpMetadata.playing, :611 MrpMetadata.app
  pyatv/interface.py
    :521 Playing._post_process  (position clamping)

Representation choices (each is a faithful re-encoding, not a simplification of behaviour):

* Identifiers (bundle identifiers, player identifiers, item identifiers, titles, display
  names) are compared for equality only, and against two special player identifiers.  They
  are `Nat` codes: `0` = the empty/unset string, `defaultPlayer = 1` =
  `DEFAULT_PLAYER_ID`, anything else an arbitrary distinct name.
* Python object identity is explicit: every `Client` / `PlayerState` object gets a fresh
  handle `h` from `Mgr.next`.  A pointer (`_active_client`, `Client._active_player`) is the
  pair (dictionary key the object was created under, handle).  The key component is the
  object's immutable `bundle_identifier` / `identifier` (set once in `__init__`, equal to the
  key in `get_client` / `get_player`).  A pointer is *live* when the dictionary still maps
  that key to an object with that handle; a pointer to a removed object is representable
  (it is simply not live) and the model then answers `none` ("dangling: the model does not
  say what Python reads from the detached object").  `Props.C11.refinement` shows this
  never happens on any reachable state.
* Dictionaries (`_clients`, `Client.players`) are never iterated by the code, so they are
  finite maps `Nat → Option _` (executable closures).
* Floats: `playbackRate`, `duration`, `elapsedTime`, `elapsedTimeTimestamp` range over
  integer values (`Int`); `math.isclose(x, 0.0)` / `isclose(x, 1.0)` with default tolerances
  are then `x = 0` / `x = 1`, `int(x)` is the identity, `math.isnan` is false.  `now` is the
  frozen wall clock in the same unit as `elapsedTimeTimestamp` (seconds, Cocoa epoch).
  `position()` computes `datetime.now() - _cocoa_to_timestamp(ts)` with two *local, naive*
  datetimes (`fromtimestamp` of the Cocoa instant shifted to the Unix epoch); for a process
  timezone without a DST jump between the two instants that difference is `now - ts`
  whatever the timezone — the model knows no timezone, and the harness runs the position
  cases under several process timezones (TZ + time.tzset()) against this one formula.
* `PlaybackQueue.location` is a natural number (a negative location is outside the domain).
* Not modelled because nothing reported depends on it: `PlayerState.display_name`,
  `PlayerState.parent = None` on removal (only reachable through a dangling pointer),
  artist/album/genre/series… (same path as `title`), media type.
* The listener: `notified` is the truth value of `_state_updated`'s test; the harness always
  installs a listener.  `stepW` is the transcription that keeps the OBSERVATION POINT: a
  listener woken by `await self.listener.state_updated()` runs at that very point of the
  handler and reads the manager as it is *then* (this is what `MrpPushUpdater.state_updated`
  does: it calls `metadata.playing()` and publishes the result).  `stepW` therefore returns
  the final state and the state at the wake-up (if any); `stepG` is its projection to
  (final state, woken?) — `Lemmas.stepW_eq`.
* proto2 presence: the `W…` structures mirror the protobuf messages field by field with
  `Option` = "field set?"; `decode` says what an unset field means *as the code reads it*:
  fields read through `HasField` keep their `Option` (playbackState, supportedCommands,
  playbackQueue, every metadata field), fields read without `HasField` take the proto2
  default (bundleIdentifier, identifier, `PlaybackQueue.location`, `CommandInfo.command /
  shuffleMode / repeatMode` — defaults regenerated from the descriptors in Gen), and
  `displayName` goes through Python's `x or y` (unset and "" alike).
-/
namespace PyatvModel.C11
open PyatvModel.Gen.C11

/-- `DEFAULT_PLAYER_ID` as identifier code. -/
def defaultPlayer : Nat := 1

/-- `pb.PlaybackState.Enum` -/
inductive PS | unknown | playing | paused | stopped | interrupted | seeking
  deriving DecidableEq, Repr

/-- `const.DeviceState` -/
inductive DevState | idle | loading | paused | playing | stopped | seeking
  deriving DecidableEq, Repr

/-- the `ContentItemMetadata` fields the reported state depends on (proto2 optional scalars:
    `none` = `HasField` false). -/
structure Meta where
  title : Option Nat := none
  rate : Option Int := none
  duration : Option Int := none
  elapsed : Option Int := none
  ts : Option Int := none
  deriving DecidableEq, Repr

/-- protobuf `MergeFrom` on these scalar fields: fields set in `u` overwrite. -/
def Meta.merge (e u : Meta) : Meta :=
  { title := match u.title with | some x => some x | none => e.title
    rate := match u.rate with | some x => some x | none => e.rate
    duration := match u.duration with | some x => some x | none => e.duration
    elapsed := match u.elapsed with | some x => some x | none => e.elapsed
    ts := match u.ts with | some x => some x | none => e.ts }

structure Item where
  ident : Nat
  md : Meta
  deriving DecidableEq, Repr

/-- `pb.CommandInfo` (fields read by shuffle()/repeat()). -/
structure Cmd where
  command : Nat
  shuffleMode : Nat
  repeatMode : Nat
  deriving DecidableEq, Repr

/-- the mutable state of one `PlayerState` object -/
structure PlayerInfo where
  pstate : Option PS := none          -- `_playback_state`
  cmds : List Cmd := []               -- `supported_commands`
  items : List Item := []
  location : Nat := 0
  deriving DecidableEq, Repr

/-- a freshly constructed `PlayerState` -/
def PlayerInfo.empty : PlayerInfo := {}

structure Player where
  h : Nat
  info : PlayerInfo

structure Client where
  h : Nat
  name : Option Nat                    -- display_name
  active : Option (Nat × Nat)          -- `_active_player`: (identifier, object handle)
  players : Nat → Option Player
  cmds : List Cmd                      -- default supported commands

structure Mgr where
  next : Nat                           -- handle allocator (object identity)
  active : Option (Nat × Nat)          -- `_active_client`: (bundle identifier, object handle)
  clients : Nat → Option Client

def Mgr.init : Mgr := { next := 0, active := none, clients := fun _ => none }

/-- `pb.PlayerPath` as the handlers read it: client bundle identifier, the client's
    `displayName` (`none` = unset or empty, `x or y` treats both alike), player identifier. -/
structure Path where
  bundle : Nat
  cname : Option Nat
  player : Nat
  deriving DecidableEq, Repr

inductive Msg
  | setState (p : Path) (pstate : Option PS) (cmds : Option (List Cmd)) (queue : Option (Nat × List Item))
  | contentItemUpdate (p : Path) (items : List Item)
  | setNowPlayingClient (bundle : Nat) (cname : Option Nat)
  | setNowPlayingPlayer (p : Path)
  | updateClient (bundle : Nat) (cname : Option Nat)
  | removeClient (bundle : Nat) (cname : Option Nat)
  | removePlayer (p : Path)
  | setDefaultSupportedCommands (p : Path) (cmds : List Cmd)
  deriving DecidableEq, Repr

/-! ## proto2 presence (what the wire carries) and how the handlers read it -/

structure WPath where
  bundle : Option Nat          -- playerPath.client.bundleIdentifier / client.bundleIdentifier
  cname : Option Nat           -- ….displayName   (`some 0` = set to "")
  player : Option Nat          -- playerPath.player.identifier
  deriving DecidableEq, Repr

structure WItem where
  ident : Option Nat           -- ContentItem.identifier
  md : Meta                    -- ContentItem.metadata (an unset sub-message reads as all-unset)
  deriving DecidableEq, Repr

structure WCmd where
  command : Option Nat
  shuffleMode : Option Nat
  repeatMode : Option Nat
  deriving DecidableEq, Repr

inductive WMsg
  | setState (p : WPath) (pstate : Option PS) (cmds : Option (List WCmd))
      (queue : Option (Option Nat × List WItem))
  | contentItemUpdate (p : WPath) (items : List WItem)
  | setNowPlayingClient (bundle : Option Nat) (cname : Option Nat)
  | setNowPlayingPlayer (p : WPath)
  | updateClient (bundle : Option Nat) (cname : Option Nat)
  | removeClient (bundle : Option Nat) (cname : Option Nat)
  | removePlayer (p : WPath)
  | setDefaultSupportedCommands (p : WPath) (cmds : List WCmd)
  deriving DecidableEq, Repr

/-- `client.displayName or self.display_name`: unset and "" are both falsy -/
def decodeName : Option Nat → Option Nat
  | some 0 => none
  | x => x

def WPath.decode (p : WPath) : Path :=
  ⟨p.bundle.getD 0, decodeName p.cname, p.player.getD 0⟩

/-- `item.identifier` is read without `HasField` -/
def WItem.decode (i : WItem) : Item := ⟨i.ident.getD 0, i.md⟩

/-- `cmd.command`, `info.shuffleMode`, `info.repeatMode` are read without `HasField` -/
def WCmd.decode (c : WCmd) : Cmd :=
  ⟨c.command.getD defCommand, c.shuffleMode.getD defShuffleMode, c.repeatMode.getD defRepeatMode⟩

/-- `self.location = queue.location` (no `HasField`): an unset location is the default -/
def decodeQueue (q : Option Nat × List WItem) : Nat × List Item :=
  (q.1.getD defLocation, q.2.map WItem.decode)

def WMsg.decode : WMsg → Msg
  | .setState p ps cmds q =>
    .setState p.decode ps (cmds.map (·.map WCmd.decode)) (q.map decodeQueue)
  | .contentItemUpdate p us => .contentItemUpdate p.decode (us.map WItem.decode)
  | .setNowPlayingClient b n => .setNowPlayingClient (b.getD 0) (decodeName n)
  | .setNowPlayingPlayer p => .setNowPlayingPlayer p.decode
  | .updateClient b n => .updateClient (b.getD 0) (decodeName n)
  | .removeClient b n => .removeClient (b.getD 0) (decodeName n)
  | .removePlayer p => .removePlayer p.decode
  | .setDefaultSupportedCommands p cmds => .setDefaultSupportedCommands p.decode (cmds.map WCmd.decode)

/-- Python `a or b` on optional strings where the empty string is already `none` -/
def pyOr (a b : Option Nat) : Option Nat :=
  match a with | some x => some x | none => b

def upd {α : Type} (f : Nat → α) (k : Nat) (v : α) : Nat → α :=
  fun x => if x = k then v else f x

/-! ## PlayerState -/

/-- `PlayerState.handle_set_state` -/
def PlayerInfo.handleSetState (i : PlayerInfo) (pstate : Option PS) (cmds : Option (List Cmd))
    (queue : Option (Nat × List Item)) : PlayerInfo :=
  let i := match pstate with | some s => { i with pstate := some s } | none => i
  let i := match cmds with | some c => { i with cmds := c } | none => i
  match queue with
  | some (loc, items) => { i with items := items, location := loc }
  | none => i

/-- inner loop of `handle_content_item_update` for one updated item -/
def mergeInto (items : List Item) (u : Item) : List Item :=
  items.map fun e => if u.ident = e.ident then { e with md := e.md.merge u.md } else e

/-- `PlayerState.handle_content_item_update` -/
def PlayerInfo.handleContentItemUpdate (i : PlayerInfo) (us : List Item) : PlayerInfo :=
  { i with items := us.foldl mergeInto i.items }

/-- `PlayerState.metadata`: `items[location].metadata if len(items) >= location + 1`.
    (A protobuf sub-message is always an object and always truthy.) -/
def PlayerInfo.metadata (i : PlayerInfo) : Option Meta :=
  if i.items.length ≥ i.location + 1 then (i.items[i.location]?).map (·.md) else none

/-- `PlayerState.item_identifier` -/
def PlayerInfo.itemIdentifier (i : PlayerInfo) : Option Nat :=
  if i.items.length ≥ i.location + 1 then (i.items[i.location]?).map (·.ident) else none

/-- `PlayerState.playback_state` (player_state.py:42), branch for branch. -/
def PlayerInfo.playbackState (i : PlayerInfo) : Option PS :=
  match i.pstate with
  | none => none
  | some st =>
    if st = .paused then
      (if i.metadata.isSome then some .paused else none)
    else if st ≠ .playing then some st
    else
      match i.metadata.bind (·.rate) with
      | none => some st
      | some rate =>
        if rate = 0 then (if st = .playing then some .playing else some .paused)
        else if rate = 1 then some .playing
        else some .seeking

/-! ## Client / PlayerStateManager -/

/-- identifier of `Client.active_player` (the property with its fallback): the explicit
    pointer's identifier, else the default player if present, else a fresh `PlayerState`
    built from an empty `NowPlayingPlayer` (identifier `""`). -/
def Client.activeIdent (c : Client) : Nat :=
  match c.active with
  | some (i, _) => i
  | none => if (c.players defaultPlayer).isSome then defaultPlayer else 0

/-- `PlayerStateManager.get_client` -/
def getClient (s : Mgr) (b : Nat) (n : Option Nat) : Mgr × Client :=
  match s.clients b with
  | some c => (s, c)
  | none =>
    let c : Client := { h := s.next, name := n, active := none, players := fun _ => none, cmds := [] }
    ({ s with next := s.next + 1, clients := upd s.clients b (some c) }, c)

/-- write a (mutated) client object back under its key -/
def Mgr.setClient (s : Mgr) (b : Nat) (c : Client) : Mgr :=
  { s with clients := upd s.clients b (some c) }

/-- `PlayerStateManager.get_player` = `get_client(path.client).get_player(path.player)` -/
def getPlayer (s : Mgr) (p : Path) : Mgr × Client × Player :=
  let (s1, c) := getClient s p.bundle p.cname
  match c.players p.player with
  | some pl => (s1, c, pl)
  | none =>
    let pl : Player := { h := s1.next, info := .empty }
    let c' := { c with players := upd c.players p.player (some pl) }
    ({ s1 with next := s1.next + 1, clients := upd s1.clients p.bundle (some c') }, c', pl)

/-- what `build_playing_instance` reads from the `PlayerState` it is given: the player's own
    state and its parent's default supported commands. -/
structure PView where
  ident : Nat
  info : PlayerInfo
  parentCmds : List Cmd

/-- `Client.active_player` (getter); `none` = dangling `_active_player`. -/
def Client.activePlayer (c : Client) : Option PView :=
  match c.active with
  | some (i, h) =>
    match c.players i with
    | some pl => if pl.h = h then some ⟨i, pl.info, c.cmds⟩ else none
    | none => none
  | none =>
    match c.players defaultPlayer with
    | some pl => some ⟨defaultPlayer, pl.info, c.cmds⟩
    | none => some ⟨0, .empty, c.cmds⟩

/-- `PlayerStateManager.client` dereferenced; outer `none` = dangling `_active_client`. -/
def Mgr.activeClient (s : Mgr) : Option (Option (Nat × Client)) :=
  match s.active with
  | none => some none
  | some (b, h) =>
    match s.clients b with
    | some c => if c.h = h then some (some (b, c)) else none
    | none => none

/-- `PlayerStateManager.playing`; `none` = a dangling pointer was followed. -/
def Mgr.playing (s : Mgr) : Option PView :=
  match s.activeClient with
  | none => none
  | some none => some ⟨0, .empty, []⟩      -- PlayerState(Client(NowPlayingClient()), NowPlayingPlayer())
  | some (some (_, c)) => c.activePlayer

/-- `_state_updated(client, player)`: `client`/`player` are `None` or the object the handler
    passed.  `client == self.client` is object identity (`None == None` when nothing is
    active); `player == self.playing` is `PlayerState.__eq__`, i.e. identifiers
    (`None == x` falls back to `x.__eq__(None)`, which is falsy). -/
def stateUpdated (s : Mgr) (client : Option (Nat × Nat)) (player : Option Nat) : Bool :=
  let isActiveClient := client == s.active
  let isActivePlayer :=
    match player with
    | none => false
    | some i => (s.playing.map (·.ident)) == some i
  let isAlways := client.isNone && player.isNone
  isActiveClient || isActivePlayer || isAlways

/-- `_handle_remove_player`; `fixed = true` is the repaired tree (the `player ==
    client.active_player` test is evaluated before the player is deleted), `false` the pinned
    one (evaluated after). -/
def removePlayer (fixed : Bool) (s : Mgr) (p : Path) : Mgr × Bool :=
  let (s1, c, _) := getPlayer s p
  if p.player ≠ 0 then                                     -- player.is_valid
    let c1 := { c with players := upd c.players p.player none }
    let wasActive := if fixed then c.activeIdent == p.player else c1.activeIdent == p.player
    if wasActive then
      let s2 := s1.setClient p.bundle { c1 with active := none }
      (s2, stateUpdated s2 (some (p.bundle, c.h)) none)
    else
      (s1.setClient p.bundle c1, false)
  else (s1, false)

/-- one message through its handler; the Boolean is "listener.state_updated() was awaited". -/
def stepG (fixed : Bool) (s : Mgr) : Msg → Mgr × Bool
  | .setState p ps cmds q =>
    let (s1, c, pl) := getPlayer s p
    let pl' := { pl with info := pl.info.handleSetState ps cmds q }
    let s2 := s1.setClient p.bundle { c with players := upd c.players p.player (some pl') }
    (s2, stateUpdated s2 none (some p.player))
  | .contentItemUpdate p us =>
    let (s1, c, pl) := getPlayer s p
    let pl' := { pl with info := pl.info.handleContentItemUpdate us }
    let s2 := s1.setClient p.bundle { c with players := upd c.players p.player (some pl') }
    (s2, stateUpdated s2 none (some p.player))
  | .setNowPlayingClient b n =>
    let (s1, c) := getClient s b n
    let s2 := { s1 with active := some (b, c.h) }
    (s2, stateUpdated s2 none none)
  | .setNowPlayingPlayer p =>
    let (s1, c, pl) := getPlayer s p
    let s2 := s1.setClient p.bundle { c with active := some (p.player, pl.h) }
    (s2, stateUpdated s2 (some (p.bundle, c.h)) none)
  | .updateClient b n =>
    let (s1, c) := getClient s b n
    let s2 := s1.setClient b { c with name := pyOr n c.name }
    (s2, stateUpdated s2 (some (b, c.h)) none)
  | .removeClient b _ =>
    match s.clients b with
    | none => (s, false)
    | some c =>
      let s1 := { s with clients := upd s.clients b none }
      if s.active == some (b, c.h) then
        let s2 := { s1 with active := none }
        (s2, stateUpdated s2 none none)
      else (s1, false)
  | .removePlayer p => removePlayer fixed s p
  | .setDefaultSupportedCommands p cmds =>
    let (s1, c) := getClient s p.bundle p.cname
    let s2 := s1.setClient p.bundle { c with cmds := cmds }
    (s2, stateUpdated s2 none none)

/-- the repaired tree -/
def step (s : Mgr) (m : Msg) : Mgr × Bool := stepG true s m
/-- the pinned tree (before the `fix:` commit) -/
def stepPinned (s : Mgr) (m : Msg) : Mgr × Bool := stepG false s m

/-! ### vocabulary of the property theorems -/

/-- the client a message is addressed to (all kinds but "set now playing client") -/
def Msg.client : Msg → Option Nat
  | .setState p .. | .contentItemUpdate p .. | .setNowPlayingPlayer p | .removePlayer p
  | .setDefaultSupportedCommands p .. => some p.bundle
  | .updateClient b _ | .removeClient b _ => some b
  | .setNowPlayingClient .. => none

/-- the (client, player) whose *state* a message is about: set state, content-item update,
    remove player. -/
def Msg.about : Msg → Option (Nat × Nat)
  | .setState p .. | .contentItemUpdate p .. | .removePlayer p => some (p.bundle, p.player)
  | _ => none

/-- (active client, the player of it whose state is reported): the explicitly chosen active
    player, else the default player. -/
def Mgr.serving (s : Mgr) : Option (Nat × Nat) :=
  match s.active with
  | none => none
  | some (b, _) =>
    match s.clients b with
    | none => none
    | some c => some (b, match c.active with | some (i, _) => i | none => defaultPlayer)

/-! ### the same handlers with the observation point of the wake-up -/

/-- `await self._state_updated(client, player)` at this point of a handler: when the test
    passes the listener runs *now* and sees the manager as it is at this moment. -/
def wakeAt (s : Mgr) (client : Option (Nat × Nat)) (player : Option Nat) : Option Mgr :=
  if stateUpdated s client player then some s else none

def removePlayerW (fixed : Bool) (s : Mgr) (p : Path) : Mgr × Option Mgr :=
  let (s1, c, _) := getPlayer s p
  if p.player ≠ 0 then
    let c1 := { c with players := upd c.players p.player none }
    let wasActive := if fixed then c.activeIdent == p.player else c1.activeIdent == p.player
    if wasActive then
      let s2 := s1.setClient p.bundle { c1 with active := none }
      (s2, wakeAt s2 (some (p.bundle, c.h)) none)          -- the await is the last statement
    else
      (s1.setClient p.bundle c1, none)
  else (s1, none)

/-- one message through its handler: (state when the handler has returned, state the listener
    saw when it was woken — `none` if it was not).  In every handler of the transcribed tree
    `await self._state_updated(…)` is the last statement. -/
def stepW (fixed : Bool) (s : Mgr) : Msg → Mgr × Option Mgr
  | .setState p ps cmds q =>
    let (s1, c, pl) := getPlayer s p
    let pl' := { pl with info := pl.info.handleSetState ps cmds q }
    let s2 := s1.setClient p.bundle { c with players := upd c.players p.player (some pl') }
    (s2, wakeAt s2 none (some p.player))
  | .contentItemUpdate p us =>
    let (s1, c, pl) := getPlayer s p
    let pl' := { pl with info := pl.info.handleContentItemUpdate us }
    let s2 := s1.setClient p.bundle { c with players := upd c.players p.player (some pl') }
    (s2, wakeAt s2 none (some p.player))
  | .setNowPlayingClient b n =>
    let (s1, c) := getClient s b n
    let s2 := { s1 with active := some (b, c.h) }
    (s2, wakeAt s2 none none)
  | .setNowPlayingPlayer p =>
    let (s1, c, pl) := getPlayer s p
    let s2 := s1.setClient p.bundle { c with active := some (p.player, pl.h) }
    (s2, wakeAt s2 (some (p.bundle, c.h)) none)
  | .updateClient b n =>
    let (s1, c) := getClient s b n
    let s2 := s1.setClient b { c with name := pyOr n c.name }
    (s2, wakeAt s2 (some (b, c.h)) none)
  | .removeClient b _ =>
    match s.clients b with
    | none => (s, none)
    | some c =>
      let s1 := { s with clients := upd s.clients b none }
      if s.active == some (b, c.h) then
        let s2 := { s1 with active := none }               -- `self._active_client = None` …
        (s2, wakeAt s2 none none)                          -- … then `await self._state_updated()`
      else (s1, none)
  | .removePlayer p => removePlayerW fixed s p
  | .setDefaultSupportedCommands p cmds =>
    let (s1, c) := getClient s p.bundle p.cname
    let s2 := s1.setClient p.bundle { c with cmds := cmds }
    (s2, wakeAt s2 none none)

def reach (msgs : List Msg) : Mgr := msgs.foldl (fun s m => (step s m).1) Mgr.init
def reachPinned (msgs : List Msg) : Mgr := msgs.foldl (fun s m => (stepPinned s m).1) Mgr.init

/-! ## build_playing_instance / Playing._post_process / MrpMetadata -/

/-- `device_state()`: the dict lookup with default `Paused`. -/
def deviceState : Option PS → DevState
  | none => .idle
  | some .playing => .playing
  | some .paused => .paused
  | some .stopped => .stopped
  | some .interrupted => .loading
  | some .seeking => .seeking
  | some .unknown => .paused

/-- `metadata_field(f)`: `metadata and metadata.HasField(f)` -/
def PlayerInfo.field {α : Type} (i : PlayerInfo) (f : Meta → Option α) : Option α :=
  i.metadata.bind f

/-- `position()` (mrp/__init__.py:207) before `Playing._post_process`. -/
def rawPosition (now : Int) (i : PlayerInfo) : Option Int :=
  match i.field (·.ts) with
  | none => none
  | some ts =>
    if ts = 0 then none                                   -- `if not elapsed_timestamp`
    else
      let elapsed : Int := (i.field (·.elapsed)).getD 0   -- `... or 0`
      let diff : Int := now - ts
      let rate : Int := (i.field (·.rate)).getD 0         -- `... or 0.0`
      if deviceState i.playbackState = .playing ∧ rate ≠ 0 then some (elapsed + diff)
      else some elapsed

/-- `Playing._post_process` (interface.py:521): both guards are Python truthiness. -/
def postProcess (pos total : Option Int) : Option Int :=
  match pos with
  | none => none
  | some p =>
    if p = 0 then some p
    else
      let p1 := max p 0
      match total with
      | none => some p1
      | some t => if t = 0 then some p1 else some (min p1 t)

/-- `command_info(command)`: first match in `chain(own, parent.supported_commands)` -/
def commandInfo (v : PView) (command : Nat) : Option Cmd :=
  (v.info.cmds ++ v.parentCmds).find? (·.command == command)

def shuffleOf (v : PView) : Nat :=
  match commandInfo v cmdChangeShuffleMode with
  | none => shuffleOff
  | some info =>
    if info.shuffleMode = shuffleModeOff then shuffleOff
    else if info.shuffleMode = shuffleModeAlbums then shuffleAlbums
    else shuffleSongs

def repeatOf (v : PView) : Nat :=
  match commandInfo v cmdChangeRepeatMode with
  | none => repeatOff
  | some info =>
    if info.repeatMode = repeatModeOne then repeatTrack
    else if info.repeatMode = repeatModeAll then repeatAll
    else repeatOff

/-- what the metadata interface reports: fields of `await metadata.playing()` plus
    `metadata.app` as (display name, bundle identifier). -/
structure Report where
  state : DevState
  title : Option Nat
  hash : Option Nat            -- the raw item identifier handed to `Playing(hash=…)`
  total : Option Int
  position : Option Int
  shuffle : Nat
  repeat_ : Nat
  app : Option (Option Nat × Nat)
  deriving DecidableEq, Repr

/-- `build_playing_instance(state)` followed by `Playing.__init__`'s `_post_process`. -/
def buildPlaying (now : Int) (v : PView) (app : Option (Option Nat × Nat)) : Report :=
  let total := v.info.field (·.duration)
  { state := deviceState v.info.playbackState
    title := v.info.field (·.title)
    hash := v.info.itemIdentifier
    total := total
    position := postProcess (rawPosition now v.info) total
    shuffle := shuffleOf v
    repeat_ := repeatOf v
    app := app }

/-- `(await MrpMetadata.playing(), MrpMetadata.app)`; `none` = dangling pointer followed. -/
def report (now : Int) (s : Mgr) : Option Report :=
  match s.activeClient, s.playing with
  | some ac, some v => some (buildPlaying now v (ac.map fun (b, c) => (c.name, b)))
  | _, _ => none

/-- A listener that remembers the report it read the last time it was woken (`known`), fed the
    messages one after the other.  This is also what happens when several messages are dispatched
    back to back while `state_updated()` is still suspended: no handler contains an `await`
    before its wake-up, so the handlers run one after the other in dispatch order and every
    wake-up reads the state at its own point of that order. -/
def listen (now : Int) (sk : Mgr × Option Report) (m : Msg) : Mgr × Option Report :=
  let (s', w) := stepW true sk.1 m
  (s', match w with | some seen => report now seen | none => sk.2)

end PyatvModel.C11
