import PyatvModel.Base.Bytes
import PyatvModel.C11.Model
import PyatvModel.C11.Spec
/-
Line protocol (one message = one word, fields separated by `:`; `_` = absent):

  run <fixed 0|1> <now> <msg>*   → per message `<woken 0|1>|<report seen at the wake-up, or ->|<report>`
                                   (model: the handlers with the observation point, `stepW`)
  spec <now> <msg>*              → per message `<report>`               (Spec.lean)
  post <pos|_> <total|_>         → `<pos|_>`                            (Playing._post_process)

  msg  S:<bundle>:<cname>:<player>:<pstate>:<cmds>:<queue>      set state
       U:<bundle>:<cname>:<player>:<items>                      content-item update
       C:<bundle>:<cname>                                       set now-playing client
       P:<bundle>:<cname>:<player>                              set now-playing player
       N:<bundle>:<cname>                                       update client
       X:<bundle>:<cname>                                       remove client
       R:<bundle>:<cname>:<player>                              remove player
       D:<bundle>:<cname>:<player>:<cmds>                       default supported commands
  Every optional protobuf field crosses with its presence; `WMsg.decode` (Model.lean) says what
  an unset field means.
  bundle  `_` (unset) | Nat code (0 = set to "")        cname  `_` | Nat code (0 = set to "")
  player  `_` (unset) | `=` (set to "") | the literal DEFAULT_PLAYER_ID | p<k>
  pstate  `_` | wire number of pb.PlaybackState
  cmds    `_` (field absent) | `=` (present, empty) | command.shuffleMode.repeatMode,… (each `_` or a number)
  queue   `_` (field absent) | <location|_>;= (no items) | <location|_>;<item>;…     items  `=` (none) | <item>;…
  item    <ident>~<title>~<rate>~<duration>~<elapsed>~<timestamp>   (each `_` or a number)
  report  `dangling` | <DeviceState value>/<title>/<item id>/<total>/<position>/<shuffle>/<repeat>/<app>
  app     `_` | <name|_>@<bundle>
-/
namespace PyatvModel.C11
open PyatvModel.Gen.C11

def optNat? (s : String) : Option (Option Nat) :=
  if s == "_" then some none else s.toNat?.map some

def optInt? (s : String) : Option (Option Int) :=
  if s == "_" then some none else s.toInt?.map some

def player? (s : String) : Option (Option Nat) :=
  if s == "_" then some none
  else if s == "=" then some (some 0)
  else if s == defaultPlayerId then some (some defaultPlayer)
  else match s.toList with
    | 'p' :: rest => (String.ofList rest).toNat?.map (fun k => some (k + 2))
    | _ => none

def ps? (s : String) : Option (Option PS) :=
  if s == "_" then some none else
  match s.toNat? with
  | none => none
  | some n =>
    if n = psUnknown then some (some .unknown)
    else if n = psPlaying then some (some .playing)
    else if n = psPaused then some (some .paused)
    else if n = psStopped then some (some .stopped)
    else if n = psInterrupted then some (some .interrupted)
    else if n = psSeeking then some (some .seeking)
    else none

def cmd? (s : String) : Option WCmd :=
  match (s.splitOn ".").mapM optNat? with
  | some [c, sh, r] => some ⟨c, sh, r⟩
  | _ => none

def cmdList? (s : String) : Option (List WCmd) :=
  if s == "=" then some [] else (s.splitOn ",").mapM cmd?

def optCmds? (s : String) : Option (Option (List WCmd)) :=
  if s == "_" then some none else (cmdList? s).map some

def item? (s : String) : Option WItem :=
  match s.splitOn "~" with
  | [i, t, r, d, e, ts] => do
    let i ← optNat? i
    let t ← optNat? t
    let r ← optInt? r
    let d ← optInt? d
    let e ← optInt? e
    let ts ← optInt? ts
    pure ⟨i, { title := t, rate := r, duration := d, elapsed := e, ts := ts }⟩
  | _ => none

def items? (s : String) : Option (List WItem) :=
  if s == "=" then some [] else (s.splitOn ";").mapM item?

def queue? (s : String) : Option (Option (Option Nat × List WItem)) :=
  if s == "_" then some none else
  match s.splitOn ";" with
  | [] => none
  | loc :: rest => do
    let loc ← optNat? loc
    let its ← if rest == ["="] then some [] else rest.mapM item?
    pure (some (loc, its))

def path? (b n p : String) : Option WPath := do
  let b ← optNat? b
  let n ← optNat? n
  let p ← player? p
  pure ⟨b, n, p⟩

def msg? (w : String) : Option WMsg :=
  match w.splitOn ":" with
  | ["S", b, n, p, ps, cmds, q] => do
    let path ← path? b n p
    let ps ← ps? ps
    let cmds ← optCmds? cmds
    let q ← queue? q
    pure (.setState path ps cmds q)
  | ["U", b, n, p, its] => do
    let path ← path? b n p
    let its ← items? its
    pure (.contentItemUpdate path its)
  | ["C", b, n] => do pure (.setNowPlayingClient (← optNat? b) (← optNat? n))
  | ["P", b, n, p] => do pure (.setNowPlayingPlayer (← path? b n p))
  | ["N", b, n] => do pure (.updateClient (← optNat? b) (← optNat? n))
  | ["X", b, n] => do pure (.removeClient (← optNat? b) (← optNat? n))
  | ["R", b, n, p] => do pure (.removePlayer (← path? b n p))
  | ["D", b, n, p, cmds] => do
    let path ← path? b n p
    let cmds ← cmdList? cmds
    pure (.setDefaultSupportedCommands path cmds)
  | _ => none

def showOptNat : Option Nat → String
  | none => "_" | some n => toString n
def showOptInt : Option Int → String
  | none => "_" | some n => toString n

def DevState.code : DevState → Nat
  | .idle => dsIdle | .loading => dsLoading | .paused => dsPaused
  | .playing => dsPlaying | .stopped => dsStopped | .seeking => dsSeeking

def Report.show (r : Report) : String :=
  let app := match r.app with
    | none => "_"
    | some (n, b) => s!"{showOptNat n}@{b}"
  s!"{r.state.code}/{showOptNat r.title}/{showOptNat r.hash}/{showOptInt r.total}/{showOptInt r.position}/{r.shuffle}/{r.repeat_}/{app}"

def showReport : Option Report → String
  | none => "dangling"
  | some r => r.show

def runModel (fixed : Bool) (now : Int) : Mgr → List Msg → List String
  | _, [] => []
  | s, m :: ms =>
    let (s', w) := stepW fixed s m
    let seen := match w with
      | none => "0|-"
      | some sw => s!"1|{showReport (report now sw)}"
    s!"{seen}|{showReport (report now s')}" :: runModel fixed now s' ms

def runSpec (now : Int) : Spec.SState → List Msg → List String
  | _, [] => []
  | st, m :: ms =>
    let st' := Spec.specStep st m
    (Spec.specReport now st').show :: runSpec now st' ms

def handle (_ : Unit) (ws : List String) : Unit × String :=
  match ws with
  | "run" :: fixed :: now :: msgs =>
    match (if fixed == "1" then some true else if fixed == "0" then some false else none),
          now.toInt?, msgs.mapM msg? with
    | some fixed, some now, some msgs => ((), csv (runModel fixed now Mgr.init (msgs.map WMsg.decode)))
    | _, _, _ => ((), "bad-op")
  | "spec" :: now :: msgs =>
    match now.toInt?, msgs.mapM msg? with
    | some now, some msgs => ((), csv (runSpec now Spec.SState.init (msgs.map WMsg.decode)))
    | _, _ => ((), "bad-op")
  | ["post", p, t] =>
    match optInt? p, optInt? t with
    | some p, some t => ((), showOptInt (postProcess p t))
    | _, _ => ((), "bad-op")
  | _ => ((), "bad-op")

end PyatvModel.C11
