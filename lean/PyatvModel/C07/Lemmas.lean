import PyatvModel.C07.Model
/-
C07 helper lemmas: byte encodings, frame splitting, one-step unfoldings of the loops.
-/
namespace PyatvModel.C07

theorem leBytes_length (w n : Nat) : (leBytes w n).length = w := by
  induction w generalizing n with
  | zero => rfl
  | succ w ih => simp [leBytes, ih]

theorem leVal_leBytes (w n : Nat) (h : n < 256 ^ w) : leVal (leBytes w n) = n := by
  induction w generalizing n with
  | zero => simp at h; subst h; rfl
  | succ w ih =>
    have h' : n / 256 < 256 ^ w := by
      rw [Nat.pow_succ] at h
      exact Nat.div_lt_of_lt_mul (by rw [Nat.mul_comm]; exact h)
    simp only [leBytes, leVal, ih _ h']
    have : (UInt8.ofNat (n % 256)).toNat = n % 256 := by
      simp [UInt8.toNat_ofNat']
    rw [this]; omega

theorem leBytes_inj (w n m : Nat) (hn : n < 256 ^ w) (hm : m < 256 ^ w)
    (h : leBytes w n = leBytes w m) : n = m := by
  rw [← leVal_leBytes w n hn, ← leVal_leBytes w m hm, h]

theorem nonce_inj (k : NonceKind) (c c' : Nat) (n : Bytes)
    (h : nonce? k c = some n) (h' : nonce? k c' = some n) : c = c' := by
  cases k with
  | n8 =>
    simp only [nonce?] at h h'
    split at h <;> split at h' <;> try contradiction
    rename_i hc hc'
    have e : List.replicate 4 (0 : UInt8) ++ leBytes 8 c = List.replicate 4 0 ++ leBytes 8 c' := by
      rw [Option.some.inj h, Option.some.inj h']
    exact leBytes_inj 8 c c' (by omega) (by omega) (List.append_cancel_left e)
  | n12 =>
    simp only [nonce?] at h h'
    split at h <;> split at h' <;> try contradiction
    rename_i hc hc'
    exact leBytes_inj 12 c c' (by omega) (by omega) (by rw [Option.some.inj h, Option.some.inj h'])

theorem nonce_length (k : NonceKind) (c : Nat) (n : Bytes) (h : nonce? k c = some n) :
    n.length = 12 := by
  cases k <;> simp only [nonce?] at h <;> split at h <;> try contradiction
  all_goals (rw [← Option.some.inj h]; simp [leBytes_length])

/-! frames -/

theorem frames_nil (n : Nat) : frames n [] = [] := by
  rw [frames]; simp

theorem frames_cons (n : Nat) (d : Bytes) (hd : d ≠ []) (hn : n ≠ 0) :
    frames n d = d.take n :: frames n (d.drop n) := by
  rw [frames]; simp [hd, hn]

theorem frames_flatten (n : Nat) (hn : n ≠ 0) (d : Bytes) : (frames n d).flatten = d := by
  fun_induction frames n d with
  | case1 d h => rcases h with h | h <;> simp_all
  | case2 d h ih => simp [ih]

theorem frames_mem_length (n : Nat) (hn : n ≠ 0) (d f : Bytes) (hf : f ∈ frames n d) :
    0 < f.length ∧ f.length ≤ n := by
  fun_induction frames n d with
  | case1 d h => simp at hf
  | case2 d h ih =>
    have hd : d ≠ [] := fun e => h (Or.inl e)
    have hpos : 0 < d.length := List.length_pos_iff.mpr hd
    rcases List.mem_cons.mp hf with rfl | hf
    · simp [List.length_take]; omega
    · exact ih hf

theorem frames_length (n : Nat) (hn : n ≠ 0) (d : Bytes) :
    (frames n d).length = (d.length + n - 1) / n := by
  fun_induction frames n d with
  | case1 d h =>
    rcases h with h | h
    · subst h; simp; exact (Nat.div_eq_of_lt (by omega)).symm
    · exact absurd h hn
  | case2 d h ih =>
    have hd : d ≠ [] := fun e => h (Or.inl e)
    have hpos : 0 < d.length := List.length_pos_iff.mpr hd
    simp only [List.length_cons, ih, List.length_drop]
    by_cases hle : d.length ≤ n
    · have h0 : d.length - n = 0 := by omega
      rw [h0]
      have e1 : (0 + n - 1) / n = 0 := Nat.div_eq_of_lt (by omega)
      rw [e1]
      have e2 : (d.length + n - 1) / n = 1 := by
        apply Nat.div_eq_of_lt_le <;> omega
      omega
    · have e : d.length + n - 1 = (d.length - n + n - 1) + n := by omega
      rw [e, Nat.add_div_right _ (by omega)]

/-! HAP loop: one iteration on a complete block -/

theorem take_two_append (len block rest : Bytes) (hlen : len.length = 2) :
    (len ++ block ++ rest).take 2 = len := by
  rw [List.append_assoc, List.take_append_of_le_length (by omega)]
  exact List.take_of_length_le (by omega)

theorem hapLoop_step (A : Aead) (key : Bytes) (c : Nat) (len block rest : Bytes) (acc : List Bytes)
    (hlen : len.length = 2) (hblock : block.length = leVal len + AUTH_TAG_LENGTH) :
    hapDecryptLoop A key c (len ++ block ++ rest) acc =
      match decrypt A key .n8 c len block with
      | (.error e, c') => ⟨acc, len ++ block ++ rest, c', some e⟩
      | (.ok p, c') => hapDecryptLoop A key c' rest (acc ++ [p]) := by
  rw [hapDecryptLoop]
  have hne : len ++ block ++ rest ≠ [] := by
    intro h
    have := congrArg List.length h
    simp only [List.length_append, List.length_nil] at this; omega
  have htake := take_two_append len block rest hlen
  have hdrop2 : (len ++ block ++ rest).drop 2 = block ++ rest := by
    rw [List.append_assoc, ← hlen, List.drop_left]
  have hblk : (block ++ rest).take (leVal len + AUTH_TAG_LENGTH) = block := by
    rw [← hblock, List.take_left]
  have hrest : (len ++ block ++ rest).drop (2 + (leVal len + AUTH_TAG_LENGTH)) = rest := by
    have : 2 + (leVal len + AUTH_TAG_LENGTH) = (len ++ block).length := by
      simp only [List.length_append]; omega
    rw [this, List.drop_left]
  have hlong : ¬ (len ++ block ++ rest).length < leVal len + AUTH_TAG_LENGTH + 2 := by
    simp only [List.length_append]; omega
  simp only [hne, ↓reduceDIte, htake, hdrop2, hblk, hrest, hlong]
  rfl

/-- the loop stops (needs more data) on a strict prefix of a block -/
theorem hapLoop_need (A : Aead) (key : Bytes) (c : Nat) (buf : Bytes) (acc : List Bytes)
    (h : buf.length < leVal (buf.take 2) + AUTH_TAG_LENGTH + 2) :
    hapDecryptLoop A key c buf acc = ⟨acc, buf, c, none⟩ := by
  rw [hapDecryptLoop]
  by_cases hb : buf = []
  · simp [hb]
  · simp [hb, h]

end PyatvModel.C07
