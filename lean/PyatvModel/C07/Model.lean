import PyatvModel.Base.Bytes
/-
C07 — model of the encrypted channels.

Transcribes:
* pyatv/support/chacha20.py      Chacha20Cipher (counters as nonces, 8/12-byte, pad to 12),
                                 Chacha20Cipher8byteNonce (`<LQ` pack of (0, counter))
* pyatv/auth/hap_session.py      HAPSession.encrypt / decrypt (1024-byte frames, 2-byte LE
                                 length as AAD, 16-byte tag)
* pyatv/protocols/companion/connection.py  send / data_received (4-byte header as AAD;
                                 length includes the tag iff encrypted and non-empty)
* pyatv/protocols/mrp/connection.py        send / data_received / _handle_message
* pyatv/protocols/raop/protocols/airplayv2.py  send_audio_packet

The AEAD itself (ChaCha20-Poly1305) is a parameter `Aead`; theorems state the laws they
use as hypotheses.  Import-free apart from Base.Bytes.
-/
namespace PyatvModel.C07

/-- the AEAD primitive: `aseal key nonce aad pt`, `open key nonce aad ct` -/
structure Aead where
  aseal : Bytes → Bytes → Bytes → Bytes → Bytes
  aopen : Bytes → Bytes → Bytes → Bytes → Option Bytes

inductive Err | overflow | invalidTag
  deriving DecidableEq, Repr

/-- `n.to_bytes(w, "little")` for `n < 256^w` (the guard is applied by the callers) -/
def leBytes : Nat → Nat → Bytes
  | 0, _ => []
  | w + 1, n => UInt8.ofNat (n % 256) :: leBytes w (n / 256)

def leVal : Bytes → Nat
  | [] => 0
  | b :: bs => b.toNat + 256 * leVal bs

def beBytes (w n : Nat) : Bytes := (leBytes w n).reverse
def beVal (b : Bytes) : Nat := leVal b.reverse

inductive NonceKind | n8 | n12
  deriving DecidableEq, Repr

/-- `out_nonce` / `in_nonce`: `None` models the OverflowError / struct.error Python raises
    when the counter no longer fits. -/
def nonce? : NonceKind → Nat → Option Bytes
  | .n8, c => if c < 2 ^ 64 then some (List.replicate 4 0 ++ leBytes 8 c) else none
  | .n12, c => if c < 2 ^ 96 then some (leBytes 12 c) else none

/-- `Chacha20Cipher.encrypt(data, aad=aad)` with the default (counter) nonce. -/
def encrypt (A : Aead) (key : Bytes) (k : NonceKind) (c : Nat) (aad pt : Bytes) :
    Except Err (Bytes × Nat) :=
  match nonce? k c with
  | none => .error .overflow
  | some n => .ok (A.aseal key n aad pt, c + 1)

/-- `Chacha20Cipher.decrypt(data, aad=aad)`: the counter moves before the tag is checked. -/
def decrypt (A : Aead) (key : Bytes) (k : NonceKind) (c : Nat) (aad ct : Bytes) :
    Except Err Bytes × Nat :=
  match nonce? k c with
  | none => (.error .overflow, c)
  | some n =>
    match A.aopen key n aad ct with
    | some p => (.ok p, c + 1)
    | none => (.error .invalidTag, c + 1)

/-! ### HAP session -/

def FRAME_LENGTH : Nat := 1024
def AUTH_TAG_LENGTH : Nat := 16

/-- `while data: frame = data[0:n]; data = data[n:]` -/
def frames (n : Nat) (data : Bytes) : List Bytes :=
  if h : data = [] ∨ n = 0 then [] else
    data.take n :: frames n (data.drop n)
termination_by data.length
decreasing_by
  have h1 : data ≠ [] := fun e => h (Or.inl e)
  have h2 : n ≠ 0 := fun e => h (Or.inr e)
  have : 0 < data.length := List.length_pos_iff.mpr h1
  simp only [List.length_drop]; omega

def hapEncryptFrames (A : Aead) (key : Bytes) : Nat → List Bytes → Except Err (Bytes × Nat)
  | c, [] => .ok ([], c)
  | c, f :: fs =>
    match encrypt A key .n8 c (leBytes 2 f.length) f with
    | .error e => .error e
    | .ok (ct, c') =>
      match hapEncryptFrames A key c' fs with
      | .error e => .error e
      | .ok (rest, c'') => .ok (leBytes 2 f.length ++ ct ++ rest, c'')

/-- `HAPSession.encrypt` -/
def hapEncrypt (A : Aead) (key : Bytes) (c : Nat) (data : Bytes) : Except Err (Bytes × Nat) :=
  hapEncryptFrames A key c (frames FRAME_LENGTH data)

structure HapRes where
  out : List Bytes          -- decrypted frames in order (the code concatenates them)
  buf : Bytes               -- `_encrypted_data` left over
  ctr : Nat
  err : Option Err          -- the exception that escaped `decrypt`, if any
  deriving Repr

/-- the `while self._encrypted_data:` loop of `HAPSession.decrypt` -/
def hapDecryptLoop (A : Aead) (key : Bytes) (c : Nat) (buf : Bytes) (acc : List Bytes) : HapRes :=
  if h : buf = [] then ⟨acc, buf, c, none⟩ else
    let length := buf.take 2
    let blockLen := leVal length + AUTH_TAG_LENGTH
    if h2 : buf.length < blockLen + 2 then ⟨acc, buf, c, none⟩ else
      let block := (buf.drop 2).take blockLen
      match decrypt A key .n8 c length block with
      | (.error e, c') => ⟨acc, buf, c', some e⟩
      | (.ok p, c') => hapDecryptLoop A key c' (buf.drop (2 + blockLen)) (acc ++ [p])
termination_by buf.length
decreasing_by
  simp only [List.length_drop]
  have : 0 < buf.length := List.length_pos_iff.mpr h
  simp only [AUTH_TAG_LENGTH] at *
  omega

/-- one `decrypt(data)` call on a session whose state is `(buf, ctr)` -/
def hapFeed (A : Aead) (key : Bytes) (st : Bytes × Nat) (chunk : Bytes) : HapRes :=
  hapDecryptLoop A key st.2 (st.1 ++ chunk) []

/-! ### Companion frames -/

def HEADER_LENGTH : Nat := 4

/-- `CompanionConnection.send`; `enc` = encryption enabled. -/
def companionSend (A : Aead) (key : Bytes) (enc : Bool) (c : Nat) (ftype : UInt8) (data : Bytes) :
    Except Err (Bytes × Nat) :=
  if enc && decide (data.length > 0) then
    -- sealed: the length field counts the tag; `to_bytes(3)` raises when it does not fit
    if data.length + AUTH_TAG_LENGTH < 2 ^ 24 then
      match encrypt A key .n12 c (ftype :: beBytes 3 (data.length + AUTH_TAG_LENGTH)) data with
      | .error e => .error e
      | .ok (ct, c') => .ok (ftype :: beBytes 3 (data.length + AUTH_TAG_LENGTH) ++ ct, c')
    else .error .overflow
  else
    if data.length < 2 ^ 24 then .ok (ftype :: beBytes 3 data.length ++ data, c)
    else .error .overflow

inductive Delivery
  | frame (ftype : UInt8) (payload : Bytes)     -- `frame_received`
  | dropped (e : Err)                           -- exception caught and logged in the loop
  deriving Repr, DecidableEq

structure CompRes where
  out : List Delivery
  buf : Bytes
  ctr : Nat
  deriving Repr

/-- the `while len(self._buffer) >= HEADER_LENGTH` loop of `CompanionConnection.data_received` -/
def companionLoop (A : Aead) (key : Bytes) (enc : Bool) (c : Nat) (buf : Bytes) (acc : List Delivery) :
    CompRes :=
  if h : buf.length < HEADER_LENGTH then ⟨acc, buf, c⟩ else
    let total := HEADER_LENGTH + beVal ((buf.drop 1).take 3)
    if h2 : buf.length < total then ⟨acc, buf, c⟩ else
      let header := buf.take HEADER_LENGTH
      let payload := (buf.drop HEADER_LENGTH).take (total - HEADER_LENGTH)
      let rest := buf.drop total
      if enc && decide (payload.length > 0) then
        match decrypt A key .n12 c header payload with
        | (.error e, c') => companionLoop A key enc c' rest (acc ++ [.dropped e])
        | (.ok p, c') => companionLoop A key enc c' rest (acc ++ [.frame (buf.headD 0) p])
      else companionLoop A key enc c rest (acc ++ [.frame (buf.headD 0) payload])
termination_by buf.length
decreasing_by
  all_goals
    simp only [List.length_drop]
    simp only [HEADER_LENGTH] at *
    omega

/-! ### MRP messages (varint length prefix; the varint codec is property C04's) -/

/-- protobuf varint as `write_variant` emits it -/
def writeVarint (n : Nat) : Bytes :=
  if h : n < 128 then [UInt8.ofNat n] else UInt8.ofNat (n % 128 + 128) :: writeVarint (n / 128)
termination_by n
decreasing_by omega

def mrpSend (A : Aead) (key : Bytes) (enc : Bool) (c : Nat) (data : Bytes) : Except Err (Bytes × Nat) :=
  if enc then
    match encrypt A key .n8 c [] data with
    | .error e => .error e
    | .ok (ct, c') => .ok (writeVarint ct.length ++ ct, c')
  else .ok (writeVarint data.length ++ data, c)

/-- `_handle_message` on one already-framed message -/
def mrpHandle (A : Aead) (key : Bytes) (enc : Bool) (c : Nat) (msg : Bytes) : Except Err Bytes × Nat :=
  if enc then decrypt A key .n8 c [] msg else (.ok msg, c)

/-! ### AirPlay 2 audio packets -/

/-- `AirPlayV2.send_audio_packet` with a cipher: nonce captured before the counter moves,
    AAD = header[4:12], packet = header ‖ sealed audio ‖ last 8 bytes of the nonce. -/
def audioPacket (A : Aead) (key : Bytes) (c : Nat) (header audio : Bytes) : Except Err (Bytes × Nat) :=
  match nonce? .n8 c with
  | none => .error .overflow
  | some nonce =>
    match encrypt A key .n8 c ((header.drop 4).take 8) audio with
    | .error e => .error e
    | .ok (ct, c') => .ok (header ++ ct ++ nonce.drop (nonce.length - 8), c')

/-- what a receiver does with a packet: split off the 12-byte header and trailing 8-byte
    nonce, rebuild the 12-byte nonce, open. -/
def audioOpen (A : Aead) (key : Bytes) (packet : Bytes) : Option Bytes :=
  let header := packet.take 12
  let body := packet.drop 12
  let ct := body.take (body.length - 8)
  let n8 := body.drop (body.length - 8)
  A.aopen key (List.replicate 4 0 ++ n8) ((header.drop 4).take 8) ct

end PyatvModel.C07
