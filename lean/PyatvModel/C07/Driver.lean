import PyatvModel.Base.Bytes
import PyatvModel.C07.Model
/-
Line protocol (bytes as hex, `-` = empty).  The driver instantiates the AEAD parameter
with a toy AEAD (`ct = pt ‖ mac16(key, nonce, aad, pt)`) that the harness also swaps into
the real cipher objects, so wire bytes can be compared exactly.

  hapenc  <key> <ctr> <data>            → `<wire> <ctr'>` | `err:<e>`
  hapreset <key> <ctr>                  → `ok`
  hapfeed <chunk>                       → `<frame,frame,…> <buflen> <ctr> <ok|err:e>`
  compsend <key> <enc> <ctr> <type> <data>  → `<wire> <ctr'>` | `err:<e>`
  compreset <key> <enc> <ctr>           → `ok`
  compfeed <chunk>                      → `<t:payload|!e,…> <buflen> <ctr>`
  mrpsend <key> <enc> <ctr> <data>      → `<wire> <ctr'>` | `err:<e>`
  mrphandle <key> <enc> <ctr> <msg>     → `<payload|!e> <ctr'>`
  audio <key> <ctr> <header> <audio>    → `<packet> <ctr'>` | `err:<e>`
-/
namespace PyatvModel.C07

def macMod : Nat := 2 ^ 127 - 1

def toyMac (key n a p : Bytes) : Bytes :=
  let pre : Bytes := [UInt8.ofNat key.length, UInt8.ofNat n.length, UInt8.ofNat a.length] ++ leBytes 4 p.length
  let h := (pre ++ key ++ n ++ a ++ p).foldl (fun h b => (h * 257 + b.toNat + 1) % macMod) 7
  leBytes 16 h

def toyAead : Aead where
  aseal key n a p := p ++ toyMac key n a p
  aopen key n a ct :=
    if ct.length < 16 then none else
      let p := ct.take (ct.length - 16)
      if ct.drop (ct.length - 16) = toyMac key n a p then some p else none

def Err.toStr : Err → String
  | .overflow => "overflow" | .invalidTag => "invalidTag"

structure DS where
  key : Bytes := []
  hapBuf : Bytes := []
  hapCtr : Nat := 0
  compEnc : Bool := false
  compBuf : Bytes := []
  compCtr : Nat := 0

def showSend : Except Err (Bytes × Nat) → String
  | .ok (w, c) => s!"{toHex w} {c}"
  | .error e => "err:" ++ e.toStr

def Delivery.toStr : Delivery → String
  | .frame t p => s!"{t.toNat}:{toHex p}"
  | .dropped e => "!" ++ e.toStr

def bool? : String → Option Bool
  | "0" => some false | "1" => some true | _ => none

def handle (s : DS) (ws : List String) : DS × String :=
  match ws with
  | ["hapenc", k, c, d] =>
    match ofHex? k, c.toNat?, ofHex? d with
    | some k, some c, some d => (s, showSend (hapEncrypt toyAead k c d))
    | _, _, _ => (s, "bad-op")
  | ["hapreset", k, c] =>
    match ofHex? k, c.toNat? with
    | some k, some c => ({ s with key := k, hapBuf := [], hapCtr := c }, "ok")
    | _, _ => (s, "bad-op")
  | ["hapfeed", d] =>
    match ofHex? d with
    | some d =>
      let r := hapFeed toyAead s.key (s.hapBuf, s.hapCtr) d
      ({ s with hapBuf := r.buf, hapCtr := r.ctr },
        s!"{csv (r.out.map toHex)} {r.buf.length} {r.ctr} " ++
          (match r.err with | none => "ok" | some e => "err:" ++ e.toStr))
    | none => (s, "bad-op")
  | ["compsend", k, e, c, t, d] =>
    match ofHex? k, bool? e, c.toNat?, t.toNat?, ofHex? d with
    | some k, some e, some c, some t, some d =>
      if t < 256 then (s, showSend (companionSend toyAead k e c (UInt8.ofNat t) d)) else (s, "bad-op")
    | _, _, _, _, _ => (s, "bad-op")
  | ["compreset", k, e, c] =>
    match ofHex? k, bool? e, c.toNat? with
    | some k, some e, some c => ({ s with key := k, compEnc := e, compBuf := [], compCtr := c }, "ok")
    | _, _, _ => (s, "bad-op")
  | ["compfeed", d] =>
    match ofHex? d with
    | some d =>
      let r := companionLoop toyAead s.key s.compEnc s.compCtr (s.compBuf ++ d) []
      ({ s with compBuf := r.buf, compCtr := r.ctr },
        s!"{csv (r.out.map Delivery.toStr)} {r.buf.length} {r.ctr}")
    | none => (s, "bad-op")
  | ["mrpsend", k, e, c, d] =>
    match ofHex? k, bool? e, c.toNat?, ofHex? d with
    | some k, some e, some c, some d => (s, showSend (mrpSend toyAead k e c d))
    | _, _, _, _ => (s, "bad-op")
  | ["mrphandle", k, e, c, d] =>
    match ofHex? k, bool? e, c.toNat?, ofHex? d with
    | some k, some e, some c, some d =>
      match mrpHandle toyAead k e c d with
      | (.ok p, c') => (s, s!"{toHex p} {c'}")
      | (.error er, c') => (s, s!"!{er.toStr} {c'}")
    | _, _, _, _ => (s, "bad-op")
  | ["audio", k, c, h, a] =>
    match ofHex? k, c.toNat?, ofHex? h, ofHex? a with
    | some k, some c, some h, some a => (s, showSend (audioPacket toyAead k c h a))
    | _, _, _, _ => (s, "bad-op")
  | _ => (s, "bad-op")

end PyatvModel.C07
