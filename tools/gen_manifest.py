#!/usr/bin/env python3
"""Assemble MANIFEST.json from meta/Cxx.json (one file per claimed property)."""
import json
import os

VERIF = os.path.dirname(os.path.dirname(os.path.abspath(__file__)))


def main():
    props = [json.loads(l) for l in open(os.path.join(VERIF, "properties.jsonl")) if l.strip()]
    checks, na = [], []
    pending = {}
    pend_path = os.path.join(VERIF, "meta", "not_applicable.json")
    if os.path.exists(pend_path):
        pending = json.load(open(pend_path))
    for p in props:
        pid = p["id"]
        mpath = os.path.join(VERIF, "meta", pid + ".json")
        if os.path.exists(mpath) and os.path.exists(os.path.join(VERIF, "harness", pid.lower() + ".py")):
            m = json.load(open(mpath))
            checks.append({
                "property_id": pid,
                "quick_cmd": f"./check {pid} --tier quick",
                "thorough_cmd": f"./check {pid} --tier thorough",
                "evidence_file": f"evidence/{pid}.json",
                "replay_cmd_template": f"./check {pid} --replay {{path}}",
                "engine": "lean4-proof+correspondence",
                "level_claimed": m["level_claimed"],
                "level_note": m["level_note"],
                "technique": m.get("technique", "Lean 4 proof over executable model + model/implementation correspondence"),
            })
        else:
            na.append({"property_id": pid, "reason": pending.get(pid, "check not built yet in this round (work in progress; the design in DESIGN.md §5 applies)")})
    manifest = {
        "version": 1,
        "setup_cmd": "cd lean && lake build",
        "hooks": {
            "guard": "POSTLUND_PYATV_VERIF",
            "enable": "no source hooks are used: the harness drives the real classes in-process with fake transports and monkeypatches applied from the harness process only",
            "baseline_off_cmd": "cd /repo && /venv/bin/python -m pytest -ra -q -p no:cacheprovider --timeout=900 --continue-on-collection-errors",
            "source_commits": [],
            "add_only": True,
        },
        "engines": [{
            "name": "lean4-proof+correspondence",
            "path": "check",
            "serves_properties": [c["property_id"] for c in checks],
            "kind_free_text": "Lean 4 theorems about executable models (lean/PyatvModel), tied to /repo by regenerated Gen/*.lean (tools/extract.py) and by differential correspondence runs of the real code against the Lean model driver (harness/cXX.py)",
        }],
        "checks": checks,
        "notes": "Every check: regenerate Gen from /repo, lake build the property's theorems, audit (no sorry/axiom/native_decide; #print axioms), correspondence + direct oracle on the real code, evidence. VERIF_SEED seeds every random choice. Exit 2 = no verdict (timeout/internal error).",
        "not_applicable": na,
    }
    findings = []
    fdir = os.path.join(VERIF, "findings")
    if os.path.isdir(fdir):
        for name in sorted(os.listdir(fdir)):
            if name.endswith(".json"):
                findings += json.load(open(os.path.join(fdir, name)))
    with open(os.path.join(VERIF, "known_findings.json"), "w") as f:
        json.dump(findings, f, indent=1)
        f.write("\n")
    with open(os.path.join(VERIF, "MANIFEST.json"), "w") as f:
        json.dump(manifest, f, indent=1)
        f.write("\n")
    print("MANIFEST.json:", len(checks), "checks,", len(na), "not claimed")


if __name__ == "__main__":
    main()
