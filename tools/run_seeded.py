#!/usr/bin/env python3
"""Run the registered checks against every kept seeded change (seeded/<id>/patch.diff).

For each seeded change: `git -C /repo apply patch.diff`, run `./check <property> --tier T`,
record exit code + VIOLATION lines, then `git -C /repo checkout -- .` (always, also on
error).  Refuses to start when /repo has uncommitted changes.  Results are written to
seeded/RESULTS.json and printed as a table.

    python3 tools/run_seeded.py [--tier quick|thorough] [id ...]
"""
import argparse
import json
import os
import subprocess
import sys
import time

VERIF = os.path.dirname(os.path.dirname(os.path.abspath(__file__)))
REPO = "/repo"


def sh(cmd, **kw):
    return subprocess.run(cmd, shell=True, capture_output=True, text=True, **kw)


def write_md(sdir, results):
    lines = ["# Seeded changes and the checks that catch them", "",
             "Each row is a change to pyatv written by an independent sub-agent that saw only the property text",
             "(seeded/<id>/patch.diff, demo.py, README.md, meta.json).  `caught` = the property's check exits 1 with a",
             "VIOLATION line and a replay file holding a failing input; `caught (no failing input found)` = a proof",
             "obligation or the model/code correspondence broke and the widened search found no input on which the",
             "property itself fails (reported as `VIOLATION … no-failing-input-found`).", "",
             "| seeded change | property | result | tier | what the check printed | needs to manifest |", "|---|---|---|---|---|---|"]
    for sid in sorted(results):
        r = results[sid]
        needs = ""
        mpath = os.path.join(sdir, sid, "meta.json")
        if os.path.exists(mpath):
            needs = json.load(open(mpath)).get("needs_to_manifest", "")
        first = (r.get("lines") or [""])[0].replace("|", "/")
        lines.append(f"| {sid} | {r.get('property')} | {r.get('status')} | {r.get('tier', '')} | `{first[:110]}` | {needs} |")
    open(os.path.join(sdir, "RESULTS.md"), "w").write("\n".join(lines) + "\n")


def main():
    ap = argparse.ArgumentParser()
    ap.add_argument("--tier", default="quick")
    ap.add_argument("ids", nargs="*")
    args = ap.parse_args()
    if sh(f"git -C {REPO} status --porcelain").stdout.strip():
        sys.exit("refusing: /repo has uncommitted changes")
    sdir = os.path.join(VERIF, "seeded")
    ids = args.ids or sorted(d for d in os.listdir(sdir) if os.path.isdir(os.path.join(sdir, d)))
    results = {}
    rpath = os.path.join(sdir, "RESULTS.json")
    if os.path.exists(rpath):
        results = json.load(open(rpath))
    for sid in ids:
        d = os.path.join(sdir, sid)
        meta = json.load(open(os.path.join(d, "meta.json")))
        prop = meta["property"]
        patch = os.path.join(d, "patch.diff")
        ap_res = sh(f"git -C {REPO} apply --whitespace=nowarn {patch}")
        if ap_res.returncode != 0:
            results[sid] = {"property": prop, "status": "patch does not apply", "detail": ap_res.stderr[-300:]}
            print(f"{sid:28s} {prop}  PATCH-DOES-NOT-APPLY")
            continue
        t0 = time.time()
        try:
            r = sh(f"./check {prop} --tier {args.tier}", cwd=VERIF, timeout=3600)
            lines = [l for l in r.stdout.split("\n") if l.startswith(("VIOLATION", "KNOWN-FINDING", "CHECK-ERROR"))]
            status = {0: "MISSED", 1: "caught"}.get(r.returncode, f"exit {r.returncode}")
            if r.returncode == 1 and all("no-failing-input-found" in l for l in lines if l.startswith("VIOLATION")):
                status = "caught (no failing input found)"
            results[sid] = {"property": prop, "status": status, "tier": args.tier, "lines": lines[:6],
                            "wall_s": round(time.time() - t0, 1), "summary": r.stdout.strip().split("\n")[-1][:300]}
        except subprocess.TimeoutExpired:
            results[sid] = {"property": prop, "status": "timeout"}
        finally:
            sh(f"git -C {REPO} checkout -- .")
            sh(f"git -C {REPO} clean -fdq -- pyatv")
        print(f"{sid:28s} {prop}  {results[sid]['status']}")
    json.dump(results, open(rpath, "w"), indent=1, sort_keys=True)
    write_md(sdir, results)
    missed = [s for s, r in results.items() if r["status"] == "MISSED"]
    print(f"{len(results)} seeded changes, {len(missed)} missed: {missed}")


if __name__ == "__main__":
    main()
