#!/usr/bin/env python3
"""Run the pinned test suite in a repo checkout and compare with the baseline pass set.

    python3 suite.py <repo_dir>      exit 0 iff every baseline-stable test still passes
"""
import json
import os
import subprocess
import sys
import tempfile
import xml.etree.ElementTree as ET

repo = os.path.abspath(sys.argv[1] if len(sys.argv) > 1 else "/repo")
base = json.load(open("/root/.vp/BASELINE.json"))
stable = set(base["stable_pass"])
with tempfile.TemporaryDirectory() as td:
    xml = os.path.join(td, "r.xml")
    subprocess.run(
        ["/venv/bin/python", "-m", "pytest", "-q", "-p", "no:cacheprovider", "--timeout=900",
         "--continue-on-collection-errors", f"--junitxml={xml}"],
        cwd=repo, stdout=subprocess.DEVNULL, stderr=subprocess.DEVNULL, env=dict(os.environ, PYTHONPATH=repo))
    passed = set()
    for tc in ET.parse(xml).getroot().iter("testcase"):
        if not any(ch.tag in ("failure", "error", "skipped") for ch in tc):
            passed.add(f"{tc.get('classname')}::{tc.get('name')}")
missing = sorted(stable - passed)
print(f"baseline-stable tests: {len(stable)}; still passing: {len(stable & passed)}; now failing: {len(missing)}")
for m in missing[:40]:
    print("  FAIL", m)
sys.exit(1 if missing else 0)
