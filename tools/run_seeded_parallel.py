#!/usr/bin/env python3
"""Parallel variant of run_seeded.py for development: N workers, each with its own scratch
worktree of /verif (HEAD, built once) and of /repo, outside both; the patch is applied to
the worker's repo worktree and the check runs with VERIF_REPO pointing at it.  Results are
merged into seeded/RESULTS.json / RESULTS.md exactly like run_seeded.py.  The worktrees are
removed at the end.  (The registered checks and the committed evidence always come from
/verif run against /repo itself; this tool only speeds up the seeded-change sweep.)

    python3 tools/run_seeded_parallel.py [-j 5] [--tier quick] [id ...]
"""
import argparse
import json
import os
import queue
import subprocess
import sys
import threading
import time

VERIF = os.path.dirname(os.path.dirname(os.path.abspath(__file__)))
sys.path.insert(0, os.path.join(VERIF, "tools"))
from run_seeded import write_md  # noqa: E402

BASE = "/tmp/seeded_workers"


def sh(cmd, **kw):
    return subprocess.run(cmd, shell=True, capture_output=True, text=True, **kw)


def setup_worker(i):
    d = os.path.join(BASE, str(i))
    sh(f"rm -rf {d}; mkdir -p {d}")
    sh(f"git -C {VERIF} worktree add --detach -f {d}/verif HEAD")
    sh(f"git -C /repo worktree add --detach -f {d}/repo HEAD")
    b = sh("lake build", cwd=f"{d}/verif/lean", timeout=3600)
    if b.returncode != 0:
        raise RuntimeError("worker %d: lake build failed: %s" % (i, b.stdout[-500:]))
    return d


def main():
    ap = argparse.ArgumentParser()
    ap.add_argument("-j", type=int, default=5)
    ap.add_argument("--tier", default="quick")
    ap.add_argument("--dir", default="seeded",
                    help="seeded (property-breaking changes: exit 1 expected) or harmless "
                         "(behaviour-preserving rewrites: exit 0 expected)")
    ap.add_argument("--seed", default=None, help="VERIF_SEED for the checks (default: the check's own default, 0)")
    ap.add_argument("--out", default="RESULTS", help="results file stem under the directory (RESULTS.json / RESULTS.md)")
    ap.add_argument("--base", default=BASE, help="scratch directory for the workers' worktrees")
    ap.add_argument("ids", nargs="*")
    args = ap.parse_args()
    globals()["BASE"] = args.base
    sdir = os.path.join(VERIF, args.dir)
    harmless = args.dir != "seeded"
    ids = args.ids or sorted(d for d in os.listdir(sdir) if os.path.isdir(os.path.join(sdir, d)))
    rpath = os.path.join(sdir, args.out + ".json")
    results = json.load(open(rpath)) if os.path.exists(rpath) else {}
    q = queue.Queue()
    for sid in ids:
        q.put(sid)
    lock = threading.Lock()

    def work(i):
        d = setup_worker(i)
        while True:
            try:
                sid = q.get_nowait()
            except queue.Empty:
                return
            meta = json.load(open(os.path.join(sdir, sid, "meta.json")))
            prop = meta["property"]
            patch = os.path.join(sdir, sid, "patch.diff")
            a = sh(f"git -C {d}/repo apply --whitespace=nowarn {patch}")
            if a.returncode != 0:
                res = {"property": prop, "status": "patch does not apply", "detail": a.stderr[-300:]}
            else:
                t0 = time.time()
                try:
                    r = sh(f"./check {prop} --tier {args.tier}", cwd=f"{d}/verif", timeout=3600,
                           env=dict(os.environ, VERIF_REPO=f"{d}/repo", **({"VERIF_SEED": str(args.seed)} if args.seed is not None else {})))
                    lines = [l for l in r.stdout.split("\n") if l.startswith(("VIOLATION", "KNOWN-FINDING", "CHECK-ERROR"))]
                    status = {0: "MISSED", 1: "caught"}.get(r.returncode, f"exit {r.returncode}")
                    if harmless:
                        status = {0: "quiet", 1: "ALARM"}.get(r.returncode, f"exit {r.returncode}")
                    if r.returncode == 1 and all("no-failing-input-found" in l for l in lines if l.startswith("VIOLATION")):
                        status = "ALARM (no failing input found)" if harmless else "caught (no failing input found)"
                    res = {"property": prop, "status": status, "tier": args.tier, "lines": lines[:6],
                           "wall_s": round(time.time() - t0, 1), "summary": r.stdout.strip().split("\n")[-1][:300]}
                except subprocess.TimeoutExpired:
                    res = {"property": prop, "status": "timeout"}
            sh(f"git -C {d}/repo checkout -- .")
            sh(f"git -C {d}/repo clean -fdq -- pyatv")
            with lock:
                results[sid] = res
                print(f"{sid:48s} {prop}  {res['status']}", flush=True)

    threads = [threading.Thread(target=work, args=(i,)) for i in range(args.j)]
    for t in threads:
        t.start()
        time.sleep(2)
    for t in threads:
        t.join()
    for i in range(args.j):
        d = os.path.join(BASE, str(i))
        sh(f"git -C /repo worktree remove --force {d}/repo")
        sh(f"git -C {VERIF} worktree remove --force {d}/verif")
    sh(f"rm -rf {BASE}; git -C /repo worktree prune; git -C {VERIF} worktree prune")
    # merge with what another invocation may have written meanwhile: only the ids run here
    current = json.load(open(rpath)) if os.path.exists(rpath) else {}
    current.update({sid: results[sid] for sid in ids if sid in results})
    results = current
    json.dump(results, open(rpath, "w"), indent=1, sort_keys=True)
    if harmless:
        with open(os.path.join(sdir, "RESULTS.md"), "w") as f:
            f.write("# Behaviour-preserving rewrites: expected quiet (exit 0)\n\n| change | property | result |\n|---|---|---|\n")
            for sid in sorted(results):
                f.write(f"| {sid} | {results[sid]['property']} | {results[sid]['status']} |\n")
        loud = [s for s in ids if results.get(s, {}).get("status") != "quiet"]
        print(f"{len(ids)} harmless changes run, {len(loud)} not quiet: {loud}")
        return
    if args.out == "RESULTS":
        write_md(sdir, results)
    missed = [s for s in ids if results.get(s, {}).get("status") == "MISSED"]
    print(f"{len(ids)} seeded changes run, {len(missed)} missed: {missed}")


if __name__ == "__main__":
    main()
