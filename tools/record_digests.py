#!/usr/bin/env python3
"""Record the digests of every property's anchor files as they are in /repo now
(meta/anchor_digests.json).  Run after the model has been reconciled with the code."""
import hashlib
import json
import os

VERIF = os.path.dirname(os.path.dirname(os.path.abspath(__file__)))
REPO = os.environ.get("VERIF_REPO", "/repo")
out = {}
for line in open(os.path.join(VERIF, "properties.jsonl")):
    if line.strip():
        p = json.loads(line)
        out[p["id"]] = {}
        for f in p["anchors"]["files"]:
            try:
                out[p["id"]][f] = hashlib.sha256(open(os.path.join(REPO, f), "rb").read()).hexdigest()[:16]
            except OSError:
                out[p["id"]][f] = "missing"
json.dump(out, open(os.path.join(VERIF, "meta", "anchor_digests.json"), "w"), indent=1, sort_keys=True)
print("recorded", sum(len(v) for v in out.values()), "file digests")
