"""Gen/C04DnsConsts.lean — record type numbers and limits pyatv.support.dns dispatches on."""
import inspect
import re


def generate():
    from pyatv.support import dns

    qt = dns.QueryType
    src = inspect.getsource(dns.qname_encode)
    m = re.search(r"while encoded_length > (\d+)", src)
    assert m, "qname_encode no longer has the `while encoded_length > N` loop"
    src2 = inspect.getsource(dns.parse_domain_name)
    m2 = re.search(r"length & (0x[0-9A-Fa-f]+)\n", src2) or re.search(r"high_bits: int = length & (0x[0-9A-Fa-f]+)", src2)
    assert m2, "parse_domain_name no longer masks the pointer's high bits"
    body = (
        "namespace PyatvModel.Gen.C04Dns\n\n"
        f"/-- pyatv.support.dns.QueryType -/\n"
        f"def qtA : Nat := {int(qt.A)}\n"
        f"def qtPTR : Nat := {int(qt.PTR)}\n"
        f"def qtTXT : Nat := {int(qt.TXT)}\n"
        f"def qtSRV : Nat := {int(qt.SRV)}\n"
        f"def qtANY : Nat := {int(qt.ANY)}\n"
        f"def qtMembers : List Nat := {sorted(int(x) for x in qt)}\n\n"
        f"/-- `while encoded_length > N` in qname_encode -/\n"
        f"def maxLabel : Nat := {int(m.group(1))}\n\n"
        f"/-- mask applied to the first byte of a compression pointer in parse_domain_name -/\n"
        f"def pointerMask : Nat := {int(m2.group(1), 16)}\n\n"
        "end PyatvModel.Gen.C04Dns\n"
    )
    return {"C04DnsConsts": body}
