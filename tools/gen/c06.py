"""Gen/C06Consts.lean — pair-verify constants read from the imported pyatv modules.

Module-level data (TLV tags, per-transport HKDF salt/info strings) is read directly; the
string literals used inside SRPAuthHandler.verify1 are read from its code object.  A
literal that can no longer be found is emitted as the empty byte string: the model then
disagrees with the code in the correspondence run (the generator itself never raises on
a refactored tree).
"""
import re


def _bytes_lit(data: bytes) -> str:
    return "[" + ", ".join("0x%02x" % b for b in data) + "]"


def _code_strings(func):
    out = []
    code = getattr(func, "__code__", None)
    if code is not None:
        for c in code.co_consts:
            if isinstance(c, str):
                out.append(c)
    return out


def _first(strings, pattern):
    for s in strings:
        if re.fullmatch(pattern, s):
            return s
    return ""


def generate():
    from pyatv.auth import hap_srp
    from pyatv.auth.hap_tlv8 import TlvValue
    from pyatv.protocols.airplay import auth as airplay_auth
    from pyatv.protocols.companion import protocol as companion_protocol
    from pyatv.protocols.mrp import protocol as mrp_protocol

    strings = _code_strings(hap_srp.SRPAuthHandler.verify1)
    items = [
        ("pvSalt", "literal in SRPAuthHandler.verify1", _first(strings, r"Pair-Verify-Encrypt-Salt")),
        ("pvInfo", "literal in SRPAuthHandler.verify1", _first(strings, r"Pair-Verify-Encrypt-Info")),
        ("msg02", "nonce literal in SRPAuthHandler.verify1", _first(strings, r"PV-Msg02")),
        ("msg03", "nonce literal in SRPAuthHandler.verify1", _first(strings, r"PV-Msg03")),
        ("mrpSalt", "pyatv.protocols.mrp.protocol.SRP_SALT", mrp_protocol.SRP_SALT),
        ("mrpOutInfo", "pyatv.protocols.mrp.protocol.SRP_OUTPUT_INFO", mrp_protocol.SRP_OUTPUT_INFO),
        ("mrpInInfo", "pyatv.protocols.mrp.protocol.SRP_INPUT_INFO", mrp_protocol.SRP_INPUT_INFO),
        ("companionSalt", "pyatv.protocols.companion.protocol.SRP_SALT", companion_protocol.SRP_SALT),
        ("companionOutInfo", "pyatv.protocols.companion.protocol.SRP_OUTPUT_INFO", companion_protocol.SRP_OUTPUT_INFO),
        ("companionInInfo", "pyatv.protocols.companion.protocol.SRP_INPUT_INFO", companion_protocol.SRP_INPUT_INFO),
        ("airplaySalt", "pyatv.protocols.airplay.auth.CONTROL_SALT", airplay_auth.CONTROL_SALT),
        ("airplayOutInfo", "pyatv.protocols.airplay.auth.CONTROL_OUTPUT_INFO", airplay_auth.CONTROL_OUTPUT_INFO),
        ("airplayInInfo", "pyatv.protocols.airplay.auth.CONTROL_INPUT_INFO", airplay_auth.CONTROL_INPUT_INFO),
    ]
    tags = [
        ("tagIdentifier", TlvValue.Identifier),
        ("tagPublicKey", TlvValue.PublicKey),
        ("tagEncryptedData", TlvValue.EncryptedData),
        ("tagSeqNo", TlvValue.SeqNo),
        ("tagError", TlvValue.Error),
        ("tagSignature", TlvValue.Signature),
    ]
    body = "namespace PyatvModel.Gen.C06\n\n"
    for name, where, value in items:
        body += f"/-- {where}: {value!r} -/\ndef {name} : List UInt8 := {_bytes_lit(str(value).encode())}\n\n"
    for name, value in tags:
        body += f"/-- pyatv.auth.hap_tlv8.TlvValue.{value.name} -/\ndef {name} : UInt8 := {int(value)}\n\n"
    body += "end PyatvModel.Gen.C06\n"
    return {"C06Consts": body}
