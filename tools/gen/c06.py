"""Gen/C06Consts.lean — pair-verify constants read from the imported pyatv modules.

Module-level data (TLV tags, per-transport HKDF salt/info strings) is read directly; the
string literals used by SRPAuthHandler.verify1 are read from its code object, from the module
constants it names and from the helpers of the same class/module it calls (three levels), so
hoisting a literal to a constant or extracting a helper does not lose it.  A literal that can no
longer be found is emitted as the empty byte string: the model then
disagrees with the code in the correspondence run (the generator itself never raises on
a refactored tree).
"""
import re


def _bytes_lit(data: bytes) -> str:
    return "[" + ", ".join("0x%02x" % b for b in data) + "]"


def _reachable_literals(func, owner=None, module=None, depth=3, seen=None):
    """String/bytes literals a function can use, as bytes, in discovery order: its own constants
    (nested code objects included), module-level constants it names, and — followed up to `depth`
    levels — the helpers it calls that live in the same class (`self._helper`) or module.  So a
    literal that is hoisted to a module constant or moves into an extracted helper is still found."""
    import types

    seen = set() if seen is None else seen
    func = getattr(func, "__func__", func)
    code = getattr(func, "__code__", None)
    if code is None or code in seen:
        return []
    seen.add(code)
    if module is None:
        import sys

        module = sys.modules.get(getattr(func, "__module__", ""), None)
    out = []

    def lit(value):
        if isinstance(value, str):
            out.append(value.encode())
        elif isinstance(value, bytes):
            out.append(value)
        elif isinstance(value, (tuple, frozenset)):
            for x in value:
                lit(x)

    def walk(c):
        names = list(c.co_names)
        for const in c.co_consts:
            if isinstance(const, types.CodeType):
                names += walk(const)
            else:
                lit(const)
        return names

    for name in walk(code):
        candidates = []
        if module is not None and name in getattr(module, "__dict__", {}):
            candidates.append(module.__dict__[name])
        if owner is not None and hasattr(owner, name):
            candidates.append(getattr(owner, name))
        for value in candidates:
            if isinstance(value, (str, bytes)):
                lit(value)
            elif depth > 0 and isinstance(getattr(value, "__func__", value), types.FunctionType):
                target = getattr(value, "__func__", value)
                if module is None or getattr(target, "__module__", None) == getattr(module, "__name__", None):
                    out.extend(_reachable_literals(target, owner, module, depth - 1, seen))
    return out


def _first(literals, pattern):
    for s in literals:
        try:
            if re.fullmatch(pattern, s.decode()):
                return s.decode()
        except UnicodeDecodeError:
            continue
    return ""


def _named(module, name, func, owner, pattern):
    """A module-level constant by name; if it was renamed/moved, the literal reachable from the code
    that uses it and matching `pattern` (empty string if that fails too: the correspondence reports it)."""
    value = getattr(module, name, None)
    if isinstance(value, str):
        return value
    if isinstance(value, bytes):
        return value.decode("latin-1")
    return _first(_reachable_literals(func, owner, module), pattern) if func is not None else ""


def generate():
    from pyatv.auth import hap_srp
    from pyatv.auth.hap_tlv8 import TlvValue
    from pyatv.protocols.airplay import auth as airplay_auth
    from pyatv.protocols.companion import protocol as companion_protocol
    from pyatv.protocols.mrp import protocol as mrp_protocol

    srp_cls = getattr(hap_srp, "SRPAuthHandler", None)
    strings = _reachable_literals(getattr(srp_cls, "verify1", None), srp_cls, hap_srp)
    mrp_cls = getattr(mrp_protocol, "MrpProtocol", None)
    comp_cls = getattr(companion_protocol, "CompanionProtocol", None)
    mrp_f = getattr(mrp_cls, "_enable_encryption", None) or getattr(mrp_cls, "start", None)
    comp_f = getattr(comp_cls, "_setup_encryption", None) or getattr(comp_cls, "start", None)
    air_f = getattr(airplay_auth, "verify_connection", None)
    items = [
        ("pvSalt", "literal in SRPAuthHandler.verify1", _first(strings, r"Pair-Verify-Encrypt-Salt")),
        ("pvInfo", "literal in SRPAuthHandler.verify1", _first(strings, r"Pair-Verify-Encrypt-Info")),
        ("msg02", "nonce literal in SRPAuthHandler.verify1", _first(strings, r"PV-Msg02")),
        ("msg03", "nonce literal in SRPAuthHandler.verify1", _first(strings, r"PV-Msg03")),
        ("mrpSalt", "pyatv.protocols.mrp.protocol.SRP_SALT", _named(mrp_protocol, "SRP_SALT", mrp_f, mrp_cls, r"MediaRemote-Salt")),
        ("mrpOutInfo", "pyatv.protocols.mrp.protocol.SRP_OUTPUT_INFO", _named(mrp_protocol, "SRP_OUTPUT_INFO", mrp_f, mrp_cls, r"MediaRemote-Write-.*")),
        ("mrpInInfo", "pyatv.protocols.mrp.protocol.SRP_INPUT_INFO", _named(mrp_protocol, "SRP_INPUT_INFO", mrp_f, mrp_cls, r"MediaRemote-Read-.*")),
        ("companionSalt", "pyatv.protocols.companion.protocol.SRP_SALT", _named(companion_protocol, "SRP_SALT", None, None, r"")),
        ("companionOutInfo", "pyatv.protocols.companion.protocol.SRP_OUTPUT_INFO", _named(companion_protocol, "SRP_OUTPUT_INFO", comp_f, comp_cls, r"ClientEncrypt-.*")),
        ("companionInInfo", "pyatv.protocols.companion.protocol.SRP_INPUT_INFO", _named(companion_protocol, "SRP_INPUT_INFO", comp_f, comp_cls, r"ServerEncrypt-.*")),
        ("airplaySalt", "pyatv.protocols.airplay.auth.CONTROL_SALT", _named(airplay_auth, "CONTROL_SALT", air_f, None, r"Control-Salt")),
        ("airplayOutInfo", "pyatv.protocols.airplay.auth.CONTROL_OUTPUT_INFO", _named(airplay_auth, "CONTROL_OUTPUT_INFO", air_f, None, r"Control-Write-.*")),
        ("airplayInInfo", "pyatv.protocols.airplay.auth.CONTROL_INPUT_INFO", _named(airplay_auth, "CONTROL_INPUT_INFO", air_f, None, r"Control-Read-.*")),
    ]
    tags = [
        ("tagIdentifier", TlvValue.Identifier),
        ("tagPublicKey", TlvValue.PublicKey),
        ("tagEncryptedData", TlvValue.EncryptedData),
        ("tagSeqNo", TlvValue.SeqNo),
        ("tagError", TlvValue.Error),
        ("tagSignature", TlvValue.Signature),
    ]
    body = "namespace PyatvModel.Gen.C06\n\n"
    for name, where, value in items:
        body += f"/-- {where}: {value!r} -/\ndef {name} : List UInt8 := {_bytes_lit(str(value).encode())}\n\n"
    for name, value in tags:
        body += f"/-- pyatv.auth.hap_tlv8.TlvValue.{value.name} -/\ndef {name} : UInt8 := {int(value)}\n\n"
    body += "end PyatvModel.Gen.C06\n"
    return {"C06Consts": body}
