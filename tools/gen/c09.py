"""Gen/C09Facade.lean — the facade's public-member table, read from the real classes.

A real `FacadeAppleTV` is constructed (no protocols, no event loop needed) and, for the
top object and for every object in its `_interfaces` map, every public member that the
corresponding `pyatv.interface` class declares is looked up on the facade class and
classified:

  guarded      the facade's definition is wrapped by `shield.guard` (through `property`,
               `deprecated`, ... — the `__wrapped__` chain contains guard's wrapper)
  closeExempt  `AppleTV.close` (the property text itself says it stays callable)
  derived via  not overridden by the facade: the interface's default body, which touches
               the device only through the listed `self.<member>` calls
  unguarded    anything else

Members that come from `StateProducer` (`listener`, `state_was_updated`) are not part of
the interface contracts and are not listed.  Also emitted: `max_calls` of the facade's
device-listener producer, the object list, the index of the push updater object.
"""
import ast
import inspect
import textwrap


def _guard_code():
    from pyatv.support import shield

    return shield.guard(lambda self: None).__code__


def _is_guarded(obj, guard_code):
    fn = obj.fget if isinstance(obj, property) else obj
    seen = 0
    while fn is not None and seen < 20:
        code = getattr(fn, "__code__", None)
        if code is guard_code:
            return True
        fn = getattr(fn, "__wrapped__", None)
        seen += 1
    return False


def _self_calls(func, names):
    """public members of the same interface that `func`'s body reaches through `self.`"""
    try:
        tree = ast.parse(textwrap.dedent(inspect.getsource(func)))
    except (OSError, TypeError, SyntaxError):
        return []
    out = []
    for node in ast.walk(tree):
        if isinstance(node, ast.Attribute) and isinstance(node.value, ast.Name) and node.value.id == "self":
            if node.attr in names and node.attr not in out:
                out.append(node.attr)
    return out


def build_facade():
    """A real FacadeAppleTV without protocols (construction needs no loop)."""
    from pyatv.core import CoreStateDispatcher
    from pyatv.core.facade import FacadeAppleTV

    return FacadeAppleTV(None, None, CoreStateDispatcher(), None)


def table(atv=None):
    """-> dict(max_calls, objects=[(iface_name, facade_class_name)], push_obj, members=[row])
    row = dict(obj, iface, name, kind, via=[member indices], is_property, is_async)"""
    from pyatv import interface

    if atv is None:
        atv = build_facade()
    guard_code = _guard_code()
    objects = [(interface.AppleTV, atv)] + list(atv._interfaces.items())
    rows = []
    for oi, (iface, inst) in enumerate(objects):
        cls = type(inst)
        names = []
        for name in sorted(dir(iface)):
            if name.startswith("_"):
                continue
            owner = next((b for b in iface.__mro__ if name in vars(b)), None)
            if owner is None or owner.__module__ != "pyatv.interface":
                continue
            names.append(name)
        for name in names:
            fowner = next(b for b in cls.__mro__ if name in vars(b))
            obj = vars(fowner)[name]
            fn = obj.fget if isinstance(obj, property) else obj
            if isinstance(fn, (staticmethod, classmethod)):
                fn = fn.__func__
            via = []
            if _is_guarded(obj, guard_code):
                kind = "guarded"
            elif iface is interface.AppleTV and name == "close":
                kind = "closeExempt"
            elif fowner.__module__ == "pyatv.interface":
                via = [n for n in _self_calls(fn, names) if n != name]
                kind = "derived" if via else "unguarded"
            else:
                kind = "unguarded"
            rows.append({
                "obj": oi, "iface": iface.__name__, "name": name, "kind": kind, "via_names": via,
                "is_property": isinstance(obj, property),
                "is_async": inspect.iscoroutinefunction(inspect.unwrap(fn)) if callable(fn) else False,
            })
    index = {(r["obj"], r["name"]): i for i, r in enumerate(rows)}
    for r in rows:
        r["via"] = [index[(r["obj"], n)] for n in r["via_names"]]
    push_obj = next(i for i, (iface, _inst) in enumerate(objects) if iface is interface.PushUpdater)
    return {
        "max_calls": atv.max_calls,
        "objects": [(iface.__name__, type(inst).__name__) for iface, inst in objects],
        "push_obj": push_obj,
        "members": rows,
    }


def generate():
    t = table()
    assert isinstance(t["max_calls"], int) and t["max_calls"] >= 0
    lines = ["namespace PyatvModel.Gen.C09", ""]
    lines += [
        "/-- how a public member of a facade object is protected -/",
        "inductive Guard",
        "  | guarded                    -- wrapped by `shield.guard`",
        "  | unguarded",
        "  | closeExempt                -- `AppleTV.close`",
        "  | derived (via : List Nat)   -- interface default body; reaches the device only through these members",
        "  deriving DecidableEq, Repr",
        "",
        "structure Row where",
        "  obj : Nat",
        "  name : String",
        "  guard : Guard",
        "  deriving DecidableEq, Repr",
        "",
        "/-- `max_calls` of the StateProducer that `FacadeAppleTV.__init__` creates for the device listener -/",
        f"def maxCalls : Nat := {t['max_calls']}",
        "",
        "/-- shielded objects: 0 = the FacadeAppleTV itself, then `_interfaces` in dict order -/",
        "def objects : List String := [" + ", ".join('"%s"' % o[0] for o in t["objects"]) + "]",
        "",
        f"def pushObj : Nat := {t['push_obj']}",
        "",
        "/-- every public member the `pyatv.interface` classes declare, as found on the facade classes -/",
        "def members : List Row := [",
    ]
    body = []
    for r in t["members"]:
        if r["kind"] == "derived":
            g = ".derived [" + ", ".join(str(v) for v in r["via"]) + "]"
        else:
            g = "." + r["kind"]
        body.append(f'  ⟨{r["obj"]}, "{r["iface"]}.{r["name"]}", {g}⟩')
    lines.append(",\n".join(body))
    lines += ["]", "", "end PyatvModel.Gen.C09", ""]
    return {"C09Facade": "\n".join(lines)}
