"""Gen/C11Consts.lean — identifiers and enum numbers the MRP now-playing model depends on,
read from the imported real modules (pyatv.protocols.mrp.player_state / protobuf, pyatv.const)."""


def generate():
    from pyatv import const
    from pyatv.protocols.mrp import player_state
    from pyatv.protocols.mrp import protobuf as pb
    from pyatv.protocols.mrp.protobuf import CommandInfo_pb2

    assert isinstance(player_state.DEFAULT_PLAYER_ID, str) and player_state.DEFAULT_PLAYER_ID
    assert '"' not in player_state.DEFAULT_PLAYER_ID and "\\" not in player_state.DEFAULT_PLAYER_ID
    rows = [
        ("psUnknown", pb.PlaybackState.Unknown, "pb.PlaybackState.Unknown"),
        ("psPlaying", pb.PlaybackState.Playing, "pb.PlaybackState.Playing"),
        ("psPaused", pb.PlaybackState.Paused, "pb.PlaybackState.Paused"),
        ("psStopped", pb.PlaybackState.Stopped, "pb.PlaybackState.Stopped"),
        ("psInterrupted", pb.PlaybackState.Interrupted, "pb.PlaybackState.Interrupted"),
        ("psSeeking", pb.PlaybackState.Seeking, "pb.PlaybackState.Seeking"),
        ("shuffleModeOff", pb.ShuffleMode.Off, "pb.ShuffleMode.Off"),
        ("shuffleModeAlbums", pb.ShuffleMode.Albums, "pb.ShuffleMode.Albums"),
        ("repeatModeOne", pb.RepeatMode.One, "pb.RepeatMode.One"),
        ("repeatModeAll", pb.RepeatMode.All, "pb.RepeatMode.All"),
        ("cmdChangeShuffleMode", CommandInfo_pb2.ChangeShuffleMode, "CommandInfo_pb2.ChangeShuffleMode"),
        ("cmdChangeRepeatMode", CommandInfo_pb2.ChangeRepeatMode, "CommandInfo_pb2.ChangeRepeatMode"),
        ("dsIdle", const.DeviceState.Idle.value, "const.DeviceState.Idle"),
        ("dsLoading", const.DeviceState.Loading.value, "const.DeviceState.Loading"),
        ("dsPaused", const.DeviceState.Paused.value, "const.DeviceState.Paused"),
        ("dsPlaying", const.DeviceState.Playing.value, "const.DeviceState.Playing"),
        ("dsStopped", const.DeviceState.Stopped.value, "const.DeviceState.Stopped"),
        ("dsSeeking", const.DeviceState.Seeking.value, "const.DeviceState.Seeking"),
        ("shuffleOff", const.ShuffleState.Off.value, "const.ShuffleState.Off"),
        ("shuffleAlbums", const.ShuffleState.Albums.value, "const.ShuffleState.Albums"),
        ("shuffleSongs", const.ShuffleState.Songs.value, "const.ShuffleState.Songs"),
        ("repeatOff", const.RepeatState.Off.value, "const.RepeatState.Off"),
        ("repeatTrack", const.RepeatState.Track.value, "const.RepeatState.Track"),
        ("repeatAll", const.RepeatState.All.value, "const.RepeatState.All"),
        ("msgSetState", pb.SET_STATE_MESSAGE, "pb.SET_STATE_MESSAGE"),
        ("msgUpdateContentItem", pb.UPDATE_CONTENT_ITEM_MESSAGE, "pb.UPDATE_CONTENT_ITEM_MESSAGE"),
        ("msgSetNowPlayingClient", pb.SET_NOW_PLAYING_CLIENT_MESSAGE, "pb.SET_NOW_PLAYING_CLIENT_MESSAGE"),
        ("msgSetNowPlayingPlayer", pb.SET_NOW_PLAYING_PLAYER_MESSAGE, "pb.SET_NOW_PLAYING_PLAYER_MESSAGE"),
        ("msgUpdateClient", pb.UPDATE_CLIENT_MESSAGE, "pb.UPDATE_CLIENT_MESSAGE"),
        ("msgRemoveClient", pb.REMOVE_CLIENT_MESSAGE, "pb.REMOVE_CLIENT_MESSAGE"),
        ("msgRemovePlayer", pb.REMOVE_PLAYER_MESSAGE, "pb.REMOVE_PLAYER_MESSAGE"),
        ("msgSetDefaultSupportedCommands", pb.SET_DEFAULT_SUPPORTED_COMMANDS_MESSAGE,
         "pb.SET_DEFAULT_SUPPORTED_COMMANDS_MESSAGE"),
    ]
    # proto2 defaults: what reading an unset optional field yields (the handlers read these
    # fields without HasField)
    from pyatv.protocols.mrp.protobuf import PlaybackQueue_pb2

    def default(msg, field):
        f = msg.DESCRIPTOR.fields_by_name[field]
        assert not f.is_repeated if hasattr(f, "is_repeated") else f.label != f.LABEL_REPEATED
        return f.default_value

    rows += [
        ("defLocation", default(PlaybackQueue_pb2.PlaybackQueue, "location"), "default of PlaybackQueue.location"),
        ("defCommand", default(CommandInfo_pb2.CommandInfo, "command"), "default of CommandInfo.command"),
        ("defShuffleMode", default(CommandInfo_pb2.CommandInfo, "shuffleMode"), "default of CommandInfo.shuffleMode"),
        ("defRepeatMode", default(CommandInfo_pb2.CommandInfo, "repeatMode"), "default of CommandInfo.repeatMode"),
    ]
    from pyatv.protocols.mrp.protobuf import NowPlayingClient_pb2, NowPlayingPlayer_pb2, ContentItem_pb2
    for msg, field in ((NowPlayingClient_pb2.NowPlayingClient, "bundleIdentifier"),
                       (NowPlayingClient_pb2.NowPlayingClient, "displayName"),
                       (NowPlayingPlayer_pb2.NowPlayingPlayer, "identifier"),
                       (ContentItem_pb2.ContentItem, "identifier")):
        assert default(msg, field) == "", (msg, field)   # the model's identifier code 0
    out = ["namespace PyatvModel.Gen.C11\n"]
    out.append("/-- pyatv.protocols.mrp.player_state.DEFAULT_PLAYER_ID -/")
    out.append(f'def defaultPlayerId : String := "{player_state.DEFAULT_PLAYER_ID}"\n')
    for name, val, doc in rows:
        val = int(val)
        assert val >= 0
        out.append(f"/-- {doc} -/\ndef {name} : Nat := {val}\n")
    out.append("end PyatvModel.Gen.C11\n")
    return {"C11Consts": "\n".join(out)}
