"""Gen/C19Consts.lean — heartbeat constants read from pyatv.core.protocol."""
import inspect


def generate():
    from pyatv.core import protocol

    sig = inspect.signature(protocol.heartbeater)
    retries_default = sig.parameters["retries"].default
    assert isinstance(retries_default, int) and retries_default >= 0
    assert isinstance(protocol.HEARTBEAT_RETRIES, int)
    body = (
        "namespace PyatvModel.Gen.C19\n\n"
        f"/-- pyatv.core.protocol.HEARTBEAT_RETRIES -/\ndef heartbeatRetries : Nat := {protocol.HEARTBEAT_RETRIES}\n\n"
        f"/-- default of `heartbeater(retries=...)` -/\ndef defaultRetries : Nat := {retries_default}\n\n"
        "end PyatvModel.Gen.C19\n"
    )
    return {"C19Consts": body}
