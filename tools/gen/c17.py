"""Gen/C17Consts.lean — buffer/headroom sizes the audio sources are built with."""


def generate():
    from pyatv.protocols.raop import audio_source
    from pyatv.support import buffer

    vals = {
        "bufferSize": audio_source.BUFFER_SIZE,
        "headroomSize": audio_source.HEADROOM_SIZE,
        "defaultBufferSize": buffer.BUFFER_SIZE,
        "defaultHeadroomSize": buffer.HEADROOM_SIZE,
        "iceBlockSize": audio_source.PatchedIceCastClient.BLOCK_SIZE,
    }
    for k, v in vals.items():
        assert isinstance(v, int) and v >= 0, (k, v)
    doc = {
        "bufferSize": "pyatv.protocols.raop.audio_source.BUFFER_SIZE (both production buffers)",
        "headroomSize": "pyatv.protocols.raop.audio_source.HEADROOM_SIZE",
        "defaultBufferSize": "pyatv.support.buffer.BUFFER_SIZE (constructor default)",
        "defaultHeadroomSize": "pyatv.support.buffer.HEADROOM_SIZE (constructor default)",
        "iceBlockSize": "PatchedIceCastClient.BLOCK_SIZE",
    }
    body = "namespace PyatvModel.Gen.C17\n\n"
    for k, v in vals.items():
        body += f"/-- {doc[k]} -/\ndef {k} : Nat := {v}\n\n"
    body += "end PyatvModel.Gen.C17\n"
    return {"C17Consts": body}
