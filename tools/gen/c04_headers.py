"""Gen/C04Headers.lean — every `defpacket` layout of the source tree (tie A).

Finds the modules that use `pyatv.support.packet.defpacket` (source scan), imports them,
and determines for each packet class the `struct` format and the field names: a format string
or compiled `struct.Struct` captured by the class's methods is taken when the class behaves
accordingly (a probe tuple encodes to the same bytes and decodes back), otherwise the layout is
PROBED behaviourally (marker values through the real encode/decode); field names come from
decoding a zero buffer; `.length` is read from the class.  Printed as data only;
the model (`PyatvModel/C04/Headers/Model.lean`) interprets the format characters.
"""
import importlib
import os
import re
import struct


def _closure_values(obj):
    """every value captured by the closures of the class's static methods"""
    vals = []
    for name in ("decode", "encode", "extend"):
        fn = getattr(obj, name, None)
        fn = getattr(fn, "__func__", fn)
        code, clo = getattr(fn, "__code__", None), getattr(fn, "__closure__", None) or ()
        if code is None:
            continue
        for var, cell in zip(code.co_freevars, clo):
            try:
                vals.append((var, cell.cell_contents))
            except ValueError:
                pass
    return vals


def _probe_values(fmt):
    _order, fields = parse_fmt(fmt)
    vals = []
    for i, (code, n) in enumerate(fields):
        if code == "s":
            vals.append(bytes((17 * i + j + 1) % 256 for j in range(n)))
        else:
            w = struct.calcsize(">" + code)
            vals.append(int.from_bytes(bytes((29 * i + j + 1) % 256 for j in range(w)), "big") % (256 ** w))
    return vals


def _confirms(obj, fmt):
    """does `fmt` describe what the class really does?  (behavioural confirmation of a format
    string found in the code: same bytes for a probe tuple with pairwise distinct bytes, same
    size, and the probe decodes back)"""
    try:
        vals = _probe_values(fmt)
        data = obj.encode(*vals)
        return (struct.calcsize(fmt) == obj.length and data == struct.pack(fmt, *vals)
                and list(obj.decode(data)) == vals)
    except Exception:
        return False


def probe_layout(obj):
    """Determine the layout BEHAVIOURALLY (no format string found in the code): field kinds from
    decoding an all-zero buffer, widths / offsets / byte order from encoding marker values."""
    n = obj.length
    zero = obj.decode(bytes(n))
    kinds = ["s" if isinstance(v, (bytes, bytearray)) else "i" for v in zero]
    base = [b"" if k == "s" else 0 for k in kinds]
    fields, order, pos = [], None, 0
    for i, k in enumerate(kinds):
        vals = list(base)
        if k == "s":
            vals[i] = b"\xff" * (n + 1)
            marks = [j for j, b in enumerate(obj.encode(*vals)) if b == 0xFF]
            width = len(marks)
            assert marks == list(range(pos, pos + width)), (i, marks, pos)
            fields.append(("s", width))
        else:
            width = None
            for cand in (1, 2, 4, 8):
                vals[i] = 256 ** cand - 1
                try:
                    enc = obj.encode(*vals)
                except struct.error:
                    break
                width, marks = cand, [j for j, b in enumerate(enc) if b == 0xFF]
            assert width is not None and marks == list(range(pos, pos + width)), (i, width, pos)
            vals[i] = -1
            try:
                obj.encode(*vals)
                raise AssertionError("signed field %d: not modelled" % i)
            except struct.error:
                pass
            if width > 1:
                vals[i] = 1
                one = obj.encode(*vals).index(1)
                this = ">" if one == pos + width - 1 else "<"
                assert order in (None, this), "mixed byte order"
                order = this
            fields.append(({1: "B", 2: "H", 4: "I", 8: "Q"}[width], 1))
        pos += width
    assert pos == n, (pos, n)
    return (order or ">") + "".join((str(c) + "s") if k == "s" else k for k, c in fields)


def layout_format(obj):
    """-> (struct format, how it was found).  A format string or a compiled `struct.Struct`
    captured by the class's methods is used when the class behaves accordingly; otherwise the
    layout is probed."""
    cands = []
    for var, val in _closure_values(obj):
        if isinstance(val, str):
            cands.append((0 if var == "fmt" else 1, val, "format string `%s` in the code" % var))
        elif isinstance(val, struct.Struct):
            cands.append((0, val.format if isinstance(val.format, str) else val.format.decode(), "compiled struct.Struct `%s` in the code" % var))
    for _prio, fmt, how in sorted(cands, key=lambda c: c[0]):
        if _confirms(obj, fmt):
            return fmt, how
    fmt = probe_layout(obj)
    assert _confirms(obj, fmt), ("probed layout not confirmed", fmt)
    return fmt, "PROBED behaviourally (no usable format string found in the code)"


def find_packets(with_how=False):
    import pyatv

    root = os.path.dirname(pyatv.__file__)
    mods = []
    for dirpath, _dirs, files in os.walk(root):
        for f in sorted(files):
            if not f.endswith(".py"):
                continue
            path = os.path.join(dirpath, f)
            text = open(path, encoding="utf-8").read()
            if "defpacket" in text and not path.endswith(os.path.join("support", "packet.py")):
                rel = os.path.relpath(path, os.path.dirname(root))[:-3].replace(os.sep, ".")
                mods.append(rel)
    out = []
    for modname in sorted(mods):
        mod = importlib.import_module(modname)
        for attr in sorted(vars(mod)):
            obj = getattr(mod, attr)
            if not (isinstance(obj, type) and all(hasattr(obj, a) for a in ("decode", "encode", "extend", "length"))):
                continue
            fmt, how = layout_format(obj)
            fnames = list(obj.decode(bytes(obj.length))._fields)
            out.append((modname, attr, obj, fmt, fnames) + ((how,) if with_how else ()))
    return out


def parse_fmt(fmt):
    order = fmt[0]
    assert order in "<>!=@", fmt
    toks = re.findall(r"(\d*)([a-zA-Z?])", fmt[1:])
    assert "".join(a + b for a, b in toks) == fmt[1:], fmt
    fields = []
    for cnt, code in toks:
        n = int(cnt) if cnt else 1
        if code != "s":
            assert n == 1, f"repeat count on '{code}' not supported: {fmt}"
        fields.append((code, n))
    return order, fields


def generate():
    packets = find_packets(with_how=True)
    assert packets, "no defpacket classes found"
    names = [a for _m, a, *_ in packets]
    assert len(set(names)) == len(names), names
    body = ["namespace PyatvModel.Gen.C04Headers\n",
            "/-- one `defpacket` class: attribute name, module, byte-order character of the struct",
            "    format, fields (name, format character, count), `.length` (= struct.calcsize) -/",
            "structure Packet where",
            "  name : String", "  module : String", "  order : Char",
            "  fields : List (String × Char × Nat)", "  size : Nat\n"]
    for modname, attr, obj, fmt, fnames, how in packets:
        order, fields = parse_fmt(fmt)
        assert len(fields) == len(fnames), (fmt, fnames)
        assert obj.length == struct.calcsize(fmt)
        fl = ", ".join(f'("{n}", \'{c}\', {k})' for n, (c, k) in zip(fnames, fields))
        note = f" ({how})" if how.startswith("PROBED") else ""
        body.append(f"/-- {modname}.{attr}: struct format `{fmt}`{note} -/")
        body.append(f"def {attr} : Packet :=\n  {{ name := \"{attr}\", module := \"{modname}\", order := '{order}',\n"
                    f"    fields := [{fl}],\n    size := {obj.length} }}\n")
    body.append("def all : List Packet := [" + ", ".join(names) + "]\n")
    body.append("end PyatvModel.Gen.C04Headers\n")
    return {"C04Headers": "\n".join(body)}
