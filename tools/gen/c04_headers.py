"""Gen/C04Headers.lean — every `defpacket` layout of the source tree (tie A).

Finds the modules that use `pyatv.support.packet.defpacket` (source scan), imports them,
and reads from each packet class the `struct` format string and the field names (closure
of `decode`: `fmt`, `msg_type`) plus `.length` (= struct.calcsize).  Printed as data only;
the model (`PyatvModel/C04/Headers/Model.lean`) interprets the format characters.
"""
import importlib
import os
import re
import struct


def find_packets():
    import pyatv

    root = os.path.dirname(pyatv.__file__)
    mods = []
    for dirpath, _dirs, files in os.walk(root):
        for f in sorted(files):
            if not f.endswith(".py"):
                continue
            path = os.path.join(dirpath, f)
            text = open(path, encoding="utf-8").read()
            if "import defpacket" in text:
                rel = os.path.relpath(path, os.path.dirname(root))[:-3].replace(os.sep, ".")
                mods.append(rel)
    out = []
    for modname in sorted(mods):
        mod = importlib.import_module(modname)
        for attr in sorted(vars(mod)):
            obj = getattr(mod, attr)
            dec = getattr(obj, "decode", None)
            if not (isinstance(obj, type) and dec is not None and hasattr(obj, "encode") and hasattr(obj, "extend")):
                continue
            free = dict(zip(dec.__code__.co_freevars, (c.cell_contents for c in dec.__closure__)))
            fmt, msg_type = free["fmt"], free["msg_type"]
            out.append((modname, attr, obj, fmt, list(msg_type._fields)))
    return out


def parse_fmt(fmt):
    order = fmt[0]
    assert order in "<>!=@", fmt
    toks = re.findall(r"(\d*)([a-zA-Z?])", fmt[1:])
    assert "".join(a + b for a, b in toks) == fmt[1:], fmt
    fields = []
    for cnt, code in toks:
        n = int(cnt) if cnt else 1
        if code != "s":
            assert n == 1, f"repeat count on '{code}' not supported: {fmt}"
        fields.append((code, n))
    return order, fields


def generate():
    packets = find_packets()
    assert packets, "no defpacket classes found"
    names = [a for _m, a, *_ in packets]
    assert len(set(names)) == len(names), names
    body = ["namespace PyatvModel.Gen.C04Headers\n",
            "/-- one `defpacket` class: attribute name, module, byte-order character of the struct",
            "    format, fields (name, format character, count), `.length` (= struct.calcsize) -/",
            "structure Packet where",
            "  name : String", "  module : String", "  order : Char",
            "  fields : List (String × Char × Nat)", "  size : Nat\n"]
    for modname, attr, obj, fmt, fnames in packets:
        order, fields = parse_fmt(fmt)
        assert len(fields) == len(fnames), (fmt, fnames)
        assert obj.length == struct.calcsize(fmt)
        fl = ", ".join(f'("{n}", \'{c}\', {k})' for n, (c, k) in zip(fnames, fields))
        body.append(f"/-- {modname}.{attr}: struct format `{fmt}` -/")
        body.append(f"def {attr} : Packet :=\n  {{ name := \"{attr}\", module := \"{modname}\", order := '{order}',\n"
                    f"    fields := [{fl}],\n    size := {obj.length} }}\n")
    body.append("def all : List Packet := [" + ", ".join(names) + "]\n")
    body.append("end PyatvModel.Gen.C04Headers\n")
    return {"C04Headers": "\n".join(body)}
