"""Gen/C16Consts.lean — RAOP streaming constants and header layouts read from the real modules."""
import struct


def _layout(packet_cls, names):
    """Field widths (bytes) of a big-endian `defpacket`, recovered by probing encode():
    the width of field i is how far a set low bit of that field sits from the end."""
    length = packet_cls.length
    widths = []
    zero = packet_cls.encode(*([0] * len(names)))
    assert len(zero) == length and not any(zero)
    prev_end = 0
    for i in range(len(names)):
        args = [0] * len(names)
        args[i] = 1
        enc = packet_cls.encode(*args)
        pos = [j for j, b in enumerate(enc) if b]
        assert len(pos) == 1 and enc[pos[0]] == 1, "field is not a big-endian unsigned integer"
        end = pos[0] + 1
        widths.append(end - prev_end)
        prev_end = end
    assert prev_end == length
    dec = packet_cls.decode(zero)
    assert list(dec._fields) == list(names), (dec._fields, names)
    # big-endian, unsigned: the all-ones pattern must round-trip
    for i, w in enumerate(widths):
        args = [0] * len(names)
        args[i] = 256 ** w - 1
        assert packet_cls.decode(packet_cls.encode(*args))[i] == 256 ** w - 1
        try:
            args[i] = 256 ** w
            packet_cls.encode(*args)
            raise AssertionError("field wider than probed")
        except struct.error:
            pass
    return widths


def generate():
    from pyatv.protocols.raop import packets, stream_client
    from pyatv.protocols.raop import protocols as raop_protocols
    from pyatv.support import rtsp

    fpp = stream_client.FRAMES_PER_PACKET
    assert isinstance(fpp, int) and fpp > 0
    # _send_packet reads FRAMES_PER_PACKET frames; StreamContext.packet_size multiplies the
    # constant imported by the protocols package: the model uses one value for both.
    assert raop_protocols.FRAMES_PER_PACKET == fpp == rtsp.FRAMES_PER_PACKET
    backlog = stream_client.PACKET_BACKLOG_SIZE
    assert isinstance(backlog, int)
    comp = stream_client.MAX_PACKETS_COMPENSATE
    assert isinstance(comp, int)

    ctx = raop_protocols.StreamContext()
    default_latency = ctx.latency
    assert isinstance(default_latency, int)
    default_rate = ctx.sample_rate
    assert isinstance(default_rate, int)
    ctx.channels, ctx.bytes_per_channel = 3, 5
    assert ctx.frame_size == 15 and ctx.packet_size == fpp * 15
    # reset(): latency = <base> + sample_rate (affine in the sample rate; base read off two rates)
    bases = set()
    for rate in (8000, 48000, default_rate):
        probe = raop_protocols.StreamContext()
        probe.sample_rate = rate
        probe.reset()
        bases.add(probe.latency - rate)
    assert len(bases) == 1, bases
    latency_base = bases.pop()
    assert isinstance(latency_base, int) and latency_base >= 0 and default_latency == latency_base + default_rate
    fresh = raop_protocols.StreamContext()
    assert (fresh.rtpseq, fresh.start_ts, fresh.head_ts, fresh.padding_sent) == (0, 0, 0, 0)

    audio = _layout(packets.AudioPacketHeader, ["proto", "type", "seqno", "timestamp", "ssrc"])
    retr = _layout(packets.RetransmitReqeust, ["proto", "type", "seqno", "lost_seqno", "lost_packets"])

    def lst(xs):
        return "[" + ", ".join(str(x) for x in xs) + "]"

    body = (
        "namespace PyatvModel.Gen.C16\n\n"
        f"/-- pyatv.support.rtsp.FRAMES_PER_PACKET (as imported by raop.stream_client and raop.protocols) -/\n"
        f"def framesPerPacket : Nat := {fpp}\n\n"
        f"/-- pyatv.protocols.raop.stream_client.PACKET_BACKLOG_SIZE -/\n"
        f"def packetBacklogSize : Nat := {backlog}\n\n"
        f"/-- pyatv.protocols.raop.stream_client.MAX_PACKETS_COMPENSATE -/\n"
        f"def maxPacketsCompensate : Nat := {comp}\n\n"
        f"/-- StreamContext().latency (22050 + default sample rate) -/\n"
        f"def defaultLatency : Nat := {default_latency}\n\n"
        f"/-- StreamContext.reset(): latency = latencyBase + sample_rate -/\n"
        f"def latencyBase : Nat := {latency_base}\n\n"
        f"/-- StreamContext().sample_rate -/\n"
        f"def defaultSampleRate : Nat := {default_rate}\n\n"
        f"/-- field widths in bytes of packets.AudioPacketHeader (big-endian unsigned): proto,type,seqno,timestamp,ssrc -/\n"
        f"def audioHeaderLayout : List Nat := {lst(audio)}\n\n"
        f"/-- field widths in bytes of packets.RetransmitReqeust: proto,type,seqno,lost_seqno,lost_packets -/\n"
        f"def retransmitLayout : List Nat := {lst(retr)}\n\n"
        "end PyatvModel.Gen.C16\n"
    )
    return {"C16Consts": body}
