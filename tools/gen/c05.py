"""Gen/C05Regex.lean — every regular expression the code applies to strings that come from the
network during discovery and decoding, as a small syntax tree (tie A for C05).

The sites are found by walking the AST of the modules that interpret network strings and taking
every `re.<fn>(pattern, …)` call; the pattern is resolved from the *imported* module (string
literal, module-level string, module-level list iterated by the enclosing loop/comprehension,
or — for the HTTP server's routes — the literals handed to `add_route`).  A call whose pattern
cannot be resolved makes extraction fail (reported by `./check C05`: GEN_MODULES), so a new
or reshaped use of `re` cannot go unnoticed.  The *shape* of the patterns is judged in Lean
(`Props/C05Regex.extracted_flat`), the harness derives near-match attack strings from the same
trees (`sites()`, `attack_strings()`).
"""
import ast
import importlib
import inspect
import re

# modules whose code sees strings taken from datagrams / TXT records / HTTP peers
MODULES = [
    "pyatv.core.mdns", "pyatv.core.scan", "pyatv.helpers", "pyatv.conf",
    "pyatv.support.dns", "pyatv.support.http", "pyatv.support.device_info", "pyatv.support.collections",
    "pyatv.protocols.airplay", "pyatv.protocols.airplay.utils", "pyatv.protocols.raop",
    "pyatv.protocols.companion", "pyatv.protocols.mrp", "pyatv.protocols.dmap",
]
# modules that register routes of the built-in HTTP server (patterns matched against request paths)
ROUTE_MODULES = ["pyatv.protocols.airplay.server_auth", "pyatv.support.http"]
RE_FUNCS = {"match", "search", "fullmatch", "compile", "sub", "subn", "split", "findall", "finditer"}


class Unresolved(Exception):
    pass


def _parents(tree):
    par = {}
    for node in ast.walk(tree):
        for child in ast.iter_child_nodes(node):
            par[child] = node
    return par


def _const_strings(value):
    if isinstance(value, str):
        return [value]
    if isinstance(value, (list, tuple, set, frozenset)) and all(isinstance(v, str) for v in value):
        return list(value)
    if isinstance(value, dict) and all(isinstance(v, str) for v in value):
        return list(value)
    if isinstance(value, re.Pattern):
        return [value.pattern]
    return None


def _route_patterns():
    out = []
    for name in ROUTE_MODULES:
        mod = importlib.import_module(name)
        tree = ast.parse(inspect.getsource(mod))
        for node in ast.walk(tree):
            if isinstance(node, ast.Call) and isinstance(node.func, ast.Attribute) and node.func.attr == "add_route" \
                    and len(node.args) >= 2:
                arg = node.args[1]
                if isinstance(arg, ast.Constant) and isinstance(arg.value, str):
                    out.append(arg.value)
                else:
                    raise Unresolved("%s:%d add_route with a non-literal pattern" % (name, node.lineno))
    return sorted(set(out))


def _resolve(mod, modname, call, arg, parents):
    """patterns (list of str) that `arg` can denote at this call site"""
    if isinstance(arg, ast.Constant) and isinstance(arg.value, str):
        return [arg.value]
    if isinstance(arg, ast.Name):
        got = _const_strings(getattr(mod, arg.id, None))
        if got is not None:
            return got
        # loop / comprehension variable over a module-level collection
        node = call
        while node in parents:
            node = parents[node]
            gens = []
            if isinstance(node, (ast.GeneratorExp, ast.ListComp, ast.SetComp, ast.DictComp)):
                gens = [(g.target, g.iter) for g in node.generators]
            elif isinstance(node, ast.For):
                gens = [(node.target, node.iter)]
            for target, it in gens:
                names = [n.id for n in ast.walk(target) if isinstance(n, ast.Name)]
                if arg.id in names:
                    if isinstance(it, ast.Name):
                        got = _const_strings(getattr(mod, it.id, None))
                        if got is not None:
                            return got
                    # the HTTP server iterates its route table
                    src = ast.unparse(it)
                    if "_routes" in src:
                        return _route_patterns()
                    raise Unresolved("%s:%d pattern iterates over %s" % (modname, call.lineno, src))
    raise Unresolved("%s:%d pattern expression %s" % (modname, call.lineno, ast.unparse(arg)))


def sites():
    """[(module, function, lineno, pattern)] for every regex applied to network strings"""
    out = []
    for modname in MODULES:
        mod = importlib.import_module(modname)
        tree = ast.parse(inspect.getsource(mod))
        parents = _parents(tree)
        re_names = set()          # names bound to the re module / its functions in this module
        for node in ast.walk(tree):
            if isinstance(node, ast.Import):
                re_names |= {a.asname or a.name for a in node.names if a.name == "re"}
            if isinstance(node, ast.ImportFrom) and node.module == "re":
                re_names |= {a.asname or a.name for a in node.names}
        for node in ast.walk(tree):
            if not isinstance(node, ast.Call):
                continue
            f = node.func
            hit = (isinstance(f, ast.Attribute) and isinstance(f.value, ast.Name) and f.value.id in re_names
                   and f.attr in RE_FUNCS) or (isinstance(f, ast.Name) and f.id in re_names and f.id in RE_FUNCS)
            if not hit or not node.args:
                continue
            fn = node
            while fn in parents and not isinstance(fn, (ast.FunctionDef, ast.AsyncFunctionDef)):
                fn = parents[fn]
            fname = getattr(fn, "name", "<module>")
            for pat in _resolve(mod, modname, node, node.args[0], parents):
                out.append((modname, fname, node.lineno, pat))
    return out


# ---------------------------------------------------------------------------------------------
# pattern -> small tree:  ("cls",) | ("seq", [..]) | ("alt", [..]) | ("rep", min, max|None, tree)
# ---------------------------------------------------------------------------------------------
def tree_of(pattern):
    parser = getattr(re, "_parser", None) or importlib.import_module("sre_parse")
    c = importlib.import_module("re._constants") if hasattr(re, "_constants") else importlib.import_module("sre_constants")

    def seq(items):
        out = []
        for op, av in items:
            if op in (c.LITERAL, c.NOT_LITERAL, c.IN, c.ANY, c.CATEGORY):
                out.append(("cls",))
            elif op is c.AT:
                continue
            elif op is c.SUBPATTERN:
                out.append(seq(av[3]))
            elif op in (c.MAX_REPEAT, c.MIN_REPEAT) or op is getattr(c, "POSSESSIVE_REPEAT", object()):
                lo, hi, body = av
                out.append(("rep", int(lo), None if hi == c.MAXREPEAT else int(hi), seq(body)))
            elif op is c.BRANCH:
                out.append(("alt", [seq(b) for b in av[1]]))
            elif op is getattr(c, "ATOMIC_GROUP", object()):
                out.append(seq(av))
            else:
                # back references, look-around, conditionals: outside the shapes C05 reasons about
                raise Unresolved("regex construct %s in %r" % (op, pattern))
        return out[0] if len(out) == 1 else ("seq", out)
    return seq(parser.parse(pattern))


def lean_of(t):
    if t[0] == "cls":
        return ".cls"
    if t[0] == "seq":
        return "(.seq [" + ", ".join(lean_of(x) for x in t[1]) + "])"
    if t[0] == "alt":
        return "(.alt [" + ", ".join(lean_of(x) for x in t[1]) + "])"
    lo, hi, body = t[1], t[2], t[3]
    return "(.rep %d %s %s)" % (lo, "none" if hi is None else "(some %d)" % hi, lean_of(body))


def lean_str(s):
    return '"' + "".join(c if 32 <= ord(c) < 127 and c not in '"\\' else "\\x%02x" % ord(c) if ord(c) < 256 else "?" for c in s) + '"'


def generate():
    found = sites()
    assert found, "no regular expression found in the modules that interpret network strings"
    pats = sorted({p for _, _, _, p in found})
    where = {}
    for m, f, _, p in found:
        where.setdefault(p, set()).add("%s.%s" % (m.replace("pyatv.", ""), f))
    lines = ["import PyatvModel.C05.Regex", "namespace PyatvModel.Gen.C05", "open PyatvModel.C05 (Re)", "",
             "/-- (pattern source, where it is applied, syntax tree) for every `re` call on network strings -/",
             "def regexSites : List (String × String × Re) := ["]
    rows = []
    for p in pats:
        rows.append("  (%s, %s, %s)" % (lean_str(p), lean_str(", ".join(sorted(where[p]))), lean_of(tree_of(p))))
    lines.append(",\n".join(rows) + "]")
    lines += ["", "end PyatvModel.Gen.C05", ""]
    return {"C05Regex": "\n".join(lines)}


# ---------------------------------------------------------------------------------------------
# near-match strings derived from a pattern (used by harness/c05.py)
# ---------------------------------------------------------------------------------------------
def _sample_char(op, av, c):
    if op is c.LITERAL:
        return chr(av)
    if op is c.NOT_LITERAL:
        return "a" if av != ord("a") else "b"
    if op is c.ANY:
        return "a"
    if op is c.CATEGORY:
        return {c.CATEGORY_DIGIT: "1", c.CATEGORY_SPACE: " ", c.CATEGORY_WORD: "a"}.get(av, "!")
    # IN
    neg = any(o is c.NEGATE for o, _ in av)
    chars = set()
    for o, a in av:
        if o is c.LITERAL:
            chars.add(chr(a))
        elif o is c.RANGE:
            chars.update(chr(x) for x in range(a[0], min(a[1], a[0] + 3) + 1))
        elif o is c.CATEGORY:
            chars.add(_sample_char(c.CATEGORY, a, c))
    if neg:
        for cand in "a1 /.:x":
            if cand not in chars and not any(o is c.RANGE and a[0] <= ord(cand) <= a[1] for o, a in av):
                return cand
        return "\x01"
    return sorted(chars)[0] if chars else "a"


def attack_strings(pattern, pumps=((1, 1), (40, 1), (1, 40), (6, 6), (2, 20), (60, 2)), limit=240):
    """strings that match `pattern` with its repeats pumped (count by nesting depth), each also with a
    suffix / infix that makes the match fail late — the inputs on which a backtracking matcher does the
    most work"""
    parser = getattr(re, "_parser", None) or importlib.import_module("sre_parse")
    c = importlib.import_module("re._constants") if hasattr(re, "_constants") else importlib.import_module("sre_constants")

    def gen(items, depth, pump):
        out = ""
        for op, av in items:
            if op is c.AT:
                continue
            if op is c.SUBPATTERN:
                out += gen(av[3], depth, pump)
            elif op in (c.MAX_REPEAT, c.MIN_REPEAT) or op is getattr(c, "POSSESSIVE_REPEAT", object()):
                lo, hi, body = av
                k = pump[min(depth, len(pump) - 1)]
                n = max(int(lo), k if hi == c.MAXREPEAT else min(k, int(hi)))
                out += "".join(gen(body, depth + 1, pump) for _ in range(n))
            elif op is c.BRANCH:
                alts = [b for b in av[1] if b] or av[1]
                out += gen(alts[0], depth, pump)
            elif op in (c.LITERAL, c.NOT_LITERAL, c.IN, c.ANY, c.CATEGORY):
                out += _sample_char(op, av, c)
        return out
    res = []
    try:
        parsed = parser.parse(pattern)
    except Exception:  # noqa
        return res
    for pump in pumps:
        s = gen(parsed, 0, pump)[:limit]
        for bad in ("", "x", "!", "\x00", ",x", " "):
            res.append(s + bad)
        if len(s) > 4:
            res.append(s[:len(s) // 2] + "!" + s[len(s) // 2:])
    seen, out = set(), []
    for s in res:
        if s not in seen:
            seen.add(s)
            out.append(s)
    return out


# ---------------------------------------------------------------------------------------------
# TXT property keys the protocol modules interpret (used by harness/c05.py)
# ---------------------------------------------------------------------------------------------
KEY_MODULES = {
    "pyatv.protocols.airplay": ["pyatv.protocols.airplay", "pyatv.protocols.airplay.utils"],
    "pyatv.protocols.raop": ["pyatv.protocols.raop", "pyatv.protocols.airplay.utils"],
    "pyatv.protocols.companion": ["pyatv.protocols.companion"],
    "pyatv.protocols.mrp": ["pyatv.protocols.mrp"],
    "pyatv.protocols.dmap": ["pyatv.protocols.dmap"],
}


def _keys_in(modname):
    """string constants used as `x.get("k"…)`, `x["k"]`, `"k" in x` inside functions that mention
    `properties` (TXT records reach the code as `properties` mappings)"""
    mod = importlib.import_module(modname)
    tree = ast.parse(inspect.getsource(mod))
    keys = set()
    for fn in ast.walk(tree):
        if not isinstance(fn, (ast.FunctionDef, ast.AsyncFunctionDef)):
            continue
        src = ast.unparse(fn)
        if "properties" not in src:
            continue
        for node in ast.walk(fn):
            if isinstance(node, ast.Call) and isinstance(node.func, ast.Attribute) and node.func.attr == "get" \
                    and node.args and isinstance(node.args[0], ast.Constant) and isinstance(node.args[0].value, str):
                keys.add(node.args[0].value)
            elif isinstance(node, ast.Subscript) and isinstance(node.slice, ast.Constant) and isinstance(node.slice.value, str):
                keys.add(node.slice.value)
            elif isinstance(node, ast.Compare) and isinstance(node.left, ast.Constant) and isinstance(node.left.value, str) \
                    and any(isinstance(op, (ast.In, ast.NotIn)) for op in node.ops):
                keys.add(node.left.value)
    return {k for k in keys if k and len(k) <= 32 and k.isprintable() and " " not in k and "/" not in k}


def txt_keys():
    """{protocol module: sorted keys} + keys read by the scanner itself (`get_unique_id`, `_device-info`)"""
    out = {}
    common = _keys_in("pyatv.helpers") | _keys_in("pyatv.core.scan") | _keys_in("pyatv.core.mdns")
    for proto, mods in KEY_MODULES.items():
        keys = set(common)
        for m in mods:
            keys |= _keys_in(m)
        out[proto] = sorted(keys)
    return out
