"""Gen/C02Consts.lean — frame layout constants read from the imported pyatv modules."""
import struct


def generate():
    from pyatv.auth.hap_session import HAPSession
    from pyatv.protocols.airplay import channels
    from pyatv.protocols.companion import connection as companion

    hdr = channels.DataHeader
    # locate the `size` field by encoding a recognisable value (layout comes from defpacket)
    probe = hdr.encode(0x01020304, b"\xAA" * 12, b"\xBB" * 4, 0xCCCCCCCCCCCCCCCC, 0xDDDDDDDD)
    assert len(probe) == hdr.length
    off = probe.index(b"\x01\x02\x03\x04")
    assert hdr.decode(probe).size == 0x01020304  # big-endian, 4 bytes, at `off`
    assert struct.calcsize(">I") == 4
    enc = channels.BaseDataStreamChannel.encode_message(
        channels.DataStreamMessage(b"sync" + 8 * b"\x00", b"comm", 1, 0, b"xyz"))
    size_includes_header = int(int.from_bytes(enc[off:off + 4], "big") == hdr.length + 3)
    assert size_includes_header == 1
    assert isinstance(companion.HEADER_LENGTH, int) and isinstance(companion.AUTH_TAG_LENGTH, int)
    body = (
        "namespace PyatvModel.Gen.C02\n\n"
        f"/-- pyatv.protocols.companion.connection.HEADER_LENGTH -/\ndef companionHeaderLength : Nat := {companion.HEADER_LENGTH}\n\n"
        f"/-- pyatv.auth.hap_session.HAPSession.AUTH_TAG_LENGTH -/\ndef hapTagLength : Nat := {HAPSession.AUTH_TAG_LENGTH}\n\n"
        f"/-- pyatv.auth.hap_session.HAPSession.FRAME_LENGTH -/\ndef hapFrameLength : Nat := {HAPSession.FRAME_LENGTH}\n\n"
        f"/-- pyatv.protocols.airplay.channels.DataHeader.length -/\ndef dataHeaderLength : Nat := {hdr.length}\n\n"
        f"/-- offset / width of DataHeader.size (big-endian, counts the header) -/\ndef dataSizeOffset : Nat := {off}\n"
        f"def dataSizeWidth : Nat := 4\n\n"
        "end PyatvModel.Gen.C02\n"
    )
    return {"C02Consts": body}
