"""Gen/C01Tables.lean + Gen/C13Features.lean — routing and feature tables (tie A of C01/C13).

Everything is read from the REAL objects of the tree under test:

* the five protocols' interface instances as yielded by each protocol's own `setup(core)`
  (a conf/core built the way `pyatv.connect` builds them; no connection is made),
* `FacadeAppleTV._interfaces` (the relayers, their constructor priority lists),
  `DEFAULT_PRIORITIES`, `FacadePower.OVERRIDE_PRIORITIES`, the order of `PROTOCOLS`,
* `SetupData.features`, each protocol's `Features.get_feature` in the freshly set-up
  state, the `@feature` tags (`_feature_name` -> index through `interface._ALL_FEATURES`),
* the list constants the protocols' `get_feature` implementations consult.

`impl` uses a criterion different from the relayer's own `!=` test: a member is
implemented by a protocol iff the class along `type(inst).__mro__` that defines the
attribute is not the `pyatv.interface` base class.

`build_world()` / `public_members()` are also used by harness/c01.py and harness/c13.py
to obtain the same real instances (the harnesses recompute the tables through the real
facade, which cross-checks this extractor).
"""
import asyncio
import inspect

TEXT_ORDER = ["MRP", "DMAP", "Companion", "AirPlay", "RAOP"]  # Protocol names the model is written for


def lower_first(s):
    return s[0].lower() + s[1:]


# zeroconf TXT records as announced by real devices (Apple TV 4K / AirPort Express style)
TXT_RECORDS = {
    "RAOP": {"md": "0,1,2", "et": "0,3,5", "cn": "0,1,2,3", "tp": "UDP", "am": "AppleTV6,2", "vs": "540.31.41", "ft": "0x4A7FDFD5,0xBC157FDE"},
    "AirPlay": {"deviceid": "AA:BB:CC:DD:EE:FF", "srcvers": "540.31.41", "pi": "7c4f8d6e-0000-0000-0000-000000000000",
                "acl": "0", "flags": "0x18644"},
    "Companion": {"rpmd": "AppleTV6,2", "rpfl": "0x36782", "rpvr": "250.3", "rpha": "9948cfb6da55"},
    "MRP": {"modelname": "Apple TV", "allowpairing": "YES", "systembuildversion": "17K82", "macaddress": "AA:BB:CC:DD:EE:FF"},
    "DMAP": {"ctlN": "Apple TV", "hG": "00000000-1111-2222-3333-444444444444", "txtvers": "1"},
}

# Devices as a real zeroconf scan sees them: (service type, instance name, TXT record) per service, the
# model announced by _device-info._tcp, whether AirPlay advertises video (PlayUrl gate), which
# services get credentials from pairing.  TXT values follow what these devices announce (pyatv
# documentation "protocols", tests/fake_udns.py, tests/protocols/*).
DEVICE_PROFILES = {
    "appletv4k": {
        "model": "J305AP", "video": True, "airplay_hap": True,
        "services": [
            ("_mediaremotetv._tcp.local", "Living Room", {
                "Name": "Living Room", "UniqueIdentifier": "4D797FD3-3538-427E-A47B-A32FC6CF3A69", "ModelName": "Apple TV",
                "SystemBuildVersion": "18L204", "AllowPairing": "YES", "macAddress": "aa:bb:cc:dd:ee:ff"}),
            ("_airplay._tcp.local", "Living Room", {
                "deviceid": "AA:BB:CC:DD:EE:FF", "features": "0x4A7FDFD5,0xBC157FDE", "flags": "0x18644", "model": "AppleTV6,2",
                "osvers": "14.7", "srcvers": "540.31.41", "psi": "4D797FD3-3538-427E-A47B-A32FC6CF3A69", "acl": "0"}),
            ("_raop._tcp.local", "AABBCCDDEEFF@Living Room", {
                "am": "AppleTV6,2", "cn": "0,1,2,3", "et": "0,3,5", "md": "0,1,2", "ft": "0x4A7FDFD5,0xBC157FDE",
                "tp": "UDP", "vs": "540.31.41", "ov": "14.7", "sf": "0x18644"}),
            ("_companion-link._tcp.local", "Living Room", {
                "rpmd": "AppleTV6,2", "rpfl": "0x36782", "rpha": "9948cfb6da55", "rpvr": "250.3", "rpmac": "2"}),
        ]},
    "appletv3": {
        "model": "J33AP", "video": True, "airplay_hap": False,
        "services": [
            ("_appletv-v2._tcp.local", "AAAA5555BBBB0000", {"Name": "Bedroom", "hG": "00000000-1111-2222-3333-444444444444", "MiTPV": "196611"}),
            ("_touch-able._tcp.local", "AAAA5555BBBB0000", {"CtlN": "Bedroom", "DvTy": "AppleTV", "Ver": "131077"}),
            ("_airplay._tcp.local", "Bedroom", {
                "deviceid": "11:22:33:44:55:66", "features": "0x5A7FFFF7,0xE", "flags": "0x44", "model": "AppleTV3,2",
                "srcvers": "220.68", "vv": "2"}),
            ("_raop._tcp.local", "112233445566@Bedroom", {
                "am": "AppleTV3,2", "cn": "0,1,2,3", "et": "0,3,5", "md": "0,1,2", "ft": "0x5A7FFFF7,0xE", "tp": "UDP", "vs": "220.68"}),
        ]},
    "homepod": {
        "model": "B520AP", "video": False, "airplay_hap": False,
        "services": [
            ("_airplay._tcp.local", "Kitchen", {
                "deviceid": "22:33:44:55:66:77", "features": "0x4A7FCA00,0x3C356BD0", "flags": "0x18404", "model": "AudioAccessory5,1",
                "osvers": "15.4", "srcvers": "610.16.47", "psi": "5D797FD3-3538-427E-A47B-A32FC6CF3A69", "gid": "5D797FD3-3538-427E-A47B-A32FC6CF3A69"}),
            ("_raop._tcp.local", "223344556677@Kitchen", {
                "am": "AudioAccessory5,1", "cn": "0,1,2,3", "et": "0,3,5", "md": "0,1,2", "ft": "0x4A7FCA00,0x3C356BD0",
                "tp": "UDP", "vs": "610.16.47", "sf": "0x18404"}),
            ("_companion-link._tcp.local", "Kitchen", {"rpmd": "AudioAccessory5,1", "rpfl": "0x62792", "rpha": "45efecc5211", "rpvr": "360.4"}),
        ]},
    "music": {
        "model": "MacBookPro16,1", "video": False, "airplay_hap": False,
        "services": [
            ("_hscp._tcp.local", "Music", {"Machine Name": "MacBook", "Machine ID": "AABBCCDDEE00", "hG": "00000000-1111-2222-3333-444444444444",
                                          "Version": "196618", "txtvers": "1", "DvTy": "iTunes"}),
            ("_airplay._tcp.local", "MacBook", {
                "deviceid": "33:44:55:66:77:88", "features": "0x4A7FCA00,0x3C356BD0", "flags": "0x4", "model": "MacBookPro16,1", "srcvers": "610.16.47"}),
            ("_raop._tcp.local", "334455667788@MacBook", {"am": "MacBookPro16,1", "cn": "0,1,2,3", "et": "0,3,5", "md": "0,1,2", "tp": "UDP", "vs": "610.16.47"}),
        ]},
    "airport": {
        "model": None, "video": False, "airplay_hap": False,
        "services": [
            ("_raop._tcp.local", "445566778899@Hall", {
                "am": "AirPort10,115", "cn": "0,1", "et": "0,4", "md": "0,1,2", "tp": "TCP,UDP", "vs": "105.1", "ss": "16", "sr": "44100",
                "sv": "false", "ek": "1", "ch": "2", "txtvers": "1", "fv": "78100.3", "da": "true", "sf": "0x5"}),
            ("_airplay._tcp.local", "Hall", {"deviceid": "44:55:66:77:88:99", "features": "0x445D0A00", "flags": "0x4", "model": "AirPort10,115", "srcvers": "366.0"}),
        ]},
}


async def profile_config(profile):
    """The configuration pyatv's own scanner builds for the device (handlers, device_info
    extractors and service_info of every protocol, `conf.properties` per service type)."""
    from ipaddress import IPv4Address

    from pyatv.core import mdns
    from pyatv.core.scan import BaseScanner
    from pyatv.protocols import PROTOCOLS

    dev = DEVICE_PROFILES[profile]
    address = IPv4Address("127.0.0.1")

    class OneResponse(BaseScanner):
        async def process(self, timeout):
            self.handle_response(mdns.Response(
                [mdns.Service(stype, name, address, 1234, dict(txt)) for stype, name, txt in dev["services"]], False, dev["model"]))

    scanner = OneResponse()
    for proto, methods in PROTOCOLS.items():
        scanner.add_service_info(proto, methods.service_info)
        for service_type, handler in methods.scan().items():
            scanner.add_service(service_type, handler, methods.device_info)
    configs = await scanner.discover(0)
    return configs[address]


def profile_protocols(profile):
    """protocol names a scan of the device yields a service for (order of the property text)"""
    types = {
        "_mediaremotetv._tcp.local": "MRP", "_appletv-v2._tcp.local": "DMAP", "_touch-able._tcp.local": "DMAP",
        "_hscp._tcp.local": "DMAP", "_companion-link._tcp.local": "Companion", "_airplay._tcp.local": "AirPlay", "_raop._tcp.local": "RAOP"}
    have = {types[stype] for stype, _n, _t in DEVICE_PROFILES[profile]["services"]}
    return [p for p in TEXT_ORDER if p in have]


HAP_CREDENTIALS = ":".join(["aa" * 32, "bb" * 32, "cc" * 8, "dd" * 8])


def default_spec(**kw):
    """A device configuration: which services exist and what the AirPlay service advertises.

    services           protocol names with a service in the configuration
    companion_creds    the Companion service has credentials (companion.setup() yields nothing without)
    video              AirPlay advertises SupportsAirPlayVideoV1 (PlayUrl gate of FacadeStream open)
    tunnel             AirPlay service of an Apple TV (tvOS >= 13, HAP credentials): airplay.setup()
                       also yields an MRP SetupData running over the AirPlay remote-control tunnel
    unified            AirPlay advertises HasUnifiedAdvertiserInfo: airplay.setup() also yields RAOP
                       when the configuration has no RAOP service
    txt                the services carry the TXT records real devices announce (TXT_RECORDS) instead
                       of empty ones: what set-up derives from them (metadata types, models …) is in play
    companion_device   None: Companion's SetupData.connect is replaced like the others.  {"reject": [ids]}: the
                       REAL connect callable of Companion runs (CompanionAPI.connect, CompanionPower.initialize)
                       against a fake device (FakeCompanionProtocol) that answers every request except the
                       listed ones, which it rejects with an error reply
    profile            a device of DEVICE_PROFILES as pyatv's own scanner sees it (configuration built by the
                       real scan handlers); `services` then lists the protocols left enabled, `video`,
                       `tunnel`, `unified` and `txt` are given by the device's TXT records
    """
    spec = {"services": list(TEXT_ORDER), "companion_creds": True, "video": True, "tunnel": False, "unified": False,
            "txt": False, "profile": None, "companion_device": None}
    spec.update(kw)
    return spec


class Built:
    """A device object as returned by the real `pyatv.connect()` (no network: every
    SetupData.connect is replaced by a coroutine answering True or False)."""

    def __init__(self, atv, queue, cores, order, error):
        self.atv = atv                # FacadeAppleTV, connected (None when pyatv.connect raised)
        self.queue = queue            # [(origin Protocol whose setup() yielded it, original SetupData)] in add_protocol order
        self.cores = cores            # {origin Protocol: the Core pyatv.connect created and wired for it}
        self.order = order
        self.error = error            # exception pyatv.connect raised, if any

    def dispatcher_for(self, protocol):
        """A state dispatcher publishing in the name of `protocol` on the device's core dispatcher."""
        core = next(iter(self.cores.values()))
        return core.state_dispatcher.create_copy(protocol)


class _Session:
    """Stands in for aiohttp.ClientSession: protocols only store it at setup."""


async def _connected():
    return True


async def _refused():
    return False


class FakeCompanionConnection:
    """Stands in for CompanionConnection (the TCP transport)."""

    def __init__(self, *a, **k):
        pass

    def set_listener(self, listener):
        pass

    async def connect(self):
        pass

    def close(self):
        pass


def fake_companion_protocol(reject, seen):
    """A Companion device at the level of CompanionProtocol (pair-verify and framing left out):
    every OPACK request `_i` is answered, the ones in `reject` with an error reply, which the
    real CompanionProtocol surfaces as ProtocolError("Command failed: ...")."""
    from pyatv import exceptions

    answers = {"_sessionStart": {"_sid": 1}, "FetchAttentionState": {"state": 3}}

    class FakeCompanionProtocol:
        def __init__(self, connection, srp, service):
            self.connection, self.srp, self.service = connection, srp, service
            self.listener = None

        async def start(self):
            pass

        def stop(self):
            pass

        def _ident(self, data):
            ident = data.get("_i")
            content = data.get("_c") or {}
            if ident == "_interest":        # which event is (de)registered
                ident += ":" + ",".join(content.get("_regEvents", []) or content.get("_deregEvents", []))
            if ident not in seen:
                seen.append(ident)
            if ident in reject:
                raise exceptions.ProtocolError(f"Command failed: {ident} rejected by the device")
            return ident

        async def exchange_opack(self, frame_type, data, timeout=5.0):
            ident = self._ident(data)
            return {"_c": dict(answers.get(ident, {})), "_t": 3, "_x": data.get("_x", 0)}

        def send_opack(self, frame_type, data):
            self._ident(data)

    return FakeCompanionProtocol


async def _build(spec, fail=(), transform=None):
    """Run the real `pyatv.connect()` for a configuration.  Only `pyatv.PROTOCOLS` is wrapped:
    each protocol's real `setup(core)` is called with the Core pyatv.connect created and wired
    (takeover method, dispatcher, device listener), and every SetupData it yields is passed on
    with `connect` answering True (False at the queue positions in `fail`) and a no-op `close`."""
    from ipaddress import IPv4Address

    import pyatv
    from pyatv import conf
    from pyatv.const import Protocol
    from pyatv.core import MutableService

    config = conf.AppleTV(IPv4Address("127.0.0.1"), "verif")
    if spec.get("profile"):
        dev = DEVICE_PROFILES[spec["profile"]]
        config = await profile_config(spec["profile"])
        for service in config.services:
            service.enabled = service.protocol.name in spec["services"]
            if service.protocol == Protocol.Companion:
                service.credentials = HAP_CREDENTIALS if spec["companion_creds"] else None
            if service.protocol == Protocol.AirPlay and dev["airplay_hap"]:
                service.credentials = HAP_CREDENTIALS
    for name in ([] if spec.get("profile") else spec["services"]):
        p = Protocol[name]
        props, cred = {}, None
        if p == Protocol.AirPlay:
            flags = (1 if spec["video"] else 0) | ((1 << 30) if spec["unified"] else 0)
            props = {"features": hex(flags)}
            if spec["tunnel"]:
                props.update({"model": "AppleTV6,2", "osvers": "14.0"})
                cred = HAP_CREDENTIALS
        if spec.get("txt"):
            props = dict(TXT_RECORDS[name], **props)
        if p == Protocol.Companion and spec["companion_creds"]:
            cred = HAP_CREDENTIALS
        config.add_service(MutableService("id-" + p.name, p, 1234, props, credentials=cred))

    queue, cores = [], {}
    real = pyatv.PROTOCOLS

    device = spec.get("companion_device")
    seen = []

    def wrap(proto, methods):
        def setup(core):
            cores[proto] = core
            for sd in methods.setup(core):
                if transform is not None:       # harness: other instances for this protocol (synthetic protocol classes)
                    sd = transform(proto, sd)
                k = len(queue)
                queue.append((proto, sd))
                if device is not None and sd.protocol == Protocol.Companion and k not in fail:
                    yield sd._replace(close=lambda: set())       # the real connect callable runs
                else:
                    yield sd._replace(connect=_refused if k in fail else _connected, close=lambda: set())
        return methods._replace(setup=setup)

    from pyatv.protocols.companion import api as companion_api

    saved = (companion_api.CompanionConnection, companion_api.CompanionProtocol)
    if device is not None:
        companion_api.CompanionConnection = FakeCompanionConnection
        companion_api.CompanionProtocol = fake_companion_protocol(set(device.get("reject", [])), seen)
    pyatv.PROTOCOLS = {proto: wrap(proto, methods) for proto, methods in real.items()}
    atv, error = None, None
    try:
        atv = await pyatv.connect(config, asyncio.get_running_loop(), session=_Session())
    except Exception as e:   # e.g. NoServiceError when nothing was set up, or the real connect gave up
        error = e
    finally:
        pyatv.PROTOCOLS = real
        companion_api.CompanionConnection, companion_api.CompanionProtocol = saved
    built = Built(atv, queue, cores, list(real.keys()), error)
    built.companion_requests = seen
    return built


def build_world(loop=None, spec=None, fail=(), transform=None):
    """Connect (without network) to the device described by `spec` through pyatv.connect()."""
    spec = spec or default_spec()
    if loop is not None:
        return loop.run_until_complete(_build(spec, fail, transform))
    loop = asyncio.new_event_loop()
    try:
        return loop.run_until_complete(_build(spec, fail, transform))
    finally:
        loop.close()


def reachable_cores(sd):
    """The Core objects the registered instances of a SetupData hold (directly or through one
    collaborator): what that protocol's code calls `core.takeover(...)` on."""
    from pyatv.core import Core

    seen, out = set(), []

    def walk(obj, depth):
        if id(obj) in seen or depth > 2:
            return
        seen.add(id(obj))
        if isinstance(obj, Core):
            out.append(obj)
            return
        for value in list(getattr(obj, "__dict__", {}).values()) if isinstance(getattr(obj, "__dict__", None), dict) else []:
            walk(value, depth + 1)

    for inst in sd.interfaces.values():
        walk(inst, 0)
    return out


def native_setups(built):
    """{Protocol: the SetupData its own setup() yielded for itself}"""
    out = {}
    for origin, sd in built.queue:
        if origin == sd.protocol and origin not in out:
            out[origin] = sd
    return out


# configurations whose set-up paths are extracted next to the native one (tie A, `setupPaths`)
PATH_SPECS = [
    ("native", default_spec()),
    ("tunnel", default_spec(services=["AirPlay"], tunnel=True)),
    ("tunnel+companion-service-without-credentials",
     default_spec(services=["AirPlay", "Companion"], tunnel=True, companion_creds=False)),
    ("tunnel+companion", default_spec(services=["AirPlay", "Companion"], tunnel=True)),
    ("tunnel+all-services", default_spec(tunnel=True)),
    ("unified", default_spec(services=["AirPlay"], unified=True)),
    ("unified+others", default_spec(services=["MRP", "DMAP", "Companion", "AirPlay"], unified=True)),
    ("tunnel+unified", default_spec(services=["AirPlay", "Companion"], tunnel=True, unified=True)),
    ("native+txt-records", default_spec(txt=True)),
    ("tunnel+unified+txt-records", default_spec(services=["AirPlay", "Companion"], tunnel=True, unified=True, txt=True)),
] + [("only-" + n, default_spec(services=[n])) for n in TEXT_ORDER]
PATH_SPECS += [("device-" + name, None) for name in DEVICE_PROFILES]          # filled in below
PATH_SPECS = [(path, spec if spec is not None else default_spec(profile=path[7:], services=profile_protocols(path[7:]),
                                                                 video=DEVICE_PROFILES[path[7:]]["video"]))
              for path, spec in PATH_SPECS]
# the same devices once more after all the others were set up, in reverse order: what a
# protocol hands over must not depend on which devices were set up before in the process
PATH_SPECS += [(path + "@again", spec) for path, spec in reversed(PATH_SPECS) if path.startswith("device-")]


def public_members(base):
    """Public API members declared by an interface base class (methods and properties)."""
    out = []
    for name, value in base.__dict__.items():
        if name.startswith("_") or name == "listener":
            continue
        if inspect.isfunction(value) or isinstance(value, property):
            out.append(name)
    return out


def defining_class(cls, name):
    for klass in cls.__mro__:
        if name in klass.__dict__:
            return klass
    return None


def underlying(value):
    if isinstance(value, property):
        value = value.fget
    return inspect.unwrap(value)


def iface_ident(base):
    return lower_first(base.__name__)


def tables():
    """All extracted data as plain Python (names only), shared by generate()."""
    from pyatv import interface
    from pyatv.const import FeatureName, FeatureState, Protocol
    from pyatv.core import facade
    from pyatv.protocols.companion import MEDIA_CONTROL_MAP, SUPPORTED_FEATURES
    from pyatv.protocols import dmap as dmap_mod
    from pyatv.protocols import mrp as mrp_mod

    def path_entries(path, spec):
        """the three per-protocol tables of every SetupData the configuration yields"""
        world = build_world(spec=spec)
        ifaces_ = list(world.atv._interfaces.keys())
        out = []
        for origin, sd in world.queue:
            impls = []
            for base in ifaces_:
                if base is interface.Features:
                    continue
                inst = sd.interfaces.get(base)
                for name in public_members(base):
                    d = defining_class(type(inst), name) if inst is not None else None
                    if d is not None and d is not base:
                        impls.append(f"{iface_ident(base)}_{name}")
            out.append({
                "path": path, "origin": origin.name, "proto": sd.protocol.name,
                "provides": [iface_ident(b) for b in ifaces_ if b in sd.interfaces],
                "implements": impls,
                "features": sorted((f.name for f in sd.features), key=lambda n: FeatureName[n].value),
            })
        return out

    # the real devices FIRST, before anything else was set up in this process (and again, in
    # other orders, among PATH_SPECS): what a protocol hands over must not depend on set-up order
    paths = []
    for path, spec in reversed([ps for ps in PATH_SPECS if ps[0].startswith("device-") and "@" not in ps[0]]):
        paths += path_entries(path + "@first", spec)

    built = build_world()
    atv, setups, order = built.atv, native_setups(built), built.order
    if sorted(p.name for p in setups) != sorted(TEXT_ORDER):
        raise RuntimeError("native setup() no longer yields one SetupData per protocol")
    protos = sorted(Protocol, key=lambda p: p.value)
    if sorted(p.name for p in protos) != sorted(TEXT_ORDER):
        raise RuntimeError("pyatv.const.Protocol is no longer {MRP, DMAP, Companion, AirPlay, RAOP}: the model must be revised")
    ifaces = list(atv._interfaces.keys())
    routed = [b for b in ifaces if b is not interface.Features]

    t = {}
    t["protos"] = [p.name for p in TEXT_ORDER_ENUM(Protocol)]
    t["ifaces"] = [iface_ident(b) for b in ifaces]
    t["iface_pyname"] = {iface_ident(b): b.__name__ for b in ifaces}
    t["default_prio"] = [p.name for p in facade.DEFAULT_PRIORITIES]
    t["power_override"] = [p.name for p in facade.FacadePower.OVERRIDE_PRIORITIES]
    t["relayer_prio"] = {iface_ident(b): [p.name for p in atv._interfaces[b]._priorities] for b in ifaces}
    t["setup_order"] = [p.name for p in order]
    t["provides"] = {p.name: [iface_ident(b) for b in ifaces if b in setups[p].interfaces] for p in protos}

    members = []   # (ident, iface ident, python name, [implementing protocol names])
    feature_tag = {}  # member ident -> feature index
    name_to_index = {}
    for idx, (fname, _doc) in interface._ALL_FEATURES.items():
        name_to_index.setdefault(fname, idx)
    for base in routed:
        for name in public_members(base):
            impls = []
            for p in TEXT_ORDER_ENUM(Protocol):
                inst = setups[p].interfaces.get(base)
                if inst is None:
                    continue
                d = defining_class(type(inst), name)
                if d is not None and d is not base:
                    impls.append(p.name)
            ident = f"{iface_ident(base)}_{name}"
            members.append((ident, iface_ident(base), name, impls))
            tag = getattr(underlying(base.__dict__[name]), "_feature_name", None)
            if tag is not None:
                feature_tag[ident] = name_to_index[tag]
    t["members"] = members

    # feature -> members.  Tagged members of relayed interfaces stand for themselves; tagged
    # members of a value class (interface.Playing) stand for the relayed members that return
    # that class (Metadata.playing).
    feat_members = {f.value: [] for f in FeatureName}
    for ident, idx in feature_tag.items():
        feat_members[idx].append(ident)
    for cls_name, cls in vars(interface).items():
        if not inspect.isclass(cls) or cls in ifaces or cls.__module__ != interface.__name__:
            continue
        tagged = [name_to_index[getattr(underlying(v), "_feature_name")] for v in cls.__dict__.values()
                  if (inspect.isfunction(v) or isinstance(v, property)) and hasattr(underlying(v), "_feature_name")]
        if not tagged:
            continue
        producers = []
        for base in routed:
            for name in public_members(base):
                fn = underlying(base.__dict__[name])
                try:
                    ret = inspect.signature(fn).return_annotation
                except (TypeError, ValueError):
                    continue
                if ret is cls:
                    producers.append(f"{iface_ident(base)}_{name}")
        for idx in tagged:
            feat_members[idx] += producers
    feats = sorted(FeatureName, key=lambda f: f.value)
    t["features"] = [(f.name, f.value) for f in feats]
    t["feature_members"] = {f.name: feat_members[f.value] for f in feats}
    t["feature_sets"] = {p.name: sorted((f.name for f in setups[p].features), key=lambda n: FeatureName[n].value) for p in protos}
    t["states"] = [s.name for s in sorted(FeatureState, key=lambda s: s.value)]
    state0 = {}
    for p in protos:
        inst = setups[p].interfaces[interface.Features]
        state0[p.name] = {f.name: inst.get_feature(f).state.name for f in feats}
    t["state0"] = state0

    def names(xs):
        return sorted((f.name for f in xs), key=lambda n: FeatureName[n].value)

    # every other way instances get registered (tunnelled MRP, RAOP via AirPlay, TXT records, the
    # scanned devices in two more orders)
    for path, spec in PATH_SPECS:
        paths += path_entries(path, spec)
    t["paths"] = paths

    t["shape"] = {
        "mrpSupported": names(mrp_mod._FEATURES_SUPPORTED),
        "mrpField": names(mrp_mod._FIELD_FEATURES.keys()),
        "mrpCommand": names(mrp_mod._FEATURE_COMMAND_MAP.keys()),
        "dmapAvailable": names(dmap_mod._AVAILABLE_FEATURES),
        "dmapUnknown": names(dmap_mod._UNKNOWN_FEATURES),
        "dmapField": names(dmap_mod._FIELD_FEATURES.keys()),
        "companionMediaControl": names(MEDIA_CONTROL_MAP.keys()),
        "companionSupported": names(SUPPORTED_FEATURES),
    }
    return t


def TEXT_ORDER_ENUM(Protocol):
    return [Protocol[n] for n in TEXT_ORDER]


# ---------------------------------------------------------------------------------------
def _list(items, prefix="."):
    return "[" + ", ".join(prefix + i for i in items) + "]"


def _enum(name, ctors, doc):
    lines = [f"/-- {doc} -/", f"inductive {name}"]
    lines += [f"  | {c}" for c in ctors]
    lines.append("  deriving DecidableEq, Repr\n")
    lines.append(f"def {name}.all : List {name} :=\n  " + _list(ctors) + "\n")
    return "\n".join(lines)


def _match_fn(sig, rows):
    return sig + "\n" + "\n".join(f"  | .{k} => {v}" for k, v in rows) + "\n"


def feat_ident(name):
    return "f_" + name


def generate():
    t = tables()
    P = [n.lower() for n in t["protos"]]
    pl = lambda names: _list([n.lower() for n in names])  # noqa: E731

    a = ["namespace PyatvModel.Gen.C01\n"]
    a.append(_enum("Proto", P, "pyatv.const.Protocol (order of the property text)"))
    a.append(_match_fn("def Proto.name : Proto → String", [(n.lower(), f'"{n}"') for n in t["protos"]]))
    a.append(_enum("Iface", t["ifaces"], "keys of FacadeAppleTV._interfaces (one relayer each)"))
    a.append(_match_fn("def Iface.name : Iface → String", [(i, f'"{t["iface_pyname"][i]}"') for i in t["ifaces"]]))
    a.append("/-- pyatv.core.facade.DEFAULT_PRIORITIES -/\ndef defaultPriorities : List Proto :=\n  " + pl(t["default_prio"]) + "\n")
    a.append("/-- FacadePower.OVERRIDE_PRIORITIES -/\ndef powerOverridePriorities : List Proto :=\n  " + pl(t["power_override"]) + "\n")
    a.append("/-- `Relayer._priorities` of each facade relayer as constructed by FacadeAppleTV -/\n"
             + _match_fn("def relayerPrio : Iface → List Proto", [(i, pl(t["relayer_prio"][i])) for i in t["ifaces"]]))
    a.append("/-- order in which pyatv.connect sets protocols up (keys of PROTOCOLS) -/\ndef setupOrder : List Proto :=\n  " + pl(t["setup_order"]) + "\n")
    a.append("/-- interfaces each protocol's SetupData registers -/\n"
             + _match_fn("def provides : Proto → List Iface", [(p.lower(), _list(t["provides"][p])) for p in t["protos"]]))
    mem = t["members"]
    a.append(_enum("Member", [m[0] for m in mem], "public members of the relayed interface base classes"))
    a.append(_match_fn("def Member.iface : Member → Iface", [(m[0], "." + m[1]) for m in mem]))
    a.append(_match_fn("def Member.name : Member → String", [(m[0], f'"{m[2]}"') for m in mem]))
    a.append("/-- protocols whose registered instance overrides the member (MRO criterion) -/\n"
             + _match_fn("def implementers : Member → List Proto", [(m[0], pl(m[3])) for m in mem]))
    a.append("def impl (p : Proto) (m : Member) : Bool := (implementers m).contains p\n")
    a.append("end PyatvModel.Gen.C01\n")

    F = [feat_ident(n) for n, _ in t["features"]]
    fl = lambda names: _list([feat_ident(n) for n in names])  # noqa: E731
    b = ["import PyatvModel.Gen.C01Tables\nnamespace PyatvModel.Gen.C13\nopen PyatvModel.Gen.C01\n"]
    b.append(_enum("Feature", F, "pyatv.const.FeatureName, ordered by value"))
    b.append(_match_fn("def Feature.name : Feature → String", [(feat_ident(n), f'"{n}"') for n, _ in t["features"]]))
    b.append(_match_fn("def Feature.index : Feature → Nat", [(feat_ident(n), str(v)) for n, v in t["features"]]))
    b.append(_enum("FState", [lower_first(s) for s in t["states"]], "pyatv.const.FeatureState"))
    b.append(_match_fn("def FState.name : FState → String", [(lower_first(s), f'"{s}"') for s in t["states"]]))
    b.append("/-- SetupData.features of each protocol -/\n"
             + _match_fn("def featureSet : Proto → List Feature", [(p.lower(), fl(t["feature_sets"][p])) for p in t["protos"]]))
    b.append("/-- members a feature stands for (@feature tags, matched by feature index) -/\n"
             + _match_fn("def featureMembers : Feature → List Member",
                         [(feat_ident(n), _list(t["feature_members"][n])) for n, _ in t["features"]]))
    for state in t["states"]:
        if state == "Unsupported":
            continue
        b.append(f"/-- features for which the protocol's real get_feature answers {state} right after setup() -/\n"
                 + _match_fn(f"def fresh{state} : Proto → List Feature",
                             [(p.lower(), fl([n for n, _ in t["features"] if t["state0"][p][n] == state])) for p in t["protos"]]))
    order = [s for s in t["states"] if s != "Unsupported"]
    body = "".join(f"  if (fresh{s} p).contains f then .{lower_first(s)} else\n" for s in order) + "  .unsupported\n"
    b.append("/-- answer of each protocol's Features.get_feature in the freshly set-up state -/\n"
             "def state0 (p : Proto) (f : Feature) : FState :=\n" + body)
    for k, v in t["shape"].items():
        b.append(f"def {k} : List Feature :=\n  " + fl(v) + "\n")
    b.append("/-- one SetupData as yielded on some set-up path (tools/gen/c01.py PATH_SPECS) -/\n"
             "structure PathEntry where\n  path : String\n  origin : Proto\n  proto : Proto\n"
             "  provides : List Iface\n  implements : List Member\n  features : List Feature\n")
    rows = []
    for e in t["paths"]:
        rows.append(f'  ⟨"{e["path"]}", .{e["origin"].lower()}, .{e["proto"].lower()},\n   {_list(e["provides"])},\n'
                    f'   {_list(e["implements"])},\n   {fl(e["features"])}⟩')
    b.append("/-- every SetupData of every extracted set-up path, with the tables of its real instances -/\n"
             "def setupPaths : List PathEntry := [\n" + ",\n".join(rows) + "]\n")
    b.append("end PyatvModel.Gen.C13\n")
    return {"C01Tables": "\n".join(a), "C13Features": "\n".join(b)}
