"""Gen/C18Consts.lean — set-up order of pyatv.connect and the interfaces taken over by the
two streaming calls, read from the imported real modules.

* PROTOCOLS dict order: introspection.
* interfaces passed to `core.takeover(...)` by RaopStream.stream_file / AirPlayStream.play_url:
  determined BEHAVIOURALLY — the real method is run with a recording `core.takeover` that
  stops the call, so the result does not depend on how the method is split into helpers.
  The AST of the method and of the same-class helpers it calls (two levels) is read as a
  cross-check when its shape is recognised; a disagreement between the two is an error.
"""
import ast
import asyncio
import inspect
import textwrap
import types

IFACES = ["Audio", "Metadata", "PushUpdater", "RemoteControl"]


class _Stop(Exception):
    """Raised by the recording takeover to end the probed call."""


class _Perm:
    """Permissive stand-in: any attribute, callable, awaitable, truthy."""

    def __getattr__(self, name):
        return _Perm()

    def __call__(self, *args, **kwargs):
        return _Perm()

    def __await__(self):
        if False:
            yield None
        return _Perm()


def _run(coro):
    loop = asyncio.new_event_loop()
    try:
        return loop.run_until_complete(coro)
    finally:
        loop.close()


def probe_takeover(make_call):
    """Run the real call with a recording core.takeover; returns interface names of the
    first takeover."""
    recorded = []

    def takeover(*interfaces):
        recorded.append([getattr(i, "__name__", repr(i)) for i in interfaces])
        raise _Stop()

    try:
        _run(make_call(takeover))
    except _Stop:
        pass
    except Exception as ex:  # the call must at least reach its takeover
        if not recorded:
            raise AssertionError(f"probe did not reach core.takeover: {type(ex).__name__}: {ex}")
    assert recorded, "probe: the call never called core.takeover"
    return recorded[0]


def probe_raop():
    from pyatv.protocols.raop import RaopStream

    def make(takeover):
        core = types.SimpleNamespace(takeover=takeover, service=_Perm(), config=_Perm(), settings=_Perm())
        stream = RaopStream(core, _Perm(), _Perm(), _Perm())
        return stream.stream_file("http://example.invalid/a.mp3")

    return probe_takeover(make)


def probe_airplay():
    from pyatv import conf
    from pyatv.const import Protocol
    from pyatv.protocols.airplay import AirPlayStream
    from pyatv.settings import Settings

    def make(takeover):
        config = conf.AppleTV("127.0.0.1", "verif")
        service = conf.ManualService("airplayid", Protocol.AirPlay, 7000, {})
        config.add_service(service)
        core = types.SimpleNamespace(takeover=takeover, service=service, config=config, settings=Settings(),
                                     loop=None, device_listener=_Perm(), session_manager=_Perm(),
                                     state_dispatcher=_Perm())
        stream = AirPlayStream(core)
        return stream.play_url("http://example.invalid/a.mp4")

    return probe_airplay_call(make)


def probe_airplay_call(make):
    return probe_takeover(make)


def ast_takeover_args(cls, method, depth=2):
    """Names passed to `.takeover(...)` in `cls.method` or in same-class helpers it calls
    (`self.<helper>(...)`, up to `depth` levels).  None when the shape is not recognised
    (no or several takeover calls, non-name arguments, source unavailable)."""
    seen, calls = set(), []

    def visit(name, level):
        if name in seen or level > depth:
            return
        seen.add(name)
        func = getattr(cls, name, None)
        if func is None:
            return
        try:
            tree = ast.parse(textwrap.dedent(inspect.getsource(func)))
        except (OSError, TypeError, SyntaxError):
            return
        for node in ast.walk(tree):
            if isinstance(node, ast.Call) and isinstance(node.func, ast.Attribute):
                if node.func.attr == "takeover":
                    calls.append(node)
                elif isinstance(node.func.value, ast.Name) and node.func.value.id == "self":
                    visit(node.func.attr, level + 1)

    visit(method, 0)
    if len(calls) != 1:
        return None
    names = []
    for a in calls[0].args:
        if not isinstance(a, ast.Name):
            return None
        names.append(a.id)
    return names


def generate():
    from pyatv.protocols import PROTOCOLS
    from pyatv.protocols.airplay import AirPlayStream
    from pyatv.protocols.raop import RaopStream

    protos = [p.name for p in PROTOCOLS.keys()]
    raop = probe_raop()
    airplay = probe_airplay()
    how = {}
    for label, cls, method, probed in (("raop", RaopStream, "stream_file", raop),
                                       ("airplay", AirPlayStream, "play_url", airplay)):
        static = ast_takeover_args(cls, method)
        if static is None:
            how[label] = "probed (AST shape not recognised)"
        else:
            assert static == probed, f"{label}: AST says {static}, the running code takes over {probed}"
            how[label] = "probed, confirmed by the AST"
    for n in raop + airplay:
        assert n in IFACES, f"unknown interface {n} in takeover call"
    lst = lambda xs: "[" + ", ".join(xs) + "]"
    body = (
        "namespace PyatvModel.Gen.C18\n\n"
        "/-- keys of pyatv.protocols.PROTOCOLS in iteration (= set-up) order -/\n"
        f"def protocols : List String := {lst(['\"%s\"' % p for p in protos])}\n\n"
        "/-- interfaces that take part in takeovers (index = `Res.takeover i`) -/\n"
        f"def ifaces : List String := {lst(['\"%s\"' % p for p in IFACES])}\n\n"
        f"/-- RaopStream.stream_file: arguments of its core.takeover(...) call — {how['raop']} -/\n"
        f"def raopTakeoverIdx : List Nat := {lst([str(IFACES.index(n)) for n in raop])}\n\n"
        f"/-- AirPlayStream.play_url: arguments of its core.takeover(...) call — {how['airplay']} -/\n"
        f"def airplayTakeoverIdx : List Nat := {lst([str(IFACES.index(n)) for n in airplay])}\n\n"
        "end PyatvModel.Gen.C18\n"
    )
    return {"C18Consts": body}
