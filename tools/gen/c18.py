"""Gen/C18Consts.lean — set-up order of pyatv.connect and the interfaces taken over by the
two streaming calls, read from the imported real modules (PROTOCOLS dict order) and from
the AST of RaopStream.stream_file / AirPlayStream.play_url (`self.core.takeover(...)`)."""
import ast
import inspect
import textwrap

IFACES = ["Audio", "Metadata", "PushUpdater", "RemoteControl"]


def takeover_args(func):
    tree = ast.parse(textwrap.dedent(inspect.getsource(func)))
    calls = [n for n in ast.walk(tree) if isinstance(n, ast.Call) and isinstance(n.func, ast.Attribute)
             and n.func.attr == "takeover"]
    assert len(calls) == 1, f"expected exactly one takeover call in {func.__qualname__}"
    names = []
    for a in calls[0].args:
        assert isinstance(a, ast.Name), "takeover argument is not a plain interface name"
        names.append(a.id)
    return names


def generate():
    from pyatv.protocols import PROTOCOLS
    from pyatv.protocols.airplay import AirPlayStream
    from pyatv.protocols.raop import RaopStream

    protos = [p.name for p in PROTOCOLS.keys()]
    raop = takeover_args(RaopStream.stream_file)
    airplay = takeover_args(AirPlayStream.play_url)
    for n in raop + airplay:
        assert n in IFACES, f"unknown interface {n} in takeover call"
    lst = lambda xs: "[" + ", ".join(xs) + "]"
    body = (
        "namespace PyatvModel.Gen.C18\n\n"
        "/-- keys of pyatv.protocols.PROTOCOLS in iteration (= set-up) order -/\n"
        f"def protocols : List String := {lst(['\"%s\"' % p for p in protos])}\n\n"
        "/-- interfaces that take part in takeovers (index = `Res.takeover i`) -/\n"
        f"def ifaces : List String := {lst(['\"%s\"' % p for p in IFACES])}\n\n"
        "/-- RaopStream.stream_file: self.core.takeover(...) arguments -/\n"
        f"def raopTakeoverIdx : List Nat := {lst([str(IFACES.index(n)) for n in raop])}\n\n"
        "/-- AirPlayStream.play_url: self.core.takeover(...) arguments -/\n"
        f"def airplayTakeoverIdx : List Nat := {lst([str(IFACES.index(n)) for n in airplay])}\n\n"
        "end PyatvModel.Gen.C18\n"
    )
    return {"C18Consts": body}
