"""Gen/C14Fields.lean — declared fields and defaults of pyatv.settings.Settings.

Walks the real pydantic models (Settings -> info / protocols.<proto>) and prints every
leaf field as (dotted path, default).  A default is `none` (Python None),
`some (.inl "text")` (str, or the value of a str-Enum) or `some (.inr n)` (int).
"""
import enum


def _leafs(model_cls, prefix):
    out = []
    for name, field in model_cls.__fields__.items():
        tp = field.outer_type_
        if isinstance(tp, type) and hasattr(tp, "__fields__"):
            out += _leafs(tp, prefix + name + ".")
        else:
            out.append((prefix + name, field.get_default()))
    return out


def _lean_str(s):
    assert all(32 <= ord(c) < 127 and c not in '"\\' for c in s), s
    return '"' + s + '"'


def _lean_default(v):
    if v is None:
        return "none"
    if isinstance(v, enum.Enum):
        v = v.value
    if isinstance(v, bool):
        raise AssertionError("bool defaults are not modelled")
    if isinstance(v, int):
        assert v >= 0
        return f"some (.inr {v})"
    if isinstance(v, str):
        return f"some (.inl {_lean_str(v)})"
    raise AssertionError(f"default {v!r} not modelled")


def generate():
    from pyatv.settings import Settings
    from pyatv.storage import MODEL_VERSION

    leafs = _leafs(Settings, "")
    rows = ",\n".join(f"  ({_lean_str(p)}, {_lean_default(d)})" for p, d in leafs)
    body = (
        "namespace PyatvModel.Gen.C14\n\n"
        "/-- every leaf field of pyatv.settings.Settings (declaration order) with its default -/\n"
        "def fields : List (String × Option (Sum String Nat)) := [\n" + rows + "]\n\n"
        f"/-- pyatv.storage.MODEL_VERSION -/\ndef modelVersion : Nat := {MODEL_VERSION}\n\n"
        "end PyatvModel.Gen.C14\n"
    )
    return {"C14Fields": body}
