"""Gen/C20Consts.lean — volume constants read from the real modules (tie A for C20).

Every number is printed as an exact rational (`float.as_integer_ratio`), never as a
decimal approximation.  Sources:

* pyatv.protocols.airplay.utils: DBFS_MIN/DBFS_MAX/PERCENTAGE_MIN/PERCENTAGE_MAX, the
  mute sentinel returned by `pct_to_dbfs` (AST of the function), the way `math.isclose`
  is called there (positional, default tolerances read from math.isclose's signature);
* pyatv.protocols.raop: INITIAL_VOLUME, step and clamp bound of RaopAudio.volume_up/down;
* pyatv.protocols.mrp: step, clamp bound and early-return level of MrpAudio.volume_up/down;
  (steps, bounds, stop levels and the mute sentinel are always PROBED on the real code — the
  real methods run on an instance whose public volume / set_volume are a settable level and a
  recorder — and additionally read from the source, in the method or in a helper it calls,
  literals or named constants; a recognised source shape must agree with the probe, an
  unrecognised one falls back to the probe and the Gen file says so)
* pyatv.core.facade: the two bounds of the FacadeAudio.volume / set_volume guards: the range
  test is read from the source — inline or in a helper it calls (module-level function or
  method of the class, one level), in any equivalent spelling (chained comparison, negated,
  two comparisons joined by and / or, bounds as literals or named constants) — and the REAL
  guard is always probed too (NaN, +-inf, -0.0, bisection over the doubles for the smallest
  and largest accepted level, neighbours).  Recognised shape must agree with the probe; an
  unrecognised shape falls back to the probed bounds (the Gen file says which).

A shape the extractor does not recognise raises (the check then reports the extraction
as failed and no obligation counts as discharged).
"""
import ast
import inspect
import math
import re
import struct
import textwrap
from fractions import Fraction


def _rat(x):
    if isinstance(x, bool) or not isinstance(x, (int, float)):
        raise TypeError(f"not a number: {x!r}")
    if isinstance(x, float) and not math.isfinite(x):
        raise ValueError(f"not finite: {x!r}")
    fr = Fraction(x)
    if fr.denominator == 1:
        return f"({fr.numerator} : Rat)"
    return f"(({fr.numerator} : Rat) / {fr.denominator})"


def _fn_ast(obj):
    if isinstance(obj, property):
        obj = obj.fget
    obj = inspect.unwrap(obj)
    tree = ast.parse(textwrap.dedent(inspect.getsource(obj)))
    fn = tree.body[0]
    assert isinstance(fn, (ast.FunctionDef, ast.AsyncFunctionDef)), fn
    return fn


def _num(node):
    """numeric literal (with optional unary minus) -> python number"""
    if isinstance(node, ast.Constant) and isinstance(node.value, (int, float)) and not isinstance(node.value, bool):
        return node.value
    if isinstance(node, ast.UnaryOp) and isinstance(node.op, ast.USub):
        return -_num(node.operand)
    raise ValueError("not a numeric literal: " + ast.dump(node))


def _step_and_bound(fn, which, op, scope=None):
    """find `min|max(<expr> +|- STEP, BOUND)` inside fn -> (STEP, BOUND); STEP and BOUND may be
    literals or names that resolve to numbers in `scope`"""
    found = []
    num = (lambda n: _const(n, scope)) if scope is not None else _num
    for node in ast.walk(fn):
        if isinstance(node, ast.Call) and isinstance(node.func, ast.Name) and node.func.id == which and len(node.args) == 2:
            a, b = node.args
            if isinstance(a, ast.BinOp) and isinstance(a.op, op):
                found.append((num(a.right), num(b)))
    if len(found) != 1:
        raise ValueError(f"{fn.name}: expected exactly one {which}(x {op.__name__} STEP, BOUND), found {found}")
    return found[0]


def _early_return_level(fn):
    """`if ... and self._volume == LEVEL: return` -> LEVEL"""
    for node in ast.walk(fn):
        if isinstance(node, ast.Compare) and len(node.ops) == 1 and isinstance(node.ops[0], ast.Eq):
            try:
                return _num(node.comparators[0])
            except ValueError:
                continue
    raise ValueError(f"{fn.name}: no `== LEVEL` early return found")


def _const(node, scope):
    """numeric literal, or a name / attribute that resolves to a number in `scope`"""
    try:
        return _num(node)
    except ValueError:
        pass
    if isinstance(node, (ast.Name, ast.Attribute)):
        try:
            val = eval(compile(ast.Expression(node), "<guard>", "eval"), dict(scope))  # noqa: S307 - a name lookup
        except Exception as exc:
            raise ValueError("not a constant: " + ast.unparse(node)) from exc
        if isinstance(val, (int, float)) and not isinstance(val, bool):
            return val
    raise ValueError("not a constant: " + ast.unparse(node))


def _range_tests(tree, scope):
    """Every range test on one variable found in `tree`, in any of the equivalent spellings
    -> [(lo, lo_inclusive, hi, hi_inclusive)].  A test for being OUTSIDE (`x < LO or x > HI`)
    is turned into its complement; an enclosing `not` does not change the bounds."""
    out = []

    def side(cmp):
        """single comparison between a variable and a constant -> (kind, bound, inclusive)
        with kind 'lo' (var >= / > bound) or 'hi' (var <= / < bound)"""
        if len(cmp.ops) != 1:
            return None
        op, left, right = cmp.ops[0], cmp.left, cmp.comparators[0]
        for var_left in (True, False):
            try:
                bound = _const(right if var_left else left, scope)
            except ValueError:
                continue
            if isinstance(op, (ast.Gt, ast.GtE)):
                return ("lo" if var_left else "hi", bound, isinstance(op, ast.GtE))
            if isinstance(op, (ast.Lt, ast.LtE)):
                return ("hi" if var_left else "lo", bound, isinstance(op, ast.LtE))
        return None

    for node in ast.walk(tree):
        if isinstance(node, ast.Compare) and len(node.ops) == 2:
            ops = node.ops
            try:
                first, last = _const(node.left, scope), _const(node.comparators[1], scope)
            except ValueError:
                continue
            if all(isinstance(o, (ast.Lt, ast.LtE)) for o in ops):        # LO <= x <= HI
                out.append((first, isinstance(ops[0], ast.LtE), last, isinstance(ops[1], ast.LtE)))
            elif all(isinstance(o, (ast.Gt, ast.GtE)) for o in ops):      # HI >= x >= LO
                out.append((last, isinstance(ops[1], ast.GtE), first, isinstance(ops[0], ast.GtE)))
        elif isinstance(node, ast.BoolOp) and len(node.values) == 2 and all(isinstance(v, ast.Compare) for v in node.values):
            sides = [side(v) for v in node.values]
            if None in sides or {sd[0] for sd in sides} != {"lo", "hi"}:
                continue
            lo = next(sd for sd in sides if sd[0] == "lo")
            hi = next(sd for sd in sides if sd[0] == "hi")
            if isinstance(node.op, ast.And):        # x >= LO and x <= HI
                out.append((lo[1], lo[2], hi[1], hi[2]))
            else:                                   # x < LO or x > HI  (outside test): 'hi'-kind part gives LO
                out.append((hi[1], not hi[2], lo[1], not lo[2]))
    return out


def _callees(fn_obj, owner):
    """functions called from fn_obj that are module-level functions of its module or methods
    of `owner` (one level: their bodies are analysed together with fn_obj's)"""
    fn = inspect.unwrap(fn_obj.fget if isinstance(fn_obj, property) else fn_obj)
    scope = fn.__globals__
    found = []
    for node in ast.walk(_fn_ast(fn_obj)):
        if not isinstance(node, ast.Call):
            continue
        target = None
        if isinstance(node.func, ast.Name):
            target = scope.get(node.func.id)
        elif isinstance(node.func, ast.Attribute) and isinstance(node.func.value, ast.Name) and node.func.value.id in ("self", "cls"):
            target = inspect.getattr_static(owner, node.func.attr, None)
            if isinstance(target, (staticmethod, classmethod)):
                target = target.__func__
        if target is None or isinstance(target, type):
            continue
        target = inspect.unwrap(target.fget if isinstance(target, property) else target)
        if inspect.isfunction(target) and (target.__module__ or "").startswith("pyatv") and target not in found:
            found.append(target)
    return found


def _guard_shape(fn_obj, owner):
    """AST view of the range guard of fn_obj (following calls one level) -> (lo, hi) when there
    is exactly one range test and it is inclusive on both sides, else None (shape unknown)."""
    fn = inspect.unwrap(fn_obj.fget if isinstance(fn_obj, property) else fn_obj)
    tests = _range_tests(_fn_ast(fn_obj), fn.__globals__)
    for callee in _callees(fn_obj, owner):
        try:
            tests += _range_tests(_fn_ast(callee), callee.__globals__)
        except (OSError, TypeError, SyntaxError):
            continue
    tests = sorted(set(tests))
    if len(tests) == 1 and tests[0][1] and tests[0][3]:
        return tests[0][0], tests[0][2]
    return None


def _f2i(x):
    """doubles in numeric order as integers (-0.0 and 0.0 coincide)"""
    bits = struct.unpack("<q", struct.pack("<d", x))[0]
    return bits if bits >= 0 else -(bits & 0x7FFFFFFFFFFFFFFF)


def _i2f(i):
    return struct.unpack("<d", struct.pack("<q", i if i >= 0 else (-i) | -0x8000000000000000))[0]


def _probe_guard(accepts, hints, what):
    """Behavioural view of a range guard: `accepts(x)` runs the REAL guard.  Returns the smallest
    and the largest accepted double (found by bisection over the doubles), after checking that
    NaN and the infinities are refused and that acceptance looks like one interval."""
    for bad in (float("nan"), float("inf"), float("-inf")):
        if accepts(bad):
            raise ValueError(f"{what}: the guard accepts {bad!r}")
    inside = next((x for x in list(hints) + [50.0, 0.0, 100.0, 1.0] if accepts(x)), None)
    if inside is None:
        raise ValueError(f"{what}: no accepted level found")
    biggest = 1.7976931348623157e308

    def edge(outside):
        if accepts(outside):
            return outside
        bad, good = _f2i(outside), _f2i(inside)
        while abs(good - bad) > 1:
            mid = (good + bad) // 2
            if accepts(_i2f(mid)):
                good = mid
            else:
                bad = mid
        return _i2f(good)

    lo, hi = edge(-biggest), edge(biggest)
    for x in (lo, hi, -0.0 if lo <= 0.0 <= hi else lo, (lo + hi) / 2, lo + (hi - lo) / 3, math.nextafter(lo, hi), math.nextafter(hi, lo)):
        if not accepts(x):
            raise ValueError(f"{what}: {x!r} inside [{lo!r}, {hi!r}] is refused")
    for x in (math.nextafter(lo, -math.inf), math.nextafter(hi, math.inf), lo - 1.0, hi + 1.0):
        if accepts(x):
            raise ValueError(f"{what}: {x!r} outside [{lo!r}, {hi!r}] is accepted")
    return lo + 0.0, hi + 0.0


def _facade_guards(facade):
    """(read_lo, read_hi, set_lo, set_hi, how): bounds of FacadeAudio.volume / set_volume.
    The shape is read from the source (guard inline or in a helper, any equivalent spelling);
    the REAL guard is always probed as well.  Shape recognised: it must agree with the probe.
    Shape not recognised: the probed bounds are used and the Gen file says so."""
    import asyncio

    from pyatv import exceptions
    from pyatv.const import Protocol
    from pyatv.core import CoreStateDispatcher

    class Stub:
        level = 0.0

        @property
        def volume(self):
            return self.level

        async def set_volume(self, level):
            pass

    loop = asyncio.new_event_loop()
    try:
        asyncio.set_event_loop(loop)
        stub = Stub()
        audio = facade.FacadeAudio(CoreStateDispatcher())
        audio.register(stub, Protocol.MRP)

        def read_ok(x):
            stub.level = x
            try:
                audio.volume
                return True
            except exceptions.ProtocolError:
                return False

        def set_ok(x):
            try:
                loop.run_until_complete(audio.set_volume(x))
                return True
            except exceptions.ProtocolError:
                return False

        out, how = [], []
        for name, fn_obj, accepts in (("FacadeAudio.volume", facade.FacadeAudio.volume, read_ok),
                                      ("FacadeAudio.set_volume", facade.FacadeAudio.set_volume, set_ok)):
            try:
                shape = _guard_shape(fn_obj, facade.FacadeAudio)
            except Exception:
                shape = None
            lo, hi = _probe_guard(accepts, list(shape or ()), name)
            if shape is not None and (float(shape[0]), float(shape[1])) != (lo, hi):
                raise ValueError(f"{name}: source says {shape[0]!r} <= x <= {shape[1]!r} but the guard accepts exactly [{lo!r}, {hi!r}]")
            out += [lo, hi]
            how.append(f"{name}: " + ("range test read from the source, confirmed by probing the real guard"
                                      if shape is not None else "shape not recognised, bounds PROBED on the real guard"))
        return out[0], out[1], out[2], out[3], how
    finally:
        asyncio.set_event_loop(None)
        loop.close()


def _isclose_defaults():
    sig = math.isclose.__text_signature__ or ""
    m = re.search(r"rel_tol=([0-9.eE+-]+), abs_tol=([0-9.eE+-]+)", sig)
    if not m:
        raise ValueError("cannot read math.isclose defaults from " + repr(sig))
    return float(m.group(1)), float(m.group(2))


def _mute_sentinel(fn, scope=None):
    """pct_to_dbfs: `if math.isclose(level, 0.0): return SENTINEL` -> (compared-to, SENTINEL)"""
    for node in ast.walk(fn):
        if isinstance(node, ast.If) and isinstance(node.test, ast.Call):
            call = node.test
            name = ast.unparse(call.func)
            if name.endswith("isclose"):
                if call.keywords or len(call.args) != 2:
                    raise ValueError("isclose is not called with two positional arguments and default tolerances")
                ret = [n for n in node.body if isinstance(n, ast.Return)]
                if len(ret) != 1:
                    raise ValueError("no single return under the isclose test")
                num = (lambda n: _const(n, scope)) if scope is not None else _num
                return num(call.args[1]), num(ret[0].value)
    raise ValueError("pct_to_dbfs: isclose/mute branch not found")


def _source_step(fn_obj, owner, which, op):
    """(STEP, BOUND) read from the source of fn_obj or of a helper it calls (one level), with
    names resolved; None when no such expression is recognised"""
    fn = inspect.unwrap(fn_obj)
    for f in [fn] + _callees(fn_obj, owner):
        try:
            return _step_and_bound(_fn_ast(f), which, op, f.__globals__)
        except Exception:
            continue
    return None


def _run(coro):
    import asyncio
    loop = asyncio.new_event_loop()
    try:
        return loop.run_until_complete(coro)
    finally:
        loop.close()


def _probe_steps_raop(raop):
    """Behavioural view of RaopAudio.volume_up / volume_down: the REAL methods are run on a
    subclass whose public `volume` / `set_volume` are a settable level and a recorder.
    -> (up_step, up_bound, down_step, down_bound)"""
    calls = []

    class Probe(raop.RaopAudio):
        level = 50.0

        def __init__(self):          # no playback manager / dispatcher needed
            pass

        @property
        def volume(self):
            return self.level

        async def set_volume(self, level):
            calls.append(level)

    def arg(method, level):
        probe = Probe()
        probe.level = level
        del calls[:]
        _run(getattr(probe, method)())
        if len(calls) != 1:
            raise ValueError(f"RaopAudio.{method} at {level}: set_volume called {len(calls)} times")
        return calls[0]

    up_step, down_step = arg("volume_up", 50.0) - 50.0, 50.0 - arg("volume_down", 50.0)
    up_bound, down_bound = arg("volume_up", 1000.0), arg("volume_down", -1000.0)
    if up_bound == 1000.0 + up_step or down_bound == -1000.0 - down_step:
        raise ValueError("RaopAudio.volume_up/volume_down do not clamp")
    for lvl in (0.0, 33.0, 97.0, 100.0):     # the formula holds elsewhere too
        if arg("volume_up", lvl) != min(lvl + up_step, up_bound) or arg("volume_down", lvl) != max(lvl - down_step, down_bound):
            raise ValueError(f"RaopAudio step at {lvl} is not min/max(level +- step, bound)")
    return up_step, up_bound, down_step, down_bound


def _probe_steps_mrp(mrp):
    """Behavioural view of MrpAudio.volume_up / volume_down with absolute-only volume control:
    a REAL MrpAudio (public `set_volume` replaced by a recorder) is fed the availability and
    volume messages through the listeners it registers.
    -> (up_step, up_bound, up_stop, down_step, down_bound, down_stop)"""
    from pyatv.const import Protocol
    from pyatv.core import CoreStateDispatcher, ProtocolStateDispatcher
    from pyatv.protocols.mrp import protobuf

    calls = []

    class Probe(mrp.MrpAudio):
        async def set_volume(self, level):
            calls.append(level)

    class Info:
        clusterID = None
        deviceUID = "gen-uid"

    class DeviceInfo:
        def inner(self):
            return Info()

    class FakeProtocol:
        device_info = DeviceInfo()

        def __init__(self):
            self.listeners = {}

        def listen_to(self, msgtype, func):
            self.listeners[msgtype] = func

    async def run(method, level):
        proto = FakeProtocol()
        audio = Probe(proto, ProtocolStateDispatcher(Protocol.MRP, CoreStateDispatcher()))
        msg = protobuf.ProtocolMessage()
        msg.type = protobuf.ProtocolMessage.VOLUME_CONTROL_AVAILABILITY_MESSAGE
        msg.inner().volumeControlAvailable = True
        msg.inner().volumeCapabilities = protobuf.VolumeCapabilities.Absolute
        await proto.listeners[protobuf.VOLUME_CONTROL_AVAILABILITY_MESSAGE](msg)
        msg = protobuf.ProtocolMessage()
        msg.type = protobuf.ProtocolMessage.VOLUME_DID_CHANGE_MESSAGE
        msg.inner().outputDeviceUID = "gen-uid"
        msg.inner().volume = level / 100.0
        await proto.listeners[protobuf.VOLUME_DID_CHANGE_MESSAGE](msg)
        if audio.volume != level:
            raise ValueError(f"MrpAudio reports {audio.volume!r} after the device said {level!r}")
        del calls[:]
        await getattr(audio, method)()
        return list(calls)

    def arg(method, level):
        got = _run(run(method, level))
        if len(got) != 1:
            raise ValueError(f"MrpAudio.{method} at {level}: set_volume called {len(got)} times")
        return got[0]

    up_step, down_step = arg("volume_up", 50.0) - 50.0, 50.0 - arg("volume_down", 50.0)
    up_bound, down_bound = arg("volume_up", 99.5), arg("volume_down", 0.5)
    if up_bound == 99.5 + up_step or down_bound == 0.5 - down_step:
        raise ValueError("MrpAudio.volume_up/volume_down do not clamp")
    if _run(run("volume_up", up_bound)) or _run(run("volume_down", down_bound)):
        raise ValueError("MrpAudio steps at the end stop")
    for lvl in (33.0, 97.0, 3.0):
        if arg("volume_up", lvl) != min(lvl + up_step, up_bound) or arg("volume_down", lvl) != max(lvl - down_step, down_bound):
            raise ValueError(f"MrpAudio step at {lvl} is not min/max(level +- step, bound)")
    return up_step, up_bound, up_bound, down_step, down_bound, down_bound


def _probe_mute(utils):
    """Behavioural view of the mute re-mapping in pct_to_dbfs -> (level, sentinel)"""
    sentinel = utils.pct_to_dbfs(0.0)
    if utils.pct_to_dbfs(-0.0) != sentinel:
        raise ValueError("pct_to_dbfs(-0.0) differs from pct_to_dbfs(0.0)")
    if utils.pct_to_dbfs(math.nextafter(0.0, 1.0)) == sentinel or utils.pct_to_dbfs(1e-9) == sentinel:
        raise ValueError("pct_to_dbfs maps non-zero levels to the mute sentinel")
    if utils.DBFS_MIN <= sentinel <= utils.DBFS_MAX:
        raise ValueError("pct_to_dbfs(0.0) is not a separate mute sentinel")
    return 0.0, sentinel


def _agree(name, source, probed, how):
    """source (may be None) and probed view of one fact; they must agree when both exist"""
    if source is None:
        how.append(f"{name}: shape not recognised in the source, PROBED on the real code")
    elif tuple(float(x) for x in source) != tuple(float(x) for x in probed):
        raise ValueError(f"{name}: the source says {source!r} but the real code behaves as {probed!r}")
    else:
        how.append(f"{name}: read from the source, confirmed by probing the real code")
    return probed


def generate():
    from pyatv.core import facade
    from pyatv.protocols import mrp, raop
    from pyatv.protocols.airplay import utils

    how = []
    rel_tol, abs_tol = _isclose_defaults()
    try:
        mute_src = _mute_sentinel(_fn_ast(utils.pct_to_dbfs), utils.pct_to_dbfs.__globals__)
    except Exception:
        mute_src = None
    close_to, mute = _agree("mute", mute_src, _probe_mute(utils), how)
    r_up_s, r_up_b, r_dn_s, r_dn_b = _probe_steps_raop(raop)
    raop_up = _agree("RaopAudio.volume_up", _source_step(raop.RaopAudio.volume_up, raop.RaopAudio, "min", ast.Add), (r_up_s, r_up_b), how)
    raop_down = _agree("RaopAudio.volume_down", _source_step(raop.RaopAudio.volume_down, raop.RaopAudio, "max", ast.Sub), (r_dn_s, r_dn_b), how)
    m_up_s, m_up_b, m_up_stop, m_dn_s, m_dn_b, m_dn_stop = _probe_steps_mrp(mrp)
    mrp_up = _agree("MrpAudio.volume_up", _source_step(mrp.MrpAudio.volume_up, mrp.MrpAudio, "min", ast.Add), (m_up_s, m_up_b), how)
    mrp_down = _agree("MrpAudio.volume_down", _source_step(mrp.MrpAudio.volume_down, mrp.MrpAudio, "max", ast.Sub), (m_dn_s, m_dn_b), how)
    read_lo, read_hi, set_lo, set_hi, guard_how = _facade_guards(facade)

    defs = [
        ("dbfsMin", utils.DBFS_MIN, "pyatv.protocols.airplay.utils.DBFS_MIN"),
        ("dbfsMax", utils.DBFS_MAX, "pyatv.protocols.airplay.utils.DBFS_MAX"),
        ("pctMin", utils.PERCENTAGE_MIN, "pyatv.protocols.airplay.utils.PERCENTAGE_MIN"),
        ("pctMax", utils.PERCENTAGE_MAX, "pyatv.protocols.airplay.utils.PERCENTAGE_MAX"),
        ("muteDbfs", mute, "value returned by pct_to_dbfs for a muted level. " + how[0]),
        ("muteLevel", close_to, "level that pct_to_dbfs compares with (math.isclose) to detect mute"),
        ("iscloseRelTol", rel_tol, "math.isclose default rel_tol (pct_to_dbfs passes none)"),
        ("iscloseAbsTol", abs_tol, "math.isclose default abs_tol"),
        ("raopInitialVolume", raop.INITIAL_VOLUME, "pyatv.protocols.raop.INITIAL_VOLUME"),
        ("raopUpStep", raop_up[0], "RaopAudio.volume_up: min(volume + STEP, BOUND). " + how[1]),
        ("raopUpBound", raop_up[1], ""),
        ("raopDownStep", raop_down[0], "RaopAudio.volume_down: max(volume - STEP, BOUND). " + how[2]),
        ("raopDownBound", raop_down[1], ""),
        ("mrpUpStep", mrp_up[0], "MrpAudio.volume_up (absolute control): min(volume + STEP, BOUND). " + how[3]),
        ("mrpUpBound", mrp_up[1], ""),
        ("mrpUpStop", m_up_stop, "MrpAudio.volume_up returns at once at this level (probed: no set_volume there)"),
        ("mrpDownStep", mrp_down[0], "MrpAudio.volume_down (absolute control): max(volume - STEP, BOUND). " + how[4]),
        ("mrpDownBound", mrp_down[1], ""),
        ("mrpDownStop", m_dn_stop, "MrpAudio.volume_down returns at once at this level (probed: no set_volume there)"),
        ("facadeReadLo", read_lo, "FacadeAudio.volume guard: LO <= volume <= HI (NaN, +-inf refused). " + guard_how[0]),
        ("facadeReadHi", read_hi, ""),
        ("facadeSetLo", set_lo, "FacadeAudio.set_volume guard: LO <= level <= HI (NaN, +-inf refused). " + guard_how[1]),
        ("facadeSetHi", set_hi, ""),
    ]
    out = ["namespace PyatvModel.Gen.C20\n"]
    for name, val, doc in defs:
        if doc:
            out.append(f"/-- {doc} -/")
        out.append(f"def {name} : Rat := {_rat(val)}\n")
    out.append("end PyatvModel.Gen.C20\n")
    return {"C20Consts": "\n".join(out)}
