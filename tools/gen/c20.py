"""Gen/C20Consts.lean — volume constants read from the real modules (tie A for C20).

Every number is printed as an exact rational (`float.as_integer_ratio`), never as a
decimal approximation.  Sources:

* pyatv.protocols.airplay.utils: DBFS_MIN/DBFS_MAX/PERCENTAGE_MIN/PERCENTAGE_MAX, the
  mute sentinel returned by `pct_to_dbfs` (AST of the function), the way `math.isclose`
  is called there (positional, default tolerances read from math.isclose's signature);
* pyatv.protocols.raop: INITIAL_VOLUME, step and clamp bound of RaopAudio.volume_up/down;
* pyatv.protocols.mrp: step, clamp bound and early-return level of MrpAudio.volume_up/down;
* pyatv.core.facade: the two bounds of the FacadeAudio.volume / set_volume guards.

A shape the extractor does not recognise raises (the check then reports the extraction
as failed and no obligation counts as discharged).
"""
import ast
import inspect
import math
import re
import textwrap
from fractions import Fraction


def _rat(x):
    if isinstance(x, bool) or not isinstance(x, (int, float)):
        raise TypeError(f"not a number: {x!r}")
    if isinstance(x, float) and not math.isfinite(x):
        raise ValueError(f"not finite: {x!r}")
    fr = Fraction(x)
    if fr.denominator == 1:
        return f"({fr.numerator} : Rat)"
    return f"(({fr.numerator} : Rat) / {fr.denominator})"


def _fn_ast(obj):
    if isinstance(obj, property):
        obj = obj.fget
    obj = inspect.unwrap(obj)
    tree = ast.parse(textwrap.dedent(inspect.getsource(obj)))
    fn = tree.body[0]
    assert isinstance(fn, (ast.FunctionDef, ast.AsyncFunctionDef)), fn
    return fn


def _num(node):
    """numeric literal (with optional unary minus) -> python number"""
    if isinstance(node, ast.Constant) and isinstance(node.value, (int, float)) and not isinstance(node.value, bool):
        return node.value
    if isinstance(node, ast.UnaryOp) and isinstance(node.op, ast.USub):
        return -_num(node.operand)
    raise ValueError("not a numeric literal: " + ast.dump(node))


def _step_and_bound(fn, which, op):
    """find `min|max(<expr> +|- STEP, BOUND)` inside fn -> (STEP, BOUND)"""
    found = []
    for node in ast.walk(fn):
        if isinstance(node, ast.Call) and isinstance(node.func, ast.Name) and node.func.id == which and len(node.args) == 2:
            a, b = node.args
            if isinstance(a, ast.BinOp) and isinstance(a.op, op):
                found.append((_num(a.right), _num(b)))
    if len(found) != 1:
        raise ValueError(f"{fn.name}: expected exactly one {which}(x {op.__name__} STEP, BOUND), found {found}")
    return found[0]


def _early_return_level(fn):
    """`if ... and self._volume == LEVEL: return` -> LEVEL"""
    for node in ast.walk(fn):
        if isinstance(node, ast.Compare) and len(node.ops) == 1 and isinstance(node.ops[0], ast.Eq):
            try:
                return _num(node.comparators[0])
            except ValueError:
                continue
    raise ValueError(f"{fn.name}: no `== LEVEL` early return found")


def _guard_bounds(fn):
    """`LO <= x <= HI` (chained, both non-strict) -> (LO, HI)"""
    found = []
    for node in ast.walk(fn):
        if isinstance(node, ast.Compare) and len(node.ops) == 2:
            if not all(isinstance(o, ast.LtE) for o in node.ops):
                raise ValueError(f"{fn.name}: guard is not `LO <= x <= HI`: " + ast.dump(node))
            found.append((_num(node.left), _num(node.comparators[1])))
    if len(found) != 1:
        raise ValueError(f"{fn.name}: expected one chained range comparison, found {found}")
    return found[0]


def _isclose_defaults():
    sig = math.isclose.__text_signature__ or ""
    m = re.search(r"rel_tol=([0-9.eE+-]+), abs_tol=([0-9.eE+-]+)", sig)
    if not m:
        raise ValueError("cannot read math.isclose defaults from " + repr(sig))
    return float(m.group(1)), float(m.group(2))


def _mute_sentinel(fn):
    """pct_to_dbfs: `if math.isclose(level, 0.0): return SENTINEL` -> (compared-to, SENTINEL)"""
    for node in ast.walk(fn):
        if isinstance(node, ast.If) and isinstance(node.test, ast.Call):
            call = node.test
            name = ast.unparse(call.func)
            if name.endswith("isclose"):
                if call.keywords or len(call.args) != 2:
                    raise ValueError("isclose is not called with two positional arguments and default tolerances")
                ret = [n for n in node.body if isinstance(n, ast.Return)]
                if len(ret) != 1:
                    raise ValueError("no single return under the isclose test")
                return _num(call.args[1]), _num(ret[0].value)
    raise ValueError("pct_to_dbfs: isclose/mute branch not found")


def generate():
    from pyatv.core import facade
    from pyatv.protocols import mrp, raop
    from pyatv.protocols.airplay import utils

    rel_tol, abs_tol = _isclose_defaults()
    close_to, mute = _mute_sentinel(_fn_ast(utils.pct_to_dbfs))
    raop_up = _step_and_bound(_fn_ast(raop.RaopAudio.volume_up), "min", ast.Add)
    raop_down = _step_and_bound(_fn_ast(raop.RaopAudio.volume_down), "max", ast.Sub)
    mrp_up_fn, mrp_down_fn = _fn_ast(mrp.MrpAudio.volume_up), _fn_ast(mrp.MrpAudio.volume_down)
    mrp_up = _step_and_bound(mrp_up_fn, "min", ast.Add)
    mrp_down = _step_and_bound(mrp_down_fn, "max", ast.Sub)
    read_lo, read_hi = _guard_bounds(_fn_ast(facade.FacadeAudio.volume))
    set_lo, set_hi = _guard_bounds(_fn_ast(facade.FacadeAudio.set_volume))

    defs = [
        ("dbfsMin", utils.DBFS_MIN, "pyatv.protocols.airplay.utils.DBFS_MIN"),
        ("dbfsMax", utils.DBFS_MAX, "pyatv.protocols.airplay.utils.DBFS_MAX"),
        ("pctMin", utils.PERCENTAGE_MIN, "pyatv.protocols.airplay.utils.PERCENTAGE_MIN"),
        ("pctMax", utils.PERCENTAGE_MAX, "pyatv.protocols.airplay.utils.PERCENTAGE_MAX"),
        ("muteDbfs", mute, "value returned by pct_to_dbfs for a muted level"),
        ("muteLevel", close_to, "level that pct_to_dbfs compares with (math.isclose) to detect mute"),
        ("iscloseRelTol", rel_tol, "math.isclose default rel_tol (pct_to_dbfs passes none)"),
        ("iscloseAbsTol", abs_tol, "math.isclose default abs_tol"),
        ("raopInitialVolume", raop.INITIAL_VOLUME, "pyatv.protocols.raop.INITIAL_VOLUME"),
        ("raopUpStep", raop_up[0], "RaopAudio.volume_up: min(volume + STEP, BOUND)"),
        ("raopUpBound", raop_up[1], ""),
        ("raopDownStep", raop_down[0], "RaopAudio.volume_down: max(volume - STEP, BOUND)"),
        ("raopDownBound", raop_down[1], ""),
        ("mrpUpStep", mrp_up[0], "MrpAudio.volume_up (absolute control): min(volume + STEP, BOUND)"),
        ("mrpUpBound", mrp_up[1], ""),
        ("mrpUpStop", _early_return_level(mrp_up_fn), "MrpAudio.volume_up returns at once at this level"),
        ("mrpDownStep", mrp_down[0], "MrpAudio.volume_down (absolute control): max(volume - STEP, BOUND)"),
        ("mrpDownBound", mrp_down[1], ""),
        ("mrpDownStop", _early_return_level(mrp_down_fn), "MrpAudio.volume_down returns at once at this level"),
        ("facadeReadLo", read_lo, "FacadeAudio.volume guard: LO <= volume <= HI"),
        ("facadeReadHi", read_hi, ""),
        ("facadeSetLo", set_lo, "FacadeAudio.set_volume guard: LO <= level <= HI"),
        ("facadeSetHi", set_hi, ""),
    ]
    out = ["namespace PyatvModel.Gen.C20\n"]
    for name, val, doc in defs:
        if doc:
            out.append(f"/-- {doc} -/")
        out.append(f"def {name} : Rat := {_rat(val)}\n")
    out.append("end PyatvModel.Gen.C20\n")
    return {"C20Consts": "\n".join(out)}
