"""Gen/C04OpackConsts.lean — the literal constants of pyatv.support.opack._pack/_unpack.

opack.py has no named tag constants: tag bytes, length-class limits and widths are int /
bytes literals inside the two functions.  They are collected from the AST of the imported
module (sorted, de-duplicated) so that a change of any literal changes this file; the
Props file compares the lists with the constants transcribed into the model.
"""
import ast
import inspect
import textwrap


def _literals(fn):
    tree = ast.parse(textwrap.dedent(inspect.getsource(fn)))
    ints, byte_vals = set(), set()
    for node in ast.walk(tree):
        if isinstance(node, ast.Constant):
            if isinstance(node.value, bool):
                continue
            if isinstance(node.value, int):
                ints.add(node.value)
            elif isinstance(node.value, bytes):
                byte_vals.update(node.value)
    return sorted(ints), sorted(byte_vals)


def _lean_list(name, doc, xs):
    return f"/-- {doc} -/\ndef {name} : List Nat := [{', '.join(str(x) for x in xs)}]\n\n"


def generate():
    from pyatv.support import opack

    pi, pb = _literals(opack._pack)
    ui, ub = _literals(opack._unpack)
    assert pi and ui
    body = (
        "namespace PyatvModel.Gen.C04Opack\n\n"
        + _lean_list("packInts", "int literals in `opack._pack` (tags, length-class limits, widths)", pi)
        + _lean_list("packBytes", "bytes literals in `opack._pack` (single-byte objects, terminator)", pb)
        + _lean_list("unpackInts", "int literals in `opack._unpack`", ui)
        + _lean_list("unpackBytes", "bytes literals in `opack._unpack`", ub)
        + "end PyatvModel.Gen.C04Opack\n"
    )
    return {"C04OpackConsts": body}
