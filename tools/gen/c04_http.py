"""Gen/C04HttpConsts.lean — the two strings pyatv.support.http inserts into messages by itself."""


def _bytes(b):
    return "[" + ", ".join(str(x) for x in b) + "]"


def generate():
    from pyatv.support import http

    ua = http.USER_AGENT.encode("utf-8")
    server = http.SERVER_NAME.encode("utf-8")
    body = (
        "namespace PyatvModel.Gen.C04Http\n\n"
        f"/-- pyatv.support.http.USER_AGENT = {http.USER_AGENT!r} (UTF-8) -/\n"
        f"def userAgent : List UInt8 := {_bytes(ua)}\n\n"
        f"/-- pyatv.support.http.SERVER_NAME = {http.SERVER_NAME!r} (UTF-8) -/\n"
        f"def serverName : List UInt8 := {_bytes(server)}\n\n"
        "end PyatvModel.Gen.C04Http\n"
    )
    return {"C04HttpConsts": body}
