#!/usr/bin/env python3
"""Confirm a candidate seeded change and keep it under seeded/<id>/.

    python3 tools/confirm_seeded.py <candidate_dir> <seed_id> <property> "<needs>"

candidate_dir holds patch.diff, demo.py, README.md.  In a scratch worktree of /repo
(outside /repo and /verif, removed afterwards): demo on the clean tree must exit 0; the
patch must apply; demo with the patch must exit 1; the pinned suite must keep every
baseline-stable test passing.  Only then the candidate is copied to seeded/<id>/ with a
meta.json recording what was run.
"""
import json
import os
import shutil
import subprocess
import sys
import time

VERIF = os.path.dirname(os.path.dirname(os.path.abspath(__file__)))
cand, sid, prop, needs = sys.argv[1], sys.argv[2], sys.argv[3], sys.argv[4]
wt = f"/tmp/confirm_seed_{os.getpid()}"


def sh(cmd, **kw):
    return subprocess.run(cmd, shell=True, capture_output=True, text=True, **kw)


sh(f"git -C /repo worktree add -f --detach {wt} HEAD")
ran = []
try:
    demo = os.path.join(cand, "demo.py")
    r0 = sh(f"/venv/bin/python {demo} {wt}", timeout=300)
    ran.append(f"demo on clean tree: exit {r0.returncode}")
    ap = sh(f"git -C {wt} apply --whitespace=nowarn {os.path.join(cand, 'patch.diff')}")
    ran.append(f"git apply: exit {ap.returncode}")
    r1 = sh(f"/venv/bin/python {demo} {wt}", timeout=300)
    ran.append(f"demo with patch: exit {r1.returncode}: {(r1.stdout + r1.stderr).strip()[-200:]}")
    su = sh(f"python3 {VERIF}/tools/suite.py {wt}", timeout=1800)
    ran.append(f"pinned suite with patch: exit {su.returncode}: {su.stdout.strip().splitlines()[0] if su.stdout.strip() else ''}")
    ok = r0.returncode == 0 and ap.returncode == 0 and r1.returncode == 1 and su.returncode == 0
    print("\n".join(ran))
    if ok:
        dst = os.path.join(VERIF, "seeded", sid)
        os.makedirs(dst, exist_ok=True)
        for f in ("patch.diff", "demo.py", "README.md"):
            if os.path.exists(os.path.join(cand, f)):
                shutil.copy(os.path.join(cand, f), os.path.join(dst, f))
        json.dump({"id": sid, "property": prop, "needs_to_manifest": needs, "confirmed": ran,
                   "confirmed_at": time.strftime("%Y-%m-%dT%H:%M:%SZ", time.gmtime()),
                   "source": "independent sub-agent given only the property text and a scratch worktree"},
                  open(os.path.join(dst, "meta.json"), "w"), indent=1)
        print("KEPT", dst)
    else:
        print("REJECTED")
    sys.exit(0 if ok else 1)
finally:
    sh(f"git -C /repo worktree remove --force {wt}")
