#!/usr/bin/env python3
"""Refresh the obligations and quick-cases/time columns of the table in DESIGN.md §11.1
from evidence/Cxx.json (written by the checks).  Documentation helper only."""
import json
import os
import re

VERIF = os.path.dirname(os.path.dirname(os.path.abspath(__file__)))
path = os.path.join(VERIF, "DESIGN.md")
text = open(path).read()
out = []
for line in text.split("\n"):
    m = re.match(r"^\| (C\d\d) \| (.*?) \| (\d+) \| (.*) \| ([^|]*) \|$", line)
    if m:
        prop = m.group(1)
        ev = os.path.join(VERIF, "evidence", prop + ".json")
        if os.path.exists(ev):
            e = json.load(open(ev))
            if e.get("tier") == "quick":
                cov = e["coverage"]
                n = cov.get("evaluations", 0)
                cases = f"{n / 1000:.1f} k" if n >= 1000 else str(n)
                line = f"| {prop} | {m.group(2)} | {cov.get('obligations')} | {m.group(4)} | {cases} / {round(e.get('wall_s', 0))} s |"
    out.append(line)
open(path, "w").write("\n".join(out))
