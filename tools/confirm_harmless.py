#!/usr/bin/env python3
"""Confirm a candidate behaviour-preserving rewrite and keep it under harmless/<id>/.

    python3 tools/confirm_harmless.py <candidate_dir> <id> <property>

candidate_dir holds patch.diff and README.md (written by a sub-agent that saw only the
property texts and a scratch worktree).  In a scratch worktree of /repo (outside /repo
and /verif, removed afterwards): the patch must apply, the package must import and the
pinned suite must keep every baseline-stable test passing.  The candidate is then copied
to harmless/<id>/ with a meta.json.  `tools/run_seeded_parallel.py --dir harmless` runs the
property's check against each: the expected result is exit 0 (quiet).
"""
import json
import os
import shutil
import subprocess
import sys
import time

VERIF = os.path.dirname(os.path.dirname(os.path.abspath(__file__)))
cand, hid, prop = sys.argv[1], sys.argv[2], sys.argv[3]
wt = f"/tmp/confirm_harmless_{os.getpid()}"


def sh(cmd, **kw):
    return subprocess.run(cmd, shell=True, capture_output=True, text=True, **kw)


sh(f"git -C /repo worktree add -f --detach {wt} HEAD")
ran = []
try:
    ap = sh(f"git -C {wt} apply --whitespace=nowarn {os.path.join(cand, 'patch.diff')}")
    ran.append(f"git apply: exit {ap.returncode}")
    im = sh(f"cd {wt} && /venv/bin/python -c 'import pyatv, pyatv.scripts.atvremote'")
    ran.append(f"import: exit {im.returncode}")
    su = sh(f"python3 {VERIF}/tools/suite.py {wt}", timeout=1800)
    ran.append(f"pinned suite with patch: exit {su.returncode}: {su.stdout.strip().splitlines()[0] if su.stdout.strip() else ''}")
    ok = ap.returncode == 0 and im.returncode == 0 and su.returncode == 0
    print("\n".join(ran))
    if ok:
        dst = os.path.join(VERIF, "harmless", hid)
        os.makedirs(dst, exist_ok=True)
        for f in ("patch.diff", "README.md"):
            if os.path.exists(os.path.join(cand, f)):
                shutil.copy(os.path.join(cand, f), os.path.join(dst, f))
        json.dump({"id": hid, "property": prop, "confirmed": ran,
                   "confirmed_at": time.strftime("%Y-%m-%dT%H:%M:%SZ", time.gmtime()),
                   "source": "independent sub-agent given only property texts and a scratch worktree; asked for behaviour-preserving rewrites"},
                  open(os.path.join(dst, "meta.json"), "w"), indent=1)
        print("KEPT", dst)
    else:
        print("REJECTED")
    sys.exit(0 if ok else 1)
finally:
    sh(f"git -C /repo worktree remove --force {wt}")
