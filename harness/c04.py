"""C04 — wire codecs.  Aggregator: every `harness/c04_<codec>.py` is one codec's
correspondence + oracle (same API as a property harness, plus `PROPS_FILES`,
`LEAN_TARGETS`, and its own driver passed as `ctx.lean(lines, driver=DRIVER)`)."""
import glob
import importlib
import os

_HERE = os.path.dirname(os.path.abspath(__file__))
SUBS = sorted(os.path.basename(p)[:-3] for p in glob.glob(os.path.join(_HERE, "c04_*.py")))
_mods = [importlib.import_module("harness." + s) for s in SUBS]

PROPS_FILES = [f for m in _mods for f in m.PROPS_FILES]
LEAN_TARGETS = sorted({t for m in _mods for t in m.LEAN_TARGETS})
DRIVER = _mods[0].DRIVER if _mods else "Driver/C04.lean"
RULE = " | ".join(f"[{s[4:]}] {m.RULE}" for s, m in zip(SUBS, _mods))
ASSUMPTIONS = [a for m in _mods for a in getattr(m, "ASSUMPTIONS", [])]
TRUSTED = [a for m in _mods for a in getattr(m, "TRUSTED", [])]


def run(ctx):
    for s, m in zip(SUBS, _mods):
        before = ctx.evaluations
        m.run(ctx)
        ctx.note("codec:" + s[4:], ctx.evaluations - before)


def widen(ctx):
    for m in _mods:
        getattr(m, "widen", m.run)(ctx)


def replay(ctx, failure):
    sub = failure.get("sig", "").split(":")[0]
    for s, m in zip(SUBS, _mods):
        if s[4:] == sub and hasattr(m, "replay"):
            return m.replay(ctx, failure)
    return True


def match_finding(failure, entry):
    return failure["sig"] == entry.get("sig")
